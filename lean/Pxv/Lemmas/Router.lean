import Pxv.Model.Router
import Pxv.Lemmas.Matchit
/-! Helper lemmas for C07: from the `matchit` level (`atGo_spec`) to the generated dispatch. -/
namespace Pxv.Router
open Pxv.Matchit

instance exceptDecEq {ε α : Type} [DecidableEq ε] [DecidableEq α] : DecidableEq (Except ε α) := fun a b =>
  match a, b with
  | .ok x, .ok y => if h : x = y then isTrue (by rw [h]) else isFalse (by intro e; cases e; exact h rfl)
  | .error x, .error y => if h : x = y then isTrue (by rw [h]) else isFalse (by intro e; cases e; exact h rfl)
  | .ok _, .error _ => isFalse (by intro e; cases e)
  | .error _, .ok _ => isFalse (by intro e; cases e)

/-! ### route ids are positions in the table -/

theorem mem_routes_iff {r : PathRouter} {i : Nat} {p : List Char} :
    (i, p) ∈ r.routes ↔ ∃ l, r.leaves[i]? = some l ∧ l.path = p := by
  unfold PathRouter.routes
  rw [List.mem_iff_getElem]
  constructor
  · rintro ⟨k, hk, h⟩
    rw [List.getElem_zip] at h
    simp only [List.getElem_range, List.getElem_map, Prod.mk.injEq] at h
    obtain ⟨rfl, hp⟩ := h
    have hk' : k < r.leaves.length := by
      simp [List.length_zip] at hk; exact hk
    exact ⟨r.leaves[k], List.getElem?_eq_getElem hk', hp⟩
  · rintro ⟨l, hl, hp⟩
    have hi : i < r.leaves.length := by
      rcases Nat.lt_or_ge i r.leaves.length with h | h
      · exact h
      · rw [List.getElem?_eq_none h] at hl; cases hl
    rw [List.getElem?_eq_getElem hi] at hl
    simp at hl
    refine ⟨i, by simp [List.length_zip, hi], ?_⟩
    rw [List.getElem_zip]
    simp [hl, hp]

theorem mem_rset_iff {r : PathRouter} {i : Nat} {t : List Tok} :
    (i, t) ∈ r.rset ↔ ∃ l, r.leaves[i]? = some l ∧ l.toks = t := by
  unfold PathRouter.rset
  rw [List.mem_map]
  constructor
  · rintro ⟨⟨j, p⟩, hm, h⟩
    simp at h
    obtain ⟨rfl, rfl⟩ := h
    obtain ⟨l, hl, hp⟩ := mem_routes_iff.mp hm
    exact ⟨l, hl, by simp [Leaf.toks, hp]⟩
  · rintro ⟨l, hl, ht⟩
    exact ⟨(i, l.path), mem_routes_iff.mpr ⟨l, hl, rfl⟩, by simp [← ht, Leaf.toks]⟩

theorem mem_leaves_rset {r : PathRouter} {l : Leaf} (h : l ∈ r.leaves) : ∃ i, (i, l.toks) ∈ r.rset := by
  obtain ⟨i, hi, rfl⟩ := List.mem_iff_getElem.mp h
  exact ⟨i, mem_rset_iff.mpr ⟨r.leaves[i], List.getElem?_eq_getElem hi, rfl⟩⟩

theorem atRoutes_eq (r : PathRouter) (path : List Char) : atRoutes r.routes path = atGo r.rset path := rfl

/-- The path level of the generated `route` function, in terms of the table entries. -/
theorem pathDispatch_spec (r : PathRouter) (hN : NoNestedSuffix r.rset) (m : String) (path : List Char) :
    (∃ l, MostSpecific r l path ∧ r.dispatch m path = l.dispatch m) ∨
    ((∀ l ∈ r.leaves, ¬ l.Matches path) ∧ r.dispatch m path = .fallback r.rootFb []) := by
  have spec := atGo_spec r.rset path hN
  unfold PathRouter.dispatch
  rw [atRoutes_eq]
  cases h : atGo r.rset path with
  | some i =>
    left
    obtain ⟨t, hm, hmt, hmax⟩ := spec.1 i h
    obtain ⟨l, hl, ht⟩ := mem_rset_iff.mp hm
    refine ⟨l, ⟨List.mem_of_getElem? hl, by simpa [Leaf.Matches, ht] using hmt, ?_⟩, by simp [hl]⟩
    intro l' hl' hm'
    obtain ⟨j, hj⟩ := mem_leaves_rset hl'
    rw [ht]
    exact hmax j l'.toks hj hm'
  | none =>
    right
    refine ⟨?_, by simp⟩
    intro l hl hm
    obtain ⟨j, hj⟩ := mem_leaves_rset hl
    have := spec.2 h j l.toks hj
    rw [Leaf.Matches, this] at hm; cases hm


/-! ### the method arms of one entry -/

theorem leaf_dispatch_of_arm {l : Leaf} {m : String} {a : Nat × Nat × List String}
    (h : l.arms.find? (fun a => a.2.2.contains m) = some a) : l.dispatch m = .handler a.2.1 := by
  unfold Leaf.dispatch; rw [h]

theorem leaf_dispatch_no_arm {l : Leaf} {m : String}
    (h : ∀ a ∈ l.arms, a.2.2.contains m = false) :
    l.dispatch m = match l.fb with
      | .handler h => .handler h
      | .fallback f => .fallback f l.allowed := by
  unfold Leaf.dispatch
  have : l.arms.find? (fun a => a.2.2.contains m) = none := by
    rw [List.find?_eq_none]; intro a ha; rw [h a ha]; simp
  rw [this]
  cases l.fb <;> rfl

/-- A fallback runs for an entry exactly when no arm accepts the method; it is then handed the
    concatenation of the arms' methods. -/
theorem leaf_dispatch_fallback_iff {l : Leaf} {m : String} {f : Option Nat} {allowed : List String} :
    l.dispatch m = .fallback f allowed ↔
      (∀ a ∈ l.arms, a.2.2.contains m = false) ∧ l.fb = .fallback f ∧ allowed = l.allowed := by
  constructor
  · intro h
    unfold Leaf.dispatch at h
    cases hf : l.arms.find? (fun a => a.2.2.contains m) with
    | some a => rw [hf] at h; cases h
    | none =>
      rw [hf] at h
      have hn := List.find?_eq_none.mp hf
      refine ⟨fun a ha => by simpa using hn a ha, ?_⟩
      cases hfb : l.fb with
      | handler h' => rw [hfb] at h; cases h
      | fallback f' => rw [hfb] at h; simp at h; exact ⟨by rw [h.1], h.2.symm⟩
  · rintro ⟨hn, hfb, rfl⟩
    rw [leaf_dispatch_no_arm hn, hfb]

/-- With at most one accepting arm, the handler that runs is *the* accepting one. -/
theorem leaf_dispatch_unique {l : Leaf} {m : String} {h : Nat} (hu : l.accepting m = [h]) :
    l.dispatch m = .handler h := by
  unfold Leaf.accepting at hu
  cases hf : l.arms.find? (fun a => a.2.2.contains m) with
  | none =>
    have : l.arms.filter (fun a => a.2.2.contains m) = [] := by
      rw [List.filter_eq_nil_iff]; intro a ha
      simpa using List.find?_eq_none.mp hf a ha
    rw [this] at hu; cases hu
  | some a =>
    rw [leaf_dispatch_of_arm hf]
    obtain ⟨_, as, bs, hsplit, hbefore⟩ := List.find?_eq_some_iff_append.mp hf
    have hp := List.find?_some hf
    rw [hsplit, List.filter_append] at hu
    have h0 : as.filter (fun a => a.2.2.contains m) = [] := by
      rw [List.filter_eq_nil_iff]; intro x hx; simpa using hbefore x hx
    rw [h0, List.filter_cons] at hu
    simp only [hp, ↓reduceIte, List.nil_append, List.map_cons] at hu
    injection hu with e _
    rw [e]

/-! ### `find_fallback_id`: the innermost enclosing blueprint that has a fallback -/

theorem scopeFallback_spec {fbs : List Fb} {s : Scope} {fb : Fb} (h : scopeFallback fbs s = some fb) :
    fb ∈ fbs ∧ fb.bp.isPrefixOf s = true ∧
      ∀ fb' ∈ fbs, fb'.bp.isPrefixOf s = true → fb'.bp.length ≤ fb.bp.length := by
  unfold scopeFallback at h
  -- invariant of the fold
  suffices H : ∀ (l : List Fb) (init : Option Fb),
      (∀ b, init = some b → b.bp.isPrefixOf s = true) →
      ∀ fb, l.foldl (fun best fb =>
        if fb.bp.isPrefixOf s then
          match best with
          | none => some fb
          | some b => if fb.bp.length ≥ b.bp.length then some fb else some b
        else best) init = some fb →
      (fb ∈ l ∨ init = some fb) ∧ fb.bp.isPrefixOf s = true ∧
        (∀ fb' ∈ l, fb'.bp.isPrefixOf s = true → fb'.bp.length ≤ fb.bp.length) ∧
        (∀ b, init = some b → b.bp.length ≤ fb.bp.length) by
    obtain ⟨hm, hp, hmax, _⟩ := H fbs none (by intro b hb; cases hb) fb h
    rcases hm with hm | hm
    · exact ⟨hm, hp, hmax⟩
    · cases hm
  intro l
  induction l with
  | nil =>
    intro init hinit fb hfb
    simp at hfb
    refine ⟨Or.inr hfb, hinit fb hfb, by simp, ?_⟩
    intro b hb; rw [hfb] at hb; cases hb; exact Nat.le_refl _
  | cons x xs ih =>
    intro init hinit fb hfb
    simp only [List.foldl_cons] at hfb
    by_cases hx : x.bp.isPrefixOf s = true
    · simp only [hx, ↓reduceIte] at hfb
      cases init with
      | none =>
        simp only at hfb
        obtain ⟨hm, hp, hmax, hi⟩ := ih (some x) (by intro b hb; cases hb; exact hx) fb hfb
        refine ⟨?_, hp, ?_, by intro b hb; cases hb⟩
        · rcases hm with hm | hm
          · exact Or.inl (List.mem_cons_of_mem _ hm)
          · cases hm; exact Or.inl (List.mem_cons_self)
        · intro fb' hfb' hp'
          rcases List.mem_cons.mp hfb' with e | e
          · subst e; exact hi _ rfl
          · exact hmax fb' e hp'
      | some b =>
        simp only at hfb
        by_cases hge : x.bp.length ≥ b.bp.length
        · simp only [hge, ↓reduceIte] at hfb
          obtain ⟨hm, hp, hmax, hi⟩ := ih (some x) (by intro b hb; cases hb; exact hx) fb hfb
          refine ⟨?_, hp, ?_, ?_⟩
          · rcases hm with hm | hm
            · exact Or.inl (List.mem_cons_of_mem _ hm)
            · cases hm; exact Or.inl (List.mem_cons_self)
          · intro fb' hfb' hp'
            rcases List.mem_cons.mp hfb' with e | e
            · subst e; exact hi _ rfl
            · exact hmax fb' e hp'
          · intro b' hb'; cases hb'; exact Nat.le_trans hge (hi _ rfl)
        · simp only [hge, ↓reduceIte] at hfb
          obtain ⟨hm, hp, hmax, hi⟩ := ih (some b) hinit fb hfb
          refine ⟨?_, hp, ?_, hi⟩
          · rcases hm with hm | hm
            · exact Or.inl (List.mem_cons_of_mem _ hm)
            · exact Or.inr hm
          · intro fb' hfb' hp'
            rcases List.mem_cons.mp hfb' with e | e
            · subst e
              have := hi b rfl
              omega
            · exact hmax fb' e hp'
    · simp only [hx, Bool.false_eq_true, ↓reduceIte] at hfb
      obtain ⟨hm, hp, hmax, hi⟩ := ih init hinit fb hfb
      refine ⟨?_, hp, ?_, hi⟩
      · rcases hm with hm | hm
        · exact Or.inl (List.mem_cons_of_mem _ hm)
        · exact Or.inr hm
      · intro fb' hfb' hp'
        rcases List.mem_cons.mp hfb' with e | e
        · subst e; exact absurd hp' hx
        · exact hmax fb' e hp'


/-! ### an accepted table was validated with the insertion order of the generated code -/

theorem PathRouter.new_runtime_ok {comps : List Comp} {fbs : List Fb} {r : PathRouter}
    (h : PathRouter.new comps fbs = .ok r) : ∃ rt, runtimeInserts r.leaves 0 {} = .ok rt := by
  unfold PathRouter.new at h
  simp only at h
  split at h
  · cases h
  · split at h
    · cases h
    · split at h
      · cases h
      · split at h
        · cases h
        · split at h
          · cases h
          · split at h
            · cases h
            · split at h
              · cases h
              · rename_i rt hrt
                injection h with h
                subst h
                exact ⟨rt, hrt⟩


/-! ### the entries of `path2method_router`, key by key -/

/-- The entry for `p`. -/
def look (p : List Char) (ls : List Leaf) : Option Leaf := ls.find? (fun l => l.path = p)

theorem look_some {p : List Char} {ls : List Leaf} {l : Leaf} (h : look p ls = some l) : l ∈ ls ∧ l.path = p := by
  unfold look at h
  exact ⟨List.mem_of_find?_eq_some h, by simpa using List.find?_some h⟩

theorem look_upsert (p q : List Char) (mk : Leaf) (upd : Leaf → Leaf) (hmk : mk.path = q)
    (hupd : ∀ l, l.path = q → (upd l).path = q) (ls : List Leaf) :
    look p (leafUpsert q mk upd ls) = if p = q then some (upd ((look q ls).getD mk)) else look p ls := by
  induction ls with
  | nil =>
    by_cases hpq : p = q
    · subst hpq; simp [leafUpsert, look, hupd _ hmk]
    · have : ¬ q = p := fun e => hpq e.symm
      simp [leafUpsert, look, hpq, hupd _ hmk, this]
  | cons l ls ih =>
    unfold leafUpsert
    by_cases hl : l.path = q
    · simp only [hl, ↓reduceIte]
      by_cases hpq : p = q
      · subst hpq; simp [look, hupd _ hl, hl]
      · have : ¬ q = p := fun e => hpq e.symm
        simp [look, hupd _ hl, hl, hpq, this]
    · simp only [hl, ↓reduceIte]
      by_cases hpq : p = q
      · subst hpq
        have := ih
        simp only [↓reduceIte] at this
        simp only [look, List.find?_cons, hl, decide_false] at this ⊢
        simpa using this
      · simp only [hpq, ↓reduceIte] at ih ⊢
        by_cases hlp : l.path = p
        · simp [look, hlp]
        · simp only [look, List.find?_cons, hlp, decide_false]
          exact ih

/-- What one handler does to the entry for `p`. -/
def stepAt (p : List Char) (ol : Option Leaf) (x : Handler × Fb) : Option Leaf :=
  if x.1.path = p then
    match x.1.guard with
    | .any => some { path := p, arms := [], fb := .handler x.1.h }
    | .some ms =>
      let l := ol.getD { path := p, arms := [], fb := .fallback x.2.f }
      some { l with arms := l.arms ++ [(x.1.id, x.1.h, ms)] }
  else ol

theorem look_leafStep (p : List Char) (x : Handler × Fb) (acc : List Leaf) :
    look p (leafStep x acc) = stepAt p (look p acc) x := by
  unfold leafStep stepAt
  cases hg : x.1.guard with
  | any =>
    simp only
    rw [look_upsert]
    · by_cases h : p = x.1.path
      · subst h; simp
      · have : ¬ x.1.path = p := fun e => h e.symm
        simp [h, this]
    · rfl
    · intro l hl; first | rfl | exact hl
  | some ms =>
    simp only
    rw [look_upsert]
    · by_cases h : p = x.1.path
      · subst h; simp
      · have : ¬ x.1.path = p := fun e => h e.symm
        simp [h, this]
    · rfl
    · intro l hl; first | rfl | exact hl

theorem look_buildLeaves (p : List Char) (L : List (Handler × Fb)) (acc : List Leaf) :
    look p (buildLeaves L acc) = L.foldl (stepAt p) (look p acc) := by
  induction L generalizing acc with
  | nil => simp [buildLeaves]
  | cons x rest ih => simp [buildLeaves, ih, look_leafStep]

theorem look_addCatchAlls_of_some (p : List Char) (ps : List PathFb) (acc : List Leaf) {l : Leaf}
    (h : look p acc = some l) : look p (addCatchAlls ps acc) = some l := by
  induction ps generalizing acc with
  | nil => simpa [addCatchAlls] using h
  | cons q qs ih =>
    simp only [addCatchAlls]
    apply ih
    rw [look_upsert]
    · by_cases hpq : p = q.path
      · subst hpq; simp [h]
      · simp [hpq, h]
    · rfl
    · intro l hl; first | rfl | exact hl

/-! ### sorting keeps the entries -/

theorem mem_insertLeaf {x l : Leaf} {ls : List Leaf} : l ∈ insertLeaf x ls ↔ l = x ∨ l ∈ ls := by
  induction ls with
  | nil => simp [insertLeaf]
  | cons a as ih =>
    unfold insertLeaf
    split
    · simp
    · simp [ih]; constructor
      · rintro (h | h | h) <;> simp [h]
      · rintro (h | h | h) <;> simp [h]

theorem mem_sortLeaves {l : Leaf} {ls : List Leaf} : l ∈ sortLeaves ls ↔ l ∈ ls := by
  unfold sortLeaves
  induction ls with
  | nil => simp
  | cons a as ih => simp [List.foldr_cons, mem_insertLeaf, ih]


/-! ### a registered handler is reachable through its entry -/

/-- Every handler registered for `p` that accepts `m` is the handler `h`. -/
def OnlyAcc (L : List (Handler × Fb)) (p : List Char) (m : String) (h : Nat) : Prop :=
  ∀ y ∈ L, y.1.path = p → y.1.guard.admits m = true → y.1.h = h

/-- Whatever in the entry could answer `m` is the handler `h`. -/
structure LeafInv (l : Leaf) (m : String) (h : Nat) : Prop where
  arms : ∀ a ∈ l.arms, a.2.2.contains m = true → a.2.1 = h
  fb : ∀ h', l.fb = .handler h' → h' = h

/-- Something in the entry answers `m` with a handler. -/
def Hit (l : Leaf) (m : String) : Prop :=
  (∃ a ∈ l.arms, a.2.2.contains m = true) ∨ (∃ h', l.fb = .handler h')

theorem dispatch_of_inv_hit {l : Leaf} {m : String} {h : Nat} (inv : LeafInv l m h) (hit : Hit l m) :
    l.dispatch m = .handler h := by
  unfold Leaf.dispatch
  cases hf : l.arms.find? (fun a => a.2.2.contains m) with
  | some a =>
    simp only
    rw [inv.arms a (List.mem_of_find?_eq_some hf) (by simpa using List.find?_some hf)]
  | none =>
    simp only
    have hn := List.find?_eq_none.mp hf
    rcases hit with ⟨a, ha, hc⟩ | ⟨h', hfb⟩
    · exact absurd hc (by simpa using hn a ha)
    · rw [hfb]; simp [inv.fb h' hfb]

theorem stepAt_inv {p : List Char} {m : String} {h : Nat} {ol : Option Leaf} {y : Handler × Fb}
    (hy : y.1.path = p → y.1.guard.admits m = true → y.1.h = h)
    (hol : ∀ l, ol = some l → LeafInv l m h) : ∀ l, stepAt p ol y = some l → LeafInv l m h := by
  intro l hl
  unfold stepAt at hl
  by_cases hp : y.1.path = p
  · simp only [hp, ↓reduceIte] at hl
    cases hg : y.1.guard with
    | any =>
      rw [hg] at hl; simp only [Option.some.injEq] at hl; subst hl
      refine ⟨(by intro a ha; cases ha), ?_⟩
      intro h' e; simp at e; rw [← e]; exact hy hp (by simp [hg, MGuard.admits])
    | some ms =>
      rw [hg] at hl; simp only [Option.some.injEq] at hl; subst hl
      have hl0 : LeafInv (ol.getD { path := p, arms := [], fb := .fallback y.2.f }) m h := by
        cases ol with
        | none => exact ⟨(by intro a ha; cases ha), (by intro h' e; simp at e)⟩
        | some l0 => exact hol l0 rfl
      refine ⟨?_, hl0.fb⟩
      intro a ha hc
      simp only [List.mem_append, List.mem_singleton] at ha
      rcases ha with ha | ha
      · exact hl0.arms a ha hc
      · subst ha; exact hy hp (by simpa [hg, MGuard.admits] using hc)
  · simp only [hp, ↓reduceIte] at hl
    exact hol l hl

theorem fold_inv {p : List Char} {m : String} {h : Nat} (L : List (Handler × Fb)) (hL : OnlyAcc L p m h)
    (ol : Option Leaf) (hol : ∀ l, ol = some l → LeafInv l m h) :
    ∀ l, L.foldl (stepAt p) ol = some l → LeafInv l m h := by
  induction L generalizing ol with
  | nil => simpa using hol
  | cons y rest ih =>
    simp only [List.foldl_cons]
    apply ih (fun z hz => hL z (List.mem_cons_of_mem _ hz))
    exact stepAt_inv (hL y List.mem_cons_self) hol

theorem stepAt_hit_keep {p : List Char} {m : String} {ol : Option Leaf} {y : Handler × Fb}
    (hol : ∃ l, ol = some l ∧ Hit l m) : ∃ l, stepAt p ol y = some l ∧ Hit l m := by
  obtain ⟨l0, rfl, hit⟩ := hol
  unfold stepAt
  by_cases hp : y.1.path = p
  · simp only [hp, ↓reduceIte]
    cases y.1.guard with
    | any => exact ⟨_, rfl, Or.inr ⟨_, rfl⟩⟩
    | some ms =>
      refine ⟨_, rfl, ?_⟩
      rcases hit with ⟨a, ha, hc⟩ | ⟨h', hfb⟩
      · exact Or.inl ⟨a, by simp [ha], hc⟩
      · exact Or.inr ⟨h', by simpa using hfb⟩
  · simp only [hp, ↓reduceIte]; exact ⟨l0, rfl, hit⟩

theorem stepAt_hit_new {p : List Char} {m : String} {ol : Option Leaf} {y : Handler × Fb}
    (hp : y.1.path = p) (hadm : y.1.guard.admits m = true) : ∃ l, stepAt p ol y = some l ∧ Hit l m := by
  unfold stepAt
  simp only [hp, ↓reduceIte]
  cases hg : y.1.guard with
  | any => exact ⟨_, rfl, Or.inr ⟨_, rfl⟩⟩
  | some ms =>
    refine ⟨_, rfl, Or.inl ⟨(y.1.id, y.1.h, ms), by simp, ?_⟩⟩
    simpa [hg, MGuard.admits] using hadm

theorem fold_hit {p : List Char} {m : String} (L : List (Handler × Fb)) (ol : Option Leaf)
    (h : (∃ l, ol = some l ∧ Hit l m) ∨ ∃ y ∈ L, y.1.path = p ∧ y.1.guard.admits m = true) :
    ∃ l, L.foldl (stepAt p) ol = some l ∧ Hit l m := by
  induction L generalizing ol with
  | nil =>
    rcases h with h | ⟨y, hy, _⟩
    · simpa using h
    · cases hy
  | cons z rest ih =>
    simp only [List.foldl_cons]
    apply ih
    rcases h with h | ⟨y, hy, hp, hadm⟩
    · exact Or.inl (stepAt_hit_keep h)
    · rcases List.mem_cons.mp hy with e | e
      · subst e; exact Or.inl (stepAt_hit_new hp hadm)
      · exact Or.inr ⟨y, e, hp, hadm⟩

/-- The entry built for the path of a handler `x` answers every method `x` accepts with `x`,
    provided no other handler registered for that path accepts the method. -/
theorem buildLeaves_reachable {L : List (Handler × Fb)} {x : Handler × Fb} {m : String}
    (hx : x ∈ L) (hadm : x.1.guard.admits m = true) (hU : OnlyAcc L x.1.path m x.1.h) :
    ∃ l, look x.1.path (buildLeaves L []) = some l ∧ l.dispatch m = .handler x.1.h := by
  rw [look_buildLeaves]
  obtain ⟨l, hl, hit⟩ := fold_hit (p := x.1.path) (m := m) L (look x.1.path []) (Or.inr ⟨x, hx, rfl, hadm⟩)
  refine ⟨l, hl, dispatch_of_inv_hit (fold_inv L hU _ (by intro l h; simp [look] at h) l hl) hit⟩


/-! ### `detect_method_conflicts` -/

theorem two_le_length {α : Type} {a b : α} {l : List α} (ha : a ∈ l) (hb : b ∈ l) (hab : a ≠ b) : 2 ≤ l.length := by
  cases l with
  | nil => cases ha
  | cons x xs =>
    cases xs with
    | nil =>
      simp at ha hb; subst ha; subst hb; exact absurd rfl hab
    | cons y ys => simp

theorem admits_some_iff {ms : List String} {m : String} : (MGuard.some ms).admits m = true ↔ m ∈ ms := by
  simp [MGuard.admits]

/-- Without a method conflict, two handlers registered for the same path never accept the same
    method (whatever the method: well-known, custom, or only covered by an `ANY` guard). -/
theorem methodConflict_false {hs : List Handler} (h : methodConflict hs = false) {a b : Handler}
    (ha : a ∈ hs) (hb : b ∈ hs) (hp : b.path = a.path) {m : String}
    (hma : a.guard.admits m = true) (hmb : b.guard.admits m = true) : a = b := by
  apply Classical.byContradiction
  intro hab
  unfold methodConflict at h
  rw [List.any_eq_false] at h
  have h1 := h a ha
  simp only [Bool.not_eq_true] at h1
  rw [List.any_eq_false] at h1
  have hga : a ∈ hs.filter (fun b => b.path == a.path) := by simp [ha]
  have hgb : b ∈ hs.filter (fun b => b.path == a.path) := by simp [hb, hp]
  -- a method of the checked list that both accept
  have key : ∃ m', m' ∈ wellKnown ++ (hs.filter (fun b => b.path == a.path)).flatMap (fun b => b.guard.listed) ∧
      a.guard.admits m' = true ∧ b.guard.admits m' = true := by
    cases hag : a.guard with
    | some ms =>
      refine ⟨m, ?_, by rw [← hag]; exact hma, hmb⟩
      rw [hag] at hma
      apply List.mem_append_right
      rw [List.mem_flatMap]
      exact ⟨a, hga, by simpa [hag, MGuard.listed] using admits_some_iff.mp hma⟩
    | any =>
      cases hbg : b.guard with
      | some ms =>
        refine ⟨m, ?_, by simp [MGuard.admits], by rw [← hbg]; exact hmb⟩
        rw [hbg] at hmb
        apply List.mem_append_right
        rw [List.mem_flatMap]
        exact ⟨b, hgb, by simpa [hbg, MGuard.listed] using admits_some_iff.mp hmb⟩
      | any =>
        exact ⟨"GET", List.mem_append_left _ (by simp [wellKnown]), by simp [MGuard.admits], by simp [MGuard.admits]⟩
  obtain ⟨m', hm', ha', hb'⟩ := key
  have h2 := h1 m' hm'
  simp only [decide_eq_true_eq, Bool.not_eq_true, decide_eq_false_iff_not, Nat.not_lt] at h2
  have : 2 ≤ ((hs.filter (fun b => b.path == a.path)).filter (fun b => b.guard.admits m')).length :=
    two_le_length (a := a) (b := b) (by simp [ha, ha']) (by simp [hb, hp, hb']) hab
  omega

theorem mem_handlersOf {cs : List Comp} {x : Handler} : x ∈ handlersOf cs ↔ Comp.handler x ∈ cs := by
  unfold handlersOf
  simp only [List.mem_filterMap]
  constructor
  · rintro ⟨c, hc, h⟩
    cases c with
    | handler y => simp at h; subst h; exact hc
    | fallback y => simp at h
  · intro h; exact ⟨_, h, rfl⟩

/-- **Every registered route is reachable.** In an accepted path router, a handler registered for
    path `x.path` that accepts method `m` is what the entry for that path dispatches `m` to. -/
theorem PathRouter.new_reachable {comps : List Comp} {fbs : List Fb} {r : PathRouter}
    (h : PathRouter.new comps fbs = .ok r) {x : Handler} (hx : x ∈ handlersOf comps) {m : String}
    (hadm : x.guard.admits m = true) :
    ∃ l ∈ r.leaves, l.path = x.path ∧ l.dispatch m = .handler x.h := by
  unfold PathRouter.new at h
  simp only at h
  split at h
  · cases h
  · split at h
    · cases h
    · rename_i hconf
      split at h
      · cases h
      · split at h
        · cases h
        · rename_i pfbs pr _
          split at h
          · cases h
          · rename_i hall
            split at h
            · cases h
            · split at h
              · cases h
              · injection h with h
                subst h
                simp only
                -- `x` is among the handlers with an assigned fallback
                have hassigned : ∃ fb, (x, fb) ∈ ((handlersOf comps).map
                    (fun h => (h, handlerFallback fbs pfbs pr h))).filterMap (fun a => a.2.map (fun fb => (a.1, fb))) := by
                  have hsome : (handlerFallback fbs pfbs pr x).isSome = true := by
                    cases hfb : handlerFallback fbs pfbs pr x with
                    | some fb => rfl
                    | none =>
                      exfalso
                      apply hall
                      rw [List.any_eq_true]
                      exact ⟨(x, handlerFallback fbs pfbs pr x), List.mem_map.mpr ⟨x, hx, rfl⟩, by simp [hfb]⟩
                  obtain ⟨fb, hfb⟩ := Option.isSome_iff_exists.mp hsome
                  refine ⟨fb, ?_⟩
                  rw [List.mem_filterMap]
                  exact ⟨(x, handlerFallback fbs pfbs pr x), List.mem_map.mpr ⟨x, hx, rfl⟩, by simp [hfb]⟩
                obtain ⟨fb, hmem⟩ := hassigned
                have hU : OnlyAcc (((handlersOf comps).map
                    (fun h => (h, handlerFallback fbs pfbs pr h))).filterMap (fun a => a.2.map (fun fb => (a.1, fb))))
                    x.path m x.h := by
                  intro y hy hp hya
                  rw [List.mem_filterMap] at hy
                  obtain ⟨⟨y0, ofb⟩, hy0, hy1⟩ := hy
                  rw [List.mem_map] at hy0
                  obtain ⟨y', hy', e⟩ := hy0
                  cases ofb with
                  | none => simp at hy1
                  | some fb' =>
                    simp at hy1 e
                    obtain ⟨e1, _⟩ := e
                    subst e1
                    rw [← hy1] at hp hya ⊢
                    simp only at hp hya ⊢
                    have hnc : methodConflict (handlersOf comps) = false := by
                      simpa using hconf
                    rw [methodConflict_false hnc hx hy' hp hadm hya]
                obtain ⟨l, hl, hd⟩ := buildLeaves_reachable (x := (x, fb)) hmem hadm hU
                have hl' := look_addCatchAlls_of_some x.path pfbs _ hl
                obtain ⟨hmemL, hpath⟩ := look_some hl'
                exact ⟨l, mem_sortLeaves.mpr hmemL, hpath, hd⟩


/-! ### the domain layer -/

theorem mem_domRset_iff {ds : List DomainEntry} {i : Nat} {t : List Tok} :
    (i, t) ∈ domRset ds ↔ ∃ d, ds[i]? = some d ∧ d.toks = t := by
  unfold domRset
  rw [List.mem_map]
  constructor
  · rintro ⟨⟨j, p⟩, hm, h⟩
    simp at h
    obtain ⟨rfl, rfl⟩ := h
    rw [List.mem_iff_getElem] at hm
    obtain ⟨k, hk, hk2⟩ := hm
    rw [List.getElem_zip] at hk2
    simp only [List.getElem_range, List.getElem_map, Prod.mk.injEq] at hk2
    obtain ⟨rfl, hp⟩ := hk2
    have hk' : k < ds.length := by simp [List.length_zip] at hk; exact hk
    exact ⟨ds[k], List.getElem?_eq_getElem hk', by simp [DomainEntry.toks, hp]⟩
  · rintro ⟨d, hd, ht⟩
    have hi : i < ds.length := by
      rcases Nat.lt_or_ge i ds.length with h | h
      · exact h
      · rw [List.getElem?_eq_none h] at hd; cases hd
    rw [List.getElem?_eq_getElem hi] at hd
    simp at hd
    refine ⟨(i, d.pattern), ?_, by simp [← ht, DomainEntry.toks]⟩
    rw [List.mem_iff_getElem]
    refine ⟨i, by simp [List.length_zip, hi], ?_⟩
    rw [List.getElem_zip]
    simp [hd]

theorem mem_ds_domRset {ds : List DomainEntry} {d : DomainEntry} (h : d ∈ ds) : ∃ i, (i, d.toks) ∈ domRset ds := by
  obtain ⟨i, hi, rfl⟩ := List.mem_iff_getElem.mp h
  exact ⟨i, mem_domRset_iff.mpr ⟨ds[i], List.getElem?_eq_getElem hi, rfl⟩⟩

theorem routed_of_pathDispatch (r : PathRouter) (hN : NoNestedSuffix r.rset) (m : String) (path : List Char) :
    Routed r m path (r.dispatch m path) := by
  rcases pathDispatch_spec r hN m path with ⟨l, hl, he⟩ | ⟨hn, he⟩
  · rw [he]; exact Routed.entry l hl
  · rw [he]; exact Routed.none hn

theorem tableDispatch_spec (t : Table) (hN : t.NoNestedSuffix) (req : Request) : TableRouted t req (t.dispatch req) := by
  cases t with
  | agnostic r => exact TableRouted.agnostic (routed_of_pathDispatch r hN _ _)
  | domains ds f =>
    obtain ⟨hD, hR⟩ := hN
    unfold Table.dispatch
    simp only
    cases hh : req.host.bind hostOf with
    | none => exact TableRouted.noDomain (by intro h e; rw [hh] at e; cases e)
    | some h =>
      simp only
      have spec := atGo_spec (domRset ds) (Pxv.Domain.normHost h) hD
      have e : atRoutes ((List.range ds.length).zip (ds.map (·.pattern))) (Pxv.Domain.normHost h) =
          atGo (domRset ds) (Pxv.Domain.normHost h) := rfl
      rw [e]
      cases ha : atGo (domRset ds) (Pxv.Domain.normHost h) with
      | none =>
        simp only
        refine TableRouted.noDomain ?_
        intro h' e' d hd
        rw [hh] at e'; cases e'
        obtain ⟨j, hj⟩ := mem_ds_domRset hd
        exact spec.2 ha j d.toks hj
      | some i =>
        simp only
        obtain ⟨tk, hm, hmt, hmax⟩ := spec.1 i ha
        obtain ⟨d, hd, ht⟩ := mem_domRset_iff.mp hm
        rw [hd]
        simp only
        refine TableRouted.domain d hh ⟨List.mem_of_getElem? hd, by rw [ht]; exact hmt, ?_⟩
          (routed_of_pathDispatch d.router (hR d (List.mem_of_getElem? hd)) _ _)
        intro d' hd' hm'
        obtain ⟨j, hj⟩ := mem_ds_domRset hd'
        rw [ht]; exact hmax j d'.toks hj hm'

/-! ### accepted tables -/

theorem buildDomains_ok {comps : List Comp} {fbs : List Fb} {gs : List (List Char)} {ds : List DomainEntry}
    (h : buildDomains comps fbs gs = .ok ds) :
    ∀ d ∈ ds, ∃ cs, (∀ c ∈ cs, c ∈ comps) ∧ PathRouter.new cs fbs = .ok d.router := by
  induction gs generalizing ds with
  | nil => simp [buildDomains] at h; subst h; intro d hd; cases hd
  | cons g gs ih =>
    unfold buildDomains at h
    split at h
    · cases h
    · rename_i r hr
      split at h
      · cases h
      · rename_i ds' hds
        injection h with h
        subst h
        intro d hd
        rcases List.mem_cons.mp hd with e | e
        · subst e
          exact ⟨_, fun c hc => (List.mem_filter.mp hc).1, hr⟩
        · exact ih hds d e


theorem compile_agnostic {ops : List Op} {r : PathRouter} (h : compile ops = .ok (.agnostic r)) :
    PathRouter.new (processBlueprint ops).comps (fallbacksOf (processBlueprint ops).comps) = .ok r := by
  unfold compile at h
  simp only at h
  split at h
  · cases h
  · unfold routerNew at h
    simp only at h
    split at h
    · cases h
    · split at h
      · split at h
        · cases h
        · rename_i r' hr
          injection h with h; injection h with h; subst h; exact hr
      · split at h
        · cases h
        · split at h
          · cases h
          · split at h
            · cases h
            · split at h
              · cases h
              · cases h

theorem compile_domains {ops : List Op} {ds : List DomainEntry} {f : Option Nat} (h : compile ops = .ok (.domains ds f)) :
    (∃ gs, buildDomains (processBlueprint ops).comps (fallbacksOf (processBlueprint ops).comps) gs = .ok ds) ∧
    insertAllOk (ds.map (·.pattern)) 0 {} = true ∧
    (∃ fb, scopeFallback (fallbacksOf (processBlueprint ops).comps) [] = some fb ∧ fb.f = f) := by
  unfold compile at h
  simp only at h
  split at h
  · cases h
  · unfold routerNew at h
    simp only at h
    split at h
    · cases h
    · split at h
      · split at h
        · cases h
        · cases h
      · split at h
        · cases h
        · rename_i fb hfb
          split at h
          · cases h
          · rename_i ds' hds
            split at h
            · cases h
            · split at h
              · cases h
              · rename_i hrt
                injection h with h; injection h with h1 h2; subst h1; subst h2
                refine ⟨⟨_, hds⟩, by simpa using hrt, fb, hfb, rfl⟩

theorem Routed.inv {r : PathRouter} {m : String} {path : List Char} {o : Outcome} (h : Routed r m path o) :
    (∃ l, MostSpecific r l path ∧ o = l.dispatch m) ∨
    ((∀ l ∈ r.leaves, ¬ l.Matches path) ∧ o = .fallback r.rootFb []) := by
  cases h with
  | entry l hl => exact Or.inl ⟨l, hl, rfl⟩
  | none hn => exact Or.inr ⟨hn, rfl⟩

/-! ### the methods a fallback is shown -/

/-- No handler registered for `p` has an `ANY` (incl. extension methods) guard. -/
def NoAnyAt (L : List (Handler × Fb)) (p : List Char) : Prop := ∀ y ∈ L, y.1.path = p → y.1.guard ≠ .any

theorem fold_arms_sound {p : List Char} (L : List (Handler × Fb)) (ol : Option Leaf)
    (hol : ∀ l, ol = some l → l.path = p ∧ ∀ a ∈ l.arms, ∃ y ∈ L, y.1.path = p ∧ y.1.guard = .some a.2.2 ∧ a.2.1 = y.1.h)
    : ∀ l, L.foldl (stepAt p) ol = some l →
      l.path = p ∧ ∀ a ∈ l.arms, ∃ y ∈ L, y.1.path = p ∧ y.1.guard = .some a.2.2 ∧ a.2.1 = y.1.h := by
  -- generalise over the already-processed part
  suffices H : ∀ (done L : List (Handler × Fb)) (ol : Option Leaf),
      (∀ l, ol = some l → l.path = p ∧ ∀ a ∈ l.arms, ∃ y ∈ done, y.1.path = p ∧ y.1.guard = .some a.2.2 ∧ a.2.1 = y.1.h) →
      ∀ l, L.foldl (stepAt p) ol = some l →
        l.path = p ∧ ∀ a ∈ l.arms, ∃ y ∈ done ++ L, y.1.path = p ∧ y.1.guard = .some a.2.2 ∧ a.2.1 = y.1.h by
    intro l hl
    have := H L L ol (by
      intro l0 h0; obtain ⟨h1, h2⟩ := hol l0 h0; exact ⟨h1, h2⟩) l hl
    refine ⟨this.1, ?_⟩
    intro a ha
    obtain ⟨y, hy, rest⟩ := this.2 a ha
    exact ⟨y, by simpa using hy, rest⟩
  intro done L
  induction L generalizing done with
  | nil => intro ol hol l hl; simp at hl; simpa using hol l hl
  | cons z rest ih =>
    intro ol hol l hl
    simp only [List.foldl_cons] at hl
    have := ih (done ++ [z]) (stepAt p ol z) (by
      intro l1 h1
      unfold stepAt at h1
      by_cases hp : z.1.path = p
      · simp only [hp, ↓reduceIte] at h1
        cases hg : z.1.guard with
        | any =>
          rw [hg] at h1; simp only [Option.some.injEq] at h1; subst h1
          exact ⟨rfl, by intro a ha; cases ha⟩
        | some ms =>
          rw [hg] at h1; simp only [Option.some.injEq] at h1; subst h1
          have h0 : (ol.getD { path := p, arms := [], fb := .fallback z.2.f }).path = p ∧
              ∀ a ∈ (ol.getD { path := p, arms := [], fb := .fallback z.2.f }).arms,
                ∃ y ∈ done, y.1.path = p ∧ y.1.guard = .some a.2.2 ∧ a.2.1 = y.1.h := by
            cases ol with
            | none => exact ⟨rfl, by intro a ha; cases ha⟩
            | some l0 => exact hol l0 rfl
          refine ⟨h0.1, ?_⟩
          intro a ha
          simp only [List.mem_append, List.mem_singleton] at ha
          rcases ha with ha | ha
          · obtain ⟨y, hy, r⟩ := h0.2 a ha
            exact ⟨y, by simp [hy], r⟩
          · subst ha
            exact ⟨z, by simp, hp, hg, rfl⟩
      · simp only [hp, ↓reduceIte] at h1
        obtain ⟨h2, h3⟩ := hol l1 h1
        refine ⟨h2, ?_⟩
        intro a ha
        obtain ⟨y, hy, r⟩ := h3 a ha
        exact ⟨y, by simp [hy], r⟩) l hl
    simpa [List.append_assoc] using this

theorem fold_arms_complete {p : List Char} (L : List (Handler × Fb)) (hNA : NoAnyAt L p) (ol : Option Leaf) :
    ∀ y ∈ L, y.1.path = p → ∀ ms, y.1.guard = .some ms →
      ∃ l, L.foldl (stepAt p) ol = some l ∧ (y.1.id, y.1.h, ms) ∈ l.arms := by
  induction L generalizing ol with
  | nil => intro y hy; cases hy
  | cons z rest ih =>
    intro y hy hp ms hg
    simp only [List.foldl_cons]
    have hNA' : NoAnyAt rest p := fun w hw => hNA w (List.mem_cons_of_mem _ hw)
    -- arms only grow along `rest`
    have grow : ∀ (R : List (Handler × Fb)), NoAnyAt R p → ∀ (ol : Option Leaf) (a : Nat × Nat × List String),
        (∃ l, ol = some l ∧ a ∈ l.arms) → ∃ l, R.foldl (stepAt p) ol = some l ∧ a ∈ l.arms := by
      intro R
      induction R with
      | nil => intro _ ol a h; simpa using h
      | cons w ws ihw =>
        intro hR ol a h
        simp only [List.foldl_cons]
        apply ihw (fun v hv => hR v (List.mem_cons_of_mem _ hv))
        obtain ⟨l0, rfl, ha⟩ := h
        unfold stepAt
        by_cases hwp : w.1.path = p
        · simp only [hwp, ↓reduceIte]
          cases hwg : w.1.guard with
          | any => exact absurd hwg (hR w List.mem_cons_self hwp)
          | some ms' => exact ⟨_, rfl, by simp [ha]⟩
        · simp only [hwp, ↓reduceIte]; exact ⟨l0, rfl, ha⟩
    rcases List.mem_cons.mp hy with e | e
    · subst e
      apply grow rest hNA'
      unfold stepAt
      simp only [hp, ↓reduceIte, hg]
      exact ⟨_, rfl, by simp⟩
    · exact ih hNA' _ y e hp ms hg


/-! ### keys of `path2method_router` are distinct -/

def NoDupPaths : List Leaf → Prop
  | [] => True
  | l :: ls => (∀ l' ∈ ls, l'.path ≠ l.path) ∧ NoDupPaths ls

theorem mem_leafUpsert {q : List Char} {mk : Leaf} {upd : Leaf → Leaf} (hmk : mk.path = q)
    (hupd : ∀ l, l.path = q → (upd l).path = q) {ls : List Leaf} {l' : Leaf}
    (h : l' ∈ leafUpsert q mk upd ls) : l' ∈ ls ∨ l'.path = q := by
  induction ls with
  | nil => simp [leafUpsert] at h; subst h; exact Or.inr (hupd _ hmk)
  | cons l ls ih =>
    unfold leafUpsert at h
    by_cases hl : l.path = q
    · simp only [hl, ↓reduceIte, List.mem_cons] at h
      rcases h with h | h
      · subst h; exact Or.inr (hupd _ hl)
      · exact Or.inl (List.mem_cons_of_mem _ h)
    · simp only [hl, ↓reduceIte, List.mem_cons] at h
      rcases h with h | h
      · subst h; exact Or.inl List.mem_cons_self
      · rcases ih h with h' | h'
        · exact Or.inl (List.mem_cons_of_mem _ h')
        · exact Or.inr h'

theorem NoDupPaths.upsert {q : List Char} {mk : Leaf} {upd : Leaf → Leaf} (hmk : mk.path = q)
    (hupd : ∀ l, l.path = q → (upd l).path = q) {ls : List Leaf} (h : NoDupPaths ls) :
    NoDupPaths (leafUpsert q mk upd ls) := by
  induction ls with
  | nil => simp [leafUpsert, NoDupPaths]
  | cons l ls ih =>
    obtain ⟨h1, h2⟩ := h
    unfold leafUpsert
    by_cases hl : l.path = q
    · simp only [hl, ↓reduceIte]
      refine ⟨?_, h2⟩
      intro l' hl'; rw [hupd _ hl, ← hl]; exact h1 l' hl'
    · simp only [hl, ↓reduceIte]
      refine ⟨?_, ih h2⟩
      intro l' hl'
      rcases mem_leafUpsert hmk hupd hl' with h' | h'
      · exact h1 l' h'
      · rw [h']; exact fun e => hl e.symm

theorem NoDupPaths.insertLeaf {x : Leaf} {ls : List Leaf} (h : NoDupPaths ls) (hx : ∀ l' ∈ ls, l'.path ≠ x.path) :
    NoDupPaths (insertLeaf x ls) := by
  induction ls with
  | nil => simp [Router.insertLeaf, NoDupPaths]
  | cons a as ih =>
    obtain ⟨h1, h2⟩ := h
    unfold Router.insertLeaf
    split
    · exact ⟨hx, h1, h2⟩
    · refine ⟨?_, ih h2 (fun l' hl' => hx l' (List.mem_cons_of_mem _ hl'))⟩
      intro l' hl'
      rcases mem_insertLeaf.mp hl' with e | e
      · subst e; exact fun e => hx a List.mem_cons_self e.symm
      · exact h1 l' e

theorem NoDupPaths.sort {ls : List Leaf} (h : NoDupPaths ls) : NoDupPaths (sortLeaves ls) := by
  induction ls with
  | nil => simp [sortLeaves, NoDupPaths]
  | cons a as ih =>
    obtain ⟨h1, h2⟩ := h
    have : sortLeaves (a :: as) = Router.insertLeaf a (sortLeaves as) := rfl
    rw [this]
    exact (ih h2).insertLeaf (fun l' hl' => h1 l' (mem_sortLeaves.mp hl'))

theorem NoDupPaths.eq_of_path {ls : List Leaf} (h : NoDupPaths ls) {l1 l2 : Leaf} (h1 : l1 ∈ ls) (h2 : l2 ∈ ls)
    (hp : l1.path = l2.path) : l1 = l2 := by
  induction ls with
  | nil => cases h1
  | cons a as ih =>
    obtain ⟨ha, has⟩ := h
    rcases List.mem_cons.mp h1 with e1 | e1 <;> rcases List.mem_cons.mp h2 with e2 | e2
    · rw [e1, e2]
    · subst e1; exact absurd hp.symm (ha l2 e2)
    · subst e2; exact absurd hp (ha l1 e1)
    · exact ih has e1 e2

theorem NoDupPaths.buildLeaves (L : List (Handler × Fb)) {acc : List Leaf} (h : NoDupPaths acc) :
    NoDupPaths (buildLeaves L acc) := by
  induction L generalizing acc with
  | nil => simpa [Router.buildLeaves] using h
  | cons x rest ih =>
    simp only [Router.buildLeaves]
    apply ih
    unfold leafStep
    cases x.1.guard with
    | any =>
      simp only
      refine NoDupPaths.upsert (q := x.1.path) rfl ?_ h
      intro l _; rfl
    | some ms =>
      simp only
      refine NoDupPaths.upsert (q := x.1.path) rfl ?_ h
      intro l hl; exact hl

theorem NoDupPaths.addCatchAlls (ps : List PathFb) {acc : List Leaf} (h : NoDupPaths acc) :
    NoDupPaths (addCatchAlls ps acc) := by
  induction ps generalizing acc with
  | nil => simpa [Router.addCatchAlls] using h
  | cons q qs ih =>
    simp only [Router.addCatchAlls]
    apply ih
    refine NoDupPaths.upsert (q := q.path) rfl ?_ h
    intro l hl; exact hl

theorem fallbackPaths_spec {fbs0 : List Fb} : ∀ (fbs : List Fb) (vr pr : Router) (acc out : List PathFb) (pr' : Router),
    (∀ fb ∈ fbs, fb ∈ fbs0) →
    (∀ q ∈ acc, q.fb ∈ fbs0 ∧ ∃ pfx, q.fb.pfx = some pfx ∧ fallbackPath pfx = some q.path) →
    fallbackPaths fbs vr pr acc = .ok (out, pr') →
    ∀ q ∈ out, q.fb ∈ fbs0 ∧ ∃ pfx, q.fb.pfx = some pfx ∧ fallbackPath pfx = some q.path := by
  intro fbs
  induction fbs with
  | nil =>
    intro vr pr acc out pr' _ hacc h
    simp [fallbackPaths] at h
    rw [← h.1]; exact hacc
  | cons fb rest ih =>
    intro vr pr acc out pr' hsub hacc h
    have hsub' : ∀ fb ∈ rest, fb ∈ fbs0 := fun f hf => hsub f (List.mem_cons_of_mem _ hf)
    unfold fallbackPaths at h
    split at h
    · exact ih _ _ _ _ _ hsub' hacc h
    · rename_i p hp
      split at h
      · exact ih _ _ _ _ _ hsub' hacc h
      · rename_i fp hfp
        split at h
        · exact ih _ _ _ _ _ hsub' hacc h
        · cases h
        · cases h
        · split at h
          · cases h
          · refine ih _ _ _ _ _ hsub' ?_ h
            intro q hq
            rcases List.mem_append.mp hq with hq | hq
            · exact hacc q hq
            · simp at hq; subst hq
              exact ⟨hsub fb List.mem_cons_self, p, hp, hfp⟩

/-- The shape of an accepted path router: its entries are the sorted `path2method_router` built
    from the handlers (each with its fallback) and the catch-all paths of prefix-based fallbacks. -/
theorem PathRouter.new_leaves {comps : List Comp} {fbs : List Fb} {r : PathRouter}
    (h : PathRouter.new comps fbs = .ok r) :
    ∃ (hfs : List (Handler × Fb)) (pfbs : List PathFb),
      r.leaves = sortLeaves (addCatchAlls pfbs (buildLeaves hfs [])) ∧
      (∀ y ∈ hfs, y.1 ∈ handlersOf comps) ∧
      (∀ x ∈ handlersOf comps, ∃ fb, (x, fb) ∈ hfs) ∧
      methodConflict (handlersOf comps) = false ∧
      (∃ rootFb, scopeFallback fbs (commonAncestor (comps.map Comp.scope)) = some rootFb ∧ r.rootFb = rootFb.f) ∧
      (∀ q ∈ pfbs, q.fb ∈ fallbacksOf comps ∧ ∃ pfx, q.fb.pfx = some pfx ∧ fallbackPath pfx = some q.path) := by
  unfold PathRouter.new at h
  simp only at h
  split at h
  · cases h
  · rename_i rootFb hroot
    split at h
    · cases h
    · rename_i hconf
      split at h
      · cases h
      · split at h
        · cases h
        · rename_i pfbs pr hpf
          split at h
          · cases h
          · rename_i hall
            split at h
            · cases h
            · split at h
              · cases h
              · injection h with h
                subst h
                refine ⟨_, pfbs, rfl, ?_, ?_, by simpa using hconf, ⟨rootFb, hroot, rfl⟩,
                  fallbackPaths_spec _ _ _ _ _ _ (fun fb hfb => hfb) (by intro q hq; cases hq) hpf⟩
                · intro y hy
                  rw [List.mem_filterMap] at hy
                  obtain ⟨⟨y0, ofb⟩, hy0, hy1⟩ := hy
                  rw [List.mem_map] at hy0
                  obtain ⟨y', hy', e⟩ := hy0
                  cases ofb with
                  | none => simp at hy1
                  | some fb' =>
                    simp at hy1 e
                    rw [← hy1, ← e.1]; exact hy'
                · intro x hx
                  cases hfb : handlerFallback fbs pfbs pr x with
                  | none =>
                    exfalso
                    apply hall
                    rw [List.any_eq_true]
                    exact ⟨(x, handlerFallback fbs pfbs pr x), List.mem_map.mpr ⟨x, hx, rfl⟩, by simp [hfb]⟩
                  | some fb =>
                    refine ⟨fb, ?_⟩
                    rw [List.mem_filterMap]
                    exact ⟨(x, handlerFallback fbs pfbs pr x), List.mem_map.mpr ⟨x, hx, rfl⟩, by simp [hfb]⟩

theorem NoDupPaths.new {comps : List Comp} {fbs : List Fb} {r : PathRouter}
    (h : PathRouter.new comps fbs = .ok r) : NoDupPaths r.leaves := by
  obtain ⟨hfs, pfbs, hl, _⟩ := PathRouter.new_leaves h
  rw [hl]
  exact ((NoDupPaths.buildLeaves hfs (acc := []) trivial).addCatchAlls pfbs).sort

/-- **The entry for a handler's path answers with that handler**: in an accepted path router, every
    entry whose path is the (full) path of a registered handler `x` dispatches each method `x`
    accepts to `x`. -/
theorem PathRouter.new_designated {comps : List Comp} {fbs : List Fb} {r : PathRouter}
    (h : PathRouter.new comps fbs = .ok r) {x : Handler} (hx : x ∈ handlersOf comps) {m : String}
    (hadm : x.guard.admits m = true) {l : Leaf} (hl : l ∈ r.leaves) (hp : l.path = x.path) :
    l.dispatch m = .handler x.h := by
  obtain ⟨l', hl', hp', hd⟩ := PathRouter.new_reachable h hx hadm
  rw [(NoDupPaths.new h).eq_of_path hl hl' (by rw [hp, hp'])]
  exact hd


/-! ### entries: from handlers, or from prefix-based fallbacks -/

theorem look_of_mem {ls : List Leaf} (hN : NoDupPaths ls) {l : Leaf} (hl : l ∈ ls) : look l.path ls = some l := by
  unfold look
  cases hf : ls.find? (fun l' => l'.path = l.path) with
  | none =>
    have := List.find?_eq_none.mp hf l hl
    simp at this
  | some l' =>
    have hm := List.mem_of_find?_eq_some hf
    have hp := List.find?_some hf
    simp at hp
    rw [hN.eq_of_path hm hl hp]

theorem look_addCatchAlls_of_none (p : List Char) (ps : List PathFb) (acc : List Leaf)
    (h : look p acc = none) : ∀ l, look p (addCatchAlls ps acc) = some l →
      l.arms = [] ∧ ∃ q ∈ ps, q.path = p ∧ l.fb = .fallback q.fb.f := by
  induction ps generalizing acc with
  | nil => intro l hl; simp [addCatchAlls, h] at hl
  | cons q qs ih =>
    intro l hl
    simp only [addCatchAlls] at hl
    by_cases hpq : p = q.path
    · have hlook : look p (leafUpsert q.path { path := q.path, arms := [], fb := .fallback q.fb.f } id acc) =
          some { path := q.path, arms := [], fb := .fallback q.fb.f } := by
        rw [look_upsert]
        · subst hpq; simp [h]
        · rfl
        · intro l hl; exact hl
      rw [look_addCatchAlls_of_some p qs _ hlook] at hl
      injection hl with hl; subst hl
      exact ⟨rfl, q, List.mem_cons_self, hpq.symm, rfl⟩
    · have hlook : look p (leafUpsert q.path { path := q.path, arms := [], fb := .fallback q.fb.f } id acc) = none := by
        rw [look_upsert]
        · simp [hpq, h]
        · rfl
        · intro l hl; exact hl
      obtain ⟨h1, q', hq', h2⟩ := ih _ hlook l hl
      exact ⟨h1, q', List.mem_cons_of_mem _ hq', h2⟩

theorem fold_some_has_handler {p : List Char} (L : List (Handler × Fb)) (ol : Option Leaf) {l : Leaf}
    (h : L.foldl (stepAt p) ol = some l) : ol.isSome = true ∨ ∃ y ∈ L, y.1.path = p := by
  induction L generalizing ol with
  | nil => simp at h; simp [h]
  | cons z rest ih =>
    simp only [List.foldl_cons] at h
    rcases ih _ h with h' | ⟨y, hy, hp⟩
    · unfold stepAt at h'
      by_cases hz : z.1.path = p
      · exact Or.inr ⟨z, List.mem_cons_self, hz⟩
      · simp only [hz, ↓reduceIte] at h'; exact Or.inl h'
    · exact Or.inr ⟨y, List.mem_cons_of_mem _ hy, hp⟩

/-- Every entry of an accepted path router comes from the blueprint: its arms are handlers
    registered for exactly that path, and an entry without such a handler is the catch-all of a
    prefix-based fallback. -/
theorem PathRouter.new_entry {comps : List Comp} {fbs : List Fb} {r : PathRouter}
    (h : PathRouter.new comps fbs = .ok r) {l : Leaf} (hl : l ∈ r.leaves) :
    (∀ a ∈ l.arms, ∃ x ∈ handlersOf comps, x.path = l.path ∧ x.guard = .some a.2.2 ∧ a.2.1 = x.h) ∧
    ((∃ x ∈ handlersOf comps, x.path = l.path) ∨
      (l.arms = [] ∧ ∃ fb ∈ fallbacksOf comps, ∃ pfx, fb.pfx = some pfx ∧ fallbackPath pfx = some l.path ∧ l.fb = .fallback fb.f)) := by
  obtain ⟨hfs, pfbs, hleaves, hsub, _, _, _, hpf⟩ := PathRouter.new_leaves h
  rw [hleaves, mem_sortLeaves] at hl
  have hN : NoDupPaths (addCatchAlls pfbs (buildLeaves hfs [])) :=
    (NoDupPaths.buildLeaves hfs (acc := []) trivial).addCatchAlls pfbs
  have hlook := look_of_mem hN hl
  cases hb : look l.path (buildLeaves hfs []) with
  | some l0 =>
    rw [look_addCatchAlls_of_some _ pfbs _ hb] at hlook
    injection hlook with e; subst e
    rw [look_buildLeaves] at hb
    have snd := fold_arms_sound (p := l0.path) hfs (look l0.path []) (by intro l1 h1; simp [look] at h1) l0 hb
    refine ⟨?_, Or.inl ?_⟩
    · intro a ha
      obtain ⟨y, hy, h1, h2, h3⟩ := snd.2 a ha
      exact ⟨y.1, hsub y hy, h1, h2, h3⟩
    · rcases fold_some_has_handler hfs _ hb with h' | ⟨y, hy, hp⟩
      · simp [look] at h'
      · exact ⟨y.1, hsub y hy, hp⟩
  | none =>
    obtain ⟨harms, q, hq, hqp, hfb⟩ := look_addCatchAlls_of_none _ pfbs _ hb l hlook
    refine ⟨(by rw [harms]; intro a ha; cases ha), Or.inr ⟨harms, q.fb, (hpf q hq).1, ?_⟩⟩
    obtain ⟨pfx, h1, h2⟩ := (hpf q hq).2
    exact ⟨pfx, h1, by rw [h2, hqp], hfb⟩

/-- **`Allow` is exact**: when the entry's fallback is a fallback handler, the methods it is shown
    are exactly the methods of the guards registered for that path. -/
theorem PathRouter.new_allowed {comps : List Comp} {fbs : List Fb} {r : PathRouter}
    (h : PathRouter.new comps fbs = .ok r) {l : Leaf} (hl : l ∈ r.leaves) {f : Option Nat} (hf : l.fb = .fallback f)
    (m : String) :
    m ∈ l.allowed ↔ ∃ x ∈ handlersOf comps, x.path = l.path ∧ ∃ ms, x.guard = .some ms ∧ m ∈ ms := by
  constructor
  · intro hm
    unfold Leaf.allowed at hm
    rw [List.mem_flatMap] at hm
    obtain ⟨a, ha, hma⟩ := hm
    obtain ⟨x, hx, hp, hg, _⟩ := (PathRouter.new_entry h hl).1 a ha
    exact ⟨x, hx, hp, a.2.2, hg, hma⟩
  · rintro ⟨x, hx, hp, ms, hg, hm⟩
    have hadm : x.guard.admits m = true := by rw [hg]; exact admits_some_iff.mpr hm
    have hd := PathRouter.new_designated h hx hadm hl hp.symm
    unfold Leaf.dispatch at hd
    cases hfind : l.arms.find? (fun a => a.2.2.contains m) with
    | some a =>
      unfold Leaf.allowed
      rw [List.mem_flatMap]
      exact ⟨a, List.mem_of_find?_eq_some hfind, by simpa using List.find?_some hfind⟩
    | none =>
      rw [hfind, hf] at hd; cases hd


theorem Table.noNestedSuffix_of_check {t : Table} (h : t.noNestedSuffixB = true) : t.NoNestedSuffix := by
  cases t with
  | agnostic r => exact Pxv.Matchit.noNestedSuffix_of_check h
  | domains ds f =>
    simp only [Table.noNestedSuffixB, Bool.and_eq_true, List.all_eq_true] at h
    exact ⟨Pxv.Matchit.noNestedSuffix_of_check h.1, fun d hd => Pxv.Matchit.noNestedSuffix_of_check (h.2 d hd)⟩

end Pxv.Router
