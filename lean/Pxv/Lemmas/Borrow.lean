import Pxv.Model.Borrow
/-! Lemmas about the mirrored clone-insertion passes. -/
namespace Pxv.CG
open Graph

/-- by-value consumers of `d` among a raw edge list -/
def consumersOf (es : List Edge) (d : Nat) : List Nat :=
  ((es.filter (·.src == d)).filter (·.kind == .move)).map (·.dst)

theorem consumers_eq (g : Graph) (d : Nat) : g.consumers d = consumersOf g.edges d := rfl

theorem consumersOf_append (a b : List Edge) (d : Nat) :
    consumersOf (a ++ b) d = consumersOf a d ++ consumersOf b d := by
  simp [consumersOf, List.filter_append]

theorem consumersOf_drop (es : List Edge) (dep consumer : Nat) :
    consumersOf (es.filter (fun e => !(e.src == dep && e.dst == consumer))) dep =
      (consumersOf es dep).filter (· != consumer) := by
  induction es with
  | nil => rfl
  | cons e es ih =>
    simp only [consumersOf, List.filter_filter] at ih ⊢
    cases h1 : (e.src == dep) <;> cases h2 : (e.dst == consumer) <;> cases h3 : (e.kind == EK.move) <;>
      simp_all [List.filter_cons, bne]

theorem consumersOf_drop_other (es : List Edge) (dep consumer d : Nat) (hd : d ≠ dep) :
    consumersOf (es.filter (fun e => !(e.src == dep && e.dst == consumer))) d = consumersOf es d := by
  induction es with
  | nil => rfl
  | cons e es ih =>
    simp only [consumersOf, List.filter_filter] at ih ⊢
    by_cases hs : e.src = d
    · have hsd : (e.src == dep) = false := by
        simp only [beq_eq_false_iff_ne, ne_eq, hs]; exact hd
      cases h3 : (e.kind == EK.move) <;> simp_all [List.filter_cons]
    · have hs' : (e.src == d) = false := by simpa using hs
      cases h1 : (e.src == dep) <;> cases h2 : (e.dst == consumer) <;> simp_all [List.filter_cons]

/-- Cloning `dep` for `consumer` removes exactly that by-value consumer of `dep`; the new node only
    borrows `dep`. -/
theorem consumers_insertClone (g : Graph) (dep consumer : Nat) (hdep : dep < g.size) :
    (insertClone g dep consumer).1.consumers dep = (g.consumers dep).filter (· != consumer) := by
  have hne : (g.size == dep) = false := by
    simp only [beq_eq_false_iff_ne, ne_eq]; omega
  rw [consumers_eq, consumers_eq]
  show consumersOf ((g.edges.filter (fun e => !(e.src == dep && e.dst == consumer))) ++
    [⟨dep, g.size, .shared⟩, ⟨g.size, consumer, .move⟩]) dep = _
  rw [consumersOf_append, consumersOf_drop]
  have : consumersOf [⟨dep, g.size, .shared⟩, ⟨g.size, consumer, .move⟩] dep = [] := by
    simp [consumersOf, List.filter_cons, hne]
  rw [this, List.append_nil]

/-- other values keep their by-value consumers. -/
theorem consumers_insertClone_other (g : Graph) (dep consumer d : Nat) (hd : d ≠ dep) (hds : d < g.size) :
    (insertClone g dep consumer).1.consumers d = g.consumers d := by
  have hne : (g.size == d) = false := by
    simp only [beq_eq_false_iff_ne, ne_eq]; omega
  have hne2 : (dep == d) = false := by
    simp only [beq_eq_false_iff_ne, ne_eq]; exact fun h => hd h.symm
  rw [consumers_eq, consumers_eq]
  show consumersOf ((g.edges.filter (fun e => !(e.src == dep && e.dst == consumer))) ++
    [⟨dep, g.size, .shared⟩, ⟨g.size, consumer, .move⟩]) d = _
  rw [consumersOf_append, consumersOf_drop_other _ _ _ _ hd]
  have : consumersOf [⟨dep, g.size, .shared⟩, ⟨g.size, consumer, .move⟩] d = [] := by
    simp [consumersOf, List.filter_cons, hne, hne2]
  rw [this, List.append_nil]

/-- the graph only grows by one node per clone -/
theorem size_insertClone (g : Graph) (dep consumer : Nat) :
    (insertClone g dep consumer).1.size = g.size + 1 := by
  simp [insertClone, Graph.size]

end Pxv.CG

namespace Pxv.CG
open Graph

/-- cloning for a list of consumers removes exactly those consumers. -/
theorem consumers_foldl_insertClone (n : Nat) (others : List Nat) :
    ∀ (g : Graph), n < g.size →
      (others.foldl (fun g c => (insertClone g n c).1) g).consumers n =
        (g.consumers n).filter (fun c => !others.contains c) ∧
      g.size ≤ (others.foldl (fun g c => (insertClone g n c).1) g).size := by
  induction others with
  | nil =>
    intro g _
    refine ⟨?_, Nat.le_refl _⟩
    simp only [List.foldl_nil, List.contains_nil, Bool.not_false]
    exact (List.filter_eq_self.mpr (fun _ _ => rfl)).symm
  | cons c cs ih =>
    intro g hn
    simp only [List.foldl_cons]
    have hsz := size_insertClone g n c
    obtain ⟨h1, h2⟩ := ih (insertClone g n c).1 (by omega)
    refine ⟨?_, by omega⟩
    rw [h1, consumers_insertClone g n c hn, List.filter_filter]
    congr 1
    funext x
    by_cases hx : x = c
    · simp [hx]
    · have : (x != c) = true := by simpa using hx
      simp [List.contains_cons, hx, this, Bool.and_comm]

end Pxv.CG

namespace Pxv.CG
open Graph

/-- The invariant of the cloning loop of `multiple_consumers` for value `n`:
    the by-value consumers left are the original ones that received no clone, and in every set
    handled so far at most one consumer received no clone. -/
structure McInv (g : Graph) (n : Nat) (done : List (List Nat)) (st : Graph × List Nat) : Prop where
  size : g.size ≤ st.1.size
  consumers : st.1.consumers n = (g.consumers n).filter (fun c => !st.2.contains c)
  single : ∀ set ∈ done, ∀ c1 ∈ set, ∀ c2 ∈ set, st.2.contains c1 = false → st.2.contains c2 = false → c1 = c2

theorem mem_not_dropLast {l : List Nat} {x : Nat} (hx : x ∈ l) (hnd : x ∉ l.dropLast) (hne : l ≠ []) :
    x = l.getLast hne := by
  have := List.dropLast_concat_getLast hne
  rw [← this] at hx
  simp only [List.mem_append, List.mem_singleton] at hx
  rcases hx with h | h
  · exact absurd h hnd
  · exact h

theorem mcCloneStep_inv (g : Graph) (n : Nat) (hn : n < g.size) (done : List (List Nat))
    (st : Graph × List Nat) (set : List Nat) (h : McInv g n done st) :
    McInv g n (done ++ [set]) (mcCloneStep n st set) := by
  unfold mcCloneStep
  by_cases hlen : (set.filter (fun c => !st.2.contains c)).length ≤ 1
  · simp only [hlen, if_true]
    refine ⟨h.size, h.consumers, ?_⟩
    intro s hs c1 hc1 c2 hc2 h1 h2
    simp only [List.mem_append, List.mem_singleton] at hs
    rcases hs with hs | rfl
    · exact h.single s hs c1 hc1 c2 hc2 h1 h2
    · -- both lie in `ids`, which has at most one element
      have m1 : c1 ∈ s.filter (fun c => !st.2.contains c) := List.mem_filter.mpr ⟨hc1, by rw [h1]; rfl⟩
      have m2 : c2 ∈ s.filter (fun c => !st.2.contains c) := List.mem_filter.mpr ⟨hc2, by rw [h2]; rfl⟩
      cases hf : s.filter (fun c => !st.2.contains c) with
      | nil => rw [hf] at m1; simp at m1
      | cons a l =>
        rw [hf] at m1 m2 hlen
        cases l with
        | nil => simp at m1 m2; rw [m1, m2]
        | cons b l' => simp at hlen
  · simp only [hlen, if_false]
    have hnz : n < st.1.size := Nat.lt_of_lt_of_le hn h.size
    obtain ⟨hc, hsz⟩ := consumers_foldl_insertClone n (set.filter (fun c => !st.2.contains c)).dropLast st.1 hnz
    refine ⟨Nat.le_trans h.size hsz, ?_, ?_⟩
    · rw [hc, h.consumers, List.filter_filter]
      congr 1
      funext x
      simp only [List.contains_append]
      cases st.2.contains x <;> cases ((set.filter (fun c => !st.2.contains c)).dropLast).contains x <;> rfl
    · intro s hs c1 hc1 c2 hc2 h1 h2
      simp only [List.contains_append, Bool.or_eq_false_iff] at h1 h2
      simp only [List.mem_append, List.mem_singleton] at hs
      rcases hs with hs | rfl
      · exact h.single s hs c1 hc1 c2 hc2 h1.1 h2.1
      · have m1 : c1 ∈ s.filter (fun c => !st.2.contains c) := List.mem_filter.mpr ⟨hc1, by rw [h1.1]; rfl⟩
        have m2 : c2 ∈ s.filter (fun c => !st.2.contains c) := List.mem_filter.mpr ⟨hc2, by rw [h2.1]; rfl⟩
        have hne : s.filter (fun c => !st.2.contains c) ≠ [] := by
          intro he; rw [he] at m1; simp at m1
        have n1 : c1 ∉ (s.filter (fun c => !st.2.contains c)).dropLast := by
          intro hm; have := List.contains_iff_mem.mpr hm; rw [this] at h1; exact Bool.noConfusion h1.2
        have n2 : c2 ∉ (s.filter (fun c => !st.2.contains c)).dropLast := by
          intro hm; have := List.contains_iff_mem.mpr hm; rw [this] at h2; exact Bool.noConfusion h2.2
        rw [mem_not_dropLast m1 n1 hne, mem_not_dropLast m2 n2 hne]

theorem mcCloneSets_inv (g : Graph) (n : Nat) (hn : n < g.size) (sets : List (List Nat)) :
    McInv g n sets (mcCloneSets g n sets) := by
  have gen : ∀ (rest done : List (List Nat)) (st : Graph × List Nat), McInv g n done st →
      McInv g n (done ++ rest) (rest.foldl (mcCloneStep n) st) := by
    intro rest
    induction rest with
    | nil => intro done st h; simpa using h
    | cons s rest ih =>
      intro done st h
      have := ih (done ++ [s]) (mcCloneStep n st s) (mcCloneStep_inv g n hn done st s h)
      simpa [List.append_assoc] using this
  have h0 : McInv g n [] (g, []) := by
    refine ⟨Nat.le_refl _, ?_, by intro s hs; simp at hs⟩
    simp only [List.contains_nil, Bool.not_false]
    exact (List.filter_eq_self.mpr (fun _ _ => rfl)).symm
  have := gen sets [] (g, []) h0
  simpa [mcCloneSets] using this

end Pxv.CG
