import Pxv.Model.Server
/-! Helper lemmas for C16: frame lemmas for the state setters and the inductive invariants of `step`. -/
namespace Pxv.Server

@[simp] theorem setAcc_acc (s : State) (a : Acc) : (s.setAcc a).acc = a := rfl
@[simp] theorem setAcc_w (s : State) (a : Acc) : (s.setAcc a).w = s.w := rfl
@[simp] theorem setAcc_c (s : State) (a : Acc) : (s.setAcc a).c = s.c := rfl
@[simp] theorem setW_acc (s : State) (i : Nat) (x : Worker) : (s.setW i x).acc = s.acc := rfl
@[simp] theorem setW_w (s : State) (i : Nat) (x : Worker) (j : Nat) :
    (s.setW i x).w j = if j = i then x else s.w j := rfl
@[simp] theorem setW_c (s : State) (i : Nat) (x : Worker) : (s.setW i x).c = s.c := rfl
@[simp] theorem setC_acc (s : State) (i : Nat) (x : Conn) : (s.setC i x).acc = s.acc := rfl
@[simp] theorem setC_w (s : State) (i : Nat) (x : Conn) : (s.setC i x).w = s.w := rfl
@[simp] theorem setC_c (s : State) (i : Nat) (x : Conn) (j : Nat) :
    (s.setC i x).c j = if j = i then x else s.c j := rfl

@[simp] theorem Mode.ne_graceful (m : Mode) : (¬ m = .graceful) ↔ m = .forced := by cases m <;> simp
@[simp] theorem Mode.ne_forced (m : Mode) : (¬ m = .forced) ↔ m = .graceful := by cases m <;> simp

@[simp] theorem WaitRes.ne_complete (r : WaitRes) : (¬ r = .complete) ↔ r = .timeout := by cases r <;> simp
@[simp] theorem WaitRes.ne_timeout (r : WaitRes) : (¬ r = .timeout) ↔ r = .complete := by cases r <;> simp
attribute [grind cases] WaitRes Mode

/-- Has the acceptor already sent the shutdown command to worker `w`? -/
def sentTo : APhase → Nat → Prop
  | .listening, _ => False
  | .sending _ i, w => w < i
  | _, _ => True

/-- A worker that has not been told anything yet. -/
def Worker.pristine (W : Worker) : Prop :=
  W.phase = .running ∧ W.cmds = [] ∧ W.closed = false ∧ W.signalled = false ∧ W.notified = false ∧
    W.forced = false ∧ W.timedOut = false

/-- I1: a worker is touched by the shutdown protocol only after the acceptor sent it the command. -/
def Coupling (s : State) : Prop := ∀ w, ¬ sentTo s.acc.phase w → (s.w w).pristine

theorem coupling_init : Coupling init := by
  intro w _; simp [init, Worker.pristine]

/-- Opens `hs : step cfg s e = some s'` for the event at hand: one goal per successful branch, `s'` replaced
    by the explicit successor state. -/
macro "open_step" hs:ident : tactic =>
  `(tactic| (simp only [step] at $hs:ident; (repeat' split at $hs:ident);
             all_goals (first | (cases $hs:ident; done) | skip); all_goals (cases $hs:ident)))

macro "unfold_setters" : tactic =>
  `(tactic| try simp only [setAcc_acc, setAcc_w, setAcc_c, setW_acc, setW_w, setW_c, setC_acc, setC_w, setC_c, startConn] at *)

theorem coupling_step {cfg : Cfg} {s s' : State} {e : Event} (h : Coupling s)
    (hs : step cfg s e = some s') : Coupling s' := by
  cases e
  case accSend w =>
    simp only [step] at hs
    split at hs
    · rename_i m i heq
      split at hs
      · rename_i hg
        cases hs
        intro w' hw'
        have := h w'
        simp only [setAcc_acc, setAcc_w, setW_acc, setW_w] at hw' ⊢
        rw [heq] at this
        simp only [sentTo] at hw' this
        by_cases hww : w' = w
        · subst hww; omega
        · simp only [hww, if_false]; exact this (by omega)
      · cases hs
    · cases hs
  all_goals open_step hs
  all_goals (intro w' hw')
  all_goals (have := h w')
  all_goals unfold_setters
  all_goals (try (simp_all [Worker.pristine, sentTo]; done))
  all_goals (try (split <;> simp_all [Worker.pristine, sentTo]))

/-- I2: per-worker coherence of phase and flags. -/
def WFlags (s : State) : Prop := ∀ w,
  ((s.w w).signalled = true → (s.w w).phase = .waiting ∨ (s.w w).phase = .finishing ∨ (s.w w).phase = .exited) ∧
  ((s.w w).forced = true → (s.w w).phase = .finishing ∨ (s.w w).phase = .exited) ∧
  ((s.w w).notified = true ↔ (s.w w).phase = .exited) ∧
  ((s.w w).timedOut = true → (s.w w).phase = .finishing ∨ (s.w w).phase = .exited) ∧
  ((s.w w).phase = .exited → (s.w w).closed = true) ∧
  ((s.w w).phase = .waiting → (s.w w).signalled = true)

theorem wflags_init : WFlags init := by
  intro w; simp [init]

theorem wflags_step {cfg : Cfg} {s s' : State} {e : Event} (h : WFlags s)
    (hs : step cfg s e = some s') : WFlags s' := by
  cases e
  all_goals open_step hs
  all_goals (intro w')
  all_goals (have := h w')
  all_goals unfold_setters
  all_goals (try (simp_all; done))
  all_goals (try (split <;> simp_all))
  all_goals (try grind)

/-- I3: coherence of the acceptor's phase, mode and flags. -/
def AFlags (cfg : Cfg) (s : State) : Prop :=
  (s.acc.resolved = true ↔ (s.acc.phase = .notified ∨ s.acc.phase = .exited)) ∧
  (∀ m i, s.acc.phase = .sending m i → s.acc.mode = some m ∧ i ≤ cfg.n) ∧
  (s.acc.phase = .waiting ∨ s.acc.phase = .finishing → s.acc.mode = some .graceful) ∧
  (s.acc.phase = .listening → s.acc.mode = none) ∧
  (s.acc.timedOut = true → s.acc.mode = some .graceful) ∧
  (0 < s.acc.returned → s.acc.resolved = true) ∧
  (s.acc.handleDone = true → s.acc.phase = .exited)

/-- I3': the dispatch loop's counters stay in range. -/
def Ranges (cfg : Cfg) (s : State) : Prop :=
  (0 < cfg.n → s.acc.next < cfg.n) ∧ s.acc.tries ≤ cfg.n

theorem ranges_init (cfg : Cfg) : Ranges cfg init := by
  simp [Ranges, init]

theorem ranges_step {cfg : Cfg} {s s' : State} {e : Event} (h : Ranges cfg s)
    (hs : step cfg s e = some s') : Ranges cfg s' := by
  obtain ⟨h1, h2⟩ := h
  cases e
  all_goals open_step hs
  all_goals (simp only [Ranges]; unfold_setters)
  all_goals (try (simp_all; done))
  all_goals (try (refine ⟨fun hn => Nat.mod_lt _ hn, by omega⟩))
  all_goals (try (simp_all; omega))

theorem aflags_init (cfg : Cfg) : AFlags cfg init := by
  simp [AFlags, init]

theorem aflags_step {cfg : Cfg} {s s' : State} {e : Event} (h : AFlags cfg s)
    (hs : step cfg s e = some s') : AFlags cfg s' := by
  obtain ⟨h1, h2, h3, h4, h5, h6, h7⟩ := h
  cases e
  all_goals open_step hs
  all_goals (simp only [AFlags]; unfold_setters)
  all_goals (try (simp_all; done))
  all_goals (try grind)

/-- Phases of a connection that some worker has taken over. -/
def goingPhase (p : CPhase) : Prop := p = .spawned ∨ p = .idle ∨ p = .inflight ∨ p = .doomed ∨ p = .ended

/-- I4: where a connection is according to the acceptor / the workers agrees with its own phase. -/
def Links (s : State) : Prop :=
  (∀ c, s.acc.cur = some c → (s.c c).phase = .accepted) ∧
  (∀ w c, c ∈ (s.w w).queue → (s.c c).phase = .queued ∧ (s.c c).worker = w) ∧
  (∀ w, (s.w w).queue.Nodup) ∧
  (∀ w c, c ∈ (s.w w).started → (s.c c).worker = w ∧ goingPhase (s.c c).phase)

theorem links_init : Links init := by
  simp [Links, init]

theorem links_step {cfg : Cfg} {s s' : State} {e : Event} (h : Links s)
    (hs : step cfg s e = some s') : Links s' := by
  obtain ⟨h1, h2, h3, h4⟩ := h
  cases e
  all_goals open_step hs
  all_goals (simp only [Links, goingPhase] at *; unfold_setters)
  all_goals (try (simp_all; done))
  all_goals (try (grind))

/-- I5: FIFO conservation — what was dispatched to a worker is what it started plus what is still queued. -/
def Conserv (s : State) : Prop := ∀ w, (s.w w).dispatched = (s.w w).started ++ (s.w w).queue

theorem conserv_init : Conserv init := by
  intro w; simp [init]

theorem conserv_step {cfg : Cfg} {s s' : State} {e : Event} (h : Conserv s)
    (hs : step cfg s e = some s') : Conserv s' := by
  cases e
  all_goals open_step hs
  all_goals (intro w')
  all_goals (have := h w')
  all_goals unfold_setters
  all_goals (try (simp_all; done))
  all_goals (try (split <;> simp_all))
  all_goals (try grind)

/-- The worker is past its drain loop (Graceful arm). -/
def pastDrain (W : Worker) : Prop :=
  W.phase = .drained ∨ W.phase = .waiting ∨ ((W.phase = .finishing ∨ W.phase = .exited) ∧ W.forced = false)

/-- I6: past the drain loop the inbox is empty. -/
def Drained (s : State) : Prop := ∀ w, pastDrain (s.w w) → (s.w w).queue = []

theorem drained_init : Drained init := by
  intro w; simp [init, pastDrain]

theorem drained_step {cfg : Cfg} {s s' : State} {e : Event} (h : Drained s) (hc : Coupling s) (hf : WFlags s)
    (hs : step cfg s e = some s') : Drained s' := by
  cases e
  all_goals open_step hs
  all_goals (intro w')
  all_goals (have := h w'; have := hc w'; have := hf w')
  all_goals (simp only [pastDrain, Worker.pristine] at *; unfold_setters)
  all_goals (try (simp_all; done))
  all_goals (try (split <;> simp_all [sentTo]))
  all_goals (try grind [sentTo])

theorem allNotified_iff (s : State) (n : Nat) :
    allNotified s n = true ↔ ∀ w, w < n → (s.w w).notified = true := by
  simp [allNotified, List.all_eq_true, List.mem_range]

theorem allPhase_iff (s : State) (p : CPhase → Bool) (l : List Nat) :
    allPhase s p l = true ↔ ∀ c, c ∈ l → p (s.c c).phase = true := by
  simp [allPhase, List.all_eq_true]

/-- I7: how a Graceful shutdown can have got past the acceptor's wait. -/
def Resol (cfg : Cfg) (s : State) : Prop :=
  (s.acc.phase = .finishing ∨ s.acc.phase = .notified ∨ s.acc.phase = .exited) → s.acc.mode = some .graceful →
    (∀ w, w < cfg.n → (s.w w).notified = true) ∨ s.acc.timedOut = true

theorem resol_init (cfg : Cfg) : Resol cfg init := by
  simp [Resol, init]

theorem resol_step {cfg : Cfg} {s s' : State} {e : Event} (h : Resol cfg s) (ha : AFlags cfg s)
    (hs : step cfg s e = some s') : Resol cfg s' := by
  obtain ⟨a1, a2, a3, a4, a5, a6, a7⟩ := ha
  cases e
  all_goals open_step hs
  all_goals (simp only [Resol, allNotified_iff] at *; unfold_setters)
  all_goals (try (simp_all; done))
  all_goals (try grind)

/-- I8: how a worker can have got past its Graceful wait. -/
def WDone (s : State) : Prop := ∀ w,
  ((s.w w).phase = .finishing ∨ (s.w w).phase = .exited) → (s.w w).forced = false →
    (∀ c, c ∈ (s.w w).started → (s.c c).phase = .ended) ∨ (s.w w).timedOut = true

theorem wdone_init : WDone init := by
  intro w; simp [init]

theorem wdone_step {cfg : Cfg} {s s' : State} {e : Event} (h : WDone s) (hl : Links s) (hf : WFlags s)
    (hs : step cfg s e = some s') : WDone s' := by
  obtain ⟨l1, l2, l3, l4⟩ := hl
  cases e
  all_goals open_step hs
  all_goals (intro w')
  all_goals (have := h w'; have := hf w')
  all_goals (simp only [allPhase_iff, goingPhase] at *; unfold_setters)
  all_goals (try (simp_all; done))
  all_goals (try grind)

/-- I9 (needs the yield before the signal): a spawned-but-unpolled connection belongs to a worker that has
    not signalled yet; hence no connection is ever first polled after the signal. -/
def NoCancel (s : State) : Prop := ∀ c,
  ((s.c c).phase = .spawned →
      c ∈ (s.w (s.c c).worker).started ∧ (s.w (s.c c).worker).signalled = false) ∧
    (s.c c).cancelled = false ∧ (s.c c).phase ≠ .doomed

theorem nocancel_init : NoCancel init := by
  intro c; simp [init]

theorem nocancel_step {cfg : Cfg} {s s' : State} {e : Event} (hy : cfg.yieldPolicy = .always)
    (h : NoCancel s) (hc : Coupling s) (hf : WFlags s) (hs : step cfg s e = some s') : NoCancel s' := by
  cases e
  all_goals open_step hs
  all_goals (intro c')
  all_goals (have := h c')
  all_goals (simp only [Coupling, WFlags, Worker.pristine] at hc hf)
  all_goals ((try simp only [allPhase_iff, Cfg.yields, hy] at *); unfold_setters)
  all_goals (try (simp_all; done))
  all_goals (try grind [sentTo])

/-- I10: every worker acts on the mode the acceptor took from the caller. -/
def ModeAgree (s : State) : Prop := ∀ w,
  (∀ m, m ∈ (s.w w).cmds → s.acc.mode = some m) ∧
    ((s.w w).phase ≠ .running → (s.acc.mode = some .forced ↔ (s.w w).forced = true))

theorem modeagree_init : ModeAgree init := by
  intro w; simp [init]

theorem modeagree_step {cfg : Cfg} {s s' : State} {e : Event} (h : ModeAgree s) (hc : Coupling s)
    (ha : AFlags cfg s) (hs : step cfg s e = some s') : ModeAgree s' := by
  obtain ⟨a1, a2, a3, a4, a5, a6, a7⟩ := ha
  cases e
  all_goals open_step hs
  all_goals (intro w')
  all_goals (have := h w'; have := hc w')
  all_goals (simp only [Worker.pristine] at *; unfold_setters)
  all_goals (try (simp_all [sentTo]; done))
  all_goals (try grind [sentTo])

/-- All invariants that hold for every configuration. -/
structure Inv (cfg : Cfg) (s : State) : Prop where
  coupling : Coupling s
  wflags : WFlags s
  aflags : AFlags cfg s
  links : Links s
  conserv : Conserv s
  drained : Drained s
  resol : Resol cfg s
  wdone : WDone s
  modeagree : ModeAgree s
  ranges : Ranges cfg s

theorem inv_init (cfg : Cfg) : Inv cfg init :=
  ⟨coupling_init, wflags_init, aflags_init cfg, links_init, conserv_init, drained_init, resol_init cfg,
    wdone_init, modeagree_init, ranges_init cfg⟩

theorem inv_step {cfg : Cfg} {s s' : State} {e : Event} (h : Inv cfg s) (hs : step cfg s e = some s') :
    Inv cfg s' :=
  ⟨coupling_step h.coupling hs, wflags_step h.wflags hs, aflags_step h.aflags hs, links_step h.links hs,
    conserv_step h.conserv hs, drained_step h.drained h.coupling h.wflags hs, resol_step h.resol h.aflags hs,
    wdone_step h.wdone h.links h.wflags hs, modeagree_step h.modeagree h.coupling h.aflags hs,
    ranges_step h.ranges hs⟩

theorem run_cons {cfg : Cfg} {s s' : State} {e : Event} {es : List Event} (h : run cfg s (e :: es) = some s') :
    ∃ s₁, step cfg s e = some s₁ ∧ run cfg s₁ es = some s' := by
  simp only [run] at h
  split at h
  · exact ⟨_, ‹_›, h⟩
  · cases h

theorem run_append {cfg : Cfg} {s s' : State} {es₁ es₂ : List Event} (h : run cfg s (es₁ ++ es₂) = some s') :
    ∃ s₁, run cfg s es₁ = some s₁ ∧ run cfg s₁ es₂ = some s' := by
  induction es₁ generalizing s with
  | nil => exact ⟨s, rfl, h⟩
  | cons e es ih =>
    obtain ⟨s₁, h1, h2⟩ := run_cons h
    obtain ⟨s₂, h3, h4⟩ := ih h2
    exact ⟨s₂, by simp [run, h1, h3], h4⟩

theorem run_append_of {cfg : Cfg} {s s₁ s' : State} {es₁ es₂ : List Event} (h1 : run cfg s es₁ = some s₁)
    (h2 : run cfg s₁ es₂ = some s') : run cfg s (es₁ ++ es₂) = some s' := by
  induction es₁ generalizing s with
  | nil => cases h1; exact h2
  | cons e es ih =>
    obtain ⟨s₂, h3, h4⟩ := run_cons h1
    simp [run, h3, ih h4]

theorem inv_run {cfg : Cfg} {s s' : State} {es : List Event} (h : Inv cfg s) (hr : run cfg s es = some s') :
    Inv cfg s' := by
  induction es generalizing s with
  | nil => cases hr; exact h
  | cons e es ih =>
    obtain ⟨s₁, h1, h2⟩ := run_cons hr
    exact ih (inv_step h h1) h2

/-- `s` occurs in some execution from the initial state. -/
def Reachable (cfg : Cfg) (s : State) : Prop := ∃ es, run cfg init es = some s

theorem inv_reachable {cfg : Cfg} {s : State} (h : Reachable cfg s) : Inv cfg s := by
  obtain ⟨es, hr⟩ := h
  exact inv_run (inv_init cfg) hr

theorem nocancel_reachable {cfg : Cfg} {s : State} (hy : cfg.yieldPolicy = .always) (h : Reachable cfg s) :
    NoCancel s := by
  obtain ⟨es, hr⟩ := h
  have key : ∀ (es : List Event) (s₀ : State), Inv cfg s₀ → NoCancel s₀ → run cfg s₀ es = some s → NoCancel s := by
    intro es
    induction es with
    | nil => intro s₀ _ hn hr; cases hr; exact hn
    | cons e es ih =>
      intro s₀ hi hn hr
      obtain ⟨s₁, h1, h2⟩ := run_cons hr
      exact ih s₁ (inv_step hi h1) (nocancel_step hy hn hi.coupling hi.wflags h1) h2
  exact key es init (inv_init cfg) nocancel_init hr

/-- Once the acceptor has left `listening` it never returns there, and nothing is dispatched any more. -/
theorem frozen_step {cfg : Cfg} {s s' : State} {e : Event} (hp : s.acc.phase ≠ .listening)
    (hs : step cfg s e = some s') :
    s'.acc.phase ≠ .listening ∧ ∀ w, (s'.w w).dispatched = (s.w w).dispatched := by
  cases e
  all_goals open_step hs
  all_goals unfold_setters
  all_goals (try (simp_all; done))
  all_goals (try (refine ⟨by simp_all, fun w => ?_⟩; split <;> simp_all))

theorem frozen_run {cfg : Cfg} {s s' : State} {es : List Event} (hp : s.acc.phase ≠ .listening)
    (hr : run cfg s es = some s') :
    s'.acc.phase ≠ .listening ∧ ∀ w, (s'.w w).dispatched = (s.w w).dispatched := by
  induction es generalizing s with
  | nil => cases hr; exact ⟨hp, fun _ => rfl⟩
  | cons e es ih =>
    obtain ⟨s₁, h1, h2⟩ := run_cons hr
    obtain ⟨hp1, hd1⟩ := frozen_step hp h1
    obtain ⟨hp2, hd2⟩ := ih hp1 h2
    exact ⟨hp2, fun w => (hd2 w).trans (hd1 w)⟩

/-- After the signal a worker starts no further connection. -/
theorem started_frozen_step {cfg : Cfg} {s s' : State} {e : Event} (hf : WFlags s) (hc : Coupling s) (w : Nat)
    (hsig : (s.w w).signalled = true) (hs : step cfg s e = some s') :
    (s'.w w).signalled = true ∧ (s'.w w).started = (s.w w).started := by
  have := hf w
  have := hc w
  cases e
  all_goals open_step hs
  all_goals (simp only [Worker.pristine] at *; unfold_setters)
  all_goals (try (simp_all; done))
  all_goals (try (split <;> simp_all [sentTo]))
  all_goals (try grind [sentTo])

/-! ### Progress building blocks -/

/-- The acceptor's own remaining steps from phase `sending m i`. -/
def accTail (cfg : Cfg) (m : Mode) (i : Nat) : List Event :=
  (List.range' i (cfg.n - i)).map .accSend ++
    (match m with
     | .graceful => [.accWaitStart, .accWaitEnd .timeout, .accNotify, .accExit]
     | .forced => [.accNotify, .accExit])

theorem accTail_runs (cfg : Cfg) (s : State) (m : Mode) (i : Nat) (hp : s.acc.phase = .sending m i) (hi : i ≤ cfg.n) :
    ∃ s', run cfg s (accTail cfg m i) = some s' ∧ s'.acc.phase = .exited := by
  generalize hk : cfg.n - i = k
  induction k generalizing s i with
  | zero =>
    have : i = cfg.n := by omega
    subst this
    cases m
    · exact ⟨_, by simp [accTail, run, step, hp]; rfl, rfl⟩
    · exact ⟨_, by simp [accTail, run, step, hp]; rfl, rfl⟩
  | succ k ih =>
    have hlt : i < cfg.n := by omega
    let s₁ := (s.setAcc { s.acc with phase := .sending m (i + 1) }).setW i
      { s.w i with cmds := (s.w i).cmds ++ [m] }
    have hstep : step cfg s (.accSend i) = some s₁ := by
      simp [step, hp, hlt, s₁]
    obtain ⟨s', hr, hex⟩ := ih s₁ (i + 1) (by simp [s₁]) (by omega) (by omega)
    refine ⟨s', ?_, hex⟩
    have hn : cfg.n - i = (cfg.n - (i + 1)) + 1 := by omega
    simp only [accTail, hn, List.range'_succ, List.map_cons, List.cons_append, run, hstep]
    exact hr


/-- The acceptor is listening, a `shutdown(m)` call is pending, the dispatch counters are in range and no
    worker inbox is closed. -/
def TakeReady (cfg : Cfg) (m : Mode) (s : State) : Prop :=
  s.acc.phase = .listening ∧ m ∈ s.acc.calls ∧ s.acc.next < cfg.n ∧ s.acc.tries ≤ cfg.n ∧
    ∀ w, (s.w w).closed = false

theorem take_now (cfg : Cfg) (m : Mode) (s : State) (h : TakeReady cfg m s) (hc : s.acc.cur = none) :
    ∃ s', run cfg s [.accShutdown m] = some s' ∧ s'.acc.phase = .sending m 0 := by
  obtain ⟨h1, h2, _, _, _⟩ := h
  simp [run, step, h1, h2, hc]

theorem take_after_dispatch (cfg : Cfg) (m : Mode) (k : Nat) :
    ∀ (s : State) (c : Nat), TakeReady cfg m s → s.acc.cur = some c → cfg.n - s.acc.tries = k →
      ∃ es s', run cfg s es = some s' ∧ s'.acc.phase = .sending m 0 ∧ es.length ≤ k + 2 := by
  induction k with
  | zero =>
    intro s c h hc hk
    obtain ⟨h1, h2, h3, h4, h5⟩ := h
    have ht : s.acc.tries = cfg.n := by omega
    have hd : ∃ s₁, step cfg s (.dropConn c) = some s₁ ∧ TakeReady cfg m s₁ ∧ s₁.acc.cur = none := by
      simp [step, h1, hc, ht, TakeReady, h2, h3, h5]
    obtain ⟨s₁, g1, g2, g3⟩ := hd
    obtain ⟨s', g4, g5⟩ := take_now cfg m s₁ g2 g3
    exact ⟨[.dropConn c, .accShutdown m], s', by simpa [run, g1] using g4, g5, by simp⟩
  | succ k ih =>
    intro s c h hc hk
    obtain ⟨h1, h2, h3, h4, h5⟩ := h
    have ht : s.acc.tries < cfg.n := by omega
    by_cases hq : (s.w s.acc.next).queue.length < cfg.cap
    · have hd : ∃ s₁, step cfg s (.dispatch c s.acc.next .ok) = some s₁ ∧ TakeReady cfg m s₁ ∧ s₁.acc.cur = none := by
        refine ⟨_, by simp [step, h1, hc, ht, h3, h5, hq]; rfl, ?_, by simp⟩
        refine ⟨by simp, by simp [h2], by simp [h3], by simp [h4], fun w => ?_⟩
        simp only [setC_w, setW_w, setAcc_w]
        split <;> simp [h5]
      obtain ⟨s₁, g1, g2, g3⟩ := hd
      obtain ⟨s', g4, g5⟩ := take_now cfg m s₁ g2 g3
      exact ⟨[.dispatch c s.acc.next .ok, .accShutdown m], s', by simpa [run, g1] using g4, g5, by simp⟩
    · have hd : ∃ s₁, step cfg s (.dispatch c s.acc.next .full) = some s₁ ∧ TakeReady cfg m s₁ ∧
          s₁.acc.cur = some c ∧ cfg.n - s₁.acc.tries = k := by
        refine ⟨_, by simp [step, h1, hc, ht, h3, h5, Nat.le_of_not_lt hq]; rfl, ?_, by simp, by simp; omega⟩
        exact ⟨by simp, by simp [h2], by simp; exact Nat.mod_lt _ (by omega), by simp; omega, fun w => by simp [h5]⟩
      obtain ⟨s₁, g1, g2, g3, g4⟩ := hd
      obtain ⟨es, s', g5, g6, g7⟩ := ih s₁ c g2 g3 g4
      exact ⟨.dispatch c s.acc.next .full :: es, s', by simpa [run, g1] using g5, g6, by simp; omega⟩


theorem drain_all (cfg : Cfg) (w : Nat) : ∀ (q : List Nat) (s : State), (s.w w).phase = .draining → (s.w w).queue = q →
    ∃ es s', run cfg s es = some s' ∧ (s'.w w).phase = .drained := by
  intro q
  induction q with
  | nil =>
    intro s hp hq
    exact ⟨[.wDrainEnd w], _, by simp [run, step, hp, hq]; rfl, by simp⟩
  | cons c rest ih =>
    intro s hp hq
    have h1 : step cfg s (.wDrain w c) = some (startConn s w c rest true) := by simp [step, hq, hp]
    obtain ⟨es, s', g1, g2⟩ := ih (startConn s w c rest true) (by simp [startConn, hp]) (by simp [startConn])
    exact ⟨.wDrain w c :: es, s', by simpa [run, h1] using g1, g2⟩

theorem poll_all (cfg : Cfg) (w : Nat) : ∀ (l : List Nat) (s : State), (s.w w).phase = .drained →
    (s.w w).signalled = false → (∀ c, c ∈ l → (s.c c).worker = w) →
    ∃ es s', run cfg s es = some s' ∧ s'.w = s.w ∧
      (∀ c, (s.c c).phase ≠ .spawned → (s'.c c).phase ≠ .spawned) ∧ (∀ c, c ∈ l → (s'.c c).phase ≠ .spawned) := by
  intro l
  induction l with
  | nil => intro s _ _ _; exact ⟨[], s, rfl, rfl, fun _ h => h, fun _ h => by cases h⟩
  | cons c l ih =>
    intro s hp hs hw
    by_cases hc : (s.c c).phase = .spawned
    · have hwc := hw c (by simp)
      have h1 : step cfg s (.cPoll c) = some (s.setC c { s.c c with phase := .idle }) := by
        simp [step, hc, workerAlive, hwc, hp, hs]
      obtain ⟨es, s', g1, g2, g3, g4⟩ := ih (s.setC c { s.c c with phase := .idle }) (by simpa using hp)
        (by simpa using hs) (fun c' hc' => by
          simp only [setC_c]; split
          · rename_i h; subst h; exact hwc
          · exact hw c' (by simp [hc']))
      refine ⟨.cPoll c :: es, s', by simpa [run, h1] using g1, by simpa using g2, fun c' h' => ?_, fun c' hc' => ?_⟩
      · apply g3; simp only [setC_c]; split <;> simp_all
      · cases hc' with
        | head => apply g3; simp
        | tail _ hm => exact g4 c' hm
    · obtain ⟨es, s', g1, g2, g3, g4⟩ := ih s hp hs (fun c' hc' => hw c' (by simp [hc']))
      refine ⟨es, s', g1, g2, g3, fun c' hc' => ?_⟩
      cases hc' with
      | head => exact g3 c hc
      | tail _ hm => exact g4 c' hm


end Pxv.Server
