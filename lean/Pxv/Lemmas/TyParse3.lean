import Pxv.Lemmas.TyParse2
/-! Helper lemmas for C17: `parse (render t) = strip t` — the main induction. -/
namespace Pxv.Ty

/-! Fuel the reader needs (nesting depth of its calls). -/
mutual
def need : Ty → Nat
  | .path _ _ _ _ as => needArgs as + 2
  | .ref _ _ t => need t + 1
  | .tuple es => needTys es + 1
  | .scalar _ => 2
  | .slice e => need e + 1
  | .array e _ => need e + 1
  | .rawPtr _ t => need t + 1
  | .fnPtr ins out _ _ => max (needIns ins) (needO out) + 3
  | .generic _ => 2
def needArgs : GArgs → Nat
  | .nil => 1
  | .ty t r => max (need t + 1) (needArgs r) + 1
  | .lt _ r => needArgs r + 1
  | .const _ r => needArgs r + 1
def needTys : Tys → Nat
  | .nil => 1
  | .cons t r => max (need t) (needTys r) + 1
def needIns : FnIns → Nat
  | .nil => 1
  | .cons _ t r => max (need t + 1) (needIns r) + 1
def needO : OTy → Nat
  | .none => 0
  | .some t => need t
end

theorem needArgs_pos (as : GArgs) : 1 ≤ needArgs as := by
  cases as <;> simp [needArgs]

theorem toList_mutsp : "mut ".toList = "mut".toList ++ [' '] := by decide
theorem idChars_mut : ∀ c ∈ "mut".toList, isIdChar c = true := by decide
theorem toList_mut_ne (X : List Char) : ∀ r, "mut ".toList ++ X ≠ '\'' :: r := by
  intro r; rw [toList_mutsp]; simp

theorem follow_comma (X : List Char) : follow (',' :: X) = true := rfl
theorem follow_rparen (X : List Char) : follow (')' :: X) = true := rfl
theorem follow_rbrack (X : List Char) : follow (']' :: X) = true := rfl
theorem follow_semi (X : List Char) : follow (';' :: X) = true := rfl
theorem follow_gt (X : List Char) : follow ('>' :: X) = true := rfl

theorem dropPrefix?_head_ne {a b : Char} (p s : List Char) (h : a ≠ b) : dropPrefix? (a :: p) (b :: s) = none := by
  simp [dropPrefix?, h]

theorem dropPrefix?_nil_right {a : Char} (p : List Char) : dropPrefix? (a :: p) [] = none := rfl

theorem toList_commasp : ", ".toList = [',', ' '] := by decide

theorem follow_tys (r : Tys) (X : List Char) (hX : follow X = true) : follow (renderTysD false false r ++ X) = true := by
  cases r with
  | nil => simpa [renderTysD] using hX
  | cons t r' => simp [renderTysD, sepIf, toList_commasp, follow]

theorem follow_args (r : GArgs) (X : List Char) (hX : follow X = true) : follow (renderArgsD false false r ++ X) = true := by
  cases r with
  | nil => simpa [renderArgsD] using hX
  | ty t r' => simp [renderArgsD, sepIf, toList_commasp, follow]
  | lt l r' => simp [renderArgsD, sepIf, toList_commasp, follow]
  | const v r' => simp [renderArgsD, sepIf, toList_commasp, follow]

theorem follow_ins (r : FnIns) (X : List Char) (hX : follow X = true) : follow (renderInsD false false r ++ X) = true := by
  cases r with
  | nil => simpa [renderInsD] using hX
  | cons n t r' => simp [renderInsD, sepIf, toList_commasp, follow]

/-- What follows a generic argument is neither an identifier character nor a digit. -/
theorem follow_notId_notDigit {X : List Char} (h : follow X = true) :
    X = [] ∨ ∃ c r, X = c :: r ∧ isIdChar c = false ∧ c.isDigit = false := by
  rcases follow_facts h with h | ⟨c, r, h, h1, h2, _⟩
  · exact Or.inl h
  · exact Or.inr ⟨c, r, h, h1, h2⟩

theorem follow_notColon {X : List Char} (h : follow X = true) :
    X = [] ∨ ∃ c r, X = c :: r ∧ isIdChar c = false ∧ c ≠ ':' := by
  rcases follow_facts h with h | ⟨c, r, h, h1, _, h3, _⟩
  · exact Or.inl h
  · exact Or.inr ⟨c, r, h, h1, h3⟩

mutual
theorem parseTy_render : ∀ (t : Ty) (f : Nat) (rest : List Char), wf t = true → need t ≤ f →
    follow rest = true → parseTy f (renderD false t ++ rest) = some (strip t, rest)
  | .ref m l t, f, rest, hw, hf, hr => by
      simp only [wf, Bool.and_eq_true] at hw
      simp only [need] at hf
      obtain ⟨f', rfl⟩ : ∃ f', f = f' + 1 := ⟨f - 1, by omega⟩
      have ih := parseTy_render t f' rest hw.2 (by omega) hr
      have hh := render_head t rest hw.2 hr
      obtain ⟨c, r, hs, hq, _⟩ := first_facts hh.first
      simp only [renderD, List.cons_append, List.append_assoc]
      unfold parseTy
      simp only []
      cases m with
      | true =>
        simp only [if_true]
        rw [parseRefLt_render l _ hw.1 (toList_mut_ne _)]
        have hsp : spanP isIdChar ("mut ".toList ++ (renderD false t ++ rest)) =
            ("mut".toList, ' ' :: (renderD false t ++ rest)) := by
          rw [toList_mutsp, List.append_assoc]
          exact spanP_append _ _ idChars_mut (Or.inr ⟨' ', _, rfl, by decide⟩)
        simp only [hsp, if_true, ih, strip]
      | false =>
        simp only [Bool.false_eq_true, if_false, List.nil_append]
        rw [parseRefLt_render l _ hw.1 (by intro r' e; rw [hs] at e; injection e with e1 _; exact hq e1)]
        simp only [hh.notMut, if_false, ih, strip]
  | .path al p i bs as, f, rest, hw, hf, hr => by
      simp only [wf, Bool.and_eq_true, decide_eq_true_eq, List.all_eq_true] at hw
      obtain ⟨⟨hlen, hid⟩, hwa⟩ := hw
      simp only [need] at hf
      obtain ⟨f', rfl⟩ : ∃ f', f = f' + 2 := ⟨f - 2, by omega⟩
      match bs, hlen, hid with
      | s0 :: s1 :: more, _, hid =>
        have h0 := hid s0 (by simp)
        have hu := isIdent_unpack h0
        obtain ⟨c0, r0, hx0, hc0⟩ := hu.1
        -- the text after the path segments, and what the reader makes of it
        have key : ∀ Y : List Char, (Y = [] ∨ ∃ c r, Y = c :: r ∧ isIdChar c = false ∧ c ≠ ':') →
            spanP isIdChar (s0.toList ++ (segStr (s1 :: more) ++ Y)) = (s0.toList, segStr (s1 :: more) ++ Y) ∧
            parseSegs (segStr (s1 :: more) ++ Y).length (segStr (s1 :: more) ++ Y) = (s1 :: more, Y) := by
          intro Y hY
          constructor
          · exact spanP_append _ _ hu.2.1 (Or.inr ⟨':', _, rfl, by decide⟩)
          · apply parseSegs_segStr _ _ _ _ (fun x hx => hid x (by simp at hx ⊢; rcases hx with h | h <;> simp [h])) hY
            have := segStr_length (s1 :: more)
            simp only [List.length_append]
            omega
        have notkw : ¬ (s0.toList = "unsafe".toList ∨ s0.toList = "extern".toList ∨ s0.toList = "fn".toList) := by
          intro h; rcases h with h | h | h
          · exact isIdent_not_kw h0 (by decide) h
          · exact isIdent_not_kw h0 (by decide) h
          · exact isIdent_not_kw h0 (by decide) h
        have hne : ¬ s0.toList = [] := by rw [hx0]; simp
        rw [renderD_path, joinSep_cons, List.append_assoc, List.append_assoc]
        rw [hx0, List.cons_append, parseTy_idLed hc0, ← List.cons_append, ← hx0]
        unfold parseIdLed
        match as, hwa, hf with
        | .nil, _, _ =>
          have k := key rest (follow_notColon hr)
          simp only [argsPart, List.nil_append, k.1, k.2]
          rw [if_neg hne, if_neg notkw]
          simp only [strip, stripArgs, String.ofList_toList]
          split
          · exact absurd hr (by simp [follow])
          · rfl
        | .ty t r, hwa, hf =>
          simp only [wfArgs, Bool.and_eq_true] at hwa
          simp only [needArgs] at hf
          obtain ⟨f'', rfl⟩ : ∃ f'', f' = f'' + 1 := ⟨f' - 1, by omega⟩
          have hfX : follow (renderArgsD false false r ++ ('>' :: rest)) = true := follow_args r _ (follow_gt _)
          have ih := parseTy_render t f'' _ hwa.1 (by omega) hfX
          have hh := render_head t _ hwa.1 hfX
          have ha := parseArg_ty hh ih
          have ihr := parseArgsTail_render r (f'' + 1) ('>' :: rest) hwa.2 (by omega) ⟨rest, rfl⟩
          have k := key ('<' :: (renderD false t ++ (renderArgsD false false r ++ ('>' :: rest))))
            (Or.inr ⟨'<', _, rfl, by decide, by decide⟩)
          have hstr : argsPart (.ty t r) ++ rest =
              '<' :: (renderD false t ++ (renderArgsD false false r ++ ('>' :: rest))) := by
            simp [argsPart, renderArgsD, sepIf]
          rw [hstr]
          simp only [k.1, k.2]
          rw [if_neg hne, if_neg notkw]
          simp only [ha, ihr, strip, stripArgs, PArg.cons, String.ofList_toList]
        | .lt l r, hwa, hf =>
          simp only [wfArgs, Bool.and_eq_true] at hwa
          simp only [needArgs] at hf
          obtain ⟨f'', rfl⟩ : ∃ f'', f' = f'' + 1 := ⟨f' - 1, by omega⟩
          have hfX : follow (renderArgsD false false r ++ ('>' :: rest)) = true := follow_args r _ (follow_gt _)
          have ha := parseArg_lt (f := f'') l _ hwa.1 (follow_notId hfX)
          have ihr := parseArgsTail_render r (f'' + 1) ('>' :: rest) hwa.2 (by omega) ⟨rest, rfl⟩
          have k := key ('<' :: (renderGLt false l ++ (renderArgsD false false r ++ ('>' :: rest))))
            (Or.inr ⟨'<', _, rfl, by decide, by decide⟩)
          have hstr : argsPart (.lt l r) ++ rest =
              '<' :: (renderGLt false l ++ (renderArgsD false false r ++ ('>' :: rest))) := by
            simp [argsPart, renderArgsD, sepIf]
          rw [hstr]
          simp only [k.1, k.2]
          rw [if_neg hne, if_neg notkw]
          simp only [ha, ihr, strip, stripArgs, PArg.cons, String.ofList_toList]
        | .const v r, hwa, hf =>
          simp only [wfArgs, Bool.and_eq_true] at hwa
          simp only [needArgs] at hf
          obtain ⟨f'', rfl⟩ : ∃ f'', f' = f'' + 1 := ⟨f' - 1, by omega⟩
          have hfX : follow (renderArgsD false false r ++ ('>' :: rest)) = true := follow_args r _ (follow_gt _)
          have ha := parseArg_const (f := f'') v _ hwa.1 (follow_notId_notDigit hfX)
          have ihr := parseArgsTail_render r (f'' + 1) ('>' :: rest) hwa.2 (by omega) ⟨rest, rfl⟩
          have k := key ('<' :: (v.toList ++ (renderArgsD false false r ++ ('>' :: rest))))
            (Or.inr ⟨'<', _, rfl, by decide, by decide⟩)
          have hstr : argsPart (.const v r) ++ rest =
              '<' :: (v.toList ++ (renderArgsD false false r ++ ('>' :: rest))) := by
            simp [argsPart, renderArgsD, sepIf]
          rw [hstr]
          simp only [k.1, k.2]
          rw [if_neg hne, if_neg notkw]
          simp only [ha, ihr, strip, stripArgs, PArg.cons, String.ofList_toList]
  | .tuple .nil, f, rest, hw, hf, hr => by
      simp only [need, needTys] at hf
      obtain ⟨f', rfl⟩ : ∃ f', f = f' + 1 := ⟨f - 1, by omega⟩
      simp only [renderD, renderTysD, tysLen, List.cons_append, List.nil_append]
      unfold parseTy
      simp [strip, stripTys]
  | .tuple (.cons t r), f, rest, hw, hf, hr => by
      simp only [wf, wfTys, Bool.and_eq_true] at hw
      simp only [need, needTys] at hf
      obtain ⟨f', rfl⟩ : ∃ f', f = f' + 1 := ⟨f - 1, by omega⟩
      -- what comes after the elements
      have hX2 : ∃ X2, ((if tysLen (.cons t r) = 1 then [','] else []) ++ [')']) ++ rest = X2 ∧
          follow X2 = true ∧ (∀ q, X2 ≠ ',' :: ' ' :: q) ∧
          (match stripTys r, X2 with
            | .nil, ',' :: ')' :: r3 => some (Ty.tuple (.cons (strip t) .nil), r3)
            | .nil, ')' :: r3 => some (strip t, r3)
            | .cons t' ts', ')' :: r3 => some (Ty.tuple (.cons (strip t) (.cons t' ts')), r3)
            | _, _ => none) = some (Ty.tuple (.cons (strip t) (stripTys r)), rest) := by
        cases r with
        | nil => exact ⟨',' :: ')' :: rest, by simp [tysLen], rfl, by simp, by simp [stripTys]⟩
        | cons t' r' => exact ⟨')' :: rest, by simp [tysLen], rfl, by simp, by simp [stripTys]⟩
      obtain ⟨X2, hX2e, hX2f, hX2n, hX2m⟩ := hX2
      have ih := parseTy_render t f' (renderTysD false false r ++ X2) hw.1 (by omega) (follow_tys r X2 hX2f)
      have ihr := parseTysTail_render r f' X2 hw.2 (by omega) hX2f hX2n
      have hh := render_head t (renderTysD false false r ++ X2) hw.1 (follow_tys r X2 hX2f)
      obtain ⟨c, q, hs, _, _, hc, _⟩ := first_facts hh.first
      have hstr : renderD false (.tuple (.cons t r)) ++ rest =
          '(' :: (renderD false t ++ (renderTysD false false r ++ X2)) := by
        rw [← hX2e]
        simp [renderD, renderTysD, sepIf]
      rw [hstr]
      unfold parseTy
      simp only []
      split
      · rename_i heq; rw [hs] at heq; injection heq with e _; exact absurd e hc
      · simp only [ih, ihr, strip, stripTys]
        exact hX2m
  | .scalar s, f, rest, hw, hf, hr => by
      simp only [need] at hf
      obtain ⟨f', rfl⟩ : ∃ f', f = f' + 2 := ⟨f - 2, by omega⟩
      obtain ⟨c0, r0, h0, hc0⟩ := scalar_name_head s
      have hsp : spanP isIdChar (s.name.toList ++ rest) = (s.name.toList, rest) :=
        spanP_append _ _ (scalar_name_idChars s) (follow_notId hr)
      have nk := scalar_name_not_kw s
      have hsegs : parseSegs rest.length rest = ([], rest) := by
        have := parseSegs_segStr [] rest rest.length (by simp) (by simp) (by
          rcases follow_facts hr with h | ⟨c, r, h, h1, _, h3, _⟩
          · exact Or.inl h
          · exact Or.inr ⟨c, r, h, h1, h3⟩)
        simpa [segStr] using this
      simp only [renderD]
      rw [h0, List.cons_append, parseTy_idLed hc0, ← List.cons_append, ← h0]
      unfold parseIdLed
      simp only [hsp, hsegs, scalarOfName_name, strip]
      rw [if_neg (by rw [h0]; simp), if_neg (by
        intro h; rcases h with h | h | h
        · exact nk.1 h
        · exact nk.2.1 h
        · exact nk.2.2.1 h)]
  | .slice e, f, rest, hw, hf, hr => by
      simp only [wf] at hw
      simp only [need] at hf
      obtain ⟨f', rfl⟩ : ∃ f', f = f' + 1 := ⟨f - 1, by omega⟩
      have ih := parseTy_render e f' (']' :: rest) hw (by omega) (follow_rbrack _)
      simp only [renderD, List.cons_append, List.append_assoc, List.nil_append]
      unfold parseTy
      simp only [ih, strip]
  | .array e n, f, rest, hw, hf, hr => by
      simp only [wf] at hw
      simp only [need] at hf
      obtain ⟨f', rfl⟩ : ∃ f', f = f' + 1 := ⟨f - 1, by omega⟩
      have ih := parseTy_render e f' (';' :: ' ' :: (natDigits n ++ (']' :: rest))) hw (by omega) (follow_semi _)
      have hsp : spanP Char.isDigit (natDigits n ++ (']' :: rest)) = (natDigits n, ']' :: rest) :=
        spanP_append _ _ (natDigits_isDigit n) (Or.inr ⟨']', rest, rfl, by decide⟩)
      have e2 : "; ".toList = [';', ' '] := by decide
      simp only [renderD, e2, List.cons_append, List.append_assoc, List.nil_append]
      unfold parseTy
      simp only [ih, hsp, digitsVal_natDigits, strip]
      rw [if_neg (natDigits_ne_nil n)]
  | .rawPtr m t, f, rest, hw, hf, hr => by
      simp only [wf] at hw
      simp only [need] at hf
      obtain ⟨f', rfl⟩ : ∃ f', f = f' + 1 := ⟨f - 1, by omega⟩
      have ih := parseTy_render t f' rest hw (by omega) hr
      have e1 : "*mut ".toList = '*' :: "mut ".toList := by decide
      have e2 : "*const ".toList = '*' :: "const ".toList := by decide
      have d1 : ∀ X, dropPrefix? "mut ".toList ("mut ".toList ++ X) = some X := by
        intro X; simp [dropPrefix?]
      have d2 : ∀ X, dropPrefix? "mut ".toList ("const ".toList ++ X) = none := by
        intro X; simp [dropPrefix?]
      have d3 : ∀ X, dropPrefix? "const ".toList ("const ".toList ++ X) = some X := by
        intro X; simp [dropPrefix?]
      cases m with
      | true =>
        simp only [renderD, if_true, e1, List.cons_append, List.append_assoc]
        unfold parseTy
        simp only [d1, ih, strip]
      | false =>
        simp only [renderD, Bool.false_eq_true, if_false, e2, List.cons_append, List.append_assoc]
        unfold parseTy
        simp only [d2, d3, ih, strip]
  | .fnPtr ins out abi u, f, rest, hw, hf, hr => by
      simp only [wf, Bool.and_eq_true] at hw
      obtain ⟨⟨hwabi, hwins⟩, hwout⟩ := hw
      simp only [need] at hf
      obtain ⟨f', rfl⟩ : ∃ f', f = f' + 3 := ⟨f - 3, by omega⟩
      have hfi : needIns ins ≤ f' := by omega
      have hfo : needO out ≤ f' := by omega
      obtain ⟨w, q, hsp, hwk, _, c0, r0, h0, hc0⟩ := fn_span ins out abi u rest
      have hwne : ¬ w = [] := by rcases hwk with rfl | rfl | rfl <;> decide
      have step1 : parseTy (f' + 3) (renderD false (.fnPtr ins out abi u) ++ rest) =
          parseFn (f' + 1) (renderD false (.fnPtr ins out abi u) ++ rest) := by
        rw [h0, parseTy_idLed hc0, ← h0]
        unfold parseIdLed
        simp only [hsp]
        rw [if_neg hwne, if_pos hwk]
      have hstr : renderD false (.fnPtr ins out abi u) ++ rest =
          fnPrefix abi u ++ ("fn(".toList ++ (renderInsD false true ins ++ (')' :: (renderOD false out ++ rest)))) := by
        rw [render_fnPtr]; simp [fnBody]
      rw [step1, hstr]
      unfold parseFn
      simp only [parseFnPrefix_render abi u _ hwabi]
      match out, hwout, hfo with
      | .none, _, _ =>
        have e : " -> ".toList = ' ' :: ['-', '>', ' '] := by decide
        have dA : dropPrefix? " -> ".toList rest = none := by
          rcases follow_facts hr with h | ⟨c, r, h, _, _, _, _, h5, _⟩
          · rw [h, e]; rfl
          · rw [h, e]; exact dropPrefix?_head_ne _ _ (Ne.symm h5)
        simp only [renderOD, List.nil_append]
        match ins, hwins, hfi with
        | .nil, _, _ =>
          simp only [renderInsD, List.nil_append, startsWithRParen_cons, if_true, stripIns, strip, stripO, dA]
        | .cons n t r', hwins, hfi =>
          simp only [wfIns, Bool.and_eq_true] at hwins
          obtain ⟨⟨hwn, hwt⟩, hwr⟩ := hwins
          simp only [needIns] at hfi
          obtain ⟨f'', rfl⟩ : ∃ f'', f' = f'' + 1 := ⟨f' - 1, by omega⟩
          have hfZ : follow (renderInsD false false r' ++ ')' :: rest) = true :=
            follow_ins r' _ (follow_rparen _)
          have ih := parseTy_render t f'' _ hwt (by omega) hfZ
          have hh := render_head t _ hwt hfZ
          have ihr := parseInsTail_render r' (f'' + 1) (')' :: rest) hwr (by omega) ⟨_, rfl⟩
          match n, hwn with
          | none, _ =>
            obtain ⟨c, q', hs, _, _, hc, _⟩ := first_facts hh.first
            have hstr2 : renderInsD false true (.cons none t r') ++ ')' :: rest =
                renderD false t ++ (renderInsD false false r' ++ ')' :: rest) := by
              simp [renderInsD, sepIf]
            simp only [hstr2]
            have hnp : startsWithRParen (renderD false t ++ (renderInsD false false r' ++ ')' :: rest)) = false := by
              rw [hs]; exact startsWithRParen_ne _ hc
            simp only [hnp, Bool.false_eq_true, if_false, parseIn_unnamed hh ih, ihr, stripIns, strip, stripO, dA]
          | some x, hwn =>
            have hu := isIdent_unpack hwn
            obtain ⟨c1, q1, hx1, hc1⟩ := hu.1
            have hstr2 : renderInsD false true (.cons (some x) t r') ++ ')' :: rest =
                x.toList ++ (':' :: ' ' :: (renderD false t ++ (renderInsD false false r' ++ ')' :: rest))) := by
              have e : ": ".toList = [':', ' '] := by decide
              simp [renderInsD, sepIf, e]
            simp only [hstr2]
            have hnp : startsWithRParen (x.toList ++ (':' :: ' ' :: (renderD false t ++ (renderInsD false false r' ++ ')' :: rest)))) = false := by
              rw [hx1]; exact startsWithRParen_ne _ (by rintro rfl; exact absurd hc1 (by decide))
            simp only [hnp, Bool.false_eq_true, if_false, parseIn_named hwn ih, ihr, stripIns, strip, stripO, dA]
      | .some to, hwout, hfo =>
        simp only [wfO] at hwout
        simp only [needO] at hfo
        have iho := parseTy_render to f' rest hwout hfo hr
        have dA : dropPrefix? " -> ".toList (" -> ".toList ++ (renderD false to ++ rest)) = some (renderD false to ++ rest) :=
          dropPrefix?_append _ _
        simp only [renderOD, List.append_assoc]
        match ins, hwins, hfi with
        | .nil, _, _ =>
          simp only [renderInsD, List.nil_append, startsWithRParen_cons, if_true, stripIns, strip, stripO, dA, iho]
        | .cons n t r', hwins, hfi =>
          simp only [wfIns, Bool.and_eq_true] at hwins
          obtain ⟨⟨hwn, hwt⟩, hwr⟩ := hwins
          simp only [needIns] at hfi
          obtain ⟨f'', rfl⟩ : ∃ f'', f' = f'' + 1 := ⟨f' - 1, by omega⟩
          have hfZ : follow (renderInsD false false r' ++ ')' :: (" -> ".toList ++ (renderD false to ++ rest))) = true :=
            follow_ins r' _ (follow_rparen _)
          have ih := parseTy_render t f'' _ hwt (by omega) hfZ
          have hh := render_head t _ hwt hfZ
          have ihr := parseInsTail_render r' (f'' + 1) (')' :: (" -> ".toList ++ (renderD false to ++ rest))) hwr (by omega) ⟨_, rfl⟩
          match n, hwn with
          | none, _ =>
            obtain ⟨c, q', hs, _, _, hc, _⟩ := first_facts hh.first
            have hstr2 : renderInsD false true (.cons none t r') ++ ')' :: (" -> ".toList ++ (renderD false to ++ rest)) =
                renderD false t ++ (renderInsD false false r' ++ ')' :: (" -> ".toList ++ (renderD false to ++ rest))) := by
              simp [renderInsD, sepIf]
            simp only [hstr2]
            have hnp : startsWithRParen (renderD false t ++ (renderInsD false false r' ++ ')' :: (" -> ".toList ++ (renderD false to ++ rest)))) = false := by
              rw [hs]; exact startsWithRParen_ne _ hc
            simp only [hnp, Bool.false_eq_true, if_false, parseIn_unnamed hh ih, ihr, stripIns, strip, stripO, dA, iho]
          | some x, hwn =>
            have hu := isIdent_unpack hwn
            obtain ⟨c1, q1, hx1, hc1⟩ := hu.1
            have hstr2 : renderInsD false true (.cons (some x) t r') ++ ')' :: (" -> ".toList ++ (renderD false to ++ rest)) =
                x.toList ++ (':' :: ' ' :: (renderD false t ++ (renderInsD false false r' ++ ')' :: (" -> ".toList ++ (renderD false to ++ rest))))) := by
              have e : ": ".toList = [':', ' '] := by decide
              simp [renderInsD, sepIf, e]
            simp only [hstr2]
            have hnp : startsWithRParen (x.toList ++ (':' :: ' ' :: (renderD false t ++ (renderInsD false false r' ++ ')' :: (" -> ".toList ++ (renderD false to ++ rest)))))) = false := by
              rw [hx1]; exact startsWithRParen_ne _ (by rintro rfl; exact absurd hc1 (by decide))
            simp only [hnp, Bool.false_eq_true, if_false, parseIn_named hwn ih, ihr, stripIns, strip, stripO, dA, iho]
  | .generic x, f, rest, hw, hf, hr => by
      simp only [wf, Bool.and_eq_true, Bool.not_eq_true'] at hw
      simp only [need] at hf
      obtain ⟨f', rfl⟩ : ∃ f', f = f' + 2 := ⟨f - 2, by omega⟩
      have hu := isIdent_unpack hw.1
      obtain ⟨c0, r0, h0, hc0⟩ := hu.1
      have hsp : spanP isIdChar (x.toList ++ rest) = (x.toList, rest) :=
        spanP_append _ _ hu.2.1 (follow_notId hr)
      have hsegs : parseSegs rest.length rest = ([], rest) := by
        have := parseSegs_segStr [] rest rest.length (by simp) (by simp) (follow_notColon hr)
        simpa [segStr] using this
      simp only [renderD]
      rw [h0, List.cons_append, parseTy_idLed hc0, ← List.cons_append, ← h0]
      unfold parseIdLed
      simp only [hsp, hsegs, scalarOfName_none hw.2, strip, String.ofList_toList]
      rw [if_neg (by rw [h0]; simp), if_neg (by
        intro h; rcases h with h | h | h
        · exact isIdent_not_kw hw.1 (by decide) h
        · exact isIdent_not_kw hw.1 (by decide) h
        · exact isIdent_not_kw hw.1 (by decide) h)]
theorem parseArgsTail_render : ∀ (as : GArgs) (f : Nat) (X : List Char), wfArgs as = true → needArgs as ≤ f →
    (∃ q, X = '>' :: q) →
    parseArgsTail f (renderArgsD false false as ++ X) = some (stripArgs as, X)
  | .nil, f, X, hw, hf, hX => by
      simp only [needArgs] at hf
      obtain ⟨f', rfl⟩ : ∃ f', f = f' + 1 := ⟨f - 1, by omega⟩
      obtain ⟨q, rfl⟩ := hX
      simp only [renderArgsD, List.nil_append]
      unfold parseArgsTail
      rfl
  | .ty t r, f, X, hw, hf, hX => by
      simp only [wfArgs, Bool.and_eq_true] at hw
      simp only [needArgs] at hf
      obtain ⟨f', rfl⟩ : ∃ f', f = f' + 2 := ⟨f - 2, by omega⟩
      have hfX0 : follow X = true := by obtain ⟨q, rfl⟩ := hX; rfl
      have hfX : follow (renderArgsD false false r ++ X) = true := follow_args r _ hfX0
      have ih := parseTy_render t f' _ hw.1 (by omega) hfX
      have hh := render_head t _ hw.1 hfX
      have ha := parseArg_ty hh ih
      have ihr := parseArgsTail_render r (f' + 1) X hw.2 (by omega) hX
      simp only [renderArgsD, sepIf, Bool.false_eq_true, if_false, toList_commasp, List.cons_append,
        List.nil_append, List.append_assoc]
      unfold parseArgsTail
      simp only [ha, ihr, stripArgs, PArg.cons]
  | .lt l r, f, X, hw, hf, hX => by
      simp only [wfArgs, Bool.and_eq_true] at hw
      simp only [needArgs] at hf
      have := needArgs_pos r
      obtain ⟨f', rfl⟩ : ∃ f', f = f' + 2 := ⟨f - 2, by omega⟩
      have hfX0 : follow X = true := by obtain ⟨q, rfl⟩ := hX; rfl
      have hfX : follow (renderArgsD false false r ++ X) = true := follow_args r _ hfX0
      have ha := parseArg_lt (f := f') l _ hw.1 (follow_notId hfX)
      have ihr := parseArgsTail_render r (f' + 1) X hw.2 (by omega) hX
      simp only [renderArgsD, sepIf, Bool.false_eq_true, if_false, toList_commasp, List.cons_append,
        List.nil_append, List.append_assoc]
      unfold parseArgsTail
      simp only [ha, ihr, stripArgs, PArg.cons]
  | .const v r, f, X, hw, hf, hX => by
      simp only [wfArgs, Bool.and_eq_true] at hw
      simp only [needArgs] at hf
      have := needArgs_pos r
      obtain ⟨f', rfl⟩ : ∃ f', f = f' + 2 := ⟨f - 2, by omega⟩
      have hfX0 : follow X = true := by obtain ⟨q, rfl⟩ := hX; rfl
      have hfX : follow (renderArgsD false false r ++ X) = true := follow_args r _ hfX0
      have ha := parseArg_const (f := f') v _ hw.1 (follow_notId_notDigit hfX)
      have ihr := parseArgsTail_render r (f' + 1) X hw.2 (by omega) hX
      simp only [renderArgsD, sepIf, Bool.false_eq_true, if_false, toList_commasp, List.cons_append,
        List.nil_append, List.append_assoc]
      unfold parseArgsTail
      simp only [ha, ihr, stripArgs, PArg.cons]
theorem parseInsTail_render : ∀ (ins : FnIns) (f : Nat) (X : List Char), wfIns ins = true → needIns ins ≤ f →
    (∃ q, X = ')' :: q) →
    parseInsTail f (renderInsD false false ins ++ X) = some (stripIns ins, X)
  | .nil, f, X, hw, hf, hX => by
      simp only [needIns] at hf
      obtain ⟨f', rfl⟩ : ∃ f', f = f' + 1 := ⟨f - 1, by omega⟩
      obtain ⟨q, rfl⟩ := hX
      simp only [renderInsD, List.nil_append]
      unfold parseInsTail
      rfl
  | .cons n t r, f, X, hw, hf, hX => by
      simp only [wfIns, Bool.and_eq_true] at hw
      obtain ⟨⟨hwn, hwt⟩, hwr⟩ := hw
      simp only [needIns] at hf
      obtain ⟨f', rfl⟩ : ∃ f', f = f' + 2 := ⟨f - 2, by omega⟩
      have hfX0 : follow X = true := by obtain ⟨q, rfl⟩ := hX; rfl
      have hfX : follow (renderInsD false false r ++ X) = true := follow_ins r _ hfX0
      have ih := parseTy_render t f' _ hwt (by omega) hfX
      have hh := render_head t _ hwt hfX
      have ihr := parseInsTail_render r (f' + 1) X hwr (by omega) hX
      match n, hwn with
      | none, _ =>
        simp only [renderInsD, sepIf, Bool.false_eq_true, if_false, toList_commasp, List.cons_append,
          List.nil_append, List.append_assoc]
        unfold parseInsTail
        simp only [parseIn_unnamed hh ih, ihr, stripIns]
      | some x, hwn =>
        have e : ": ".toList = [':', ' '] := by decide
        simp only [renderInsD, sepIf, Bool.false_eq_true, if_false, toList_commasp, e, List.cons_append,
          List.nil_append, List.append_assoc]
        unfold parseInsTail
        simp only [parseIn_named hwn ih, ihr, stripIns]
theorem parseTysTail_render : ∀ (es : Tys) (f : Nat) (X : List Char), wfTys es = true → needTys es ≤ f →
    follow X = true → (∀ q, X ≠ ',' :: ' ' :: q) →
    parseTysTail f (renderTysD false false es ++ X) = some (stripTys es, X)
  | .nil, f, X, hw, hf, hX, hn => by
      simp only [needTys] at hf
      obtain ⟨f', rfl⟩ : ∃ f', f = f' + 1 := ⟨f - 1, by omega⟩
      simp only [renderTysD, List.nil_append]
      unfold parseTysTail
      split
      · exact (hn _ rfl).elim
      · rfl
  | .cons t r, f, X, hw, hf, hX, hn => by
      simp only [wfTys, Bool.and_eq_true] at hw
      simp only [needTys] at hf
      obtain ⟨f', rfl⟩ : ∃ f', f = f' + 1 := ⟨f - 1, by omega⟩
      have ih := parseTy_render t f' (renderTysD false false r ++ X) hw.1 (by omega) (follow_tys r X hX)
      have ihr := parseTysTail_render r f' X hw.2 (by omega) hX hn
      simp only [renderTysD, sepIf, Bool.false_eq_true, if_false, toList_commasp, List.cons_append,
        List.nil_append, List.append_assoc]
      unfold parseTysTail
      simp only [ih, ihr, stripTys]
end

end Pxv.Ty
