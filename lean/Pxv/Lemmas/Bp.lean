import Pxv.Model.Bp
/-! Helper lemmas for C19 (blueprint builder). -/
namespace Pxv.Bp

/-- `lastSome`, falling back to what was there before. -/
def lastSomeD {α β} (f : α → Option β) (l : List α) (d : Option β) : Option β :=
  match lastSome f l with
  | some b => some b
  | none => d

theorem lastSomeD_nil {α β} (f : α → Option β) (d : Option β) : lastSomeD f [] d = d := rfl

theorem lastSomeD_cons {α β} (f : α → Option β) (a : α) (l : List α) (d : Option β) :
    lastSomeD f (a :: l) d = lastSomeD f l (match f a with | some b => some b | none => d) := by
  unfold lastSomeD
  simp only [lastSome]
  cases lastSome f l <;> cases f a <;> rfl

theorem lastSomeD_none {α β} (f : α → Option β) (l : List α) : lastSomeD f l none = lastSome f l := by
  unfold lastSomeD
  cases lastSome f l <;> rfl

theorem modifyAt_append_length (comps : List Component) (x : Component) (f : Component → Component) :
    modifyAt comps.length f (comps ++ [x]) = comps ++ [f x] := by
  induction comps with
  | nil => rfl
  | cons c cs ih => simp [modifyAt, ih]

theorem foldl_modifyAt (comps : List Component) (x : Component) (mods : List (Component → Component)) :
    mods.foldl (fun cs f => modifyAt comps.length f cs) (comps ++ [x])
      = comps ++ [mods.foldl (fun c f => f c) x] := by
  induction mods generalizing x with
  | nil => rfl
  | cons m ms ih => simp only [List.foldl_cons, modifyAt_append_length, ih]

theorem pushThen_eq (comps : List Component) (init : Component) (mods : List (Component → Component)) :
    pushThen comps init mods = comps ++ [mods.foldl (fun c f => f c) init] := by
  unfold pushThen
  exact foldl_modifyAt comps init mods

/-! ### each modifier chain computes "last call wins" -/

theorem ctor_fold (c : Coords) (loc : Loc) (mods : List CtorMod) :
    ∀ (lc : Option Lifecycle) (cl : Option Cloning) (eh : Option EH) (lints : Lints),
    (mods.map applyCtorMod).foldl (fun x f => f x) (.constructor c lc cl eh lints loc)
      = .constructor c (lastSomeD ctorLifecycle mods lc) (lastSomeD ctorCloning mods cl)
          (lastSomeD ctorEh mods eh)
          { unused := lastSomeD (ctorLint .unused) mods lints.unused,
            errorFallback := lastSomeD (ctorLint .errorFallback) mods lints.errorFallback } loc := by
  induction mods with
  | nil => intro lc cl eh lints; simp [lastSomeD_nil]
  | cons m ms ih =>
    intro lc cl eh lints
    simp only [List.map_cons, List.foldl_cons, lastSomeD_cons]
    cases m with
    | lifecycle l => simp only [applyCtorMod, ih, ctorLifecycle, ctorCloning, ctorEh, ctorLint]
    | cloning x => simp only [applyCtorMod, ih, ctorLifecycle, ctorCloning, ctorEh, ctorLint]
    | cloneIfNecessary => simp only [applyCtorMod, ih, ctorLifecycle, ctorCloning, ctorEh, ctorLint]
    | neverClone => simp only [applyCtorMod, ih, ctorLifecycle, ctorCloning, ctorEh, ctorLint]
    | errorHandler hc hl => simp only [applyCtorMod, ih, ctorLifecycle, ctorCloning, ctorEh, ctorLint]
    | lint s l =>
      simp only [applyCtorMod, ih, ctorLifecycle, ctorCloning, ctorEh, ctorLint]
      cases l <;> simp [Lints.insert]

theorem eh_fold (k : HKind) (c : Coords) (loc : Loc) (ehs : List (Coords × Loc)) :
    ∀ (eh : Option EH),
    (ehs.map applyEh).foldl (fun x f => f x) (.handler k c loc eh)
      = .handler k c loc (lastSomeD (fun h => some ⟨h.1, h.2⟩) ehs eh) := by
  induction ehs with
  | nil => intro eh; simp [lastSomeD_nil]
  | cons h hs ih => intro eh; simp only [List.map_cons, List.foldl_cons, lastSomeD_cons, applyEh, ih]

theorem prebuilt_fold (c : Coords) (loc : Loc) (mods : List CfgMod) :
    ∀ (cl : Option Cloning),
    (mods.map applyCfgMod).foldl (fun x f => f x) (.prebuilt c cl loc)
      = .prebuilt c (lastSomeD cfgCloning mods cl) loc := by
  induction mods with
  | nil => intro cl; simp [lastSomeD_nil]
  | cons m ms ih =>
    intro cl
    simp only [List.map_cons, List.foldl_cons, lastSomeD_cons]
    cases m <;> simp only [applyCfgMod, ih, cfgCloning]

theorem config_fold (c : Coords) (loc : Loc) (mods : List CfgMod) :
    ∀ (cl : Option Cloning) (dim iiu : Option Bool),
    (mods.map applyCfgMod).foldl (fun x f => f x) (.config c cl dim iiu loc)
      = .config c (lastSomeD cfgCloning mods cl) (lastSomeD cfgDefault mods dim)
          (lastSomeD cfgInclude mods iiu) loc := by
  induction mods with
  | nil => intro cl dim iiu; simp [lastSomeD_nil]
  | cons m ms ih =>
    intro cl dim iiu
    simp only [List.map_cons, List.foldl_cons, lastSomeD_cons]
    cases m <;> simp only [applyCfgMod, ih, cfgCloning, cfgDefault, cfgInclude]

theorem runRMods_eq (rmods : List RMod) :
    ∀ st, runRMods rmods st = (lastSomeD rmodPrefix rmods st.1, lastSomeD rmodDomain rmods st.2) := by
  induction rmods with
  | nil => intro st; simp [runRMods, lastSomeD_nil]
  | cons m ms ih =>
    intro st
    cases m <;> simp only [runRMods, ih, lastSomeD_cons, rmodPrefix, rmodDomain]

end Pxv.Bp
