import Pxv.Model.Generate
/-! Helper lemmas about `doc[k] = v` on documents in key order (used by Thm/C10). -/
namespace Pxv.Gen

/-- generic "set key" on an association list in document order -/
def kset {β} (d : List (String × β)) (k : String) (f : Option β → β) : List (String × β) :=
  if d.any (·.1 == k) then d.map (fun e => if e.1 == k then (k, f (some e.2)) else e) else d ++ [(k, f none)]

theorem setTable_eq (d : Doc) (k t) : d.setTable k t = kset d k (fun _ => t) := by
  unfold Doc.setTable kset; rfl

theorem setIn_eq (d : Doc) (k k2 v) : d.setIn k k2 v = kset d k (fun o => match o with | some t => Tbl.set t k2 v | none => [(k2, v)]) := by
  unfold Doc.setIn kset; rfl

theorem any_map_key {β} (d : List (String × β)) (k k' : String) (g : String × β → β) :
    (d.map (fun e => if e.1 == k then (k, g e) else e)).any (·.1 == k') = d.any (·.1 == k') := by
  induction d with
  | nil => rfl
  | cons e d ih =>
    simp only [List.map_cons, List.any_cons, ih]
    by_cases h : e.1 == k
    · simp only [h, if_true]
      have : e.1 = k := by simpa using h
      simp [this]
    · simp [h]

theorem kset_any {β} (d : List (String × β)) (k f) : (kset d k f).any (·.1 == k) = true := by
  unfold kset
  split
  · rename_i h; rw [any_map_key]; exact h
  · simp

theorem kset_any_other {β} (d : List (String × β)) (k k' f) (h : k ≠ k') :
    (kset d k f).any (·.1 == k') = d.any (·.1 == k') := by
  unfold kset
  split
  · rw [any_map_key]
  · simp [h]

theorem kset_kset {β} (d : List (String × β)) (k f g) :
    kset (kset d k f) k g = kset d k (fun o => g (some (f o))) := by
  rw [kset, kset_any]
  simp only [if_true]
  unfold kset
  split
  · simp only [List.map_map]
    apply List.map_congr_left
    intro e _
    simp only [Function.comp]
    by_cases h : e.1 == k <;> simp [h]
  · rename_i h
    simp only [List.map_append, List.map_cons, List.map_nil, BEq.rfl, if_true]
    congr 1
    have : ∀ e ∈ d, (e.1 == k) = false := by
      intro e he
      have := h
      simp only [List.any_eq_true, not_exists, not_and, Bool.not_eq_true] at this
      exact this e he
    rw [List.map_congr_left (g := id)]
    · simp
    · intro e he; simp [this e he]
end Pxv.Gen

namespace Pxv.Gen

theorem map_key_comm {β} (d : List (String × β)) (k k' : String) (h : k ≠ k') (g g' : String × β → β) :
    (d.map (fun e => if e.1 == k then (k, g e) else e)).map (fun e => if e.1 == k' then (k', g' e) else e)
    = (d.map (fun e => if e.1 == k' then (k', g' e) else e)).map (fun e => if e.1 == k then (k, g e) else e) := by
  simp only [List.map_map]
  apply List.map_congr_left
  intro e _
  simp only [Function.comp]
  by_cases h1 : e.1 == k
  · have e1 : e.1 = k := by simpa using h1
    have h2 : (e.1 == k') = false := by simp [e1, h]
    have h3 : (k == k') = false := by simp [h]
    simp [h1, h2, h3]
  · by_cases h2 : e.1 == k'
    · have h3 : (k' == k) = false := by simp [Ne.symm h]
      simp [h1, h2, h3]
    · simp [h1, h2]

/-- setting key `k` (present) after setting another key `k'` = the other way round -/
theorem kset_comm_of_present {β} (d : List (String × β)) (k k' : String) (h : k ≠ k') (f f')
    (hk : d.any (·.1 == k) = true) :
    kset (kset d k' f') k f = kset (kset d k f) k' f' := by
  have a1 : (kset d k' f').any (·.1 == k) = true := by rw [kset_any_other _ _ _ _ (Ne.symm h)]; exact hk
  have a2 : (kset d k f).any (·.1 == k') = d.any (·.1 == k') := kset_any_other _ _ _ _ h
  rw [kset, a1]; simp only [if_true]
  conv => rhs; rw [kset, a2]
  by_cases hk' : d.any (·.1 == k') = true
  · simp only [hk', if_true]
    simp only [kset, hk, hk', if_true]
    exact (map_key_comm d k' k (Ne.symm h) (fun e => f' (some e.2)) (fun e => f (some e.2)))
  · simp only [hk', if_false, Bool.false_eq_true]
    simp only [kset, hk, hk', if_true, if_false, Bool.false_eq_true]
    simp [Ne.symm h]

end Pxv.Gen
