import Pxv.Model.Session
/-! Helper lemmas for C11/C12: the association lists behave as finite maps. -/
namespace Pxv.Session
namespace Map
variable {κ ν : Type} [DecidableEq κ]

@[simp] theorem lookup_nil (k : κ) : lookup ([] : Map κ ν) k = none := rfl

theorem lookup_erase (m : Map κ ν) (k k' : κ) :
    lookup (erase m k') k = if k' = k then none else lookup m k := by
  induction m with
  | nil => simp [erase, lookup]
  | cons p t ih =>
    obtain ⟨k'', v⟩ := p
    by_cases h1 : k'' = k'
    · subst h1
      by_cases h : k'' = k
      · subst h
        simpa [erase] using ih
      · simpa [erase, lookup, h] using ih
    · by_cases h2 : k'' = k
      · subst h2
        have : ¬ k' = k'' := fun e => h1 e.symm
        simp [erase, lookup, h1, this]
      · simp [erase, lookup, h1, h2, ih]

theorem lookup_erase_self (m : Map κ ν) (k : κ) : lookup (erase m k) k = none := by
  simp [lookup_erase]

theorem lookup_erase_ne (m : Map κ ν) {k k' : κ} (h : k' ≠ k) : lookup (erase m k') k = lookup m k := by
  simp [lookup_erase, h]

theorem lookup_insert (m : Map κ ν) (k k' : κ) (v : ν) :
    lookup (insert m k' v) k = if k' = k then some v else lookup m k := by
  by_cases h : k' = k
  · simp [insert, lookup, h]
  · simp [insert, lookup, h, lookup_erase]

/-- Emptiness is decided by the lookups: the list is a faithful finite map. -/
theorem isEmpty_iff (m : Map κ ν) : m.isEmpty = true ↔ ∀ k, lookup m k = none := by
  cases m with
  | nil => simp
  | cons p t =>
    obtain ⟨k, v⟩ := p
    simp only [List.isEmpty_cons, Bool.false_eq_true, false_iff]
    intro h
    have := h k
    simp [lookup] at this

end Map
end Pxv.Session
