import Pxv.Model.Ty
import Pxv.Model.TySpec
/-! Helper lemmas for C17 (type algebra). -/
namespace Pxv.Ty

theorem BLe.refl (b : List (String × Ty)) : BLe b b := fun _ _ h => h
theorem BLe.trans {a b c : List (String × Ty)} (h1 : BLe a b) (h2 : BLe b c) : BLe a c :=
  fun x v h => h2 x v (h1 x v h)

theorem bget_bset (b : List (String × Ty)) (k x : String) (v : Ty) :
    bget (bset b k v) x = if k = x then some v else bget b x := by
  simp [bset, bget]

theorem bindOne_spec {p : String} {c : Ty} {b b' : List (String × Ty)} (h : bindOne p c b = some b') :
    bget b' p = some c ∧ BLe b b' := by
  unfold bindOne at h
  split at h
  · rename_i prev hp
    split at h
    · rename_i hpc
      cases h
      refine ⟨by simp [bget_bset], ?_⟩
      intro x v hx
      rw [bget_bset]
      split
      · rename_i hk; subst hk; rw [hp] at hx; cases hx; rw [hpc]
      · exact hx
    · cases h
  · rename_i hp
    cases h
    refine ⟨by simp [bget_bset], ?_⟩
    intro x v hx
    rw [bget_bset]
    split
    · rename_i hk; subst hk; rw [hp] at hx; cases hx
    · exact hx

mutual
theorem bind_concrete (b : List (String × Ty)) : ∀ t, isTemplate t = false → bind b t = t
  | .path al p i bs as, h => by
      simp only [isTemplate] at h; simp only [bind, bind_concrete_args b as h]
  | .ref m l t, h => by simp only [isTemplate] at h; simp only [bind, bind_concrete b t h]
  | .tuple es, h => by simp only [isTemplate] at h; simp only [bind, bind_concrete_tys b es h]
  | .scalar s, _ => by simp only [bind]
  | .slice e, h => by simp only [isTemplate] at h; simp only [bind, bind_concrete b e h]
  | .array e n, h => by simp only [isTemplate] at h; simp only [bind, bind_concrete b e h]
  | .rawPtr m t, h => by simp only [isTemplate] at h; simp only [bind, bind_concrete b t h]
  | .fnPtr ins out abi u, h => by
      simp only [isTemplate, Bool.or_eq_false_iff] at h
      simp only [bind, bind_concrete_ins b ins h.1, bind_concrete_o b out h.2]
  | .generic x, h => by simp [isTemplate] at h
theorem bind_concrete_args (b : List (String × Ty)) : ∀ as, isTemplateArgs as = false → bindArgs b as = as
  | .nil, _ => by simp only [bindArgs]
  | .ty t r, h => by
      simp only [isTemplateArgs, Bool.or_eq_false_iff] at h
      simp only [bindArgs, bind_concrete b t h.1, bind_concrete_args b r h.2]
  | .lt l r, h => by simp only [isTemplateArgs] at h; simp only [bindArgs, bind_concrete_args b r h]
  | .const v r, h => by simp only [isTemplateArgs] at h; simp only [bindArgs, bind_concrete_args b r h]
theorem bind_concrete_tys (b : List (String × Ty)) : ∀ es, isTemplateTys es = false → bindTys b es = es
  | .nil, _ => by simp only [bindTys]
  | .cons t r, h => by
      simp only [isTemplateTys, Bool.or_eq_false_iff] at h
      simp only [bindTys, bind_concrete b t h.1, bind_concrete_tys b r h.2]
theorem bind_concrete_ins (b : List (String × Ty)) : ∀ es, isTemplateIns es = false → bindIns b es = es
  | .nil, _ => by simp only [bindIns]
  | .cons n t r, h => by
      simp only [isTemplateIns, Bool.or_eq_false_iff] at h
      simp only [bindIns, bind_concrete b t h.1, bind_concrete_ins b r h.2]
theorem bind_concrete_o (b : List (String × Ty)) : ∀ o, isTemplateO o = false → bindO b o = o
  | .none, _ => by simp only [bindO]
  | .some t, h => by simp only [isTemplateO] at h; simp only [bindO, bind_concrete b t h]
end


theorem genName_some {t : Ty} {x : String} (h : genName t = some x) : t = .generic x := by
  cases t <;> simp [genName] at h
  subst h; rfl

theorem bind_generic_of_get {b : List (String × Ty)} {x : String} {c : Ty} (h : bget b x = some c) :
    bind b (.generic x) = c := by
  simp [bind, h]

/-! Soundness of template matching against a *concrete* type: a successful match only extends the
bindings, and under every extension of the result, binding the template gives the concrete type up
to lifetimes. -/
mutual
theorem tmplGo_sound : ∀ (t c : Ty) (b b' : List (String × Ty)), isTemplate c = false →
    tmplGo t c b = some b' →
    BLe b b' ∧ ∀ b'', BLe b' b'' → eraseLt (bind b'' t) = eraseLt c
  | .path al p i bs as, c, b, b', hc, h => by
      unfold tmplGo at h
      split at h
      · rename_i heq; cases h; subst heq
        exact ⟨BLe.refl _, fun b'' _ => by rw [bind_concrete b'' _ hc]⟩
      · cases c <;> simp at h
        rename_i al' p' i' bs' as' _
        obtain ⟨⟨h1, h2, h3⟩, h⟩ := h
        subst h1 h2 h3
        simp only [isTemplate] at hc
        have := tmplArgs_sound as as' b b' hc h
        exact ⟨this.1, fun b'' hb => by simp only [bind, eraseLt, this.2 b'' hb]⟩
  | .ref m l t, c, b, b', hc, h => by
      unfold tmplGo at h
      split at h
      · rename_i heq; cases h; subst heq
        exact ⟨BLe.refl _, fun b'' _ => by rw [bind_concrete b'' _ hc]⟩
      · cases c <;> simp at h
        rename_i m' l' c _
        obtain ⟨h1, h⟩ := h
        subst h1
        simp only [isTemplate] at hc
        have := tmplGo_sound t c b b' hc h
        exact ⟨this.1, fun b'' hb => by simp only [bind, eraseLt, this.2 b'' hb]⟩
  | .tuple es, c, b, b', hc, h => by
      unfold tmplGo at h
      split at h
      · rename_i heq; cases h; subst heq
        exact ⟨BLe.refl _, fun b'' _ => by rw [bind_concrete b'' _ hc]⟩
      · cases c <;> simp at h
        rename_i cs _
        simp only [isTemplate] at hc
        have := tmplTys_sound es cs b b' hc h
        exact ⟨this.1, fun b'' hb => by simp only [bind, eraseLt, this.2 b'' hb]⟩
  | .scalar s, c, b, b', hc, h => by
      unfold tmplGo at h
      split at h
      · rename_i heq; cases h; subst heq
        exact ⟨BLe.refl _, fun b'' _ => by rw [bind_concrete b'' _ hc]⟩
      · cases c <;> simp at h
        rename_i s' hne
        exact absurd (by rw [h.1]) hne
  | .slice e, c, b, b', hc, h => by
      unfold tmplGo at h
      split at h
      · rename_i heq; cases h; subst heq
        exact ⟨BLe.refl _, fun b'' _ => by rw [bind_concrete b'' _ hc]⟩
      · cases c <;> simp at h
        rename_i c _
        simp only [isTemplate] at hc
        have := tmplGo_sound e c b b' hc h
        exact ⟨this.1, fun b'' hb => by simp only [bind, eraseLt, this.2 b'' hb]⟩
  | .array e n, c, b, b', hc, h => by
      unfold tmplGo at h
      split at h
      · rename_i heq; cases h; subst heq
        exact ⟨BLe.refl _, fun b'' _ => by rw [bind_concrete b'' _ hc]⟩
      · cases c <;> simp at h
        rename_i c n' _
        obtain ⟨h1, h⟩ := h
        subst h1
        simp only [isTemplate] at hc
        have := tmplGo_sound e c b b' hc h
        exact ⟨this.1, fun b'' hb => by simp only [bind, eraseLt, this.2 b'' hb]⟩
  | .rawPtr m t, c, b, b', hc, h => by
      unfold tmplGo at h
      split at h
      · rename_i heq; cases h; subst heq
        exact ⟨BLe.refl _, fun b'' _ => by rw [bind_concrete b'' _ hc]⟩
      · cases c <;> simp at h
        rename_i m' c _
        obtain ⟨h1, h⟩ := h
        subst h1
        simp only [isTemplate] at hc
        have := tmplGo_sound t c b b' hc h
        exact ⟨this.1, fun b'' hb => by simp only [bind, eraseLt, this.2 b'' hb]⟩
  | .fnPtr ins out abi u, c, b, b', hc, h => by
      unfold tmplGo at h
      split at h
      · rename_i heq; cases h; subst heq
        exact ⟨BLe.refl _, fun b'' _ => by rw [bind_concrete b'' _ hc]⟩
      · cases c <;> simp at h
        rename_i ins' out' abi' u' _
        obtain ⟨⟨h1, h2⟩, h⟩ := h
        subst h1 h2
        simp only [isTemplate, Bool.or_eq_false_iff] at hc
        split at h
        · rename_i b1 hi
          have hI := tmplIns_sound ins ins' b b1 hc.1 hi
          have hO := tmplO_sound out out' b1 b' hc.2 h
          refine ⟨BLe.trans hI.1 hO.1, fun b'' hb => ?_⟩
          simp only [bind, eraseLt, hI.2 b'' (BLe.trans hO.1 hb), hO.2 b'' hb]
        · cases h
  | .generic x, c, b, b', hc, h => by
      unfold tmplGo at h
      split at h
      · rename_i heq; cases h; subst heq
        exact ⟨BLe.refl _, fun b'' _ => by rw [bind_concrete b'' _ hc]⟩
      · have h : bindOne x c b = some b' := by cases c <;> simpa using h
        have := bindOne_spec h
        exact ⟨this.2, fun b'' hb => by rw [bind_generic_of_get (hb _ _ this.1)]⟩
theorem tmplArgs_sound : ∀ (ts cs : GArgs) (b b' : List (String × Ty)), isTemplateArgs cs = false →
    tmplArgs ts cs b = some b' →
    BLe b b' ∧ ∀ b'', BLe b' b'' → eraseLtArgs (bindArgs b'' ts) = eraseLtArgs cs
  | .nil, cs, b, b', hc, h => by
      cases cs <;> simp [tmplArgs] at h
      subst h
      exact ⟨BLe.refl _, fun _ _ => rfl⟩
  | .ty t tr, cs, b, b', hc, h => by
      cases cs <;> simp only [tmplArgs] at h <;> try cases h
      rename_i c cr
      simp only [isTemplateArgs, Bool.or_eq_false_iff] at hc
      split at h
      · -- the template argument is a generic parameter
        rename_i x hx
        have ht := genName_some hx
        subst ht
        split at h
        · rename_i b1 h1
          have h1s := bindOne_spec h1
          have hR := tmplArgs_sound tr cr b1 b' hc.2 h
          refine ⟨BLe.trans h1s.2 hR.1, fun b'' hb => ?_⟩
          simp only [bindArgs, eraseLtArgs, hR.2 b'' hb, bind_generic_of_get (hb _ _ (hR.1 _ _ h1s.1))]
        · cases h
      · split at h
        · cases h
        · split at h
          · rename_i b1 h1
            have hH := tmplGo_sound t c b b1 hc.1 h1
            have hR := tmplArgs_sound tr cr b1 b' hc.2 h
            refine ⟨BLe.trans hH.1 hR.1, fun b'' hb => ?_⟩
            simp only [bindArgs, eraseLtArgs, hR.2 b'' hb, hH.2 b'' (BLe.trans hR.1 hb)]
          · cases h
  | .lt l tr, cs, b, b', hc, h => by
      cases cs <;> simp only [tmplArgs] at h <;> try cases h
      rename_i l' cr
      simp only [isTemplateArgs] at hc
      have hR := tmplArgs_sound tr cr b b' hc h
      exact ⟨hR.1, fun b'' hb => by simp only [bindArgs, eraseLtArgs, hR.2 b'' hb]⟩
  | .const v tr, cs, b, b', hc, h => by
      cases cs <;> simp only [tmplArgs] at h <;> try cases h
      rename_i w cr
      simp only [isTemplateArgs] at hc
      split at h
      · rename_i hvw
        subst hvw
        have hR := tmplArgs_sound tr cr b b' hc h
        exact ⟨hR.1, fun b'' hb => by simp only [bindArgs, eraseLtArgs, hR.2 b'' hb]⟩
      · cases h
theorem tmplTys_sound : ∀ (ts cs : Tys) (b b' : List (String × Ty)), isTemplateTys cs = false →
    tmplTys ts cs b = some b' →
    BLe b b' ∧ ∀ b'', BLe b' b'' → eraseLtTys (bindTys b'' ts) = eraseLtTys cs
  | .nil, cs, b, b', hc, h => by
      cases cs <;> simp [tmplTys] at h
      subst h
      exact ⟨BLe.refl _, fun _ _ => rfl⟩
  | .cons t tr, cs, b, b', hc, h => by
      cases cs <;> simp only [tmplTys] at h <;> try cases h
      rename_i c cr
      simp only [isTemplateTys, Bool.or_eq_false_iff] at hc
      split at h
      · rename_i b1 h1
        have hH := tmplGo_sound t c b b1 hc.1 h1
        have hR := tmplTys_sound tr cr b1 b' hc.2 h
        refine ⟨BLe.trans hH.1 hR.1, fun b'' hb => ?_⟩
        simp only [bindTys, eraseLtTys, hR.2 b'' hb, hH.2 b'' (BLe.trans hR.1 hb)]
      · cases h
theorem tmplIns_sound : ∀ (ts cs : FnIns) (b b' : List (String × Ty)), isTemplateIns cs = false →
    tmplIns ts cs b = some b' →
    BLe b b' ∧ ∀ b'', BLe b' b'' → eraseLtIns (bindIns b'' ts) = eraseLtIns cs
  | .nil, cs, b, b', hc, h => by
      cases cs <;> simp [tmplIns] at h
      subst h
      exact ⟨BLe.refl _, fun _ _ => rfl⟩
  | .cons n t tr, cs, b, b', hc, h => by
      cases cs <;> simp only [tmplIns] at h <;> try cases h
      rename_i n' c cr
      simp only [isTemplateIns, Bool.or_eq_false_iff] at hc
      split at h
      · rename_i b1 h1
        have hH := tmplGo_sound t c b b1 hc.1 h1
        have hR := tmplIns_sound tr cr b1 b' hc.2 h
        refine ⟨BLe.trans hH.1 hR.1, fun b'' hb => ?_⟩
        simp only [bindIns, eraseLtIns, hR.2 b'' hb, hH.2 b'' (BLe.trans hR.1 hb)]
      · cases h
theorem tmplO_sound : ∀ (t c : OTy) (b b' : List (String × Ty)), isTemplateO c = false →
    tmplO t c b = some b' →
    BLe b b' ∧ ∀ b'', BLe b' b'' → eraseLtO (bindO b'' t) = eraseLtO c
  | .none, c, b, b', hc, h => by
      cases c <;> simp [tmplO] at h
      subst h
      exact ⟨BLe.refl _, fun _ _ => rfl⟩
  | .some t, c, b, b', hc, h => by
      cases c <;> simp only [tmplO] at h <;> try cases h
      rename_i c
      simp only [isTemplateO] at hc
      have hH := tmplGo_sound t c b b' hc h
      exact ⟨hH.1, fun b'' hb => by simp only [bindO, eraseLtO, hH.2 b'' hb]⟩
end


/-! ### Equivalence -/

theorem idOf_snd (g : List String) (x : String) : (idOf g x).2 = insertNew g x := by
  unfold idOf insertNew; split <;> rfl

/- The generators' states after a successful comparison are the names met so far, in first-seen
   order — the same walk as `unassigned_generic_type_parameters`. -/
mutual
theorem equivGo_state : ∀ (a b : Ty) (s s' : List String × List String), equivGo a b s = some s' →
    s' = (unassigned a s.1, unassigned b s.2)
  | .path al p i bs as, b, s, s', h => by
      cases b <;> simp [equivGo] at h
      simp only [unassigned]; exact equivArgs_state _ _ _ _ h.2
  | .ref m l t, b, s, s', h => by
      cases b <;> simp [equivGo] at h
      simp only [unassigned]; exact equivGo_state _ _ _ _ h.2
  | .tuple es, b, s, s', h => by
      cases b <;> simp [equivGo] at h
      simp only [unassigned]; exact equivTys_state _ _ _ _ h
  | .scalar x, b, s, s', h => by
      cases b <;> simp [equivGo] at h
      simp only [unassigned]; rw [← h.2]
  | .slice e, b, s, s', h => by
      cases b <;> simp [equivGo] at h
      simp only [unassigned]; exact equivGo_state _ _ _ _ h
  | .array e n, b, s, s', h => by
      cases b <;> simp [equivGo] at h
      simp only [unassigned]; exact equivGo_state _ _ _ _ h.2
  | .rawPtr m t, b, s, s', h => by
      cases b <;> simp [equivGo] at h
      simp only [unassigned]; exact equivGo_state _ _ _ _ h.2
  | .fnPtr ins out abi u, b, s, s', h => by
      cases b <;> simp [equivGo] at h
      obtain ⟨_, h⟩ := h
      split at h
      · rename_i s1 h1
        have e1 := equivIns_state _ _ _ _ h1
        have e2 := equivO_state _ _ _ _ h
        simp only [unassigned]; rw [e2, e1]
      · cases h
  | .generic x, b, s, s', h => by
      cases b <;> simp [equivGo] at h
      simp only [unassigned, ← idOf_snd]; rw [← h.2]
theorem equivArgs_state : ∀ (a b : GArgs) (s s' : List String × List String), equivArgs a b s = some s' →
    s' = (unassignedArgs a s.1, unassignedArgs b s.2)
  | .nil, b, s, s', h => by
      cases b <;> simp [equivArgs] at h
      simp only [unassignedArgs]; rw [← h]
  | .ty t r, b, s, s', h => by
      cases b <;> simp only [equivArgs] at h <;> try cases h
      split at h
      · rename_i s1 h1
        have e1 := equivGo_state _ _ _ _ h1
        have e2 := equivArgs_state _ _ _ _ h
        simp only [unassignedArgs]; rw [e2, e1]
      · cases h
  | .lt l r, b, s, s', h => by
      cases b <;> simp only [equivArgs] at h <;> try cases h
      simp only [unassignedArgs]; exact equivArgs_state _ _ _ _ h
  | .const v r, b, s, s', h => by
      cases b <;> simp only [equivArgs] at h <;> try cases h
      split at h
      · simp only [unassignedArgs]; exact equivArgs_state _ _ _ _ h
      · cases h
theorem equivTys_state : ∀ (a b : Tys) (s s' : List String × List String), equivTys a b s = some s' →
    s' = (unassignedTys a s.1, unassignedTys b s.2)
  | .nil, b, s, s', h => by
      cases b <;> simp [equivTys] at h
      simp only [unassignedTys]; rw [← h]
  | .cons t r, b, s, s', h => by
      cases b <;> simp only [equivTys] at h <;> try cases h
      split at h
      · rename_i s1 h1
        have e1 := equivGo_state _ _ _ _ h1
        have e2 := equivTys_state _ _ _ _ h
        simp only [unassignedTys]; rw [e2, e1]
      · cases h
theorem equivIns_state : ∀ (a b : FnIns) (s s' : List String × List String), equivIns a b s = some s' →
    s' = (unassignedIns a s.1, unassignedIns b s.2)
  | .nil, b, s, s', h => by
      cases b <;> simp [equivIns] at h
      simp only [unassignedIns]; rw [← h]
  | .cons n t r, b, s, s', h => by
      cases b <;> simp only [equivIns] at h <;> try cases h
      split at h
      · rename_i s1 h1
        have e1 := equivGo_state _ _ _ _ h1
        have e2 := equivIns_state _ _ _ _ h
        simp only [unassignedIns]; rw [e2, e1]
      · cases h
theorem equivO_state : ∀ (a b : OTy) (s s' : List String × List String), equivO a b s = some s' →
    s' = (unassignedO a s.1, unassignedO b s.2)
  | .none, b, s, s', h => by
      cases b <;> simp [equivO] at h
      simp only [unassignedO]; rw [← h]
  | .some t, b, s, s', h => by
      cases b <;> simp only [equivO] at h <;> try cases h
      simp only [unassignedO]; exact equivGo_state _ _ _ _ h
end

end Pxv.Ty
