import Pxv.Model.Errors
/-! Helper lemmas for C06: the invariant of `exec` (the binding discipline of the generated code). -/
namespace Pxv.Err
open Graph

theorem isStructural_of_isMatcher {k : Kind} (h : isMatcher k = true) : isStructural k = true := by
  cases k <;> simp_all [isMatcher, isStructural]

theorem isUnit_not_structural {k : Kind} (h : isUnit k = true) : isStructural k = false := by
  cases k <;> simp_all [isUnit, isStructural]

/-- `p` is passed as an argument to `n`. -/
def DataEdge (g : Graph) (p n : Nat) : Prop := p ∈ g.dataPreds n

/-- `n` is computed from `a` (through arguments only; happens-before edges carry no value). -/
inductive DataPath (g : Graph) (a : Nat) : Nat → Prop where
  | refl : DataPath g a a
  | tail {p n : Nat} : DataPath g a p → p ∈ g.dataPreds n → DataPath g a n

theorem DataPath.single {g : Graph} {a n : Nat} (h : a ∈ g.dataPreds n) : DataPath g a n :=
  .tail .refl h

theorem DataPath.trans {g : Graph} {a b c : Nat} (h1 : DataPath g a b) (h2 : DataPath g b c) :
    DataPath g a c := by
  induction h2 with
  | refl => exact h1
  | tail _ hp ih => exact .tail ih hp

theorem mem_dataPreds {g : Graph} {p n : Nat} :
    p ∈ g.dataPreds n ↔ ∃ e ∈ g.edges, e.src = p ∧ e.dst = n ∧ e.kind ≠ .before := by
  simp only [Graph.dataPreds, List.mem_map, List.mem_filter, Bool.and_eq_true, beq_iff_eq, bne_iff_ne]
  constructor
  · rintro ⟨e, ⟨he, hd, hk⟩, rfl⟩
    exact ⟨e, he, rfl, hd, hk⟩
  · rintro ⟨e, he, rfl, hd, hk⟩
    exact ⟨e, ⟨he, hd, hk⟩, rfl⟩

theorem mem_succs {g : Graph} {a b : Nat} :
    b ∈ g.succs a ↔ ∃ e ∈ g.edges, e.src = a ∧ e.dst = b := by
  simp only [Graph.succs, List.mem_map, List.mem_filter, beq_iff_eq]
  constructor
  · rintro ⟨e, ⟨he, hs⟩, rfl⟩
    exact ⟨e, he, hs, rfl⟩
  · rintro ⟨e, he, hs, rfl⟩
    exact ⟨e, ⟨he, hs⟩, rfl⟩

theorem mem_befores {g : Graph} {p n : Nat} :
    p ∈ g.befores n ↔ p < g.size ∧ ∃ e ∈ g.edges, e.src = p ∧ e.dst = n ∧ e.kind = .before := by
  simp only [Graph.befores, List.mem_filter, List.mem_range, List.any_eq_true, Bool.and_eq_true, beq_iff_eq]
  constructor
  · rintro ⟨hp, e, he, ⟨hs, hd⟩, hk⟩
    exact ⟨hp, e, he, hs, hd, hk⟩
  · rintro ⟨hp, e, he, hs, hd, hk⟩
    exact ⟨hp, e, he, ⟨hs, hd⟩, hk⟩

/-- every matcher hangs off one node only (its `MatchBranching` node). -/
def OneParent (g : Graph) : Prop :=
  ∀ m, isMatcher (g.kind m) = true → ∀ e ∈ g.edges, ∀ e' ∈ g.edges, e.dst = m → e'.dst = m → e.src = e'.src

/-- The binding discipline of the generated code, as an invariant of `exec`'s state. -/
structure Inv (g : Graph) (fails : Kind → Bool) (st : St) : Prop where
  /-- a statement only refers to values that are bound -/
  preds : ∀ n ∈ st.bound, isMatcher (g.kind n) = false → ∀ p ∈ g.dataPreds n, p ∈ st.bound
  befs : ∀ n ∈ st.bound, isStructural (g.kind n) = false → ∀ p ∈ g.befores n, p ∈ st.bound
  /-- a matcher is bound only by entering its arm -/
  matchers : ∀ n ∈ st.bound, isMatcher (g.kind n) = true → n ∈ st.chosen
  /-- the arm entered is the one the outcome of the fallible component selects -/
  chosen : ∀ v ∈ st.chosen, ∃ b x, b ∈ st.bound ∧ g.kind b = .branch ∧ v ∈ g.succs b ∧
    scrutinee g b = some x ∧ g.kind v = (if fails (g.kind x) then Kind.errMatch else Kind.okMatch)
  ran : ∀ n ∈ st.ran, n ∈ st.bound ∧ isStructural (g.kind n) = false ∧ isUnit (g.kind n) = false
  boundRan : ∀ n ∈ st.bound, isStructural (g.kind n) = false → isUnit (g.kind n) = false → n ∈ st.ran
  errs : ∀ v, v ∈ st.errs ↔ (v ∈ st.chosen ∧ g.kind v = .errMatch)
  /-- statements run after the statements that compute their arguments -/
  order : ∀ r1 n r2, st.ran = r1 ++ n :: r2 → ∀ p ∈ g.dataPreds n,
    isStructural (g.kind p) = false → isUnit (g.kind p) = false → p ∈ r1

theorem Inv.init (g : Graph) (fails : Kind → Bool) : Inv g fails {} where
  preds := by simp
  befs := by simp
  matchers := by simp
  chosen := by simp
  ran := by simp
  boundRan := by simp
  errs := by simp
  order := by simp

theorem all_contains {l b : List Nat} (h : l.all b.contains = true) : ∀ p ∈ l, p ∈ b := by
  intro p hp
  have := List.all_eq_true.mp h p hp
  simpa using this

theorem step_inv {g : Graph} {fails : Kind → Bool} {st : St} (n : Nat) (h : Inv g fails st) :
    Inv g fails (step g st n) := by
  unfold step
  by_cases hs : isStructural (g.kind n) = true
  · simp [hs]; exact h
  · simp only [hs, Bool.false_eq_true, ↓reduceIte]
    have hs' : isStructural (g.kind n) = false := by simpa using hs
    have hm : isMatcher (g.kind n) = false := by
      cases hmm : isMatcher (g.kind n) with
      | false => rfl
      | true => exact absurd (isStructural_of_isMatcher hmm) hs
    by_cases hc : ((g.dataPreds n).all st.bound.contains && (g.befores n).all st.bound.contains) = true
    · simp only [hc, ↓reduceIte]
      rw [Bool.and_eq_true] at hc
      have hp := all_contains hc.1
      have hb := all_contains hc.2
      by_cases hu : isUnit (g.kind n) = true
      · simp only [hu, ↓reduceIte]
        refine ⟨?_, ?_, ?_, ?_, ?_, ?_, h.errs, h.order⟩
        · intro m hmem hmm p hpm
          rcases List.mem_cons.mp hmem with rfl | hmem
          · exact List.mem_cons_of_mem _ (hp p hpm)
          · exact List.mem_cons_of_mem _ (h.preds m hmem hmm p hpm)
        · intro m hmem hmm p hpm
          rcases List.mem_cons.mp hmem with rfl | hmem
          · exact List.mem_cons_of_mem _ (hb p hpm)
          · exact List.mem_cons_of_mem _ (h.befs m hmem hmm p hpm)
        · intro m hmem hmm
          rcases List.mem_cons.mp hmem with rfl | hmem
          · rw [hm] at hmm; cases hmm
          · exact h.matchers m hmem hmm
        · intro v hv
          obtain ⟨b, x, hb1, hb2, hb3, hb4, hb5⟩ := h.chosen v hv
          exact ⟨b, x, List.mem_cons_of_mem _ hb1, hb2, hb3, hb4, hb5⟩
        · intro m hmem
          obtain ⟨a, b, c⟩ := h.ran m hmem
          exact ⟨List.mem_cons_of_mem _ a, b, c⟩
        · intro m hmem hms hmu
          rcases List.mem_cons.mp hmem with rfl | hmem
          · rw [hu] at hmu; cases hmu
          · exact h.boundRan m hmem hms hmu
      · simp only [hu, Bool.false_eq_true, ↓reduceIte]
        have hu' : isUnit (g.kind n) = false := by simpa using hu
        refine ⟨?_, ?_, ?_, ?_, ?_, ?_, h.errs, ?_⟩
        · intro m hmem hmm p hpm
          rcases List.mem_cons.mp hmem with rfl | hmem
          · exact List.mem_cons_of_mem _ (hp p hpm)
          · exact List.mem_cons_of_mem _ (h.preds m hmem hmm p hpm)
        · intro m hmem hmm p hpm
          rcases List.mem_cons.mp hmem with rfl | hmem
          · exact List.mem_cons_of_mem _ (hb p hpm)
          · exact List.mem_cons_of_mem _ (h.befs m hmem hmm p hpm)
        · intro m hmem hmm
          rcases List.mem_cons.mp hmem with rfl | hmem
          · rw [hm] at hmm; cases hmm
          · exact h.matchers m hmem hmm
        · intro v hv
          obtain ⟨b, x, hb1, hb2, hb3, hb4, hb5⟩ := h.chosen v hv
          exact ⟨b, x, List.mem_cons_of_mem _ hb1, hb2, hb3, hb4, hb5⟩
        · intro m hmem
          rcases List.mem_append.mp hmem with hmem | hmem
          · obtain ⟨a, b, c⟩ := h.ran m hmem
            exact ⟨List.mem_cons_of_mem _ a, b, c⟩
          · have : m = n := by simpa using hmem
            subst this
            exact ⟨List.mem_cons_self, hs', hu'⟩
        · intro m hmem hms hmu
          rcases List.mem_cons.mp hmem with rfl | hmem
          · exact List.mem_append_right _ (by simp)
          · exact List.mem_append_left _ (h.boundRan m hmem hms hmu)
        · intro r1 m r2 heq p hpm hps hpu
          have heq : st.ran ++ [n] = r1 ++ m :: r2 := heq
          -- either the split is inside the old `ran`, or `m` is the new last element
          rcases List.eq_nil_or_concat r2 with rfl | ⟨r2', z, rfl⟩
          · have : st.ran = r1 ∧ n = m := by
              have := List.append_inj' heq (by simp)
              simpa using this
            obtain ⟨rfl, rfl⟩ := this
            exact h.boundRan p (hp p hpm) hps hpu
          · have h2 : st.ran ++ [n] = (r1 ++ m :: r2') ++ [z] := by
              rw [heq]; simp
            have := List.append_inj' h2 (by simp)
            exact h.order r1 m r2' this.1 p hpm hps hpu
    · simp only [hc, Bool.false_eq_true, ↓reduceIte]
      exact ⟨h.preds, h.befs, h.matchers, h.chosen, h.ran, h.boundRan, h.errs, h.order⟩

theorem foldl_step_inv {g : Graph} {fails : Kind → Bool} (blk : List Nat) {st : St} (h : Inv g fails st) :
    Inv g fails (blk.foldl (step g) st) := by
  induction blk generalizing st with
  | nil => exact h
  | cons n rest ih => exact ih (step_inv n h)

theorem Inv.setStuck {g : Graph} {fails : Kind → Bool} {st : St} (h : Inv g fails st) :
    Inv g fails { st with stuck := true } :=
  ⟨h.preds, h.befs, h.matchers, h.chosen, h.ran, h.boundRan, h.errs, h.order⟩

theorem want_isMatcher (b : Bool) : isMatcher (if b then Kind.errMatch else Kind.okMatch) = true := by
  cases b <;> rfl

/-- entering the arm of the matcher `v` below the `MatchBranching` node `s` keeps the invariant. -/
theorem choose_inv {g : Graph} {fails : Kind → Bool} {st : St} {s x v : Nat} (h : Inv g fails st)
    (hs : g.kind s = .branch) (hx : scrutinee g s = some x)
    (hp : ∀ p ∈ g.dataPreds s, p ∈ st.bound)
    (hv : v ∈ g.succs s) (hk : g.kind v = (if fails (g.kind x) then Kind.errMatch else Kind.okMatch)) :
    Inv g fails { st with bound := v :: s :: st.bound, chosen := v :: st.chosen,
                          errs := if fails (g.kind x) then v :: st.errs else st.errs } := by
  have hvm : isMatcher (g.kind v) = true := by rw [hk]; exact want_isMatcher _
  have hvs : isStructural (g.kind v) = true := isStructural_of_isMatcher hvm
  have hss : isStructural (g.kind s) = true := by rw [hs]; rfl
  have hsm : isMatcher (g.kind s) = false := by rw [hs]; rfl
  refine ⟨?_, ?_, ?_, ?_, ?_, ?_, ?_, h.order⟩
  · intro n hn hnm p hpn
    simp only [List.mem_cons] at hn ⊢
    rcases hn with rfl | rfl | hn
    · rw [hvm] at hnm; cases hnm
    · exact Or.inr (Or.inr (hp p hpn))
    · exact Or.inr (Or.inr (h.preds n hn hnm p hpn))
  · intro n hn hns p hpn
    simp only [List.mem_cons] at hn ⊢
    rcases hn with rfl | rfl | hn
    · rw [hvs] at hns; cases hns
    · rw [hss] at hns; cases hns
    · exact Or.inr (Or.inr (h.befs n hn hns p hpn))
  · intro n hn hnm
    simp only [List.mem_cons] at hn ⊢
    rcases hn with rfl | rfl | hn
    · exact Or.inl rfl
    · rw [hsm] at hnm; cases hnm
    · exact Or.inr (h.matchers n hn hnm)
  · intro w hw
    simp only [List.mem_cons] at hw
    rcases hw with rfl | hw
    · exact ⟨s, x, by simp, hs, hv, hx, hk⟩
    · obtain ⟨b, y, hb1, hb2, hb3, hb4, hb5⟩ := h.chosen w hw
      exact ⟨b, y, by simp [hb1], hb2, hb3, hb4, hb5⟩
  · intro n hn
    obtain ⟨a, b, c⟩ := h.ran n hn
    exact ⟨by simp [a], b, c⟩
  · intro n hn hns hnu
    simp only [List.mem_cons] at hn
    rcases hn with rfl | rfl | hn
    · rw [hvs] at hns; cases hns
    · rw [hss] at hns; cases hns
    · exact h.boundRan n hn hns hnu
  · intro w
    cases hf : fails (g.kind x) with
    | true =>
      simp only [hf, ↓reduceIte] at hk ⊢
      simp only [List.mem_cons]
      constructor
      · rintro (rfl | hw)
        · exact ⟨Or.inl rfl, hk⟩
        · exact ⟨Or.inr ((h.errs w).mp hw).1, ((h.errs w).mp hw).2⟩
      · rintro ⟨rfl | hw, hke⟩
        · exact Or.inl rfl
        · exact Or.inr ((h.errs w).mpr ⟨hw, hke⟩)
    | false =>
      simp only [hf, Bool.false_eq_true, ↓reduceIte] at hk ⊢
      simp only [List.mem_cons]
      constructor
      · intro hw
        exact ⟨Or.inr ((h.errs w).mp hw).1, ((h.errs w).mp hw).2⟩
      · rintro ⟨rfl | hw, hke⟩
        · rw [hk] at hke; cases hke
        · exact (h.errs w).mpr ⟨hw, hke⟩

/-- **the binding discipline is an invariant of the generated closure**, whatever the graph, the failing
    components, and the way basic blocks are chosen. -/
theorem exec_inv {g : Graph} {fails : Kind → Bool} :
    ∀ (fuel : Nat) (targets fin : List Nat) (st : St), Inv g fails st →
      Inv g fails (exec g fails fuel targets fin st).1
  | 0, _, _, st, h => by simpa [exec] using h.setStuck
  | fuel + 1, targets, fin, st, h => by
    unfold exec
    split
    · exact h.setStuck
    · rename_i t ht
      simp only
      split
      · rename_i hbr
        split
        · exact (foldl_step_inv _ h).setStuck
        · rename_i x hx
          split
          · exact (foldl_step_inv _ h).setStuck
          · rename_i hall
            split
            · exact (foldl_step_inv _ h).setStuck
            · rename_i v hv
              apply exec_inv
              have hfind := List.find?_some hv
              have hmem := List.mem_of_find?_eq_some hv
              refine choose_inv (foldl_step_inv _ h) (by simpa using hbr) hx ?_ hmem (by simpa using hfind)
              apply all_contains
              simpa using hall
      · split
        · exact foldl_step_inv _ h
        · exact (foldl_step_inv _ h).setStuck

/-- in a state that obeys the discipline, with matchers hanging off one node only, every argument of a
    bound node is bound. -/
theorem bound_closed {g : Graph} {fails : Kind → Bool} {st : St} (h : Inv g fails st) (hop : OneParent g)
    {n p : Nat} (hn : n ∈ st.bound) (hp : p ∈ g.dataPreds n) : p ∈ st.bound := by
  cases hm : isMatcher (g.kind n) with
  | false => exact h.preds n hn hm p hp
  | true =>
    obtain ⟨b, x, hb, _, hvb, _, _⟩ := h.chosen n (h.matchers n hn hm)
    obtain ⟨e, he, hes, hed, _⟩ := mem_dataPreds.mp hp
    obtain ⟨e', he', hes', hed'⟩ := mem_succs.mp hvb
    have := hop n hm e he e' he' hed hed'
    rw [hes, hes'] at this
    rw [this]; exact hb

theorem bound_of_path {g : Graph} {fails : Kind → Bool} {st : St} (h : Inv g fails st) (hop : OneParent g)
    {a n : Nat} (hpath : DataPath g a n) (hn : n ∈ st.bound) : a ∈ st.bound := by
  induction hpath with
  | refl => exact hn
  | tail _ hp ih => exact ih (bound_closed h hop hn hp)

theorem kind_of_ge {g : Graph} {n : Nat} (h : g.size ≤ n) : g.kind n = .other := by
  simp [Graph.kind, Graph.size] at *
  simp [List.getElem?_eq_none h]

theorem OneParent.of_check {g : Graph} (h : oneParent g = true) : OneParent g := by
  intro m hm e he e' he' hd hd'
  have hlt : m < g.size := by
    by_cases hlt : m < g.size
    · exact hlt
    · rw [kind_of_ge (Nat.le_of_not_lt hlt)] at hm; cases hm
  have := List.all_eq_true.mp h m (List.mem_range.mpr hlt)
  rw [hm] at this
  simp only [Bool.not_true, Bool.false_or, decide_eq_true_eq] at this
  -- at most one edge enters `m`
  have h1 : e ∈ g.edges.filter (·.dst == m) := List.mem_filter.mpr ⟨he, by simpa using hd⟩
  have h2 : e' ∈ g.edges.filter (·.dst == m) := List.mem_filter.mpr ⟨he', by simpa using hd'⟩
  match hl : g.edges.filter (·.dst == m), this with
  | [], _ => rw [hl] at h1; cases h1
  | [a], _ =>
    rw [hl] at h1 h2
    simp only [List.mem_singleton] at h1 h2
    rw [h1, h2]
  | _ :: _ :: _, hlen => rw [hl] at hlen; simp at hlen

/-- the calls inlined in front of a bound node are calls of bound components without output. -/
theorem frag_bound {g : Graph} {fails : Kind → Bool} {st : St} (h : Inv g fails st) :
    ∀ (fuel n : Nat), n ∈ st.bound → isStructural (g.kind n) = false →
      ∀ e ∈ frag g fuel n, e.node ∈ st.bound ∧ isUnit e.kind = true ∧ e = Ev.call e.node (g.kind e.node)
  | 0, _, _, _, e, he => by simp [frag] at he
  | fuel + 1, n, hn, hs, e, he => by
    simp only [frag, unitBefores, List.mem_flatMap, List.mem_filter, List.mem_append, List.mem_singleton] at he
    obtain ⟨p, ⟨hpb, hpu⟩, hpe⟩ := he
    have hpbound := h.befs n hn hs p hpb
    rcases hpe with hpe | rfl
    · exact frag_bound h fuel p hpbound (isUnit_not_structural hpu) e hpe
    · exact ⟨hpbound, hpu, rfl⟩

/-- whatever ran is bound. -/
theorem out_bound {g : Graph} {fails : Kind → Bool} {st : St} (h : Inv g fails st) :
    ∀ e ∈ outOf g fails st, e.node ∈ st.bound := by
  intro e he
  simp only [outOf, List.mem_flatMap, emit, List.mem_append, List.mem_singleton] at he
  obtain ⟨n, hn, he⟩ := he
  obtain ⟨hnb, hns, _⟩ := h.ran n hn
  rcases he with he | rfl
  · exact (frag_bound h _ n hnb hns e he).1
  · unfold evAt; split <;> exact hnb

theorem foldl_min_mem (l : List Nat) (a : Nat) : l.foldl Nat.min a = a ∨ l.foldl Nat.min a ∈ l := by
  induction l generalizing a with
  | nil => exact Or.inl rfl
  | cons b l ih =>
    simp only [List.foldl_cons, List.mem_cons]
    rcases ih (Nat.min a b) with h | h
    · rw [h]
      rcases Nat.le_total a b with hab | hab
      · exact Or.inl (Nat.min_eq_left hab)
      · exact Or.inr (Or.inl (Nat.min_eq_right hab))
    · exact Or.inr (Or.inr h)

theorem minOf_mem {l : List Nat} {m : Nat} (h : minOf l = some m) : m ∈ l := by
  cases l with
  | nil => simp [minOf] at h
  | cons a l =>
    simp only [minOf, Option.some.injEq] at h
    subst h
    rcases foldl_min_mem l a with h | h
    · rw [h]; exact List.mem_cons_self
    · exact List.mem_cons_of_mem _ h

theorem step_ran (g : Graph) (st : St) (n : Nat) :
    (step g st n).ran = st.ran ∨ (step g st n).ran = st.ran ++ [n] := by
  unfold step
  simp only
  split
  · exact Or.inl rfl
  · split
    · split
      · exact Or.inl rfl
      · exact Or.inr rfl
    · exact Or.inl rfl

theorem foldl_step_ran (g : Graph) : ∀ (blk : List Nat) (st : St),
    ∃ l, l.Sublist blk ∧ (blk.foldl (step g) st).ran = st.ran ++ l
  | [], st => ⟨[], List.Sublist.refl _, by simp⟩
  | n :: rest, st => by
    obtain ⟨l, hl, he⟩ := foldl_step_ran g rest (step g st n)
    rcases step_ran g st n with h | h
    · exact ⟨l, hl.cons _, by rw [List.foldl_cons, he, h]⟩
    · exact ⟨n :: l, hl.cons_cons _, by rw [List.foldl_cons, he, h]; simp⟩

/-- no statement is emitted twice on a path: what ran is duplicate-free. -/
theorem exec_ran_nodup {g : Graph} {fails : Kind → Bool} :
    ∀ (fuel : Nat) (targets fin : List Nat) (st : St), st.ran.Nodup → (∀ n ∈ st.ran, n ∈ fin) →
      (exec g fails fuel targets fin st).1.ran.Nodup
  | 0, _, _, st, h, _ => by simpa [exec] using h
  | fuel + 1, targets, fin, st, h, hfin => by
    unfold exec
    split
    · exact h
    · rename_i t ht
      simp only
      generalize hs : (minOf (List.filter (fun b => !fin.contains b) (g.branchAnc t))).getD t = s
      generalize hblk : (List.range (s + 1)).filter
        (fun n => !fin.contains n && (component g s).contains n) = blk
      obtain ⟨l, hl, he⟩ := foldl_step_ran g blk st
      have hblknd : blk.Nodup := by
        rw [← hblk]; exact List.Nodup.sublist List.filter_sublist List.nodup_range
      have hdisj : ∀ n ∈ blk, n ∉ fin := by
        intro n hn
        rw [← hblk] at hn
        have := (List.mem_filter.mp hn).2
        simp only [Bool.and_eq_true, Bool.not_eq_eq_eq_not, Bool.not_true] at this
        intro hc
        have h1 := this.1
        simp [hc] at h1
      have hnd : (blk.foldl (step g) st).ran.Nodup := by
        rw [he]
        refine List.nodup_append.mpr ⟨h, List.Nodup.sublist hl hblknd, ?_⟩
        intro a ha b hb hab
        subst hab
        exact hdisj a (hl.subset hb) (hfin a ha)
      have hsub : ∀ n ∈ (blk.foldl (step g) st).ran, n ∈ fin ++ blk := by
        intro n hn
        rw [he] at hn
        rcases List.mem_append.mp hn with hn | hn
        · exact List.mem_append_left _ (hfin n hn)
        · exact List.mem_append_right _ (hl.subset hn)
      split
      · split
        · exact hnd
        · split
          · exact hnd
          · split
            · exact hnd
            · exact exec_ran_nodup fuel _ _ _ hnd hsub
      · split
        · exact hnd
        · exact hnd

/-- what a closure returns: a bound terminal, among the targets it was asked for or, once an arm was
    entered, among the terminals below the matcher of the last arm entered. -/
theorem exec_ret {g : Graph} {fails : Kind → Bool} :
    ∀ (fuel : Nat) (targets fin : List Nat) (st st' : St) (r : Nat),
      exec g fails fuel targets fin st = (st', some r) →
      r ∈ st'.bound ∧ ((st'.chosen = st.chosen ∧ r ∈ targets) ∨
        ∃ v rest, st'.chosen = v :: rest ∧ r ∈ g.sinksOf v)
  | 0, _, _, _, _, _, h => by simp [exec] at h
  | fuel + 1, targets, fin, st, st', r, h => by
    unfold exec at h
    split at h
    · simp at h
    · rename_i t ht
      simp only at h
      generalize hs : (minOf (List.filter (fun b => !fin.contains b) (g.branchAnc t))).getD t = s at h
      generalize hblk : (List.range (s + 1)).filter
        (fun n => !fin.contains n && (component g s).contains n) = blk at h
      split at h
      · split at h
        · simp at h
        · split at h
          · simp at h
          · split at h
            · simp at h
            · rename_i v hv
              have ih := exec_ret fuel _ _ _ st' r h
              refine ⟨ih.1, Or.inr ?_⟩
              rcases ih.2 with ⟨hc, hr⟩ | ⟨v', rest, hc, hr⟩
              · refine ⟨v, st.chosen, ?_, ?_⟩
                · rw [hc]
                  have : ∀ (st0 : St) (l : List Nat), (List.foldl (step g) st0 l).chosen = st0.chosen := by
                    intro st0 l
                    induction l generalizing st0 with
                    | nil => rfl
                    | cons a l ih =>
                      rw [List.foldl_cons, ih]
                      unfold step
                      simp only
                      split
                      · rfl
                      · split
                        · split <;> rfl
                        · rfl
                  simp [this]
                · split at hr
                  · exact hr
                  · have := (List.mem_filter.mp hr).2
                    simpa using this
              · exact ⟨v', rest, hc, hr⟩
      · rename_i hnb
        split at h
        · rename_i hbound
          simp only [Prod.mk.injEq, Option.some.injEq] at h
          obtain ⟨rfl, rfl⟩ := h
          refine ⟨by simpa using hbound, Or.inl ⟨?_, ?_⟩⟩
          · have : ∀ (st0 : St) (l : List Nat), (List.foldl (step g) st0 l).chosen = st0.chosen := by
              intro st0 l
              induction l generalizing st0 with
              | nil => rfl
              | cons a l ih =>
                rw [List.foldl_cons, ih]
                unfold step
                simp only
                split
                · rfl
                · split
                  · split <;> rfl
                  · rfl
            exact this _ _
          · -- `s` is the target itself: a pending branching ancestor would be a `MatchBranching` node
            cases hmin : minOf (List.filter (fun b => !fin.contains b) (g.branchAnc t)) with
            | none =>
              rw [hmin] at hs
              simp only [Option.getD_none] at hs
              rw [← hs]; exact minOf_mem ht
            | some b =>
              rw [hmin] at hs
              simp only [Option.getD_some] at hs
              have hb := minOf_mem hmin
              have hb2 := (List.mem_filter.mp hb).1
              simp only [Graph.branchAnc, List.mem_filter, Bool.and_eq_true] at hb2
              rw [hs] at hb2
              exact absurd hb2.2.1.1 (by simpa using hnb)
        · simp at h

/-! ### local well-formedness, as propositions -/

theorem length_le_one_eq {α : Type} {l : List α} {a b : α} (h : l.length ≤ 1) (ha : a ∈ l) (hb : b ∈ l) :
    a = b := by
  match l, h with
  | [], _ => cases ha
  | [x], _ =>
    simp only [List.mem_singleton] at ha hb
    rw [ha, hb]
  | _ :: _ :: _, h => simp at h

theorem lt_size_of_kind {g : Graph} {n : Nat} (h : g.kind n ≠ .other) : n < g.size := by
  by_cases hlt : n < g.size
  · exact hlt
  · exact absurd (kind_of_ge (Nat.le_of_not_lt hlt)) h

theorem isEh_lt {g : Graph} {n : Nat} (h : isEh (g.kind n) = true) : n < g.size := by
  apply lt_size_of_kind
  intro hk; rw [hk] at h; cases h

theorem dedup_subset (l : List Nat) : ∀ x ∈ dedup l, x ∈ l := by
  have : ∀ (l acc : List Nat), ∀ x ∈ l.foldl (fun acc x => if acc.contains x then acc else acc ++ [x]) acc,
      x ∈ acc ∨ x ∈ l := by
    intro l
    induction l with
    | nil => intro acc x hx; exact Or.inl hx
    | cons a l ih =>
      intro acc x hx
      simp only [List.foldl_cons] at hx
      rcases ih _ x hx with h | h
      · split at h
        · exact Or.inl h
        · rcases List.mem_append.mp h with h | h
          · exact Or.inl h
          · simp only [List.mem_singleton] at h
            exact Or.inr (by simp [h])
      · exact Or.inr (List.mem_cons_of_mem _ h)
  intro x hx
  rcases this l [] x hx with h | h
  · cases h
  · exact h

theorem ancFrom_sound {g : Graph} {t : Nat} : ∀ (fuel : Nat) (frontier seen : List Nat),
    (∀ x ∈ frontier, DataPath g x t) → (∀ x ∈ seen, DataPath g x t) →
    ∀ x ∈ ancFrom g fuel frontier seen, DataPath g x t
  | 0, _, _, _, hs => by simpa [ancFrom] using hs
  | fuel + 1, frontier, seen, hf, hs => by
    intro x hx
    simp only [ancFrom] at hx
    have hnext : ∀ y ∈ dedup ((frontier.flatMap g.dataPreds).filter (fun n => !seen.contains n)), DataPath g y t := by
      intro y hy
      have := dedup_subset _ y hy
      obtain ⟨hy1, _⟩ := List.mem_filter.mp this
      obtain ⟨f, hfm, hyf⟩ := List.mem_flatMap.mp hy1
      exact (DataPath.single hyf).trans (hf f hfm)
    split at hx
    · exact hs x hx
    · refine ancFrom_sound fuel _ _ hnext ?_ x hx
      intro y hy
      rcases List.mem_append.mp hy with hy | hy
      · exact hs y hy
      · exact hnext y hy

theorem dataAnc_sound {g : Graph} {h t : Nat} (hm : h ∈ dataAnc g t) : DataPath g h t := by
  apply ancFrom_sound g.size [t] [t] _ _ h hm
  · intro x hx; simp only [List.mem_singleton] at hx; subst hx; exact .refl
  · intro x hx; simp only [List.mem_singleton] at hx; subst hx; exact .refl

theorem ordered_dst_lt {g : Graph} (ho : g.ordered = true) {e : Edge} (he : e ∈ g.edges) :
    e.src < e.dst ∧ e.dst < g.size := by
  have := List.all_eq_true.mp ho e he
  simpa using this

structure ArmsWF (g : Graph) : Prop where
  oneParent : OneParent g
  single : ∀ n, (unitBefores g n).length ≤ 1
  ehMatcher : ∀ h, isEh (g.kind h) = true → ∃ m, ehMatchers g h = [m]
  oneHandler : ∀ m h h', isEh (g.kind h) = true → isEh (g.kind h') = true →
    m ∈ ehMatchers g h → m ∈ ehMatchers g h' → h = h'
  inlined : ∀ n, isUnit (g.kind n) = false → unitBefores g n ≠ [] →
    ∃ h, g.dataPreds n = [h] ∧ isEh (g.kind h) = true ∧
      ∀ n', isUnit (g.kind n') = false → unitBefores g n' ≠ [] → g.dataPreds n' = [h] → n' = n
  sinks : ∀ m h, g.kind m = .errMatch → isEh (g.kind h) = true → m ∈ ehMatchers g h →
    ∀ t ∈ g.sinksOf m, DataPath g h t

theorem mem_ehMatchers_kind {g : Graph} {m h : Nat} (hm : m ∈ ehMatchers g h) : g.kind m = .errMatch := by
  simp only [ehMatchers, List.mem_append, List.mem_filter, List.mem_flatMap, beq_iff_eq] at hm
  rcases hm with ⟨_, hk⟩ | ⟨_, _, _, hk⟩
  · exact hk
  · exact hk

theorem unitBefores_lt {g : Graph} (ho : g.ordered = true) {n p : Nat} (hp : p ∈ unitBefores g n) :
    n < g.size := by
  have hb := (List.mem_filter.mp hp).1
  obtain ⟨_, e, he, _, hd, _⟩ := mem_befores.mp hb
  have := (ordered_dst_lt ho he).2
  rw [hd] at this; exact this

theorem ArmsWF.of_check {g : Graph} (h : armsWF g = true) : ArmsWF g := by
  simp only [armsWF, Bool.and_eq_true] at h
  obtain ⟨⟨⟨⟨⟨⟨ho, h1⟩, h2⟩, h3⟩, h4⟩, h5⟩, h6⟩ := h
  refine ⟨OneParent.of_check h1, ?_, ?_, ?_, ?_, ?_⟩
  · intro n
    by_cases hlt : n < g.size
    · have := List.all_eq_true.mp h2 n (List.mem_range.mpr hlt)
      simpa using this
    · match hub : unitBefores g n with
      | [] => simp
      | p :: _ =>
        have : p ∈ unitBefores g n := by rw [hub]; exact List.mem_cons_self
        exact absurd (unitBefores_lt ho this) hlt
  · intro x hx
    have := List.all_eq_true.mp h3 x (List.mem_range.mpr (isEh_lt hx))
    rw [hx] at this
    simp only [Bool.not_true, Bool.false_or, beq_iff_eq] at this
    match hl : ehMatchers g x, this with
    | [m], _ => exact ⟨m, rfl⟩
  · intro m x x' hx hx' hm hm'
    have hk := mem_ehMatchers_kind hm
    have hmlt : m < g.size := lt_size_of_kind (by rw [hk]; intro hc; cases hc)
    have := List.all_eq_true.mp h4 m (List.mem_range.mpr hmlt)
    rw [hk] at this
    simp only [bne_self_eq_false, Bool.false_or, decide_eq_true_eq] at this
    refine length_le_one_eq this ?_ ?_
    · exact List.mem_filter.mpr ⟨List.mem_range.mpr (isEh_lt hx), by simp [hx, hm]⟩
    · exact List.mem_filter.mpr ⟨List.mem_range.mpr (isEh_lt hx'), by simp [hx', hm']⟩
  · intro n hnu hne
    have hnlt : n < g.size := by
      match hub : unitBefores g n with
      | [] => exact absurd hub hne
      | p :: _ =>
        have : p ∈ unitBefores g n := by rw [hub]; exact List.mem_cons_self
        exact unitBefores_lt ho this
    have := List.all_eq_true.mp h5 n (List.mem_range.mpr hnlt)
    rw [hnu] at this
    have hemp : (unitBefores g n).isEmpty = false := by
      cases hub : unitBefores g n with
      | nil => exact absurd hub hne
      | cons _ _ => rfl
    rw [hemp] at this
    simp only [Bool.false_or] at this
    match hd : g.dataPreds n, this with
    | [x], this =>
      simp only [Bool.and_eq_true, decide_eq_true_eq] at this
      refine ⟨x, rfl, this.1, ?_⟩
      intro n' hnu' hne' hd'
      have hn'lt : n' < g.size := by
        match hub : unitBefores g n' with
        | [] => exact absurd hub hne'
        | p :: _ =>
          have : p ∈ unitBefores g n' := by rw [hub]; exact List.mem_cons_self
          exact unitBefores_lt ho this
      have hmem : ∀ k, k < g.size → isUnit (g.kind k) = false → unitBefores g k ≠ [] → g.dataPreds k = [x] →
          k ∈ inlinedBelow g x := by
        intro k hk hku hkne hkd
        refine List.mem_filter.mpr ⟨List.mem_range.mpr hk, ?_⟩
        have : (unitBefores g k).isEmpty = false := by
          cases hub : unitBefores g k with
          | nil => exact absurd hub hkne
          | cons _ _ => rfl
        simp [hku, this, hkd]
      exact length_le_one_eq this.2 (hmem n' hn'lt hnu' hne' hd') (hmem n hnlt hnu hne hd)
  · intro m x hk hx hm t ht
    have hmlt : m < g.size := lt_size_of_kind (by rw [hk]; intro hc; cases hc)
    have := List.all_eq_true.mp h6 m (List.mem_range.mpr hmlt)
    rw [hk] at this
    simp only [bne_self_eq_false, Bool.false_or] at this
    have hx2 := List.all_eq_true.mp this x
      (List.mem_filter.mpr ⟨List.mem_range.mpr (isEh_lt hx), by simp [hx, hm]⟩)
    have := List.all_eq_true.mp hx2 t ht
    exact dataAnc_sound (by simpa using this)

/-! ### further helper lemmas used by Thm/C06 -/

theorem frag_unit (g : Graph) : ∀ (fuel n : Nat), ∀ e ∈ frag g fuel n, isUnit e.kind = true
  | 0, _, e, he => by simp [frag] at he
  | fuel + 1, n, e, he => by
    simp only [frag, List.mem_flatMap, List.mem_append, List.mem_singleton] at he
    obtain ⟨p, hp, he⟩ := he
    rcases he with he | rfl
    · exact frag_unit g fuel p e he
    · exact (List.mem_filter.mp hp).2

theorem frag_eq_chain {g : Graph} (hs : ∀ n, (unitBefores g n).length ≤ 1) :
    ∀ (fuel n : Nat), frag g fuel n = (chainOf g fuel n).map (fun p => Ev.call p (g.kind p))
  | 0, _ => rfl
  | fuel + 1, n => by
    simp only [frag, chainOf]
    match hub : unitBefores g n, hs n with
    | [], _ => simp
    | [p], _ => simp [frag_eq_chain hs fuel p]
    | _ :: _ :: _, h => simp at h

theorem isEh_not_unit {k : Kind} (h : isEh k = true) : isUnit k = false := by
  cases k <;> simp_all [isEh, isUnit]

theorem isEh_not_structural {k : Kind} (h : isEh k = true) : isStructural k = false := by
  cases k <;> simp_all [isEh, isStructural]

theorem isEh_not_canFail {k : Kind} (h : isEh k = true) : canFail k = false := by
  cases k <;> simp_all [isEh, canFail]

theorem ehMatchers_path {g : Graph} {m h : Nat} (hm : m ∈ ehMatchers g h) : DataPath g m h := by
  simp only [ehMatchers, List.mem_append, List.mem_filter, List.mem_flatMap] at hm
  rcases hm with ⟨hm, _⟩ | ⟨e, ⟨he, _⟩, hm, _⟩
  · exact .single hm
  · exact .tail (.single hm) he

/-- the error handler events of a run, read off the nodes that ran -/
theorem filter_eh_out (g : Graph) (fails : Kind → Bool) (ran : List Nat) :
    (ran.flatMap (emit g fails)).filter (fun e => isEh e.kind) =
      (ran.filter (fun n => isEh (g.kind n))).map (fun n => Ev.call n (g.kind n)) := by
  induction ran with
  | nil => rfl
  | cons n rest ih =>
    simp only [List.flatMap_cons, List.filter_append, ih, emit]
    have hfrag : (frag g g.size n).filter (fun e => isEh e.kind) = [] := by
      apply List.filter_eq_nil_iff.mpr
      intro e he
      have := frag_unit g g.size n e he
      cases hk : e.kind <;> simp_all [isUnit, isEh]
    rw [hfrag]
    by_cases hn : isEh (g.kind n) = true
    · simp [evAt, hn, isEh_not_canFail hn, Ev.kind]
    · have hn' : isEh (g.kind n) = false := by simpa using hn
      simp only [List.nil_append, List.filter_cons, hn', Bool.false_eq_true, ↓reduceIte]
      unfold evAt
      split <;> simp [Ev.kind, hn']

theorem filter_all_eq {l : List Nat} {h : Nat} {q : Nat → Bool} (hnd : l.Nodup) (hmem : h ∈ l) (hq : q h = true)
    (hall : ∀ n ∈ l, q n = true → n = h) : l.filter q = [h] := by
  induction l with
  | nil => cases hmem
  | cons a l ih =>
    have hnd' := List.nodup_cons.mp hnd
    rcases List.mem_cons.mp hmem with rfl | hmem
    · simp only [List.filter_cons, hq, ↓reduceIte, List.cons.injEq, true_and]
      apply List.filter_eq_nil_iff.mpr
      intro n hn hqn
      have := hall n (List.mem_cons_of_mem _ hn) hqn
      subst this
      exact hnd'.1 hn
    · have ha : q a = false := by
        cases hqa : q a with
        | false => rfl
        | true =>
          have := hall a List.mem_cons_self hqa
          subst this
          exact absurd hmem hnd'.1
      simp only [List.filter_cons, ha, Bool.false_eq_true, ↓reduceIte]
      exact ih hnd'.2 hmem (fun n hn => hall n (List.mem_cons_of_mem _ hn))

theorem dataPath_head {g : Graph} {a n : Nat} (h : DataPath g a n) :
    a = n ∨ ∃ c, a ∈ g.dataPreds c ∧ DataPath g c n := by
  induction h with
  | refl => exact Or.inl rfl
  | tail hp hmem ih =>
    rename_i p n'
    rcases ih with rfl | ⟨c, hc, hcp⟩
    · exact Or.inr ⟨n', hmem, .refl⟩
    · exact Or.inr ⟨c, hc, .tail hcp hmem⟩

theorem sinksOf_no_succs {g : Graph} {a t : Nat} (h : t ∈ g.sinksOf a) : g.succs t = [] := by
  have := (List.mem_filter.mp h).2
  simpa using this

/-- the calls of components without output, read off the nodes that ran -/
theorem filter_unit_out (g : Graph) (fails : Kind → Bool) (ran : List Nat)
    (hran : ∀ n ∈ ran, isUnit (g.kind n) = false) :
    (ran.flatMap (emit g fails)).filter (fun e => isUnit e.kind) = ran.flatMap (frag g g.size) := by
  induction ran with
  | nil => rfl
  | cons n rest ih =>
    simp only [List.flatMap_cons, List.filter_append, emit]
    rw [ih (fun k hk => hran k (List.mem_cons_of_mem _ hk))]
    have hfrag : (frag g g.size n).filter (fun e => isUnit e.kind) = frag g g.size n := by
      apply List.filter_eq_self.mpr
      intro e he
      exact frag_unit g g.size n e he
    have hn := hran n List.mem_cons_self
    rw [hfrag]
    have : List.filter (fun e => isUnit e.kind) [evAt g fails n] = [] := by
      unfold evAt
      split <;> simp [Ev.kind, hn]
    rw [this]; simp

theorem prefix_dropLast {q path : List Nat} (h : q <+: path) (hne : q ≠ path) : q <+: path.dropLast := by
  obtain ⟨t, rfl⟩ := h
  have ht : t ≠ [] := by
    intro ht; subst ht; simp at hne
  rw [List.dropLast_append_of_ne_nil ht]
  exact List.prefix_append _ _

theorem countKind_append (g : Graph) (extra : List Kind) (p : Kind → Bool) :
    countKind { g with nodes := g.nodes ++ extra } p = countKind g p + (extra.filter p).length := by
  simp [countKind, List.filter_append]

theorem foldl_nodes (f : Graph → Nat → Graph) (hf : ∀ acc m, (f acc m).nodes = acc.nodes) :
    ∀ (ms : List Nat) (g : Graph), (ms.foldl f g).nodes = g.nodes
  | [], _ => rfl
  | m :: ms, g => by rw [List.foldl_cons, foldl_nodes f hf ms, hf]

theorem injectOne_nodes_of (g : Graph) (x : Nat)
    (h : (((g.succs x).filter (fun m => g.kind m == .okMatch || g.kind m == .errMatch)).length != 2) = false) :
    (injectOne g x).nodes = g.nodes ++ [.branch] := by
  unfold injectOne
  simp only [h, Bool.false_eq_true, ↓reduceIte, addEdge, addNode]
  exact foldl_nodes (fun acc m => { nodes := acc.nodes, edges := acc.edges ++ [⟨g.size, m, .move⟩] })
    (fun _ _ => rfl) _ _

theorem injectOne_nodes_not (g : Graph) (x : Nat)
    (h : (((g.succs x).filter (fun m => g.kind m == .okMatch || g.kind m == .errMatch)).length != 2) = true) :
    injectOne g x = g := by
  unfold injectOne
  simp only [h, ↓reduceIte]

end Pxv.Err
