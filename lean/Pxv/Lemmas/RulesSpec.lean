import Pxv.Model.Rules
import Pxv.Lemmas.Rules
/-!
The declarative vocabulary of C08 (scope tree, "needs at any depth", route matching) and the helper
lemmas of `Pxv/Thm/C08.lean`. The scope-lookup facts and `reach_complete` are proved here because the
helpers depend on them; `Pxv/Thm/C08.lean` restates them as property theorems.
-/
namespace Pxv.Rules
theorem lookupAux_eq (db : DB) (t : Nat) : ∀ (fuel s : Nat),
    db.lookupAux t fuel s = (db.ancAux fuel s).findSome? (fun a => db.ctorIn a t) := by
  intro fuel
  induction fuel with
  | zero => intro s; simp [DB.lookupAux, DB.ancAux]
  | succ fuel ih =>
    intro s
    simp only [DB.lookupAux, DB.ancAux, List.findSome?_cons]
    cases h : db.ctorIn s t with
    | some c => simp
    | none =>
      by_cases hs : s = 0
      · simp [hs]
      · simp [hs, ih]

/-- **nearest enclosing scope**: the lookup walks the visible scopes (`anc`: the scope itself, its
    parent, …, the root — nearest first) and answers with the first registration it meets. -/
theorem lookup_eq_findSome (db : DB) (s t : Nat) :
    db.lookup s t = (db.anc s).findSome? (fun a => db.ctorIn a t) := lookupAux_eq db t (s + 1) s

theorem ctorIn_some {db : DB} {s t c : Nat} (h : db.ctorIn s t = some c) :
    c < db.n ∧ (db.comp c).kind = .ctor ∧ (db.comp c).scope = s ∧ (db.comp c).out = t := by
  unfold DB.ctorIn at h
  have h1 := List.find?_some h
  have h2 := List.mem_of_find?_eq_some h
  simp only [DB.isCtorFor, Bool.and_eq_true, beq_iff_eq] at h1
  exact ⟨List.mem_range.mp (List.mem_reverse.mp h2), h1.1.1, h1.1.2, h1.2⟩

theorem ctorIn_ne_none {db : DB} {s t c : Nat} (hc : c < db.n) (h1 : (db.comp c).kind = .ctor)
    (h2 : (db.comp c).scope = s) (h3 : (db.comp c).out = t) : db.ctorIn s t ≠ none := by
  unfold DB.ctorIn
  intro h
  rw [List.find?_eq_none] at h
  have := h c (List.mem_reverse.mpr (List.mem_range.mpr hc))
  simp [DB.isCtorFor, h1, h2, h3] at this

/-- **siblings are invisible**: whatever the lookup finds is a constructor of the requested type
    registered against the scope itself or one of its ancestors. -/
theorem lookup_some {db : DB} {s t c : Nat} (h : db.lookup s t = some c) :
    c < db.n ∧ (db.comp c).kind = .ctor ∧ (db.comp c).out = t ∧ (db.comp c).scope ∈ db.anc s := by
  rw [lookup_eq_findSome, List.findSome?_eq_some_iff] at h
  obtain ⟨l1, a, l2, hl, ha, _⟩ := h
  have := ctorIn_some ha
  refine ⟨this.1, this.2.1, this.2.2.2, ?_⟩
  rw [this.2.2.1, hl]
  simp

/-- nothing found ⇔ no visible scope has a registration for the type. -/
theorem lookup_none_iff (db : DB) (s t : Nat) :
    db.lookup s t = none ↔ ∀ a ∈ db.anc s, db.ctorIn a t = none := by
  rw [lookup_eq_findSome, List.findSome?_eq_none_iff]

/-- a registration in a nearer scope wins over one further up. -/
theorem lookup_nearest {db : DB} {s t c : Nat} (h : db.lookup s t = some c) :
    ∃ l1 l2, db.anc s = l1 ++ (db.comp c).scope :: l2 ∧ ∀ a ∈ l1, db.ctorIn a t = none := by
  rw [lookup_eq_findSome, List.findSome?_eq_some_iff] at h
  obtain ⟨l1, a, l2, hl, ha, hnone⟩ := h
  exact ⟨l1, l2, by rw [(ctorIn_some ha).2.2.1]; exact hl, hnone⟩

/-- the ancestors of a scope in a well-formed scope tree. -/
inductive Anc (db : DB) : Nat → Nat → Prop
  | refl (s : Nat) : Anc db s s
  | up {a s : Nat} : s ≠ 0 → Anc db a (db.parentOf s) → Anc db a s

/-- scope ids are assigned in registration order: a parent has a smaller id than its children. -/
def DB.WFScopes (db : DB) : Prop := ∀ s, s ≠ 0 → db.parentOf s < s

theorem ancAux_spec (db : DB) (hwf : db.WFScopes) : ∀ (fuel s a : Nat), s < fuel →
    (a ∈ db.ancAux fuel s ↔ Anc db a s) := by
  intro fuel
  induction fuel with
  | zero => intro s a h; omega
  | succ fuel ih =>
    intro s a hs
    simp only [DB.ancAux, List.mem_cons]
    by_cases h0 : s = 0
    · subst h0
      simp only [if_true, List.not_mem_nil, or_false]
      constructor
      · intro e; subst e; exact .refl _
      · intro h; cases h with
        | refl => rfl
        | up hne _ => exact absurd rfl hne
    · simp only [h0, if_false]
      have hp := hwf s h0
      constructor
      · rintro (e | h)
        · subst e; exact .refl _
        · exact .up h0 ((ih _ a (by omega)).mp h)
      · intro h; cases h with
        | refl => left; rfl
        | up _ h => right; exact (ih _ a (by omega)).mpr h

/-- in a well-formed scope tree `anc` is exactly the chain of enclosing blueprints. -/
theorem anc_spec (db : DB) (hwf : db.WFScopes) (s a : Nat) : a ∈ db.anc s ↔ Anc db a s :=
  ancAux_spec db hwf (s + 1) s a (Nat.lt_succ_self s)


theorem deps_lt {db : DB} {s i j : Nat} (h : j ∈ db.depsFrom s i) : j < db.n := by
  unfold DB.depsFrom at h
  obtain ⟨x, _, hx⟩ := List.mem_filterMap.mp h
  exact (lookup_some hx).1

/-- `j` is the constructor injected for one of the inputs of `i`. -/
theorem mem_deps_iff {db : DB} {i j : Nat} :
    j ∈ db.deps i ↔ ∃ x ∈ (db.comp i).ins, db.lookup (db.comp i).scope x.ty = some j := by
  unfold DB.deps DB.depsFrom
  exact List.mem_filterMap

/-- component `i` needs `j`, directly or through any number of injected constructors. -/
def DB.Needs (db : DB) (i j : Nat) : Prop := ReachN db.deps db.n i j

theorem DB.Needs.refl (db : DB) (i : Nat) : db.Needs i i := ReachN.refl i
theorem DB.Needs.step {db : DB} {i j k : Nat} (h : db.Needs i j) (hk : k ∈ db.deps j) : db.Needs i k :=
  ReachN.step h hk (deps_lt hk)

/-- a component that the compiler has to build code for: a handler, a middleware, an error
    observer, or a constructor one of them needs (at any depth). -/
def DB.Reachable (db : DB) (c : Nat) : Prop :=
  ∃ r, r < db.n ∧ (db.comp r).kind.isRoot = true ∧ db.Needs r c

theorem mem_roots {db : DB} {r : Nat} : r ∈ db.roots ↔ r < db.n ∧ (db.comp r).kind.isRoot = true := by
  simp [DB.roots, List.mem_filter, List.mem_range]

/-- **the worklist of `detect_missing_constructors` reaches every such component.** -/
theorem reach_complete {db : DB} {c : Nat} (h : db.Reachable c) : c ∈ db.reach := by
  obtain ⟨r, hr, hk, hn⟩ := h
  exact closure_complete db.deps db.n db.roots (mem_roots.mpr ⟨hr, hk⟩) hr hn

theorem reach_closed {db : DB} {i j : Nat} (hi : i ∈ db.reach) (hj : j ∈ db.deps i) : j ∈ db.reach :=
  (closure_closed db.deps db.n db.roots).2 i hi j hj (deps_lt hj)

theorem succOf_depAdj {db : DB} {i : Nat} (hi : i ∈ db.reach) (hn : i < db.n) :
    succOf db.depAdj i = db.deps i := by
  unfold succOf DB.depAdj
  simp only [List.getD_eq_getElem?_getD, List.getElem?_map, List.getElem?_range hn, Option.map_some,
    Option.getD_some]
  rw [if_pos (List.contains_iff_mem.mpr hi)]

theorem reach_lt {db : DB} {i : Nat} (hi : db.Reachable i) : i < db.n := by
  obtain ⟨r, hr, _, hn⟩ := hi
  cases hn with
  | refl => exact hr
  | step _ _ h => exact h

theorem mem_singletons {db : DB} {s : Nat} :
    s ∈ db.singletons ↔ s < db.n ∧ (db.comp s).life = .singleton ∧ (db.comp s).kind = .ctor := by
  simp [DB.singletons, List.mem_filter, List.mem_range]

/-- `t` is reached from `s` through transient constructors only (`s` itself included). -/
def DB.ThroughTransients (db : DB) (s t : Nat) : Prop := ReachN db.transDeps db.n s t

theorem DB.ThroughTransients.step {db : DB} {s i j : Nat} (h : db.ThroughTransients s i)
    (hj : j ∈ db.deps i) (ht : (db.comp j).life = .transient) : db.ThroughTransients s j :=
  ReachN.step h (by simp [DB.transDeps, List.mem_filter, hj, ht]) (deps_lt hj)

theorem mem_requestTime {db : DB} {i : Nat} (hi : db.Reachable i)
    (hrt : ¬ ((db.comp i).kind = .ctor ∧ (db.comp i).life = .singleton)) : i ∈ db.requestTime := by
  unfold DB.requestTime
  refine List.mem_filter.mpr ⟨reach_complete hi, ?_⟩
  simp only [Bool.not_eq_true', Bool.and_eq_false_iff, decide_eq_false_iff_not]
  by_cases hk : (db.comp i).kind = .ctor
  · right; intro hl; exact hrt ⟨hk, hl⟩
  · left; exact hk

theorem mem_runtimeSingletons {db : DB} {i c : Nat} (hi : db.Reachable i)
    (hrt : ¬ ((db.comp i).kind = .ctor ∧ (db.comp i).life = .singleton))
    (hc : c ∈ db.deps i) (hl : (db.comp c).life = .singleton) : c ∈ db.runtimeSingletons := by
  unfold DB.runtimeSingletons
  rw [List.mem_eraseDups]
  refine List.mem_flatMap.mpr ⟨i, mem_requestTime hi hrt, ?_⟩
  simp [List.mem_filter, hc, hl]

/-- what the observer `o` pulls in: its own inputs, and the inputs of every request-scoped/transient
    infallible constructor already pulled in — all looked up from the observer's blueprint. -/
inductive ObsNeeds (db : DB) (o : Nat) : Nat → Prop
  | direct {j : Nat} : j ∈ db.depsFrom (db.comp o).scope o → ObsNeeds db o j
  | through {i j : Nat} : ObsNeeds db o i → (db.comp i).life ≠ .singleton → (db.comp i).fallible = false →
      j ∈ db.depsFrom (db.comp o).scope i → ObsNeeds db o j

theorem ObsNeeds.reach {db : DB} {o c : Nat} (h : ObsNeeds db o c) : ReachN (db.obsSucc o) db.n o c := by
  induction h with
  | direct hj => exact .step (.refl o) (by simp [DB.obsSucc, hj]) (deps_lt hj)
  | through _ hl hf hj ih =>
    refine .step ih ?_ (deps_lt hj)
    unfold DB.obsSucc
    rw [if_pos (Or.inr ⟨hl, by simp [hf]⟩)]
    exact hj

/-- does a route template match a request path (given as its segments)? A literal matches itself, a
    parameter any one segment, a catch-all whatever is left (at least one segment). -/
def matchPath : List Seg → List Nat → Bool
  | [], [] => true
  | .lit a :: p, s :: r => a == s && matchPath p r
  | .param _ :: p, _ :: r => matchPath p r
  | .catchAll _ :: _, _ :: _ => true
  | _, _ => false

/-- some request path is matched by both templates -/
def Overlap (p q : List Seg) : Prop := ∃ req, matchPath p req = true ∧ matchPath q req = true

/-- two routes that can match the same request: a common method and overlapping templates -/
def RoutesOverlap (r1 r2 : Route) : Prop :=
  (∃ m, r1.accepts m = true ∧ r2.accepts m = true) ∧ Overlap r1.path r2.path

/-- a request matched by a template -/
def inst : List Seg → List Nat
  | [] => []
  | .lit a :: p => a :: inst p
  | .param _ :: p => 0 :: inst p
  | .catchAll _ :: _ => [0]

theorem matchPath_inst (p : List Seg) : matchPath p (inst p) = true := by
  induction p with
  | nil => rfl
  | cons a p ih => cases a <;> simp [inst, matchPath, ih]

/-- a request matched by both of two templates of conflicting shape -/
def overlapWitness : List Seg → List Seg → List Nat
  | .lit a :: p, .lit _ :: q => a :: overlapWitness p q
  | .param _ :: p, .param _ :: q => 0 :: overlapWitness p q
  | .catchAll _ :: _, .catchAll _ :: _ => [0]
  | .catchAll _ :: _, .param _ :: q => 0 :: inst q
  | .param _ :: p, .catchAll _ :: _ => 0 :: inst p
  | _, _ => []

theorem mem_paths {db : DB} {r : Route} (hr : r ∈ db.routes) : r.path ∈ db.paths := by
  unfold DB.paths
  rw [List.mem_eraseDups]
  exact List.mem_map.mpr ⟨r, hr, rfl⟩

theorem check_ne_nil_of_stage (db : DB)
    (h : db.stage1 ≠ [] ∨ db.stage2 ≠ [] ∨ db.stage3 ≠ [] ∨ db.stage4 ≠ []) : db.check ≠ [] := by
  have e : ∀ l : List Diag, l ≠ [] → l.isEmpty = false := by
    intro l hl; cases l with
    | nil => exact absurd rfl hl
    | cons _ _ => rfl
  unfold DB.check
  by_cases h1 : db.stage1 = []
  · by_cases h2 : db.stage2 = []
    · by_cases h3 : db.stage3 = []
      · have h4 : db.stage4 ≠ [] := by
          rcases h with h | h | h | h
          · exact absurd h1 h
          · exact absurd h2 h
          · exact absurd h3 h
          · exact h
        simp [h1, h2, h3, h4]
      · simp [h1, h2, e _ h3, h3]
    · simp [h1, e _ h2, h2]
  · simp [e _ h1, h1]

theorem ne_nil_of_mem {α} {l : List α} {a : α} (h : a ∈ l) : l ≠ [] := by
  intro e; rw [e] at h; cases h

theorem stage3_of_mem {db : DB} {d : Diag}
    (h : d ∈ db.detectMissing ∨ d ∈ db.singletonAmbiguity ∨ d ∈ db.singletonDeps ∨ d ∈ db.observerFallible ∨
      d ∈ db.cloneNotClone) : db.stage3 ≠ [] :=
  ne_nil_of_mem (a := d) (by simpa [DB.stage3] using h)

theorem stage4_of_mem {db : DB} {d : Diag}
    (h : d ∈ db.cycles ∨ d ∈ db.pathParams ∨ d ∈ db.threadSafety ∨ d ∈ db.singletonByValue) : db.stage4 ≠ [] :=
  ne_nil_of_mem (a := d) (by simpa [DB.stage4] using h)



/-- the analyses process nothing else: every processed component is a root or needed by one. -/
theorem reach_sound {db : DB} {c : Nat} (h : c ∈ db.reach) : db.Reachable c := by
  obtain ⟨_, r, hr, hreach⟩ := closure_sound db.deps db.n db.roots h
  have := mem_roots.mp hr
  exact ⟨r, this.1, this.2, hreach⟩

end Pxv.Rules
