import Pxv.Lemmas.Lifecycle
/-! References to the nodes of a call graph under construction (helpers for `Thm/C03.lean`, `Thm/C04.lean`). -/
namespace Pxv.Life
open Pxv.Scope

/-- all the sources the nodes of a closure take their inputs from -/
def Closure.inner (cl : Closure) : List Src := cl.nodes.flatMap (·.ins)

def Closure.transientAt (cl : Closure) (i : Nat) : Prop :=
  ∃ n, cl.nodes[i]? = some n ∧ n.ctor.life = .transient

/-- references to node `i` -/
def refs (i : Nat) (l : List Src) : Nat := l.count (.built i)

theorem refs_append (i : Nat) (a b : List Src) : refs i (a ++ b) = refs i a + refs i b := by
  simp [refs, List.count_append]

/-- constructor ids identify constructors (as component ids do in pavexc) -/
def UidInj (lk : Nat → Option CDef) : Prop :=
  ∀ t1 t2 c1 c2, lk t1 = some c1 → lk t2 = some c2 → c1.uid = c2.uid → c1 = c2

/-- what one traversal step does to the references of transient nodes -/
structure Step (lk : Nat → Option CDef) (cl cl' : Closure) (out : List Src) : Prop where
  ext : ∃ new, cl'.nodes = cl.nodes ++ new
  ran : ∀ n ∈ cl'.nodes, ∃ t, lk t = some n.ctor
  ws : ∀ j, Src.built j ∈ cl'.inner → j < cl'.nodes.length
  outws : ∀ j, Src.built j ∈ out → j < cl'.nodes.length
  oldT : ∀ i, i < cl.nodes.length → cl.transientAt i → refs i (cl'.inner ++ out) = refs i cl.inner
  newT : ∀ i, cl.nodes.length ≤ i → cl'.transientAt i → refs i (cl'.inner ++ out) ≤ 1

/-- the invariant a closure under construction satisfies -/
structure Good (lk : Nat → Option CDef) (cl : Closure) : Prop where
  ran : ∀ n ∈ cl.nodes, ∃ t, lk t = some n.ctor
  ws : ∀ j, Src.built j ∈ cl.inner → j < cl.nodes.length

theorem refs_zero_of_not_mem (i : Nat) (l : List Src) (h : Src.built i ∉ l) : refs i l = 0 := by
  simp [refs, List.count_eq_zero, h]

theorem transientAt_mono {cl cl' : Closure} (h : ∃ new, cl'.nodes = cl.nodes ++ new) (i : Nat)
    (hi : i < cl.nodes.length) : cl'.transientAt i ↔ cl.transientAt i := by
  obtain ⟨new, hn⟩ := h
  unfold Closure.transientAt
  rw [hn, List.getElem?_append_left hi]

theorem step_refl (lk : Nat → Option CDef) (cl : Closure) (h : Good lk cl) : Step lk cl cl [] :=
  ⟨⟨[], by simp⟩, h.ran, h.ws, by simp, by intro i _ _; simp, by
    intro i hi ⟨n, hn, _⟩
    have : i < cl.nodes.length := by
      rcases Nat.lt_or_ge i cl.nodes.length with h | h
      · exact h
      · rw [List.getElem?_eq_none h] at hn; cases hn
    omega⟩

theorem step_good {lk : Nat → Option CDef} {cl cl' : Closure} {out : List Src} (h : Step lk cl cl' out) : Good lk cl' :=
  ⟨h.ran, h.ws⟩

/-- steps compose: first `[s]`, then `ss` -/
theorem step_cons {lk : Nat → Option CDef} {cl cl1 cl2 : Closure} {s : Src} {ss : List Src}
    (h1 : Step lk cl cl1 [s]) (h2 : Step lk cl1 cl2 ss) : Step lk cl cl2 (s :: ss) := by
  obtain ⟨n1, hn1⟩ := h1.ext
  obtain ⟨n2, hn2⟩ := h2.ext
  have hlen1 : cl.nodes.length ≤ cl1.nodes.length := by rw [hn1]; simp
  have hlen2 : cl1.nodes.length ≤ cl2.nodes.length := by rw [hn2]; simp
  have hs : ∀ j, s = Src.built j → j < cl1.nodes.length := fun j hj => h1.outws j (by simp [hj])
  have split : ∀ i, refs i (cl2.inner ++ s :: ss) = refs i (cl2.inner ++ ss) + refs i [s] := by
    intro i
    simp only [refs, List.count_append, List.count_cons, List.count_nil]
    omega
  refine ⟨⟨n1 ++ n2, by rw [hn2, hn1, List.append_assoc]⟩, h2.ran, h2.ws, ?_, ?_, ?_⟩
  · intro j hj
    simp only [List.mem_cons] at hj
    rcases hj with hj | hj
    · have := hs j hj.symm; omega
    · exact h2.outws j hj
  · intro i hi ht
    have ht1 : cl1.transientAt i := (transientAt_mono h1.ext i hi).mpr ht
    rw [split, h2.oldT i (by omega) ht1]
    have := h1.oldT i hi ht
    rw [refs_append] at this
    exact this
  · intro i hi ht
    rw [split]
    by_cases hlt : i < cl1.nodes.length
    · have ht1 : cl1.transientAt i := (transientAt_mono h2.ext i hlt).mp ht
      rw [h2.oldT i hlt ht1]
      have := h1.newT i hi ht1
      rw [refs_append] at this
      exact this
    · have h0 : refs i [s] = 0 := by
        apply refs_zero_of_not_mem
        intro hm
        simp only [List.mem_singleton] at hm
        have := hs i hm.symm
        omega
      rw [h0]
      exact h2.newT i (by omega) ht


theorem good_addParam {lk : Nat → Option CDef} {cl : Closure} (ty : Nat) (m : Mode) (h : Good lk cl) :
    Good lk (cl.addParam ty m) := ⟨h.ran, h.ws⟩

theorem lt_of_transientAt {cl : Closure} {i : Nat} (h : cl.transientAt i) : i < cl.nodes.length := by
  obtain ⟨n, hn, _⟩ := h
  rcases Nat.lt_or_ge i cl.nodes.length with h | h
  · exact h
  · rw [List.getElem?_eq_none h] at hn; cases hn

/-- a step that adds no node and answers with a source that is no transient node -/
theorem step_same {lk : Nat → Option CDef} {cl cl' : Closure} (s : Src) (h : Good lk cl)
    (hn : cl'.nodes = cl.nodes)
    (hs : ∀ j, s = Src.built j → j < cl.nodes.length ∧ ¬ cl.transientAt j) : Step lk cl cl' [s] := by
  have hin : cl'.inner = cl.inner := by unfold Closure.inner; rw [hn]
  refine ⟨⟨[], by simp [hn]⟩, by rw [hn]; exact h.ran, by rw [hin, hn]; exact h.ws, ?_, ?_, ?_⟩
  · intro j hj
    simp only [List.mem_singleton] at hj
    rw [hn]; exact (hs j hj.symm).1
  · intro i hi ht
    rw [hin, refs_append]
    have : refs i [s] = 0 := by
      apply refs_zero_of_not_mem
      intro hm
      simp only [List.mem_singleton] at hm
      exact (hs i hm.symm).2 ht
    omega
  · intro i hi ht
    have : cl'.transientAt i → i < cl.nodes.length := by
      intro h; have := lt_of_transientAt h; rw [hn] at this; exact this
    have := this ht
    omega

theorem inner_push (cl : Closure) (c : CDef) (srcs : List Src) :
    (cl.push c srcs).1.inner = cl.inner ++ srcs := by
  simp [Closure.push, Closure.inner, List.flatMap_append]

/-- after the inputs `srcs` of constructor `c` were resolved (`Step cl cl' srcs`), adding the node -/
theorem step_push {lk : Nat → Option CDef} {cl cl' : Closure} {srcs : List Src} (c : CDef) (t : Nat)
    (hc : lk t = some c) (h : Step lk cl cl' srcs) :
    Step lk cl (cl'.push c srcs).1 [(cl'.push c srcs).2] := by
  obtain ⟨n1, hn1⟩ := h.ext
  have hlen : cl.nodes.length ≤ cl'.nodes.length := by rw [hn1]; simp
  have hnodes : (cl'.push c srcs).1.nodes = cl'.nodes ++ [⟨c, srcs⟩] := rfl
  have hout : (cl'.push c srcs).2 = Src.built cl'.nodes.length := rfl
  have hws' : ∀ j, Src.built j ∈ cl'.inner ++ srcs → j < cl'.nodes.length := by
    intro j hj
    simp only [List.mem_append] at hj
    rcases hj with hj | hj
    · exact h.ws j hj
    · exact h.outws j hj
  have hself : refs cl'.nodes.length (cl'.inner ++ srcs) = 0 := by
    apply refs_zero_of_not_mem
    intro hm
    have := hws' _ hm
    omega
  refine ⟨⟨n1 ++ [⟨c, srcs⟩], by rw [hnodes, hn1, List.append_assoc]⟩, ?_, ?_, ?_, ?_, ?_⟩
  · intro n hn
    rw [hnodes] at hn
    simp only [List.mem_append, List.mem_singleton] at hn
    rcases hn with hn | rfl
    · exact h.ran n hn
    · exact ⟨t, hc⟩
  · intro j hj
    rw [inner_push] at hj
    rw [hnodes]
    have := hws' j hj
    simp; omega
  · intro j hj
    rw [hout] at hj
    simp only [List.mem_singleton, Src.built.injEq] at hj
    rw [hnodes]; simp; omega
  · intro i hi ht
    rw [inner_push, hout, refs_append]
    have : refs i [Src.built cl'.nodes.length] = 0 := by
      apply refs_zero_of_not_mem
      simp; omega
    rw [this, Nat.add_zero]
    exact h.oldT i hi ht
  · intro i hi ht
    rw [inner_push, hout, refs_append]
    by_cases hlt : i < cl'.nodes.length
    · have ht' : cl'.transientAt i := by
        unfold Closure.transientAt at ht ⊢
        rw [hnodes, List.getElem?_append_left hlt] at ht
        exact ht
      have : refs i [Src.built cl'.nodes.length] = 0 := by
        apply refs_zero_of_not_mem
        simp; omega
      rw [this, Nat.add_zero]
      exact h.newT i hi ht'
    · have hlt2 := lt_of_transientAt ht
      rw [hnodes] at hlt2
      simp at hlt2
      have : i = cl'.nodes.length := by omega
      subst this
      rw [hself]
      simp [refs]


theorem foldRes_step (lk : Nat → Option CDef) (r : Closure → Nat × Mode → Closure × Src)
    (hr : ∀ cl i, Good lk cl → Step lk cl (r cl i).1 [(r cl i).2]) :
    ∀ l cl, Good lk cl → Step lk cl (foldRes r cl l).1 (foldRes r cl l).2 := by
  intro l
  induction l with
  | nil => intro cl h; exact step_refl lk cl h
  | cons i rest ih =>
    intro cl h
    simp only [foldRes]
    have h1 := hr cl i h
    have h2 := ih (r cl i).1 (step_good h1)
    exact step_cons h1 h2

/-- a node found through the de-duplication table is not a transient one -/
theorem found_not_transient {lk : Nat → Option CDef} (hu : UidInj lk) {cl : Closure} (hg : Good lk cl)
    {c : CDef} {t i : Nat} (hc : lk t = some c) (hnt : c.life ≠ .transient)
    (hf : cl.nodes.findIdx? (fun n => n.ctor.uid == c.uid) = some i) :
    i < cl.nodes.length ∧ ¬ cl.transientAt i := by
  rw [List.findIdx?_eq_some_iff_getElem] at hf
  obtain ⟨hi, hp, _⟩ := hf
  refine ⟨hi, ?_⟩
  rintro ⟨n, hn, hl⟩
  rw [List.getElem?_eq_getElem hi] at hn
  cases hn
  obtain ⟨t', ht'⟩ := hg.ran _ (List.getElem_mem hi)
  have := hu t' t _ _ ht' hc (by simpa using hp)
  rw [this] at hl
  exact hnt hl

theorem resolve_step (lk : Nat → Option CDef) (hu : UidInj lk) (pre : List Nat) (once : Life) :
    ∀ f cl i, Good lk cl → Step lk cl (resolve lk pre once f cl i).1 [(resolve lk pre once f cl i).2] := by
  intro f
  induction f with
  | zero =>
    intro cl i h
    obtain ⟨ty, m⟩ := i
    simp only [resolve]
    exact step_same _ h rfl (by intro j hj; cases hj)
  | succ f ih =>
    intro cl i h
    obtain ⟨ty, m⟩ := i
    simp only [resolve]
    cases hl : lk ty with
    | none => exact step_same _ h rfl (by intro j hj; cases hj)
    | some c =>
      simp only
      by_cases ht : c.life = .transient
      · simp only [ht, beq_self_eq_true, if_true]
        exact step_push c ty hl (foldRes_step lk _ ih c.ins cl h)
      · have ht' : (c.life == Life.transient) = false := by simpa using ht
        simp only [ht', Bool.false_eq_true, if_false]
        by_cases hp : (c.life != once || pre.contains c.uid) = true
        · simp only [hp, if_true]
          exact step_same _ h rfl (by intro j hj; cases hj)
        · simp only [hp, Bool.false_eq_true, if_false]
          cases hf : cl.nodes.findIdx? (fun n => n.ctor.uid == c.uid) with
          | some i0 =>
            simp only
            exact step_same _ h rfl (by
              intro j hj
              cases hj
              exact found_not_transient hu h hl ht hf)
          | none =>
            simp only
            have hs := foldRes_step lk _ ih c.ins cl h
            unfold Closure.pushOnce
            cases hf2 : (foldRes (resolve lk pre once f) cl c.ins).1.nodes.findIdx? (fun n => n.ctor.uid == c.uid) with
            | some i1 =>
              simp only
              -- (only with cyclic dependencies) the node appeared meanwhile: reuse it; the inputs resolved for it are dropped
              have hg' := step_good hs
              have hnt := found_not_transient hu hg' hl ht hf2
              obtain ⟨n1, hn1⟩ := hs.ext
              refine ⟨hs.ext, hs.ran, hs.ws, ?_, ?_, ?_⟩
              · intro j hj
                simp only [List.mem_singleton, Src.built.injEq] at hj
                rw [hj]; exact hnt.1
              · intro i hi hti
                have h0 : refs i [Src.built i1] = 0 := by
                  apply refs_zero_of_not_mem
                  simp only [List.mem_singleton, Src.built.injEq]
                  intro hii
                  subst hii
                  exact hnt.2 ((transientAt_mono hs.ext i hi).mpr hti)
                have := hs.oldT i hi hti
                rw [refs_append] at this ⊢
                rw [h0]
                have hle : refs i (foldRes (resolve lk pre once f) cl c.ins).1.inner ≤ refs i cl.inner := by omega
                -- references can only have been added: the prefix of `inner` is unchanged
                have hge : refs i cl.inner ≤ refs i (foldRes (resolve lk pre once f) cl c.ins).1.inner := by
                  unfold Closure.inner
                  rw [hn1, List.flatMap_append, ← Closure.inner]
                  show refs i (cl.nodes.flatMap (·.ins)) ≤ refs i (cl.nodes.flatMap (·.ins) ++ _)
                  rw [refs_append]; omega
                omega
              · intro i hi hti
                have h0 : refs i [Src.built i1] = 0 := by
                  apply refs_zero_of_not_mem
                  simp only [List.mem_singleton, Src.built.injEq]
                  intro hii
                  subst hii
                  exact hnt.2 hti
                have := hs.newT i hi hti
                rw [refs_append] at this ⊢
                omega
            | none =>
              simp only
              exact step_push c ty hl hs

/-- constructors kept in a table with pairwise different ids (as pavexc's component ids are) give a
    lookup that satisfies `UidInj` -/
theorem uidInj_of_table (tab : List CDef) (h : (tab.map (·.uid)).Nodup) :
    UidInj (fun t => tab.find? (fun d => d.ty == t)) := by
  intro t1 t2 c1 c2 h1 h2 hu
  have m1 := List.mem_of_find?_eq_some h1
  have m2 := List.mem_of_find?_eq_some h2
  clear h1 h2
  induction tab with
  | nil => cases m1
  | cons a as ih =>
    simp only [List.map_cons, List.nodup_cons] at h
    simp only [List.mem_cons] at m1 m2
    rcases m1 with rfl | m1 <;> rcases m2 with rfl | m2
    · rfl
    · exfalso; apply h.1; rw [hu]; exact List.mem_map.mpr ⟨c2, m2, rfl⟩
    · exfalso; apply h.1; rw [← hu]; exact List.mem_map.mpr ⟨c1, m1, rfl⟩
    · exact ih h.2 m1 m2


end Pxv.Life
