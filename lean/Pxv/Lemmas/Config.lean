import Pxv.Model.Config
/-! Helper lemmas for C18 (configuration precedence). -/
namespace Pxv.Config

/-- Some leaf of `b` sits strictly above or below `k`: `b` disagrees with a leaf at `k` on the
    *shape* of the dictionary. -/
def clash (k : Path) (b : List (Path × Leaf)) : Bool := b.any (fun e => e.1 != k && related k e.1)

theorem lookup_append (k : Path) (a b : List (Path × Leaf)) :
    lookup k (a ++ b) = match lookup k a with
      | some v => some v
      | none => lookup k b := by
  induction a with
  | nil => simp [lookup]
  | cons p a ih =>
    obtain ⟨k', v⟩ := p
    simp only [List.cons_append, lookup]
    split
    · rfl
    · exact ih

theorem lookup_filter_key (P : Path → Bool) (k : Path) (a : List (Path × Leaf)) :
    lookup k (a.filter (fun e => P e.1)) = if P k then lookup k a else none := by
  induction a with
  | nil => simp [lookup]
  | cons p a ih =>
    obtain ⟨k', v⟩ := p
    simp only [List.filter_cons]
    by_cases hk : k' = k
    · subst hk
      by_cases hp : P k' = true
      · simp [hp, lookup]
      · simp only [hp, lookup]
        simp only [hp, Bool.false_eq_true, if_false] at ih ⊢
        exact ih
    · by_cases hp : P k' = true
      · simp only [hp, if_true, lookup, if_neg hk]
        exact ih
      · simp only [hp, lookup, if_neg hk]
        exact ih

theorem isPrefix_refl (p : Path) : isPrefix p p = true := by
  induction p with
  | nil => rfl
  | cons a p ih => simp [isPrefix, ih]

theorem related_self (p : Path) : related p p = true := by simp [related, isPrefix_refl]

theorem lookup_none_any {k : Path} {b : List (Path × Leaf)} (h : lookup k b = none) :
    b.any (fun e => related k e.1) = clash k b := by
  induction b with
  | nil => rfl
  | cons p b ih =>
    obtain ⟨k', v⟩ := p
    simp only [lookup] at h
    split at h
    · cases h
    · rename_i hne
      simp only [List.any_cons, clash]
      have : (k' != k) = true := by simpa using hne
      rw [this, Bool.true_and]
      congr 1
      exact ih h

/-- `merge` at one key: the later source's leaf if it has one; otherwise the earlier source's
    leaf, unless the later source reshapes the dictionary around that key. -/
theorem lookup_merge_general (a b : List (Path × Leaf)) (k : Path) :
    lookup k (merge a b) = match lookup k b with
      | some v => some v
      | none => if clash k b then none else lookup k a := by
  unfold merge
  rw [lookup_append]
  cases hb : lookup k b with
  | some v => rfl
  | none =>
    simp only []
    rw [lookup_filter_key (fun q => !(b.any (fun e' => related q e'.1))) k a, lookup_none_any hb]
    cases clash k b <;> simp

theorem merge_nil_right (a : List (Path × Leaf)) : merge a [] = a := by
  simp [merge]

/-! ### extraction -/

theorem extractKey_error {cfg : List (Path × Leaf)} {k : Key} {e : Err}
    (h : extractKey cfg k = .error e) : e = .extract := by
  unfold extractKey at h
  split at h
  · cases h; rfl
  · split at h
    · split at h
      · cases h
      · cases h; rfl
    · split at h
      · cases h; rfl
      · cases h

theorem extract_error {schema : List Key} {cfg : List (Path × Leaf)} {e : Err}
    (h : extract schema cfg = .error e) : e = .extract := by
  induction schema with
  | nil => simp [extract] at h
  | cons k ks ih =>
    simp only [extract] at h
    cases hk : extractKey cfg k with
    | error e' =>
      simp only [hk, Except.error.injEq] at h
      subst h
      exact extractKey_error hk
    | ok v =>
      simp only [hk] at h
      cases hr : extract ks cfg with
      | error e' =>
        simp only [hr, Except.error.injEq] at h
        subst h
        exact ih hr
      | ok r => simp [hr] at h

theorem extract_fails_of_key {schema : List Key} {cfg : List (Path × Leaf)} {k : Key} {e : Err}
    (hm : k ∈ schema) (hk : extractKey cfg k = .error e) : extract schema cfg = .error .extract := by
  induction schema with
  | nil => cases hm
  | cons k' ks ih =>
    simp only [extract]
    rcases List.mem_cons.mp hm with heq | hm'
    · subst heq
      rw [hk, extractKey_error hk]
    · cases hk' : extractKey cfg k' with
      | error e' => rw [extractKey_error hk']
      | ok v =>
        simp only []
        rw [ih hm']

def lookupV (k : Path) : List (Path × Val) → Option Val
  | [] => none
  | (k', v) :: rest => if k' = k then some v else lookupV k rest

theorem extract_ok_key {schema : List Key} {cfg : List (Path × Leaf)} {vals : List (Path × Val)}
    (h : extract schema cfg = .ok vals) (hn : (schema.map (·.path)).Nodup) :
    ∀ k ∈ schema, ∃ v, extractKey cfg k = .ok v ∧ lookupV k.path vals = some v := by
  induction schema generalizing vals with
  | nil => intro k hk; cases hk
  | cons k' ks ih =>
    intro k hk
    simp only [List.map_cons, List.nodup_cons] at hn
    simp only [extract] at h
    cases hk' : extractKey cfg k' with
    | error e => simp [hk'] at h
    | ok v' =>
      cases hr : extract ks cfg with
      | error e => simp [hk', hr] at h
      | ok r =>
        simp only [hk', hr, Except.ok.injEq] at h
        subst h
        rcases List.mem_cons.mp hk with heq | hm
        · subst heq
          exact ⟨v', hk', by simp [lookupV]⟩
        · obtain ⟨v, h1, h2⟩ := ih hr hn.2 k hm
          refine ⟨v, h1, ?_⟩
          simp only [lookupV]
          have : k'.path ≠ k.path := by
            intro e
            exact hn.1 (e ▸ List.mem_map.mpr ⟨k, hm, rfl⟩)
          rw [if_neg this]
          exact h2


/-! ### the environment source -/

theorem replaceDU_cons_ne {b : Nat} (hb : b ≠ 95) (rest : List Nat) :
    replaceDU (b :: rest) = b :: replaceDU rest :=
  replaceDU.eq_2 b rest (fun _ h _ => hb h)

theorem replaceDU_no_underscore (l : List Nat) (h : ∀ b ∈ l, b ≠ 95) : replaceDU l = l := by
  induction l with
  | nil => simp [replaceDU]
  | cons b rest ih =>
    rw [replaceDU_cons_ne (h b (List.mem_cons_self ..)), ih (fun x hx => h x (List.mem_cons_of_mem _ hx))]

theorem lower_ne_underscore {b t : Nat} (h : lower b = t) (ht : t ≠ 95) : b ≠ 95 := by
  intro e
  subst e
  exact ht (by simpa [lower] using h.symm)

/-- A variable whose (trimmed) name is `PX_PROFILE` in any letter case contributes no key. -/
theorem envKey_profile (name : List Nat) (h : eqUncased (trim name) pxProfileVar = true) :
    envKey name = none := by
  unfold envKey
  simp only []
  generalize trim name = n at h ⊢
  have hl : lowerAll n = [112, 120, 95, 112, 114, 111, 102, 105, 108, 101] := by
    have : lowerAll pxProfileVar = [112, 120, 95, 112, 114, 111, 102, 105, 108, 101] := by decide
    rw [← this]
    simpa [eqUncased] using h
  simp only [lowerAll, List.map_eq_cons_iff, List.map_eq_nil_iff] at hl
  obtain ⟨b0, r0, rfl, h0, b1, r1, rfl, h1, b2, r2, rfl, h2, b3, r3, rfl, h3, b4, r4, rfl, h4, b5, r5, rfl, h5,
    b6, r6, rfl, h6, b7, r7, rfl, h7, b8, r8, rfl, h8, b9, r9, rfl, h9, rfl⟩ := hl
  have hk : replaceDU [b3, b4, b5, b6, b7, b8, b9] = [b3, b4, b5, b6, b7, b8, b9] := by
    apply replaceDU_no_underscore
    intro b hb
    simp only [List.mem_cons, List.mem_nil_iff, or_false] at hb
    rcases hb with rfl | rfl | rfl | rfl | rfl | rfl | rfl
    · exact lower_ne_underscore h3 (by decide)
    · exact lower_ne_underscore h4 (by decide)
    · exact lower_ne_underscore h5 (by decide)
    · exact lower_ne_underscore h6 (by decide)
    · exact lower_ne_underscore h7 (by decide)
    · exact lower_ne_underscore h8 (by decide)
    · exact lower_ne_underscore h9 (by decide)
  have hp : eqUncased [b3, b4, b5, b6, b7, b8, b9] profileKey = true := by
    have e1 : lowerAll [b3, b4, b5, b6, b7, b8, b9] = [112, 114, 111, 102, 105, 108, 101] := by
      simp [lowerAll, h3, h4, h5, h6, h7, h8, h9]
    unfold eqUncased
    rw [e1]
    decide
  simp only [List.drop_succ_cons, List.drop_zero, hk, hp, if_true]
  split <;> rfl

theorem envFold_filter_profile (vars : List (List Nat × List Nat)) :
    ∀ d, envFold vars d = envFold (vars.filter (fun v => !eqUncased (trim v.1) pxProfileVar)) d := by
  induction vars with
  | nil => intro d; rfl
  | cons p rest ih =>
    intro d
    obtain ⟨n, v⟩ := p
    by_cases h : eqUncased (trim n) pxProfileVar = true
    · simp only [List.filter_cons, h, Bool.not_true, Bool.false_eq_true, if_false, envFold, envKey_profile n h]
      exact ih d
    · simp only [List.filter_cons, h, Bool.not_false, if_true, envFold]
      cases envKey n with
      | none => exact ih d
      | some k => exact ih _


/-! ### `PX_A__B__C` names the nested key `a.b.c` -/

/-- No two adjacent underscores. -/
def noDU : List Nat → Bool
  | 95 :: 95 :: _ => false
  | _ :: rest => noDU rest
  | [] => true

theorem noDU_tail {b : Nat} {rest : List Nat} (h : noDU (b :: rest) = true) : noDU rest = true := by
  cases rest with
  | nil => rfl
  | cons c r =>
    unfold noDU at h
    split at h
    · cases h
    · rename_i heq
      simp only [List.cons.injEq] at heq
      obtain ⟨_, rfl⟩ := heq
      exact h
    · rename_i heq; cases heq

theorem noDU_head {c : List Nat} (h : noDU (95 :: c) = true) : ∀ x r, c = x :: r → x ≠ 95 := by
  intro x r hc e
  subst hc
  subst e
  simp [noDU] at h

theorem replaceDU_cons_next_ne {b c : Nat} (hc : c ≠ 95) (r : List Nat) :
    replaceDU (b :: c :: r) = b :: replaceDU (c :: r) :=
  replaceDU.eq_2 b (c :: r) (fun rest _ h => by
    simp only [List.cons.injEq] at h
    exact hc h.1)

/-- A segment without `__` that does not end in `_`, followed by `__`: the separator becomes one dot. -/
theorem replaceDU_seg_sep : ∀ (s rest : List Nat), noDU s = true → (s ≠ [] → s.getLast? ≠ some 95) →
    replaceDU (s ++ 95 :: 95 :: rest) = s ++ 46 :: replaceDU rest := by
  intro s
  induction s with
  | nil => intro rest _ _; simp [replaceDU]
  | cons b s ih =>
    intro rest hn hl
    have hn' := noDU_tail hn
    cases s with
    | nil =>
      have hb : b ≠ 95 := by
        intro e
        have := hl (by simp)
        simp [e] at this
      simp only [List.cons_append, List.nil_append]
      rw [replaceDU_cons_ne hb]
      simp [replaceDU]
    | cons c s' =>
      have hl' : (c :: s') ≠ [] → (c :: s').getLast? ≠ some 95 := by
        intro _
        have := hl (by simp)
        simpa [List.getLast?_cons_cons] using this
      have ih' := ih rest hn' hl'
      simp only [List.cons_append] at ih' ⊢
      by_cases hb : b = 95
      · subst hb
        have hc : c ≠ 95 := noDU_head hn c s' rfl
        rw [replaceDU_cons_next_ne hc, ih']
      · rw [replaceDU_cons_ne hb, ih']

theorem replaceDU_noDU : ∀ (s : List Nat), noDU s = true → replaceDU s = s := by
  intro s
  induction s with
  | nil => intro _; simp [replaceDU]
  | cons b s ih =>
    intro hn
    have hn' := noDU_tail hn
    cases s with
    | nil =>
      by_cases hb : b = 95
      · subst hb; simp [replaceDU]
      · rw [replaceDU_cons_ne hb]; simp [replaceDU]
    | cons c s' =>
      by_cases hb : b = 95
      · subst hb
        rw [replaceDU_cons_next_ne (noDU_head hn c s' rfl), ih hn']
      · rw [replaceDU_cons_ne hb, ih hn']

/-- Segments joined by `sep`. -/
def joinWith (sep : List Nat) : List (List Nat) → List Nat
  | [] => []
  | [s] => s
  | s :: rest => s ++ sep ++ joinWith sep rest

theorem replaceDU_join : ∀ (segs : List (List Nat)),
    (∀ s ∈ segs, noDU s = true ∧ s.getLast? ≠ some 95) →
    replaceDU (joinWith [95, 95] segs) = joinWith [46] segs := by
  intro segs
  induction segs with
  | nil => intro _; simp [joinWith, replaceDU]
  | cons s rest ih =>
    intro h
    have hs := h s (List.mem_cons_self ..)
    cases rest with
    | nil => simp only [joinWith]; exact replaceDU_noDU s hs.1
    | cons s' rest' =>
      have : joinWith [95, 95] (s :: s' :: rest') = s ++ 95 :: 95 :: joinWith [95, 95] (s' :: rest') := by
        simp [joinWith]
      rw [this, replaceDU_seg_sep s _ hs.1 (fun _ => hs.2), ih (fun x hx => h x (List.mem_cons_of_mem _ hx))]
      simp [joinWith]

theorem splitDot_ne_nil (bs : List Nat) : splitDot bs ≠ [] := by
  induction bs with
  | nil => simp [splitDot]
  | cons b bs ih =>
    simp only [splitDot]
    split
    · simp
    · split <;> simp

theorem splitDot_no_dot {a : List Nat} (h : 46 ∉ a) : splitDot a = [a] := by
  induction a with
  | nil => simp [splitDot]
  | cons b a ih =>
    simp only [List.mem_cons, not_or] at h
    simp only [splitDot, ih h.2]
    rw [if_neg (fun e => h.1 e.symm)]

theorem splitDot_append_dot {a : List Nat} (rest : List Nat) (h : 46 ∉ a) :
    splitDot (a ++ 46 :: rest) = a :: splitDot rest := by
  induction a with
  | nil =>
    simp only [List.nil_append, splitDot]
    cases hs : splitDot rest with
    | nil => exact absurd hs (splitDot_ne_nil rest)
    | cons p ps => simp
  | cons b a ih =>
    simp only [List.mem_cons, not_or] at h
    simp only [List.cons_append, splitDot, ih h.2]
    rw [if_neg (fun e => h.1 e.symm)]

theorem splitDot_join : ∀ (segs : List (List Nat)), segs ≠ [] → (∀ s ∈ segs, 46 ∉ s) →
    splitDot (joinWith [46] segs) = segs := by
  intro segs
  induction segs with
  | nil => intro h; exact absurd rfl h
  | cons s rest ih =>
    intro _ hs
    have h1 : 46 ∉ s := hs s (List.mem_cons_self ..)
    cases rest with
    | nil => simp [joinWith, splitDot_no_dot h1]
    | cons s' rest' =>
      have : joinWith [46] (s :: s' :: rest') = s ++ 46 :: joinWith [46] (s' :: rest') := by
        simp [joinWith]
      rw [this, splitDot_append_dot _ h1, ih (by simp) (fun x hx => hs x (List.mem_cons_of_mem _ hx))]

theorem trimStart_of_head {bs : List Nat} (h : ∀ b r, bs = b :: r → isWs b = false) : trimStart bs = bs := by
  cases bs with
  | nil => rfl
  | cons b r =>
    have := h b r rfl
    simp [trimStart, List.dropWhile, this]

/-- Nothing to trim when neither end is blank. -/
theorem trim_id {bs : List Nat} (hh : ∀ b r, bs = b :: r → isWs b = false)
    (hl : ∀ b, bs.getLast? = some b → isWs b = false) : trim bs = bs := by
  unfold trim
  rw [trimStart_of_head hh]
  have : trimStart bs.reverse = bs.reverse := by
    apply trimStart_of_head
    intro b r hr
    apply hl b
    have : bs = (b :: r).reverse := by rw [← hr, List.reverse_reverse]
    rw [this]
    simp
  rw [this, List.reverse_reverse]


theorem mem_joinWith {sep : List Nat} {b : Nat} : ∀ {segs : List (List Nat)}, b ∈ joinWith sep segs →
    b ∈ sep ∨ ∃ s ∈ segs, b ∈ s := by
  intro segs
  induction segs with
  | nil => intro h; simp [joinWith] at h
  | cons s rest ih =>
    intro h
    cases rest with
    | nil =>
      simp only [joinWith] at h
      exact Or.inr ⟨s, List.mem_cons_self .., h⟩
    | cons s' rest' =>
      have : joinWith sep (s :: s' :: rest') = s ++ sep ++ joinWith sep (s' :: rest') := by simp [joinWith]
      rw [this] at h
      rcases List.mem_append.mp h with h1 | h2
      · rcases List.mem_append.mp h1 with h3 | h4
        · exact Or.inr ⟨s, List.mem_cons_self .., h3⟩
        · exact Or.inl h4
      · rcases ih h2 with h5 | ⟨t, ht, hb⟩
        · exact Or.inl h5
        · exact Or.inr ⟨t, List.mem_cons_of_mem _ ht, hb⟩

theorem trim_id_of_all {bs : List Nat} (h : ∀ b ∈ bs, isWs b = false) : trim bs = bs := by
  apply trim_id
  · intro b r e
    exact h b (e ▸ List.mem_cons_self ..)
  · intro b e
    exact h b (List.mem_of_getLast? e)

theorem eqUncased_refl (a : List Nat) : eqUncased a a = true := by simp [eqUncased]

end Pxv.Config
