import Pxv.Model.Config
/-! Helper lemmas for C18 (configuration precedence). -/
namespace Pxv.Config

/-- Some leaf of `b` sits strictly above or below `k`: `b` disagrees with a leaf at `k` on the
    *shape* of the dictionary. -/
def clash (k : Path) (b : List (Path × Leaf)) : Bool := b.any (fun e => e.1 != k && related k e.1)

theorem lookup_append (k : Path) (a b : List (Path × Leaf)) :
    lookup k (a ++ b) = match lookup k a with
      | some v => some v
      | none => lookup k b := by
  induction a with
  | nil => simp [lookup]
  | cons p a ih =>
    obtain ⟨k', v⟩ := p
    simp only [List.cons_append, lookup]
    split
    · rfl
    · exact ih

theorem lookup_filter_key (P : Path → Bool) (k : Path) (a : List (Path × Leaf)) :
    lookup k (a.filter (fun e => P e.1)) = if P k then lookup k a else none := by
  induction a with
  | nil => simp [lookup]
  | cons p a ih =>
    obtain ⟨k', v⟩ := p
    simp only [List.filter_cons]
    by_cases hk : k' = k
    · subst hk
      by_cases hp : P k' = true
      · simp [hp, lookup]
      · simp only [hp, lookup]
        simp only [hp, Bool.false_eq_true, if_false] at ih ⊢
        exact ih
    · by_cases hp : P k' = true
      · simp only [hp, if_true, lookup, if_neg hk]
        exact ih
      · simp only [hp, lookup, if_neg hk]
        exact ih

theorem isPrefix_refl (p : Path) : isPrefix p p = true := by
  induction p with
  | nil => rfl
  | cons a p ih => simp [isPrefix, ih]

theorem related_self (p : Path) : related p p = true := by simp [related, isPrefix_refl]

theorem lookup_none_any {k : Path} {b : List (Path × Leaf)} (h : lookup k b = none) :
    b.any (fun e => related k e.1) = clash k b := by
  induction b with
  | nil => rfl
  | cons p b ih =>
    obtain ⟨k', v⟩ := p
    simp only [lookup] at h
    split at h
    · cases h
    · rename_i hne
      simp only [List.any_cons, clash]
      have : (k' != k) = true := by simpa using hne
      rw [this, Bool.true_and]
      congr 1
      exact ih h

/-- `merge` at one key: the later source's leaf if it has one; otherwise the earlier source's
    leaf, unless the later source reshapes the dictionary around that key. -/
theorem lookup_merge_general (a b : List (Path × Leaf)) (k : Path) :
    lookup k (merge a b) = match lookup k b with
      | some v => some v
      | none => if clash k b then none else lookup k a := by
  unfold merge
  rw [lookup_append]
  cases hb : lookup k b with
  | some v => rfl
  | none =>
    simp only []
    rw [lookup_filter_key (fun q => !(b.any (fun e' => related q e'.1))) k a, lookup_none_any hb]
    cases clash k b <;> simp

theorem merge_nil_right (a : List (Path × Leaf)) : merge a [] = a := by
  simp [merge]

/-! ### extraction -/

theorem extractKey_error {cfg : List (Path × Leaf)} {k : Key} {e : Err}
    (h : extractKey cfg k = .error e) : e = .extract := by
  unfold extractKey at h
  split at h
  · cases h; rfl
  · split at h
    · split at h
      · cases h
      · cases h; rfl
    · split at h
      · cases h; rfl
      · cases h

theorem extract_error {schema : List Key} {cfg : List (Path × Leaf)} {e : Err}
    (h : extract schema cfg = .error e) : e = .extract := by
  induction schema with
  | nil => simp [extract] at h
  | cons k ks ih =>
    simp only [extract] at h
    cases hk : extractKey cfg k with
    | error e' =>
      simp only [hk, Except.error.injEq] at h
      subst h
      exact extractKey_error hk
    | ok v =>
      simp only [hk] at h
      cases hr : extract ks cfg with
      | error e' =>
        simp only [hr, Except.error.injEq] at h
        subst h
        exact ih hr
      | ok r => simp [hr] at h

theorem extract_fails_of_key {schema : List Key} {cfg : List (Path × Leaf)} {k : Key} {e : Err}
    (hm : k ∈ schema) (hk : extractKey cfg k = .error e) : extract schema cfg = .error .extract := by
  induction schema with
  | nil => cases hm
  | cons k' ks ih =>
    simp only [extract]
    rcases List.mem_cons.mp hm with heq | hm'
    · subst heq
      rw [hk, extractKey_error hk]
    · cases hk' : extractKey cfg k' with
      | error e' => rw [extractKey_error hk']
      | ok v =>
        simp only []
        rw [ih hm']

def lookupV (k : Path) : List (Path × Val) → Option Val
  | [] => none
  | (k', v) :: rest => if k' = k then some v else lookupV k rest

theorem extract_ok_key {schema : List Key} {cfg : List (Path × Leaf)} {vals : List (Path × Val)}
    (h : extract schema cfg = .ok vals) (hn : (schema.map (·.path)).Nodup) :
    ∀ k ∈ schema, ∃ v, extractKey cfg k = .ok v ∧ lookupV k.path vals = some v := by
  induction schema generalizing vals with
  | nil => intro k hk; cases hk
  | cons k' ks ih =>
    intro k hk
    simp only [List.map_cons, List.nodup_cons] at hn
    simp only [extract] at h
    cases hk' : extractKey cfg k' with
    | error e => simp [hk'] at h
    | ok v' =>
      cases hr : extract ks cfg with
      | error e => simp [hk', hr] at h
      | ok r =>
        simp only [hk', hr, Except.ok.injEq] at h
        subst h
        rcases List.mem_cons.mp hk with heq | hm
        · subst heq
          exact ⟨v', hk', by simp [lookupV]⟩
        · obtain ⟨v, h1, h2⟩ := ih hr hn.2 k hm
          refine ⟨v, h1, ?_⟩
          simp only [lookupV]
          have : k'.path ≠ k.path := by
            intro e
            exact hn.1 (e ▸ List.mem_map.mpr ⟨k, hm, rfl⟩)
          rw [if_neg this]
          exact h2

end Pxv.Config
