import Pxv.Lemmas.ScopeStage
/-! Completeness and ordering of the table `collectAll` builds (pipeline.rs step 4), and what `consumersOf` leaves out. -/
namespace Pxv.Scope

theorem mem_updInfo_of_mem {m : List (Nat × CloningInfo)} {ty : Nat} {f : CloningInfo → CloningInfo}
    {e0 : Nat × CloningInfo} (h : e0 ∈ m) :
    (if e0.1 == ty then (e0.1, f e0.2) else e0) ∈ updInfo m ty f := by
  unfold updInfo
  exact List.mem_map.mpr ⟨e0, h, rfl⟩

theorem mem_updInfo' {m : List (Nat × CloningInfo)} {ty : Nat} {f : CloningInfo → CloningInfo} {e : Nat × CloningInfo}
    (h : e ∈ updInfo m ty f) : ∃ e0 ∈ m, e.1 = e0.1 ∧ ((e0.1 ≠ ty ∧ e.2 = e0.2) ∨ (e0.1 = ty ∧ e.2 = f e0.2)) := by
  unfold updInfo at h
  simp only [List.mem_map] at h
  obtain ⟨e0, he0, rfl⟩ := h
  refine ⟨e0, he0, ?_⟩
  by_cases hc : (e0.1 == ty) = true
  · rw [if_pos hc]
    exact ⟨rfl, Or.inr ⟨by simpa using hc, rfl⟩⟩
  · rw [if_neg hc]
    exact ⟨rfl, Or.inl ⟨by simpa using hc, rfl⟩⟩

/-- what the table knows after the inputs `P` (pairs of middleware index and input) have been processed, the current
    middleware being number `k`. -/
structure Complete (P : Nat → StageInput → Prop) (m : List (Nat × CloningInfo)) (k : Nat) : Prop where
  idx : ∀ i inp, P i inp → i ≤ k
  vals : ∀ i inp, P i inp → inp.byRef = false → ∃ e ∈ m, e.1 = inp.ty ∧ ∃ c, (i, c) ∈ e.2.consumedBy
  refs : ∀ e ∈ m, ∀ ic ∈ e.2.consumedBy, ∀ j inp, P j inp → ic.1 < j → inp.ty = e.1 → inp.byRef = true →
    j ∈ e.2.refBy
  bound : ∀ e ∈ m, (∀ ic ∈ e.2.consumedBy, ic.1 ≤ k) ∧ (∀ j ∈ e.2.refBy, j ≤ k)
  sorted : ∀ e ∈ m, (e.2.consumedBy.map (·.1)).Pairwise (· ≤ ·) ∧ e.2.refBy.Pairwise (· ≤ ·)
  uniq : ∀ e ∈ m, ∀ e' ∈ m, e.1 = e'.1 → e = e'

theorem updInfo_uniq {m : List (Nat × CloningInfo)} {ty : Nat} {f : CloningInfo → CloningInfo}
    (h : ∀ e ∈ m, ∀ e' ∈ m, e.1 = e'.1 → e = e') :
    ∀ e ∈ updInfo m ty f, ∀ e' ∈ updInfo m ty f, e.1 = e'.1 → e = e' := by
  intro e he e' he' hk
  unfold updInfo at he he'
  obtain ⟨e0, he0, rfl⟩ := List.mem_map.mp he
  obtain ⟨e0', he0', rfl⟩ := List.mem_map.mp he'
  have hk0 : e0.1 = e0'.1 := by
    have a : (if e0.1 == ty then (e0.1, f e0.2) else e0).1 = e0.1 := by split <;> rfl
    have b : (if e0'.1 == ty then (e0'.1, f e0'.2) else e0').1 = e0'.1 := by split <;> rfl
    rw [a, b] at hk; exact hk
  rw [h e0 he0 e0' he0' hk0]

theorem complete_empty : Complete (fun _ _ => False) [] 0 where
  idx := fun _ _ hp => hp.elim
  vals := fun _ _ hp => hp.elim
  refs := fun _ he => (by cases he)
  bound := fun _ he => (by cases he)
  sorted := fun _ he => (by cases he)
  uniq := fun _ he => (by cases he)

theorem pairwise_snoc {l : List Nat} {k : Nat} (h : l.Pairwise (· ≤ ·)) (hb : ∀ x ∈ l, x ≤ k) :
    (l ++ [k]).Pairwise (· ≤ ·) := by
  rw [List.pairwise_append]
  refine ⟨h, by simp, ?_⟩
  intro a ha b hb'
  simp only [List.mem_singleton] at hb'
  subst hb'
  exact hb a ha

/-- one input of middleware `k`. -/
theorem collect_step_complete {P : Nat → StageInput → Prop} {m : List (Nat × CloningInfo)} {k : Nat}
    (i0 : StageInput) (h : Complete P m k) :
    Complete (fun i inp => P i inp ∨ (i = k ∧ inp = i0))
      (if i0.byRef then updInfo m i0.ty (fun ci => { ci with refBy := ci.refBy ++ [k] })
       else if m.any (fun e => e.1 == i0.ty) then
         updInfo m i0.ty (fun ci => { ci with consumedBy := ci.consumedBy ++ [(k, i0.cloneable)] })
       else m ++ [(i0.ty, { consumedBy := [(k, i0.cloneable)], copy := i0.copy })]) k := by
  by_cases hr : i0.byRef = true
  · -- a reference: recorded by every entry of its type
    simp only [hr, if_true]
    refine ⟨?_, ?_, ?_, ?_, ?_, updInfo_uniq h.uniq⟩
    · rintro i inp (hp | ⟨rfl, _⟩)
      · exact h.idx i inp hp
      · exact Nat.le_refl _
    · rintro i inp (hp | ⟨rfl, rfl⟩) hv
      · obtain ⟨e, he, hk, c, hc⟩ := h.vals i inp hp hv
        refine ⟨_, mem_updInfo_of_mem he, ?_, c, ?_⟩
        · split <;> exact hk
        · split <;> exact hc
      · rw [hr] at hv; cases hv
    · intro e he ic hic j inp hp hlt hty hbr
      obtain ⟨e0, he0, h1, h2⟩ := mem_updInfo' he
      rcases h2 with ⟨h3, h2⟩ | ⟨h3, h2⟩
      · rw [h2] at hic ⊢
        rcases hp with hp | ⟨rfl, rfl⟩
        · exact h.refs e0 he0 ic hic j inp hp hlt (by rw [hty, h1]) hbr
        · exact absurd (by rw [hty, h1]) h3
      · rw [h2] at hic ⊢
        simp only [List.mem_append, List.mem_singleton]
        rcases hp with hp | ⟨rfl, rfl⟩
        · left; exact h.refs e0 he0 ic hic j inp hp hlt (by rw [hty, h1]) hbr
        · right; rfl
    · intro e he
      obtain ⟨e0, he0, _, h2⟩ := mem_updInfo he
      rcases h2 with h2 | ⟨_, h2⟩
      · rw [h2]; exact h.bound e0 he0
      · rw [h2]
        refine ⟨(h.bound e0 he0).1, ?_⟩
        intro j hj
        simp only [List.mem_append, List.mem_singleton] at hj
        rcases hj with hj | rfl
        · exact (h.bound e0 he0).2 j hj
        · exact Nat.le_refl _
    · intro e he
      obtain ⟨e0, he0, _, h2⟩ := mem_updInfo he
      rcases h2 with h2 | ⟨_, h2⟩
      · rw [h2]; exact h.sorted e0 he0
      · rw [h2]
        exact ⟨(h.sorted e0 he0).1, pairwise_snoc (h.sorted e0 he0).2 (h.bound e0 he0).2⟩
  · have hr' : i0.byRef = false := by simpa using hr
    simp only [hr', Bool.false_eq_true, if_false]
    by_cases hany : m.any (fun e => e.1 == i0.ty) = true
    · -- a by-value input whose type already has an entry
      simp only [hany, if_true]
      obtain ⟨ex, hex, hexk⟩ := List.any_eq_true.mp hany
      have hexk' : ex.1 = i0.ty := by simpa using hexk
      refine ⟨?_, ?_, ?_, ?_, ?_, updInfo_uniq h.uniq⟩
      · rintro i inp (hp | ⟨rfl, _⟩)
        · exact h.idx i inp hp
        · exact Nat.le_refl _
      · rintro i inp (hp | ⟨rfl, rfl⟩) hv
        · obtain ⟨e, he, hk, c, hc⟩ := h.vals i inp hp hv
          refine ⟨_, mem_updInfo_of_mem he, ?_, c, ?_⟩
          · split <;> exact hk
          · split
            · simp only [List.mem_append, List.mem_singleton]; left; exact hc
            · exact hc
        · refine ⟨_, mem_updInfo_of_mem hex, ?_, inp.cloneable, ?_⟩
          · split <;> exact hexk'
          · rw [if_pos hexk]; simp
      · intro e he ic hic j inp hp hlt hty hbr
        obtain ⟨e0, he0, h1, h2⟩ := mem_updInfo he
        have hjk : j ≤ k := by
          rcases hp with hp | ⟨rfl, _⟩
          · exact h.idx j inp hp
          · exact Nat.le_refl _
        rcases h2 with h2 | ⟨_, h2⟩
        · rw [h2] at hic ⊢
          rcases hp with hp | ⟨rfl, rfl⟩
          · exact h.refs e0 he0 ic hic j inp hp hlt (by rw [hty, h1]) hbr
          · rw [hr'] at hbr; cases hbr
        · rw [h2] at hic ⊢
          simp only [List.mem_append, List.mem_singleton] at hic
          rcases hic with hic | rfl
          · rcases hp with hp | ⟨rfl, rfl⟩
            · exact h.refs e0 he0 ic hic j inp hp hlt (by rw [hty, h1]) hbr
            · rw [hr'] at hbr; cases hbr
          · simp only at hlt; omega
      · intro e he
        obtain ⟨e0, he0, _, h2⟩ := mem_updInfo he
        rcases h2 with h2 | ⟨_, h2⟩
        · rw [h2]; exact h.bound e0 he0
        · rw [h2]
          refine ⟨?_, (h.bound e0 he0).2⟩
          intro ic hic
          simp only [List.mem_append, List.mem_singleton] at hic
          rcases hic with hic | rfl
          · exact (h.bound e0 he0).1 ic hic
          · exact Nat.le_refl _
      · intro e he
        obtain ⟨e0, he0, _, h2⟩ := mem_updInfo he
        rcases h2 with h2 | ⟨_, h2⟩
        · rw [h2]; exact h.sorted e0 he0
        · rw [h2]
          refine ⟨?_, (h.sorted e0 he0).2⟩
          simp only [List.map_append, List.map_cons, List.map_nil]
          apply pairwise_snoc (h.sorted e0 he0).1
          intro x hx
          obtain ⟨ic, hic, rfl⟩ := List.mem_map.mp hx
          exact (h.bound e0 he0).1 ic hic
    · -- the first by-value input of its type: a new entry
      have hany' : m.any (fun e => e.1 == i0.ty) = false := Bool.eq_false_iff.mpr hany
      simp only [hany', Bool.false_eq_true, if_false]
      refine ⟨?_, ?_, ?_, ?_, ?_, ?_⟩
      · rintro i inp (hp | ⟨rfl, _⟩)
        · exact h.idx i inp hp
        · exact Nat.le_refl _
      · rintro i inp (hp | ⟨rfl, rfl⟩) hv
        · obtain ⟨e, he, hk, c, hc⟩ := h.vals i inp hp hv
          exact ⟨e, List.mem_append_left _ he, hk, c, hc⟩
        · exact ⟨_, List.mem_append_right _ (List.mem_singleton.mpr rfl), rfl, inp.cloneable, by simp⟩
      · intro e he ic hic j inp hp hlt hty hbr
        have hjk : j ≤ k := by
          rcases hp with hp | ⟨rfl, _⟩
          · exact h.idx j inp hp
          · exact Nat.le_refl _
        simp only [List.mem_append, List.mem_singleton] at he
        rcases he with he | rfl
        · rcases hp with hp | ⟨rfl, rfl⟩
          · exact h.refs e he ic hic j inp hp hlt hty hbr
          · rw [hr'] at hbr; cases hbr
        · simp only [List.mem_singleton] at hic
          subst hic
          simp only at hlt; omega
      · intro e he
        simp only [List.mem_append, List.mem_singleton] at he
        rcases he with he | rfl
        · exact h.bound e he
        · exact ⟨by intro ic hic; simp only [List.mem_singleton] at hic; subst hic; exact Nat.le_refl _,
            by intro j hj; cases hj⟩
      · intro e he
        simp only [List.mem_append, List.mem_singleton] at he
        rcases he with he | rfl
        · exact h.sorted e he
        · exact ⟨by simp, by simp⟩
      · have hnew : ∀ e ∈ m, e.1 ≠ i0.ty := by
          intro e he hk
          rw [List.any_eq_false] at hany'
          have := hany' e he
          simp [hk] at this
        intro e he e' he' hk
        simp only [List.mem_append, List.mem_singleton] at he he'
        rcases he with he | rfl <;> rcases he' with he' | rfl
        · exact h.uniq e he e' he' hk
        · exact absurd hk (hnew e he)
        · exact absurd hk.symm (hnew e' he')
        · rfl

theorem collect_complete {k : Nat} :
    ∀ (ins : List StageInput) (P : Nat → StageInput → Prop) (m : List (Nat × CloningInfo)), Complete P m k →
      Complete (fun i inp => P i inp ∨ (i = k ∧ inp ∈ ins)) (collect m k ins) k := by
  intro ins
  induction ins with
  | nil =>
    intro P m h
    simp only [collect, List.not_mem_nil, and_false, or_false]
    exact h
  | cons i0 rest ih =>
    intro P m h
    simp only [collect]
    have := ih _ _ (collect_step_complete i0 h)
    refine ⟨?_, ?_, ?_, this.bound, this.sorted, this.uniq⟩
    · intro i inp hp
      apply this.idx i inp
      rcases hp with hp | ⟨rfl, hm⟩
      · left; left; exact hp
      · simp only [List.mem_cons] at hm
        rcases hm with rfl | hm
        · left; right; exact ⟨rfl, rfl⟩
        · right; exact ⟨rfl, hm⟩
    · intro i inp hp
      apply this.vals i inp
      rcases hp with hp | ⟨rfl, hm⟩
      · left; left; exact hp
      · simp only [List.mem_cons] at hm
        rcases hm with rfl | hm
        · left; right; exact ⟨rfl, rfl⟩
        · right; exact ⟨rfl, hm⟩
    · intro e he ic hic j inp hp
      apply this.refs e he ic hic j inp
      rcases hp with hp | ⟨rfl, hm⟩
      · left; left; exact hp
      · simp only [List.mem_cons] at hm
        rcases hm with rfl | hm
        · left; right; exact ⟨rfl, rfl⟩
        · right; exact ⟨rfl, hm⟩

theorem complete_next {P : Nat → StageInput → Prop} {m : List (Nat × CloningInfo)} {k : Nat} (h : Complete P m k) :
    Complete P m (k + 1) :=
  ⟨fun i inp hp => Nat.le_succ_of_le (h.idx i inp hp), h.vals, h.refs,
   fun e he => ⟨fun ic hic => Nat.le_succ_of_le ((h.bound e he).1 ic hic),
     fun j hj => Nat.le_succ_of_le ((h.bound e he).2 j hj)⟩, h.sorted, h.uniq⟩

theorem collectAll_complete :
    ∀ (rest : List (List StageInput)) (k : Nat) (P : Nat → StageInput → Prop) (m : List (Nat × CloningInfo)),
      Complete P m k → (∀ i inp, P i inp → i < k) →
      ∃ k', Complete (fun i inp => P i inp ∨ ∃ d mw, rest[d]? = some mw ∧ i = k + d ∧ inp ∈ mw)
        (collectAll m k rest) k' := by
  intro rest
  induction rest with
  | nil =>
    intro k P m h _
    refine ⟨k, ?_⟩
    simp only [collectAll]
    refine ⟨?_, ?_, ?_, h.bound, h.sorted, h.uniq⟩
    · rintro i inp (hp | ⟨d, mw, hd, _⟩)
      · exact h.idx i inp hp
      · simp at hd
    · rintro i inp (hp | ⟨d, mw, hd, _⟩)
      · exact h.vals i inp hp
      · simp at hd
    · intro e he ic hic j inp hp
      rcases hp with hp | ⟨d, mw, hd, _⟩
      · exact h.refs e he ic hic j inp hp
      · simp at hd
  | cons mw rest ih =>
    intro k P m h hlt
    simp only [collectAll]
    have h1 := complete_next (collect_complete mw P m h)
    obtain ⟨k', hk'⟩ := ih (k + 1) _ _ h1 (by
      rintro i inp (hp | ⟨rfl, _⟩)
      · exact Nat.lt_succ_of_lt (hlt i inp hp)
      · exact Nat.lt_succ_self _)
    refine ⟨k', ?_⟩
    have conv : ∀ i inp, (P i inp ∨ ∃ d mw', (mw :: rest)[d]? = some mw' ∧ i = k + d ∧ inp ∈ mw') →
        ((P i inp ∨ (i = k ∧ inp ∈ mw)) ∨ ∃ d mw', rest[d]? = some mw' ∧ i = k + 1 + d ∧ inp ∈ mw') := by
      rintro i inp (hp | ⟨d, mw', hd, hi, hm⟩)
      · left; left; exact hp
      · cases d with
        | zero =>
          simp only [List.getElem?_cons_zero, Option.some.injEq] at hd
          subst hd
          left; right; exact ⟨by simpa using hi, hm⟩
        | succ d =>
          simp only [List.getElem?_cons_succ] at hd
          right; exact ⟨d, mw', hd, by omega, hm⟩
    exact ⟨fun i inp hp => hk'.idx i inp (conv i inp hp), fun i inp hp => hk'.vals i inp (conv i inp hp),
      fun e he ic hic j inp hp => hk'.refs e he ic hic j inp (conv j inp hp), hk'.bound, hk'.sorted, hk'.uniq⟩

theorem le_getLast_of_pairwise {l : List Nat} (h : l.Pairwise (· ≤ ·)) {x : Nat} (hx : x ∈ l) (hne : l ≠ []) :
    x ≤ l.getLast hne := by
  induction l with
  | nil => cases hx
  | cons a rest ih =>
    cases rest with
    | nil => simp only [List.mem_singleton] at hx; subst hx; simp
    | cons b rest' =>
      rw [List.getLast_cons (by simp)]
      rw [List.pairwise_cons] at h
      simp only [List.mem_cons] at hx
      rcases hx with rfl | hx
      · exact h.1 _ (List.getLast_mem _)
      · exact ih h.2 (by simpa using hx) (by simp)

theorem mem_dropLast_or_last {α : Type} {l : List α} {x : α} (hx : x ∈ l) (hne : l ≠ []) :
    x ∈ l.dropLast ∨ x = l.getLast hne := by
  have := List.dropLast_concat_getLast hne
  rw [← this] at hx
  simp only [List.mem_append, List.mem_singleton] at hx
  exact hx

/-- **what step 4 lets go without a clone**: a by-value consumer that `consumersOf` leaves out is the last one to take the
    value, and no recorded borrow comes after it. -/
theorem not_consumer_is_last {ci : CloningInfo} {ic : Nat × Bool}
    (hs : (ci.consumedBy.map (·.1)).Pairwise (· ≤ ·)) (hr : ci.refBy.Pairwise (· ≤ ·))
    (hic : ic ∈ ci.consumedBy) (hout : ic ∉ consumersOf ci) :
    (∀ ic' ∈ ci.consumedBy, ic'.1 ≤ ic.1) ∧ (∀ j ∈ ci.refBy, j < ic.1) := by
  have hne : ci.consumedBy ≠ [] := List.ne_nil_of_mem hic
  have hlastmax : ∀ ic' ∈ ci.consumedBy, ic'.1 ≤ (ci.consumedBy.getLast hne).1 := by
    intro ic' hic'
    have hne' : ci.consumedBy.map (·.1) ≠ [] := by simpa using hne
    have := le_getLast_of_pairwise hs (List.mem_map.mpr ⟨ic', hic', rfl⟩) hne'
    rwa [List.getLast_map] at this
  have hgl : ci.consumedBy.getLast? = some (ci.consumedBy.getLast hne) := List.getLast?_eq_some_getLast hne
  unfold consumersOf at hout
  cases hrl : ci.refBy.getLast? with
  | none =>
    rw [hrl] at hout
    simp only at hout
    have : ci.refBy = [] := List.getLast?_eq_none_iff.mp hrl
    rcases mem_dropLast_or_last hic hne with h | h
    · exact absurd h hout
    · rw [h]; exact ⟨hlastmax, by intro j hj; rw [this] at hj; cases hj⟩
  | some r =>
    rw [hrl, hgl] at hout
    simp only at hout
    by_cases hlt : r < (ci.consumedBy.getLast hne).1
    · rw [if_pos hlt] at hout
      rcases mem_dropLast_or_last hic hne with h | h
      · exact absurd h hout
      · rw [h]
        refine ⟨hlastmax, ?_⟩
        intro j hj
        have hrne : ci.refBy ≠ [] := List.ne_nil_of_mem hj
        have hjr := le_getLast_of_pairwise hr hj hrne
        have : ci.refBy.getLast hrne = r := by
          have := List.getLast?_eq_some_getLast hrne
          rw [hrl] at this
          exact (Option.some.inj this).symm
        omega
    · rw [if_neg hlt] at hout
      exact absurd hic hout


/-- the body of the fold of `stageCloning`. -/
def stageStep (acc : Except Nat (List (Nat × List Nat))) (e : Nat × CloningInfo) : Except Nat (List (Nat × List Nat)) :=
  match acc with
  | .error x => .error x
  | .ok t =>
    match cloningFor e.2 with
    | none => .ok t
    | some (.error i) => .error i
    | some (.ok idxs) => .ok (t ++ [(e.1, idxs)])

theorem stageCloning_eq (mws : List (List StageInput)) :
    stageCloning mws = (collectAll [] 0 mws).foldl stageStep (.ok []) := rfl

theorem foldl_stageStep_error (l : List (Nat × CloningInfo)) (x : Nat) : l.foldl stageStep (.error x) = .error x := by
  induction l with
  | nil => rfl
  | cons e rest ih => simpa [List.foldl_cons, stageStep] using ih

/-- when the stage is accepted, every entry of the table either needs no clone or has its cloning indexes in the result. -/
theorem foldl_stageStep_ok :
    ∀ (l : List (Nat × CloningInfo)) (t0 t : List (Nat × List Nat)), l.foldl stageStep (.ok t0) = .ok t →
      (∀ x ∈ t0, x ∈ t) ∧
        ∀ e ∈ l, cloningFor e.2 = none ∨ ∃ idxs, cloningFor e.2 = some (.ok idxs) ∧ (e.1, idxs) ∈ t := by
  intro l
  induction l with
  | nil =>
    intro t0 t h
    simp only [List.foldl_nil, Except.ok.injEq] at h
    subst h
    exact ⟨fun x hx => hx, fun e he => by cases he⟩
  | cons e rest ih =>
    intro t0 t h
    simp only [List.foldl_cons] at h
    cases hc : cloningFor e.2 with
    | none =>
      have hs : stageStep (.ok t0) e = .ok t0 := by simp [stageStep, hc]
      rw [hs] at h
      obtain ⟨h1, h2⟩ := ih t0 t h
      refine ⟨h1, fun e' he' => ?_⟩
      simp only [List.mem_cons] at he'
      rcases he' with rfl | he'
      · left; exact hc
      · exact h2 e' he'
    | some r =>
      cases r with
      | error i =>
        have hs : stageStep (.ok t0) e = .error i := by simp [stageStep, hc]
        rw [hs, foldl_stageStep_error] at h
        cases h
      | ok idxs =>
        have hs : stageStep (.ok t0) e = .ok (t0 ++ [(e.1, idxs)]) := by simp [stageStep, hc]
        rw [hs] at h
        obtain ⟨h1, h2⟩ := ih _ t h
        refine ⟨fun x hx => h1 x (List.mem_append_left _ hx), fun e' he' => ?_⟩
        simp only [List.mem_cons] at he'
        rcases he' with rfl | he'
        · right; exact ⟨idxs, hc, h1 _ (List.mem_append_right _ (List.mem_singleton.mpr rfl))⟩
        · exact h2 e' he'

end Pxv.Scope
