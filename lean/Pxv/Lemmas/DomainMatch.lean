import Pxv.Model.Domain
import Pxv.Lemmas.Domain
/-! Helper lemmas for C20 `match_iff`: guard ↔ pattern ↔ segments, host ↔ path. -/
namespace Pxv.Domain

/-! ### structured guards -/

def GLabel.str : GLabel → List Char
  | .lit s => s
  | .param name rest => '{' :: name ++ '}' :: rest
  | .catchAll name rest => '{' :: '*' :: name ++ '}' :: rest

def GLabel.seg : GLabel → Seg
  | .lit s => .lit s.reverse
  | .param name rest => .param rest.reverse name
  | .catchAll name rest => .catchAll rest.reverse name

def Seg.str : Seg → List Char
  | .lit s => s
  | .param pre name => pre ++ '{' :: name ++ ['}']
  | .catchAll pre name => pre ++ '{' :: '*' :: name ++ ['}']

def GLabel.isCatchAll : GLabel → Bool
  | .catchAll _ _ => true
  | _ => false

def GLabel.WF : GLabel → Prop
  | .lit s => s ≠ [] ∧ ∀ c ∈ s, labelChar c = true
  | .param name rest => isIdent name = true ∧ ∀ c ∈ rest, labelChar c = true
  | .catchAll name rest => isIdent name = true ∧ ∀ c ∈ rest, labelChar c = true

/-! ### K6: segment matching is the label-wise meaning -/

theorem prefix_rev_iff {rest l : List Char} :
    (rest.reverse.isPrefixOf l.reverse = true) ↔ ∃ x, l = x ++ rest := by
  rw [List.isPrefixOf_iff_prefix, List.reverse_prefix]
  constructor
  · rintro ⟨t, ht⟩; exact ⟨t, ht.symm⟩
  · rintro ⟨x, hx⟩; exact ⟨x, hx.symm⟩

theorem segsMatch_iff_fitsFrom (G : List GLabel) (H : List (List Char)) :
    segsMatch (G.map GLabel.seg) (H.map List.reverse) = true ↔ fitsFrom G H := by
  induction G generalizing H with
  | nil =>
    cases H with
    | nil => simp [segsMatch, fitsFrom]
    | cons l ls => simp [segsMatch, fitsFrom]
  | cons g gs ih =>
    cases H with
    | nil => cases g <;> simp [segsMatch, fitsFrom, GLabel.seg]
    | cons l ls =>
      cases g with
      | lit s =>
        simp only [List.map_cons, GLabel.seg, segsMatch, fitsFrom, Bool.and_eq_true, ih ls]
        simp
      | param name rest =>
        simp only [List.map_cons, GLabel.seg, segsMatch, fitsFrom, Bool.and_eq_true, ih ls,
          prefix_rev_iff, List.length_reverse, decide_eq_true_eq]
        constructor
        · rintro ⟨⟨⟨x, hx⟩, hlen⟩, hrest⟩
          refine ⟨⟨x, ?_, hx⟩, hrest⟩
          intro hx0; subst hx0; simp at hx; subst hx; omega
        · rintro ⟨⟨x, hx0, hx⟩, hrest⟩
          refine ⟨⟨⟨x, hx⟩, ?_⟩, hrest⟩
          subst hx
          have : 0 < x.length := List.length_pos_iff.mpr hx0
          simp; omega
      | catchAll name rest =>
        simp only [List.map_cons, GLabel.seg, segsMatch, fitsFrom, Bool.and_eq_true,
          prefix_rev_iff, List.length_reverse, Bool.or_eq_true, decide_eq_true_eq,
          List.isEmpty_iff, List.map_eq_nil_iff, Bool.not_eq_true']
        constructor
        · rintro ⟨⟨hgs, x, hx⟩, hor⟩
          refine ⟨hgs, x, hx, ?_⟩
          rcases hor with h | h
          · left; intro hx0; subst hx0; simp at hx; subst hx; omega
          · right; intro hls; subst hls; simp at h
        · rintro ⟨hgs, x, hx, hor⟩
          refine ⟨⟨hgs, x, hx⟩, ?_⟩
          rcases hor with h | h
          · left; subst hx
            have : 0 < x.length := List.length_pos_iff.mpr h
            simp; omega
          · right
            cases ls with
            | nil => exact absurd rfl h
            | cons a as => simp

/-! ### K5: the normalised host, split at `/`, is the list of labels, right to left, each reversed -/

theorem splitSlash_ne_nil (s : List Char) : splitSlash s ≠ [] := by
  induction s with
  | nil => simp [splitSlash]
  | cons c cs ih =>
    simp only [splitSlash]
    split
    · simp
    · split <;> simp

theorem splitSlash_noslash {B : List Char} (hB : '/' ∉ B) : splitSlash B = [B] := by
  induction B with
  | nil => rfl
  | cons c cs ih =>
    have hc : c ≠ '/' := fun e => hB (by simp [e])
    have := ih (fun hm => hB (by simp [hm]))
    simp [splitSlash, hc, this]

theorem splitSlash_snoc {A B : List Char} (hB : '/' ∉ B) :
    splitSlash (A ++ '/' :: B) = splitSlash A ++ [B] := by
  induction A with
  | nil => simp [splitSlash, splitSlash_noslash hB]
  | cons c cs ih =>
    simp only [List.cons_append, splitSlash]
    split
    · simp [ih]
    · rw [ih]
      cases hs : splitSlash cs with
      | nil => exact absurd hs (splitSlash_ne_nil cs)
      | cons l ls => simp

theorem splitSlash_cons_of_noslash {A B : List Char} (hA : '/' ∉ A) :
    splitSlash (A ++ '/' :: B) = A :: splitSlash B := by
  induction A with
  | nil => simp [splitSlash]
  | cons c cs ih =>
    have hc : c ≠ '/' := fun e => hA (by simp [e])
    have := ih (fun hm => hA (by simp [hm]))
    simp [splitSlash, hc, this]

theorem map_toSlash_nodot {l : List Char} (h : '.' ∉ l) :
    l.map (fun c => if c = '.' then '/' else c) = l := by
  induction l with
  | nil => rfl
  | cons c cs ih =>
    have hc : c ≠ '.' := fun e => h (by simp [e])
    simp [hc, ih (fun hm => h (by simp [hm]))]

theorem path_of_labels (ls : List (List Char)) (hne : ls ≠ [])
    (hnd : ∀ l ∈ ls, '.' ∉ l ∧ '/' ∉ l) :
    splitSlash (((joinDots ls).map (fun c => if c = '.' then '/' else c)).reverse)
      = (ls.map List.reverse).reverse := by
  induction ls with
  | nil => exact absurd rfl hne
  | cons l ls ih =>
    obtain ⟨hd, hs⟩ := hnd l (by simp)
    cases ls with
    | nil =>
      simp only [joinDots, map_toSlash_nodot hd, List.map_cons, List.map_nil, List.reverse_cons,
        List.reverse_nil, List.nil_append]
      exact splitSlash_noslash (by simpa using hs)
    | cons l' ls' =>
      have ih' := ih (by simp) (fun x hx => hnd x (by simp [hx]))
      simp only [joinDots, List.map_append, List.map_cons, map_toSlash_nodot hd, if_true,
        List.reverse_append, List.reverse_cons, List.append_assoc, List.singleton_append]
      rw [splitSlash_snoc (by simpa using hs)]
      rw [ih']
      simp

theorem splitDots_mem_sub {s l : List Char} (h : l ∈ splitDots s) : ∀ c ∈ l, c ∈ s := by
  induction s generalizing l with
  | nil => simp [splitDots] at h; subst h; simp
  | cons c cs ih =>
    simp only [splitDots] at h
    split at h
    · rcases List.mem_cons.mp h with rfl | h
      · simp
      · intro x hx; exact List.mem_cons_of_mem _ (ih h x hx)
    · cases hs : splitDots cs with
      | nil => exact absurd hs (splitDots_ne_nil cs)
      | cons l' ls =>
        rw [hs] at h ih
        rcases List.mem_cons.mp h with rfl | h
        · intro x hx
          rcases List.mem_cons.mp hx with rfl | hx
          · simp
          · exact List.mem_cons_of_mem _ (ih (by simp) x hx)
        · intro x hx; exact List.mem_cons_of_mem _ (ih (by simp [h]) x hx)

theorem mem_stripDot {s : List Char} {c : Char} (h : c ∈ stripDot s) : c ∈ s := by
  unfold stripDot at h
  split at h
  · exact List.dropLast_subset _ h
  · exact h

theorem path_normHost {h : List Char} (hs : '/' ∉ h) :
    splitSlash (normHost h) = ((hostLabels h).reverse).map List.reverse := by
  unfold normHost hostLabels
  have := path_of_labels (splitDots (stripDot h)) (splitDots_ne_nil _) (fun l hl =>
    ⟨splitDots_mem_nodot hl, fun hm => hs (mem_stripDot (splitDots_mem_sub hl _ hm))⟩)
  rw [joinDots_splitDots] at this
  rw [this, List.map_reverse]

/-! ### K1/K2: a grammatical guard is a list of well-formed labels, and `guardLabels` finds them -/

theorem joinDots_cons_ne {l : List Char} {ls : List (List Char)} (h : ls ≠ []) :
    joinDots (l :: ls) = l ++ '.' :: joinDots ls := by
  cases ls with
  | nil => exact absurd rfl h
  | cons a as => rfl

theorem splitDots_joinDots {ls : List (List Char)} (hne : ls ≠ []) (hnd : ∀ l ∈ ls, '.' ∉ l) :
    splitDots (joinDots ls) = ls := by
  induction ls with
  | nil => exact absurd rfl hne
  | cons l ls ih =>
    cases ls with
    | nil => simpa [joinDots] using splitDots_nodot (hnd l (by simp))
    | cons l' ls' =>
      rw [joinDots_cons_ne (by simp), splitDots_append (hnd l (by simp)),
        ih (by simp) (fun x hx => hnd x (by simp [hx]))]

theorem GLabel.str_nodot {gl : GLabel} (h : gl.WF) : '.' ∉ gl.str := by
  have key : ∀ name rest : List Char, isIdent name = true → (∀ c ∈ rest, labelChar c = true) →
      ∀ pre : List Char, '.' ∉ pre → '.' ∉ pre ++ name ++ '}' :: rest := by
    intro name rest hid hr pre hpre hm
    simp only [List.mem_append, List.mem_cons] at hm
    rcases hm with (hm | hm) | hm | hm
    · exact hpre hm
    · exact (identCont_ne ((isIdent_spec hid).2 _ hm)).2.2.1 rfl
    · exact absurd hm (by decide)
    · exact (labelChar_ne (hr _ hm)).2.2.1 rfl
  cases gl with
  | lit s => exact fun hm => (labelChar_ne (h.2 _ hm)).2.2.1 rfl
  | param name rest => simpa [GLabel.str] using key _ _ h.1 h.2 ['{'] (by decide)
  | catchAll name rest => simpa [GLabel.str] using key _ _ h.1 h.2 ['{', '*'] (by decide)

theorem labelG_struct {f : Bool} {l : List Char} {n : Nat} (h : LabelG f l n) :
    ∃ gl : GLabel, gl.WF ∧ l = gl.str ∧ (gl.isCatchAll = true → f = true) := by
  cases h with
  | lit hne hall _ _ _ => exact ⟨.lit l, ⟨hne, hall⟩, rfl, by simp [GLabel.isCatchAll]⟩
  | @param _ name rest hid hr _ =>
    exact ⟨.param name rest, ⟨hid, hr.1⟩, rfl, by simp [GLabel.isCatchAll]⟩
  | @catchAll name rest hid hr _ => exact ⟨.catchAll name rest, ⟨hid, hr.1⟩, rfl, fun _ => rfl⟩

theorem labelsG_struct {f : Bool} {body : List Char} {n : Nat} (h : LabelsG f body n) :
    ∃ gls : List GLabel, gls ≠ [] ∧ (∀ gl ∈ gls, gl.WF) ∧ body = joinDots (gls.map GLabel.str) ∧
      (f = false → ∀ gl ∈ gls, gl.isCatchAll = false) ∧ (∀ gl ∈ gls.tail, gl.isCatchAll = false) := by
  induction h with
  | @one f l n hl =>
    obtain ⟨gl, hwf, hstr, hca⟩ := labelG_struct hl
    refine ⟨[gl], by simp, by simpa using hwf, by simp [joinDots, hstr], ?_, by simp⟩
    intro hf g hg
    simp at hg; subst hg
    cases hc : g.isCatchAll with
    | false => rfl
    | true => rw [hca hc] at hf; cases hf
  | @cons f l s n m hl _ ih =>
    obtain ⟨gl, hwf, hstr, hca⟩ := labelG_struct hl
    obtain ⟨gls, hne, hwfs, hbody, hnoca, _⟩ := ih
    refine ⟨gl :: gls, by simp, ?_, ?_, ?_, ?_⟩
    · intro g hg
      rcases List.mem_cons.mp hg with rfl | hg
      · exact hwf
      · exact hwfs g hg
    · rw [List.map_cons, joinDots_cons_ne (by simpa using hne), ← hstr, ← hbody]
    · intro hf g hg
      rcases List.mem_cons.mp hg with rfl | hg
      · cases hc : g.isCatchAll with
        | false => rfl
        | true => rw [hca hc] at hf; cases hf
      · exact hnoca rfl g hg
    · simpa using hnoca rfl

theorem takeWhile_ne_append {p : Char} {a rest : List Char} (ha : ∀ c ∈ a, c ≠ p) :
    (a ++ p :: rest).takeWhile (· ≠ p) = a ∧ (a ++ p :: rest).dropWhile (· ≠ p) = p :: rest := by
  constructor
  · rw [List.takeWhile_append_of_pos (by simpa using ha)]; simp
  · rw [List.dropWhile_append_of_pos (by simpa using ha)]; simp

theorem ident_nobrace {name : List Char} (hid : isIdent name = true) :
    (∀ c ∈ name, c ≠ '}') ∧ (∀ c ∈ name, c ≠ '{') ∧ (∀ c ∈ name, c ≠ '*') ∧ (∀ c ∈ name, c ≠ '/') :=
  ⟨fun c hc => (identCont_ne ((isIdent_spec hid).2 c hc)).2.1,
   fun c hc => (identCont_ne ((isIdent_spec hid).2 c hc)).1,
   fun c hc => (identCont_ne ((isIdent_spec hid).2 c hc)).2.2.2.1,
   fun c hc => (identCont_ne ((isIdent_spec hid).2 c hc)).2.2.2.2⟩

theorem parseLabel_str {gl : GLabel} (h : gl.WF) : parseLabel gl.str = gl := by
  cases gl with
  | lit s =>
    obtain ⟨hne, hall⟩ := h
    cases s with
    | nil => exact absurd rfl hne
    | cons c cs =>
      have hc : c ≠ '{' := (labelChar_ne (hall c (by simp))).1
      simp only [GLabel.str, parseLabel]
      split
      · rename_i heq; simp at heq; exact absurd heq.1 hc
      · rename_i heq; simp at heq; exact absurd heq.1 hc
      · rfl
  | param name rest =>
    obtain ⟨hid, _⟩ := h
    obtain ⟨hb, _, hstar, _⟩ := ident_nobrace hid
    obtain ⟨hne, _⟩ := isIdent_spec hid
    cases name with
    | nil => exact absurd rfl hne
    | cons c cs =>
      have hc : c ≠ '*' := hstar c (by simp)
      have tw := takeWhile_ne_append (p := '}') (a := c :: cs) (rest := rest) hb
      simp only [GLabel.str, parseLabel]
      split
      · rename_i heq; simp at heq; exact absurd heq.1 hc
      · rename_i t _ heq
        simp only [List.cons_append, List.cons.injEq, true_and] at heq
        subst heq
        rw [← List.cons_append, tw.1, tw.2]; simp
      · rename_i h1 h2; exact absurd rfl (h2 _)
  | catchAll name rest =>
    obtain ⟨hid, _⟩ := h
    obtain ⟨hb, _, _, _⟩ := ident_nobrace hid
    have tw := takeWhile_ne_append (p := '}') (a := name) (rest := rest) hb
    simp only [GLabel.str, parseLabel, List.cons_append]
    rw [tw.1, tw.2]; simp

theorem guardLabels_of_struct {gls : List GLabel} (hne : gls ≠ []) (hwf : ∀ gl ∈ gls, gl.WF) :
    (splitDots (joinDots (gls.map GLabel.str))).map parseLabel = gls := by
  rw [splitDots_joinDots (by simpa using hne)]
  · rw [List.map_map]
    conv => rhs; rw [← List.map_id gls]
    apply List.map_congr_left
    intro g hg
    simpa using parseLabel_str (hwf g hg)
  · intro l hl
    obtain ⟨g, hg, rfl⟩ := List.mem_map.mp hl
    exact GLabel.str_nodot (hwf g hg)

/-! ### K3: `matchit_pattern` of a structured guard -/

/-- `segments.join("/")`. -/
def joinSlash : List (List Char) → List Char
  | [] => []
  | [l] => l
  | l :: ls => l ++ '/' :: joinSlash ls

theorem joinSlash_snoc {xs : List (List Char)} {x : List Char} (h : xs ≠ []) :
    joinSlash (xs ++ [x]) = joinSlash xs ++ '/' :: x := by
  induction xs with
  | nil => exact absurd rfl h
  | cons a as ih =>
    cases as with
    | nil => simp [joinSlash]
    | cons b bs =>
      have := ih (by simp)
      simp only [List.cons_append] at this ⊢
      simp only [joinSlash]
      rw [this]; simp

theorem patGo_plain {xs ys : List Char} (h : ∀ c ∈ xs, c ≠ '.' ∧ c ≠ '}') :
    patGo (xs ++ ys) none = xs ++ patGo ys none := by
  induction xs with
  | nil => rfl
  | cons c cs ih =>
    obtain ⟨h1, h2⟩ := h c (by simp)
    simp [patGo, h1, h2, ih (fun x hx => h x (by simp [hx]))]

theorem patGo_name {nm ys acc : List Char} (h : ∀ c ∈ nm, c ≠ '{') :
    patGo (nm ++ '{' :: ys) (some acc) = '{' :: (nm.reverse ++ acc) ++ '}' :: patGo ys none := by
  induction nm generalizing acc with
  | nil => simp [patGo]
  | cons c cs ih =>
    have hc : c ≠ '{' := h c (by simp)
    simp only [List.cons_append, patGo, hc, if_false]
    rw [ih (fun x hx => h x (by simp [hx]))]
    simp

theorem patGo_label {gl : GLabel} (h : gl.WF) (ys : List Char) :
    patGo (gl.str.reverse ++ ys) none = gl.seg.str ++ patGo ys none := by
  have plain : ∀ rest : List Char, (∀ c ∈ rest, labelChar c = true) →
      ∀ c ∈ rest.reverse, c ≠ '.' ∧ c ≠ '}' := by
    intro rest hr c hc
    have := labelChar_ne (hr c (by simpa using hc))
    exact ⟨this.2.2.1, this.2.1⟩
  cases gl with
  | lit s =>
    simp only [GLabel.str, GLabel.seg, Seg.str]
    exact patGo_plain (plain s h.2)
  | param name rest =>
    obtain ⟨hid, hr⟩ := h
    have hb := (ident_nobrace hid).2.1
    have e : (GLabel.param name rest).str.reverse ++ ys
        = rest.reverse ++ ('}' :: (name.reverse ++ '{' :: ys)) := by simp [GLabel.str]
    rw [e, patGo_plain (plain rest hr)]
    simp only [patGo, if_true, if_false, (by decide : ('}' : Char) ≠ '.')]
    rw [patGo_name (by simpa using hb)]
    simp [GLabel.seg, Seg.str]
  | catchAll name rest =>
    obtain ⟨hid, hr⟩ := h
    have hb := (ident_nobrace hid).2.1
    have e : (GLabel.catchAll name rest).str.reverse ++ ys
        = rest.reverse ++ ('}' :: ((name.reverse ++ ['*']) ++ '{' :: ys)) := by simp [GLabel.str]
    rw [e, patGo_plain (plain rest hr)]
    simp only [patGo, if_true, if_false, (by decide : ('}' : Char) ≠ '.')]
    rw [patGo_name (by
      intro c hc
      rcases List.mem_append.mp hc with hc | hc
      · exact hb c (by simpa using hc)
      · simp at hc; subst hc; decide)]
    simp [GLabel.seg, Seg.str]

theorem patGo_join {gls : List GLabel} (hne : gls ≠ []) (hwf : ∀ gl ∈ gls, gl.WF) (ys : List Char) :
    patGo ((joinDots (gls.map GLabel.str)).reverse ++ ys) none
      = joinSlash (gls.reverse.map (fun g => g.seg.str)) ++ patGo ys none := by
  induction gls generalizing ys with
  | nil => exact absurd rfl hne
  | cons g gs ih =>
    cases gs with
    | nil => simpa [joinDots, joinSlash] using patGo_label (hwf g (by simp)) ys
    | cons g' gs' =>
      have ih' := ih (by simp) (fun x hx => hwf x (by simp [hx]))
      rw [List.map_cons, joinDots_cons_ne (by simp)]
      have e : (g.str ++ '.' :: joinDots ((g' :: gs').map GLabel.str)).reverse ++ ys
          = (joinDots ((g' :: gs').map GLabel.str)).reverse ++ ('.' :: (g.str.reverse ++ ys)) := by
        simp
      rw [e, ih', List.reverse_cons (a := g), List.map_append, List.map_singleton,
        joinSlash_snoc (by simp)]
      simp only [patGo, if_true]
      rw [patGo_label (hwf g (by simp))]
      simp

theorem pattern_struct {gls : List GLabel} (hne : gls ≠ []) (hwf : ∀ gl ∈ gls, gl.WF) :
    pattern (joinDots (gls.map GLabel.str)) = joinSlash (gls.reverse.map (fun g => g.seg.str)) := by
  have := patGo_join hne hwf []
  simpa [pattern, patGo] using this

/-! ### K4: `matchit` reads that pattern back as the expected segments -/

theorem splitSlash_joinSlash {ls : List (List Char)} (hne : ls ≠ []) (h : ∀ l ∈ ls, '/' ∉ l) :
    splitSlash (joinSlash ls) = ls := by
  induction ls with
  | nil => exact absurd rfl hne
  | cons l ls ih =>
    cases ls with
    | nil => simpa [joinSlash] using splitSlash_noslash (h l (by simp))
    | cons l' ls' =>
      simp only [joinSlash]
      rw [splitSlash_cons_of_noslash (h l (by simp))]
      have := ih (by simp) (fun x hx => h x (by simp [hx]))
      rw [this]

theorem takeWhile_all {p : Char → Bool} {l : List Char} (h : ∀ c ∈ l, p c = true) :
    l.takeWhile p = l := by
  have := List.takeWhile_append_of_pos (l₂ := []) h
  simpa using this

theorem dropWhile_all {p : Char → Bool} {l : List Char} (h : ∀ c ∈ l, p c = true) :
    l.dropWhile p = [] := by
  have := List.dropWhile_append_of_pos (l₂ := []) h
  simpa using this

theorem Seg.str_noslash {g : GLabel} (h : g.WF) : '/' ∉ g.seg.str := by
  have lc : ∀ rest : List Char, (∀ c ∈ rest, labelChar c = true) → '/' ∉ rest.reverse := by
    intro rest hr hm
    exact (labelChar_ne (hr _ (by simpa using hm))).2.2.2.2 rfl
  cases g with
  | lit s => simpa [GLabel.seg, Seg.str] using lc s h.2
  | param name rest =>
    have hn := (ident_nobrace h.1).2.2.2
    intro hm
    simp only [GLabel.seg, Seg.str, List.mem_append, List.mem_cons, List.mem_singleton] at hm
    rcases hm with (hm | hm | hm) | hm
    · exact lc rest h.2 hm
    · exact absurd hm (by decide)
    · exact hn _ hm rfl
    · rcases hm with hm | hm
      · exact absurd hm (by decide)
      · simp at hm
  | catchAll name rest =>
    have hn := (ident_nobrace h.1).2.2.2
    intro hm
    simp only [GLabel.seg, Seg.str, List.mem_append, List.mem_cons, List.mem_singleton] at hm
    rcases hm with (hm | hm | hm | hm) | hm
    · exact lc rest h.2 hm
    · exact absurd hm (by decide)
    · exact absurd hm (by decide)
    · exact hn _ hm rfl
    · rcases hm with hm | hm
      · exact absurd hm (by decide)
      · simp at hm

theorem parseSeg_str {g : GLabel} (h : g.WF) : parseSeg g.seg.str = some g.seg := by
  have lc : ∀ rest : List Char, (∀ c ∈ rest, labelChar c = true) →
      (∀ c ∈ rest.reverse, c ≠ '{') ∧ (∀ c ∈ rest.reverse, c ≠ '}') := by
    intro rest hr
    exact ⟨fun c hc => (labelChar_ne (hr c (by simpa using hc))).1,
           fun c hc => (labelChar_ne (hr c (by simpa using hc))).2.1⟩
  cases g with
  | lit s =>
    obtain ⟨h1, h2⟩ := lc s h.2
    have tw : s.reverse.takeWhile (· ≠ '{') = s.reverse := takeWhile_all (by simpa using h1)
    have dw : s.reverse.dropWhile (· ≠ '{') = [] := dropWhile_all (by simpa using h1)
    have nc : s.reverse.contains '}' = false := by
      simpa using fun hm => h2 _ (by simpa using hm) rfl
    simp only [GLabel.seg, Seg.str, parseSeg, tw, dw, nc]
    simp
  | param name rest =>
    obtain ⟨hid, hr⟩ := h
    obtain ⟨h1, h2⟩ := lc rest hr
    obtain ⟨hb, hob, hstar, _⟩ := ident_nobrace hid
    obtain ⟨hne, _⟩ := isIdent_spec hid
    have e : (GLabel.param name rest).seg.str = rest.reverse ++ '{' :: (name ++ ['}']) := by
      simp [GLabel.seg, Seg.str]
    have tw := takeWhile_ne_append (p := '{') (a := rest.reverse) (rest := name ++ ['}']) h1
    have tw2 := takeWhile_ne_append (p := '}') (a := name) (rest := []) hb
    have nc : rest.reverse.contains '}' = false := by
      simpa using fun hm => h2 _ (by simpa using hm) rfl
    have hh : (name ++ ['}']).head? ≠ some '*' := by
      cases name with
      | nil => exact absurd rfl hne
      | cons c cs => simpa using hstar c (by simp)
    have n1 : name.contains '{' = false := by simpa using fun hm => hob _ hm rfl
    have n2 : name.contains '*' = false := by simpa using fun hm => hstar _ hm rfl
    rw [e]
    simp only [parseSeg, tw.1, tw.2, nc, hh, decide_false, if_false, tw2.1, tw2.2, n1, n2]
    simp [hne, GLabel.seg]
  | catchAll name rest =>
    obtain ⟨hid, hr⟩ := h
    obtain ⟨h1, h2⟩ := lc rest hr
    obtain ⟨hb, hob, hstar, _⟩ := ident_nobrace hid
    obtain ⟨hne, _⟩ := isIdent_spec hid
    have e : (GLabel.catchAll name rest).seg.str = rest.reverse ++ '{' :: ('*' :: (name ++ ['}'])) := by
      simp [GLabel.seg, Seg.str]
    have tw := takeWhile_ne_append (p := '{') (a := rest.reverse) (rest := '*' :: (name ++ ['}'])) h1
    have tw2 := takeWhile_ne_append (p := '}') (a := name) (rest := []) hb
    have nc : rest.reverse.contains '}' = false := by
      simpa using fun hm => h2 _ (by simpa using hm) rfl
    have n1 : name.contains '{' = false := by simpa using fun hm => hob _ hm rfl
    have n2 : name.contains '*' = false := by simpa using fun hm => hstar _ hm rfl
    rw [e]
    simp only [parseSeg, tw.1, tw.2, nc, List.head?_cons, decide_true, if_true, List.drop_succ_cons,
      List.drop_zero, tw2.1, tw2.2, n1, n2]
    simp [hne, GLabel.seg]

theorem parseSegs_map {G : List GLabel} (hwf : ∀ g ∈ G, g.WF) :
    parseSegs (G.map (fun g => g.seg.str)) = some (G.map GLabel.seg) := by
  induction G with
  | nil => rfl
  | cons g gs ih =>
    simp only [List.map_cons, parseSegs, parseSeg_str (hwf g (by simp)),
      ih (fun x hx => hwf x (by simp [hx]))]

theorem seg_isCatchAll (g : GLabel) : g.seg.isCatchAll = g.isCatchAll := by
  cases g <;> rfl

theorem parsePat_struct {G : List GLabel} (hne : G ≠ []) (hwf : ∀ g ∈ G, g.WF)
    (hca : ∀ g ∈ G.dropLast, g.isCatchAll = false) :
    parsePat (joinSlash (G.map (fun g => g.seg.str))) = some (G.map GLabel.seg) := by
  unfold parsePat
  rw [splitSlash_joinSlash (by simpa using hne)]
  · rw [parseSegs_map hwf]
    have : ((G.map GLabel.seg).dropLast.any Seg.isCatchAll) = false := by
      rw [List.any_eq_false]
      intro s hs
      rw [← List.map_dropLast] at hs
      obtain ⟨g, hg, rfl⟩ := List.mem_map.mp hs
      rw [seg_isCatchAll, hca g hg]; simp
    simp [this]
  · intro l hl
    obtain ⟨g, hg, rfl⟩ := List.mem_map.mp hl
    exact Seg.str_noslash (hwf g hg)

/-! ### the stored form of a grammatical guard -/

theorem trimDots_of_last {s : List Char} (h : s.getLast? ≠ some '.') : trimDots s = s := by
  unfold trimDots
  rw [List.getLast?_eq_head?_reverse] at h
  cases hr : s.reverse with
  | nil => simp [List.reverse_eq_nil_iff.mp hr]
  | cons c cs =>
    rw [hr] at h
    have hc : c ≠ '.' := by simpa using h
    simp only [List.dropWhile_cons, beq_iff_eq, hc, if_false]
    rw [← hr, List.reverse_reverse]

theorem trimDots_snoc_dot (b : List Char) : trimDots (b ++ ['.']) = trimDots b := by
  simp [trimDots]

theorem stripDot_of_last {s : List Char} (h : s.getLast? ≠ some '.') : stripDot s = s := by
  simp [stripDot, h]

theorem stripDot_snoc_dot (b : List Char) : stripDot (b ++ ['.']) = b := by
  simp [stripDot]

/-- A grammatical guard is stored as its labels joined by dots (the trailing dot of the absolute
    form dropped), and the one-dot-insensitive reading used by `Fits` sees the same. -/
theorem grammar_body {g : List Char} (hg : Grammar g) :
    ∃ body n, LabelsG true body n ∧ n ≤ 253 ∧ trimDots g = body ∧ stripDot g = body := by
  cases hg with
  | relative hb hn =>
    have hl := (labelsG_last hb).2
    exact ⟨g, _, hb, hn, trimDots_of_last hl, stripDot_of_last hl⟩
  | @absolute body n hb hn =>
    have hl := (labelsG_last hb).2
    exact ⟨body, n, hb, hn, by rw [trimDots_snoc_dot, trimDots_of_last hl], stripDot_snoc_dot _⟩

end Pxv.Domain
