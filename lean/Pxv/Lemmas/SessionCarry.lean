import Pxv.Lemmas.SessionRefine
/-! From `sync = flush` to statements in plain terms: what the store holds after a sync, what the
next request reads. -/
set_option linter.unusedSectionVars false
set_option linter.unusedSimpArgs false
namespace Pxv.Session
open Spec

variable {κ ν : Type} [DecidableEq κ]

/-- A successful `sync` is a successful `flush`, on the nose. -/
theorem sync_ok_flush (cfg : Config) (s s' : Sess κ ν) (w w' : World κ ν) (h : Inv s w)
    (hs : sync cfg s w = (.ok, s', w')) :
    flush cfg true (abs s) (absW w) = some (abs s', absW w') ∧ Inv s' w' := by
  have := sync_refines cfg s w h
  unfold SyncSim at this
  rw [hs] at this
  cases hf : flush cfg true (abs s) (absW w) with
  | none => simp [hf] at this
  | some p =>
    obtain ⟨S', W'⟩ := p
    simp only [hf] at this
    obtain ⟨h1, h2, h3⟩ := this
    subst h1 h2
    exact ⟨rfl, h3⟩

/-- What `get` answers, on the specification side. -/
def specGet (cfg : Config) (k : κ) (S : SSess κ ν) (W : SWorld κ ν) : Option ν :=
  match (look cfg S W).srv with
  | .present m => Map.lookup m k
  | _ => none

theorem getRaw_eq_specGet (cfg : Config) (rem : Nat) (k : κ) (s : Sess κ ν) (w : World κ ν) (h : Inv s w) :
    (getRaw cfg rem k s w).1 = .val (specGet cfg k (abs s) (absW w)) :=
  (getRaw_refines cfg true rem k s w h).1

/-- The session a request starts with when it presents the cookie `(id, c)`. -/
theorem Inv_incoming (id : Nat) (c : Map κ ν) (w : World κ ν) (hw : WInv w) (hid : id < w.nextId) :
    Inv (newSession (some (id, c)) w).1 (newSession (some (id, c)) w).2 :=
  (newSession_refines (some (id, c)) w hw (by intro i c' e; simp at e; omega)).2


/-- Coherence facts about a specification state (they follow from `Inv` for `abs s`, `absW w`). -/
structure SInv (S : SSess κ ν) (W : SWorld κ ν) : Prop where
  absentOk : S.srv = .absent → ∀ o, S.id.oldId = some o → W.recs o = none
  renamedFresh : ∀ o n, S.id = .toBeRenamed o n → W.recs n = none ∧ o ≠ n
  newFresh : ∀ n, S.id = .newlyGenerated n → W.recs n = none ∧ S.srv ≠ .unseen
  invOk : S.inv = true → S.srv = .deleted

theorem SInv_of_Inv (s : Sess κ ν) (w : World κ ν) (h : Inv s w) : SInv (abs s) (absW w) := by
  obtain ⟨a, b, c, d, e, f, g, i⟩ := h
  obtain ⟨id, server, client, inval⟩ := s
  constructor
  · intro hs o ho
    cases server with
    | none => simp [abs, viewSrv] at hs
    | some sv =>
      cases sv <;> simp [abs, viewSrv] at hs
      simp [absW_recs, g rfl o ho]
  · intro o n hid
    have := d o n hid
    simp [absW_recs, this.1, this.2]
  · intro n hid
    have := e n hid
    refine ⟨by simp [absW_recs, this.1], ?_⟩
    cases server with
    | none => simp at this
    | some sv => cases sv <;> simp [abs, viewSrv]
  · intro hi
    have := i hi
    simp at this
    subst this
    rfl

/-- The heart of carry-over on the pair of maps: after a flush of a session that is not
    invalidated, a fresh look under the new id sees what the session saw. -/
theorem flush_carry (cfg : Config) (k : κ) (S S1 : SSess κ ν) (W W1 : SWorld κ ν) (c : Map κ ν)
    (hI : SInv S W) (hf : flush cfg true S W = some (S1, W1)) (hinv : S1.inv = false) :
    specGet cfg k ⟨.existing S1.id.newId, c, false, .unseen, false⟩ W1 = specGet cfg k S W := by
  obtain ⟨id, cli, dirty, srv, inv⟩ := S
  obtain ⟨A, B, C, D⟩ := hI
  cases srv with
  | unseen =>
    cases id with
    | existing n =>
      simp [flush] at hf
      obtain ⟨h1, h2⟩ := hf
      subst h1 h2
      cases hr : W.recs n <;> cases hm : cfg.missing <;> simp [specGet, look, CurId.newId, CurId.oldId, hr, hm]
    | newlyGenerated n => exact absurd rfl (C n rfl).2
    | toBeRenamed o n =>
      have hne := (B o n rfl).2
      cases hr : W.recs o with
      | none => simp [flush, hr] at hf
      | some m =>
        simp [flush, hr] at hf
        obtain ⟨h1, h2⟩ := hf
        subst h1 h2
        simp [specGet, look, CurId.newId, CurId.oldId, SWorld.set, hr]
  | present m =>
    simp [flush] at hf
    obtain ⟨h1, h2⟩ := hf
    subst h1 h2
    simp [specGet, look, CurId.newId, CurId.oldId, SWorld.set]
  | absent =>
    simp only [flush] at hf
    split at hf
    · simp at hf
      obtain ⟨h1, h2⟩ := hf
      subst h1 h2
      simp [specGet, look, CurId.newId, CurId.oldId, SWorld.set]
    · simp at hf
      obtain ⟨h1, h2⟩ := hf
      subst h1 h2
      cases id with
      | existing n =>
        have := A rfl n rfl
        cases hm : cfg.missing <;> simp [specGet, look, CurId.newId, CurId.oldId, normId, this, hm]
      | toBeRenamed o n =>
        have := (B o n rfl).1
        cases hm : cfg.missing <;> simp [specGet, look, CurId.newId, CurId.oldId, normId, this, hm]
      | newlyGenerated n =>
        have := (C n rfl).1
        cases hm : cfg.missing <;> simp [specGet, look, CurId.newId, CurId.oldId, normId, this, hm]
  | deleted =>
    simp [flush] at hf
    obtain ⟨h1, h2⟩ := hf
    subst h1 h2
    cases id with
    | existing n =>
      cases hm : cfg.missing <;> simp [specGet, look, CurId.newId, CurId.oldId, normId, SWorld.unset, SWorld.set, hm]
    | toBeRenamed o n =>
      have hn := (B o n rfl).1
      have hne := (B o n rfl).2
      cases hm : cfg.missing <;>
        simp [specGet, look, CurId.newId, CurId.oldId, normId, SWorld.unset, SWorld.set, hm, hn, hne]
    | newlyGenerated n =>
      have := (C n rfl).1
      cases hm : cfg.missing <;> simp [specGet, look, CurId.newId, CurId.oldId, normId, SWorld.unset, this, hm]


/-- A value cookie comes out of a successful sync of a session that is not invalidated; it carries
    the new id and the client map. -/
theorem finalize_set_sync (cfg : Config) (s s' : Sess κ ν) (w w' : World κ ν) (id : Nat) (c : Map κ ν)
    (h : finalize cfg s w = (.set id c, s', w')) :
    sync cfg s w = (.ok, s', w') ∧ s'.invalidated = false ∧ id = s'.id.newId ∧ c = s'.client.state := by
  unfold finalize at h
  cases hm : sync cfg s w with
  | mk o p =>
    obtain ⟨s1, w1⟩ := p
    rw [hm] at h
    cases o with
    | err e => simp at h
    | panic => simp at h
    | ok =>
      simp only at h
      split at h
      · split at h <;> simp at h
      · rename_i hinv
        repeat' split at h
        all_goals first
          | (simp at h; done)
          | (simp at h
             obtain ⟨⟨e1, e2⟩, e3, e4⟩ := h
             subst e3 e4
             exact ⟨rfl, by simpa using hinv, e1.symm, e2.symm⟩)

theorem finalizeSession_set (cfg : Config) (s s' : Sess κ ν) (w w' : World κ ν) (id : Nat) (c : Map κ ν)
    (h : finalizeSession cfg s w = (.set id c, s', w')) : finalize cfg s w = (.set id c, s', w') := by
  unfold finalizeSession at h
  generalize finalize cfg s w = m at *
  obtain ⟨f, s0, w0⟩ := m
  cases f <;> simp only at h
  · split at h
    · simp at h
    · split at h
      · simp at h
      · exact h
  · split at h
    · simp at h
    · split at h <;> simp at h
  all_goals simp at h

end Pxv.Session
