import Pxv.Model.Router
/-! Helper lemmas for C07: the blueprint walk (`process_blueprint`) registers every route of every
    nested blueprint, with the nesting prefixes concatenated in front of its path and the innermost
    domain guard. -/
namespace Pxv.Router

/-- What the blueprint designates: handler `h` with method guard `g` is registered, after applying
    the prefixes / domain guards of the nesting chain, for path `full` and domain `d`. -/
inductive Reg : List Op → Option (List Char) → Option (List Char) → Nat → MGuard → List Char → Option (List Char) → Prop where
  | here {ops : List Op} {pfx dom : Option (List Char)} {h : Nat} {g : MGuard} {p : List Char} :
      Op.route h g p ∈ ops → Reg ops pfx dom h g (pfx.getD [] ++ p) dom
  | nested {ops nops : List Op} {pfx dom np nd cp cd : Option (List Char)} {h : Nat} {g : MGuard} {full : List Char}
      {d : Option (List Char)} :
      Op.nest np nd nops ∈ ops → nestingConstraints np nd = .ok (cp, cd) →
      Reg nops (joinPrefix pfx cp) (innerDomain dom cd) h g full d →
      Reg ops pfx dom h g full d

def HasHandler (st : St) (h : Nat) (g : MGuard) (full : List Char) (d : Option (List Char)) : Prop :=
  ∃ x, Comp.handler x ∈ st.comps ∧ x.h = h ∧ x.guard = g ∧ x.path = full ∧ x.dom = d

/-- The items `procOps` pushes for a list of operations. -/
def itemsOf (ops : List Op) (scope : Scope) (pfx dom : Option (List Char)) : List Item :=
  ops.filterMap (fun o => match o with
    | .nest p d nops => some { parent := scope, pfx := pfx, dom := dom, nbPfx := p, nbDom := d, ops := nops }
    | _ => none)

theorem fail_comps (st : St) (e : Reject) : (st.fail e).comps = st.comps := by
  unfold St.fail; split <;> rfl
theorem fail_doms (st : St) (e : Reject) : (st.fail e).doms = st.doms := by
  unfold St.fail; split <;> rfl
theorem fail_err (st : St) (e : Reject) : (st.fail e).err.isSome = true := by
  unfold St.fail; split
  · assumption
  · rfl
theorem fail_err_mono (st : St) (e : Reject) (h : st.err.isSome = true) : (st.fail e).err = st.err := by
  unfold St.fail; simp [h]

theorem checkRoutePath_comps (p : List Char) (st : St) : (checkRoutePath p st).comps = st.comps := by
  unfold checkRoutePath; split <;> simp [fail_comps]
theorem checkRoutePath_doms (p : List Char) (st : St) : (checkRoutePath p st).doms = st.doms := by
  unfold checkRoutePath; split <;> simp [fail_doms]
theorem checkRoutePath_err (p : List Char) (st : St) (h : st.err.isSome = true) : (checkRoutePath p st).err.isSome = true := by
  unfold checkRoutePath; split
  · exact fail_err _ _
  · exact h

theorem procOps_spec : ∀ (ops : List Op) (scope : Scope) (dom pfx : Option (List Char)) (st : St) (fb : Option Nat) (q : List Item),
    (procOps ops scope dom pfx st fb q).2.2 = q ++ itemsOf ops scope pfx dom ∧
    (∀ c ∈ st.comps, c ∈ (procOps ops scope dom pfx st fb q).1.comps) ∧
    (st.err.isSome = true → (procOps ops scope dom pfx st fb q).1.err.isSome = true) ∧
    ((procOps ops scope dom pfx st fb q).1.doms = st.doms) ∧
    (∀ h g p, Op.route h g p ∈ ops → HasHandler (procOps ops scope dom pfx st fb q).1 h g (pfx.getD [] ++ p) dom) := by
  intro ops
  induction ops with
  | nil => intro scope dom pfx st fb q; simp [procOps, itemsOf]
  | cons o os ih =>
    intro scope dom pfx st fb q
    cases o with
    | route h g path =>
      simp only [procOps]
      obtain ⟨h1, h2, h3, h4, h5⟩ := ih scope dom pfx (addHandler (checkRoutePath path st) h g (pfx.getD [] ++ path) dom scope) fb q
      refine ⟨?_, ?_, ?_, ?_, ?_⟩
      · simpa [itemsOf] using h1
      · intro c hc; apply h2; simp [addHandler, checkRoutePath_comps, hc]
      · intro he; apply h3; simp only [addHandler]; exact checkRoutePath_err _ _ he
      · rw [h4]; simp [addHandler, checkRoutePath_doms]
      · intro h' g' p' hmem
        rcases List.mem_cons.mp hmem with e | e
        · injection e with e1 e2 e3; subst e1; subst e2; subst e3
          refine ⟨{ id := (checkRoutePath p' st).comps.length, h := h', guard := g', path := pfx.getD [] ++ p', dom := dom,
                     scope := scope ++ [(checkRoutePath p' st).nextScope] }, h2 _ (by simp [addHandler]), rfl, rfl, rfl, rfl⟩
        · exact h5 h' g' p' e
    | fallback f =>
      simp only [procOps]
      obtain ⟨h1, h2, h3, h4, h5⟩ := ih scope dom pfx st (some f) q
      refine ⟨by simpa [itemsOf] using h1, h2, h3, h4, ?_⟩
      intro h' g' p' hmem
      rcases List.mem_cons.mp hmem with e | e
      · cases e
      · exact h5 h' g' p' e
    | nest p d nops =>
      simp only [procOps]
      obtain ⟨h1, h2, h3, h4, h5⟩ := ih scope dom pfx st fb
        (q ++ [{ parent := scope, pfx := pfx, dom := dom, nbPfx := p, nbDom := d, ops := nops }])
      refine ⟨by simpa [itemsOf, List.append_assoc] using h1, h2, h3, h4, ?_⟩
      intro h' g' p' hmem
      rcases List.mem_cons.mp hmem with e | e
      · cases e
      · exact h5 h' g' p' e


theorem procBp_spec (ops : List Op) (scope : Scope) (dom pfx : Option (List Char)) (isRoot : Bool) (st : St) (q : List Item) :
    (procBp ops scope dom pfx isRoot st q).2 = q ++ itemsOf ops scope pfx dom ∧
    (∀ c ∈ st.comps, c ∈ (procBp ops scope dom pfx isRoot st q).1.comps) ∧
    (st.err.isSome = true → (procBp ops scope dom pfx isRoot st q).1.err.isSome = true) ∧
    (∀ h g p, Op.route h g p ∈ ops → HasHandler (procBp ops scope dom pfx isRoot st q).1 h g (pfx.getD [] ++ p) dom) := by
  obtain ⟨h1, h2, h3, _, h5⟩ := procOps_spec ops scope dom pfx st none q
  unfold procBp
  generalize procOps ops scope dom pfx st none q = r at h1 h2 h3 h5
  obtain ⟨st', fb, q'⟩ := r
  simp only at h1 h2 h3 h5 ⊢
  split
  · exact ⟨h1, h2, h3, h5⟩
  · refine ⟨h1, ?_, h3, ?_⟩
    · intro c hc; simp [h2 c hc]
    · intro h g p hm
      obtain ⟨x, hx, r⟩ := h5 h g p hm
      exact ⟨x, by simp [hx], r⟩

/-- Work left in the queue: one step per nested blueprint, now or later. -/
def work (q : List Item) : Nat := (q.map (fun it => 1 + nestsList it.ops)).sum

theorem work_append (a b : List Item) : work (a ++ b) = work a + work b := by
  simp [work, List.sum_append]

theorem work_itemsOf (ops : List Op) (scope : Scope) (pfx dom : Option (List Char)) :
    work (itemsOf ops scope pfx dom) = nestsList ops := by
  induction ops with
  | nil => simp [work, itemsOf, nestsList]
  | cons o os ih =>
    cases o with
    | route h g p => simpa [work, itemsOf, nestsList, Op.nests] using ih
    | fallback f => simpa [work, itemsOf, nestsList, Op.nests] using ih
    | nest p d nops =>
      simp only [work, itemsOf, List.filterMap_cons, List.map_cons, List.sum_cons, nestsList, Op.nests] at ih ⊢
      omega

theorem mem_itemsOf {ops nops : List Op} {np nd : Option (List Char)} (h : Op.nest np nd nops ∈ ops)
    (scope : Scope) (pfx dom : Option (List Char)) :
    ({ parent := scope, pfx := pfx, dom := dom, nbPfx := np, nbDom := nd, ops := nops } : Item) ∈ itemsOf ops scope pfx dom := by
  unfold itemsOf
  rw [List.mem_filterMap]
  exact ⟨_, h, rfl⟩

theorem noteDomain_comps (st : St) (cd : Option (List Char)) : (st.noteDomain cd).comps = st.comps := by
  unfold St.noteDomain; cases cd with
  | none => rfl
  | some g => simp only; split <;> rfl
theorem noteDomain_err (st : St) (cd : Option (List Char)) : (st.noteDomain cd).err = st.err := by
  unfold St.noteDomain; cases cd with
  | none => rfl
  | some g => simp only; split <;> rfl

theorem procQueue_spec : ∀ (fuel : Nat) (q : List Item) (st : St), work q ≤ fuel →
    (∀ c ∈ st.comps, c ∈ (procQueue fuel q st).comps) ∧
    (st.err.isSome = true → (procQueue fuel q st).err.isSome = true) ∧
    ((procQueue fuel q st).err = none → ∀ it ∈ q, ∀ cp cd, nestingConstraints it.nbPfx it.nbDom = .ok (cp, cd) →
      ∀ h g full d, Reg it.ops (joinPrefix it.pfx cp) (innerDomain it.dom cd) h g full d →
        HasHandler (procQueue fuel q st) h g full d) := by
  intro fuel
  induction fuel with
  | zero =>
    intro q st hw
    have : q = [] := by
      cases q with
      | nil => rfl
      | cons a as => simp [work] at hw <;> omega
    subst this
    simp [procQueue]
  | succ fuel ih =>
    intro q st hw
    cases hq : q.getLast? with
    | none =>
      have : q = [] := by simpa using hq
      subst this
      simp [procQueue]
    | some it =>
      obtain ⟨ys, hys⟩ := List.getLast?_eq_some_iff.mp hq
      have hdl : q.dropLast = ys := by rw [hys]; simp
      have hwork : work q = work ys + (1 + nestsList it.ops) := by
        rw [hys]; simp [work_append, work]
      simp only [procQueue, hq, hdl]
      cases hc : nestingConstraints it.nbPfx it.nbDom with
      | error e =>
        simp only
        have hw' : work ys ≤ fuel := by omega
        obtain ⟨h1, h2, _⟩ := ih ys (St.fail { st with nextScope := st.nextScope + 1 } e) hw'
        refine ⟨?_, ?_, ?_⟩
        · intro c hc'; apply h1; simp [fail_comps, hc']
        · intro _; exact h2 (fail_err _ _)
        · intro hnone
          have := h2 (fail_err _ _)
          rw [hnone] at this; cases this
      | ok pr =>
        obtain ⟨cp, cd⟩ := pr
        simp only
        obtain ⟨b1, b2, b3, b4⟩ := procBp_spec it.ops (it.parent ++ [st.nextScope]) (innerDomain it.dom cd) (joinPrefix it.pfx cp) false
          (St.noteDomain { st with nextScope := st.nextScope + 1 } cd) ys
        have hw' : work (procBp it.ops (it.parent ++ [st.nextScope]) (innerDomain it.dom cd) (joinPrefix it.pfx cp) false
            (St.noteDomain { st with nextScope := st.nextScope + 1 } cd) ys).2 ≤ fuel := by
          rw [b1, work_append, work_itemsOf]; omega
        obtain ⟨h1, h2, h3⟩ := ih _ (procBp it.ops (it.parent ++ [st.nextScope]) (innerDomain it.dom cd) (joinPrefix it.pfx cp) false
            (St.noteDomain { st with nextScope := st.nextScope + 1 } cd) ys).1 hw'
        refine ⟨?_, ?_, ?_⟩
        · intro c hc'; exact h1 c (b2 c (by rw [noteDomain_comps]; exact hc'))
        · intro he; exact h2 (b3 (by rw [noteDomain_err]; exact he))
        · intro hnone it' hit' cp' cd' hc' h g full d hreg
          rw [hys] at hit'
          rcases List.mem_append.mp hit' with hm | hm
          · exact h3 hnone it' (by rw [b1]; exact List.mem_append_left _ hm) cp' cd' hc' h g full d hreg
          · simp at hm; subst hm
            rw [hc] at hc'
            injection hc' with hc'; injection hc' with e3 e4; subst e3; subst e4
            cases hreg with
            | here hmem =>
              obtain ⟨x, hx, r⟩ := b4 h g _ hmem
              exact ⟨x, h1 _ hx, r⟩
            | nested hmem hcon hsub =>
              rename_i nops np nd cp2 cd2
              have hitem := mem_itemsOf hmem (it'.parent ++ [st.nextScope]) (joinPrefix it'.pfx cp) (innerDomain it'.dom cd)
              exact h3 hnone _ (by rw [b1]; exact List.mem_append_right _ hitem) cp2 cd2 hcon h g full d hsub

/-- **Every registration reaches the router.** If the blueprint walk reports no error, every route of
    every (transitively) nested blueprint is interned as a request handler whose path is the route's
    path behind all nesting prefixes, guarded by the innermost domain guard. -/
theorem processBlueprint_registers {ops : List Op} (hok : (processBlueprint ops).err = none)
    {h : Nat} {g : MGuard} {full : List Char} {d : Option (List Char)} (hreg : Reg ops none none h g full d) :
    ∃ x ∈ handlersOf (processBlueprint ops).comps, x.h = h ∧ x.guard = g ∧ x.path = full ∧ x.dom = d := by
  unfold processBlueprint at hok ⊢
  obtain ⟨b1, b2, b3, b4⟩ := procBp_spec ops [] none none true {} []
  generalize procBp ops [] none none true {} [] = r at hok b1 b2 b3 b4 ⊢
  obtain ⟨st0, q0⟩ := r
  simp only at hok b1 b2 b3 b4 ⊢
  have hw : work q0 ≤ nestsList ops + 1 := by
    rw [b1]; simp [work_itemsOf]
  obtain ⟨h1, _, h3⟩ := procQueue_spec (nestsList ops + 1) q0 st0 hw
  have key : HasHandler (procQueue (nestsList ops + 1) q0 st0) h g full d := by
    cases hreg with
    | here hmem =>
      obtain ⟨x, hx, r⟩ := b4 h g _ hmem
      exact ⟨x, h1 _ hx, r⟩
    | nested hmem hcon hsub =>
      rename_i nops np nd cp cd
      have hitem := mem_itemsOf hmem [] none none
      exact h3 hok _ (by rw [b1]; simpa using hitem) cp cd hcon h g full d hsub
  obtain ⟨x, hx, r⟩ := key
  refine ⟨x, ?_, r⟩
  unfold handlersOf
  rw [List.mem_filterMap]
  exact ⟨_, hx, rfl⟩

end Pxv.Router
