import Pxv.Model.Order
/-! Helper lemmas about runs of the ordering transition system. -/
namespace Pxv.CG
open Graph

theorem pos_prefix_lt {pre post : List Nat} {p n : Nat} (hp : p ∈ pre) (hn : n ∉ pre) :
    pos (pre ++ n :: post) p < pos (pre ++ n :: post) n := by
  unfold pos
  rw [List.idxOf_append, List.idxOf_append]
  simp only [hp, hn, if_true, if_false, List.idxOf_cons_self]
  have := List.idxOf_lt_length_of_mem hp
  omega

/-- every placement in a run satisfied the guard against exactly the nodes placed before it. -/
theorem isRunFrom_split {g : Graph} {placed σ : List Nat} (h : isRunFrom g placed σ = true) :
    ∀ pre n post, σ = pre ++ n :: post →
      canPlace g (placed ++ pre) n = true ∧ n ∉ placed ++ pre := by
  induction σ generalizing placed with
  | nil => intro pre n post h'; simp at h'
  | cons a rest ih =>
    intro pre n post h'
    simp only [isRunFrom, Bool.and_eq_true, Bool.not_eq_true', ] at h
    obtain ⟨⟨h1, h2⟩, h3⟩ := h
    cases pre with
    | nil =>
      simp at h'
      obtain ⟨rfl, _⟩ := h'
      simp only [List.append_nil]
      refine ⟨h2, ?_⟩
      intro hm
      simp at h1
      exact h1 hm
    | cons b pre' =>
      simp at h'
      obtain ⟨rfl, h''⟩ := h'
      have := ih h3 pre' n post h''
      simpa [List.append_assoc] using this

theorem isRun_split {g : Graph} {σ : List Nat} (h : isRun g σ = true) :
    ∀ pre n post, σ = pre ++ n :: post → canPlace g pre n = true ∧ n ∉ pre := by
  intro pre n post h'
  have := isRunFrom_split (placed := []) h pre n post h'
  simpa using this

theorem isRunFrom_nodup {g : Graph} {placed σ : List Nat} (h : isRunFrom g placed σ = true)
    (hp : placed.Nodup) : (placed ++ σ).Nodup := by
  induction σ generalizing placed with
  | nil => simpa using hp
  | cons a rest ih =>
    simp only [isRunFrom, Bool.and_eq_true, Bool.not_eq_true'] at h
    obtain ⟨⟨h1, _⟩, h3⟩ := h
    have ha : a ∉ placed := by
      intro hm
      simp at h1
      exact h1 hm
    have hp' : (placed ++ [a]).Nodup := by
      rw [List.nodup_append]
      refine ⟨hp, by simp, ?_⟩
      intro x hx y hy
      simp at hy
      subst hy
      intro hxy
      exact ha (hxy ▸ hx)
    have := ih h3 hp'
    simpa [List.append_assoc] using this

theorem isRun_nodup {g : Graph} {σ : List Nat} (h : isRun g σ = true) : σ.Nodup := by
  have := isRunFrom_nodup (placed := []) h (by simp)
  simpa using this

theorem mem_split {σ : List Nat} {n : Nat} (h : n ∈ σ) : ∃ pre post, σ = pre ++ n :: post := by
  obtain ⟨s, t, h⟩ := List.append_of_mem h
  exact ⟨s, t, h⟩

theorem held_of_captureFree {g : Graph} (h : captureFree g = true) (fuel w : Nat) :
    held g fuel w = [] := by
  have hn : ∀ w, (g.node w).tied = [] ∧ (g.node w).direct = [] := by
    intro w
    unfold captureFree at h
    rw [List.all_eq_true] at h
    unfold Graph.node
    by_cases hw : w < g.nodes.length
    · have hm : g.nodes[w] ∈ g.nodes := List.getElem_mem hw
      have := h _ hm
      simp only [Bool.and_eq_true, List.isEmpty_iff] at this
      simp [List.getD, hw, this]
    · simp [List.getD, hw]
  induction fuel generalizing w with
  | zero => rfl
  | succ f ih => simp [held, hn w]

end Pxv.CG
