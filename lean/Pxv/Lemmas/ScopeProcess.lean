import Pxv.Lemmas.Scope
/-! Well-formedness of the scope graph `process`/`build` make of a blueprint (helpers for `Thm/C04.lean`). -/
namespace Pxv.Scope

/-- well-formedness of what `process_blueprint` has accumulated: edges go from an existing scope to a
    younger one, and no scope has two parents -/
structure St.Wf (st : St) : Prop where
  pos : 0 < st.next
  lt : ∀ e ∈ st.edges, e.1 < e.2 ∧ e.2 < st.next
  uniq : (st.edges.map (·.2)).Nodup

theorem wf_init : St.Wf {} := ⟨by decide, by simp, by simp⟩

theorem addScope_wf (st : St) (p : Nat) (h : st.Wf) (hp : p < st.next) : (st.addScope p).Wf := by
  refine ⟨by simp [St.addScope], ?_, ?_⟩
  · intro e he
    simp only [St.addScope, List.mem_append, List.mem_singleton] at he ⊢
    rcases he with he | rfl
    · have := h.lt e he; omega
    · simp; omega
  · simp only [St.addScope, List.map_append, List.map_cons, List.map_nil]
    rw [List.nodup_append]
    refine ⟨h.uniq, by simp, ?_⟩
    intro a ha b hb
    simp only [List.mem_singleton] at hb
    subst hb
    simp only [List.mem_map] at ha
    obtain ⟨e, he, rfl⟩ := ha
    have := (h.lt e he).2
    omega

theorem wf_regs (st : St) (r : List (Nat × Ctor)) (h : st.Wf) : ({ st with regs := r } : St).Wf :=
  ⟨h.pos, h.lt, h.uniq⟩
theorem wf_mws (st : St) (r : List (Nat × Nat)) (h : st.Wf) : ({ st with mws := r } : St).Wf :=
  ⟨h.pos, h.lt, h.uniq⟩
theorem wf_routes (st : St) (r : List (Nat × Nat)) (h : st.Wf) : ({ st with routes := r } : St).Wf :=
  ⟨h.pos, h.lt, h.uniq⟩
theorem wf_nested (st : St) (r : List (Nat × Nat)) (h : st.Wf) : ({ st with nested := r } : St).Wf :=
  ⟨h.pos, h.lt, h.uniq⟩

theorem walkOwn_wf : ∀ (b : Bp) (cur : Nat) (st : St), st.Wf → cur < st.next →
    (walkOwn b cur st).Wf ∧ st.next ≤ (walkOwn b cur st).next := by
  intro b
  induction b using Bp.rec (motive_1 := fun _ => True) with
  | nil => intro cur st h _; exact ⟨h, Nat.le_refl _⟩
  | cons i rest _ ih =>
    intro cur st h hc
    cases i with
    | ctor c => simp only [walkOwn]; exact ih cur _ (wf_regs st _ h) hc
    | mw m =>
      simp only [walkOwn]
      have := ih cur { st.addScope cur with mws := st.mws ++ [(m, st.next)] }
        (wf_mws _ _ (addScope_wf st cur h hc)) (by simp [St.addScope]; omega)
      exact ⟨this.1, Nat.le_trans (by simp [St.addScope]) this.2⟩
    | route r =>
      simp only [walkOwn]
      have := ih cur { st.addScope cur with routes := st.routes ++ [(r, st.next)] }
        (wf_routes _ _ (addScope_wf st cur h hc)) (by simp [St.addScope]; omega)
      exact ⟨this.1, Nat.le_trans (by simp [St.addScope]) this.2⟩
    | nest b' => simp only [walkOwn]; exact ih cur st h hc
    | other => simp only [walkOwn]; exact ih cur st h hc
  | ctor c => trivial
  | mw m => trivial
  | route r => trivial
  | nest b _ => trivial
  | other => trivial


theorem kids_wf : ∀ (b : Bp) (cur : Nat) (st : St), st.Wf → cur < st.next →
    (kids b cur st).Wf ∧ st.next ≤ (kids b cur st).next := by
  intro b
  induction b using Bp.rec (motive_1 := fun i => ∀ (cur : Nat) (st : St), st.Wf → cur < st.next →
      (kid i cur st).Wf ∧ st.next ≤ (kid i cur st).next) with
  | nil => intro cur st h _; simp only [kids]; exact ⟨h, Nat.le_refl _⟩
  | cons i rest ihi ihr =>
    intro cur st h hc
    simp only [kids]
    have h1 := ihr cur st h hc
    have h2 := ihi cur _ h1.1 (by omega)
    exact ⟨h2.1, by omega⟩
  | ctor c => rename_i cur st h _; simp only [kid]; exact ⟨h, Nat.le_refl _⟩
  | mw m => rename_i cur st h _; simp only [kid]; exact ⟨h, Nat.le_refl _⟩
  | route r => rename_i cur st h _; simp only [kid]; exact ⟨h, Nat.le_refl _⟩
  | other => rename_i cur st h _; simp only [kid]; exact ⟨h, Nat.le_refl _⟩
  | nest b ih =>
    rename_i cur st h hc
    simp only [kid]
    have h0 : ({ st.addScope cur with nested := st.nested ++ [(st.next, cur)] } : St).Wf :=
      wf_nested _ _ (addScope_wf st cur h hc)
    have h1 := walkOwn_wf b st.next _ h0 (by simp [St.addScope])
    have h2 := ih st.next _ h1.1 (Nat.lt_of_lt_of_le (by simp [St.addScope]) h1.2)
    refine ⟨h2.1, ?_⟩
    have e1 : st.next ≤ ({ st.addScope cur with nested := st.nested ++ [(st.next, cur)] } : St).next := by
      simp [St.addScope]
    exact Nat.le_trans e1 (Nat.le_trans h1.2 h2.2)

theorem process_wf (b : Bp) : (process b).Wf := by
  unfold process
  have h1 := walkOwn_wf b 0 {} wf_init (by decide)
  have h2 := addScope_wf _ 0 h1.1 h1.1.pos
  exact (kids_wf b 0 _ h2 (by simp [St.addScope])).1

/-- in the graph `build` makes of a well-formed state, parents are older than their children -/
theorem build_decr (st : St) (h : st.Wf) : Decr (build st).parents := by
  intro s p hp
  simp only [SGraph.parents, build, List.mem_filter, List.mem_range, List.contains_iff_mem,
    List.mem_append, List.mem_map] at hp
  rcases hp.2 with he | ⟨q, hq, heq⟩
  · exact (h.lt _ he).1
  · simp only [Prod.mk.injEq] at heq
    obtain ⟨rfl, rfl⟩ := heq
    simp only [appParents, List.mem_filter, List.mem_range] at hq
    exact hq.1

theorem filter_range_le_one (n : Nat) (pr : Nat → Bool)
    (h : ∀ a b, pr a = true → pr b = true → a = b) : ((List.range n).filter pr).length ≤ 1 := by
  induction n with
  | zero => simp
  | succ n ih =>
    rw [List.range_succ, List.filter_append]
    by_cases hn : pr n = true
    · have : (List.range n).filter pr = [] := by
        rw [List.filter_eq_nil_iff]
        intro a ha hpa
        have := h a n hpa hn
        simp only [List.mem_range] at ha
        omega
      simp [this, hn]
    · simp [hn]; exact ih

/-- every scope except the application-state scope has at most one parent -/
theorem build_parents_le_one (st : St) (h : st.Wf) (s : Nat) (hs : s < st.next) :
    ((build st).parents s).length ≤ 1 := by
  unfold SGraph.parents
  apply filter_range_le_one
  intro a b ha hb
  simp only [build, List.contains_iff_mem, List.mem_append, List.mem_map] at ha hb
  have ha' : (a, s) ∈ st.edges := by
    rcases ha with ha | ⟨q, _, heq⟩
    · exact ha
    · simp only [Prod.mk.injEq] at heq; omega
  have hb' : (b, s) ∈ st.edges := by
    rcases hb with hb | ⟨q, _, heq⟩
    · exact hb
    · simp only [Prod.mk.injEq] at heq; omega
  -- two edges with the same child are the same edge
  have hu := h.uniq
  have : ∀ (l : List (Nat × Nat)), (l.map (·.2)).Nodup → (a, s) ∈ l → (b, s) ∈ l → a = b := by
    intro l
    induction l with
    | nil => intro _ h1; cases h1
    | cons e es ih =>
      intro hnd h1 h2
      simp only [List.map_cons, List.nodup_cons] at hnd
      simp only [List.mem_cons] at h1 h2
      rcases h1 with h1 | h1 <;> rcases h2 with h2 | h2
      · rw [← h1] at h2; exact (Prod.mk.inj h2).1.symm
      · exfalso; apply hnd.1; rw [← h1]; exact List.mem_map.mpr ⟨(b, s), h2, rfl⟩
      · exfalso; apply hnd.1; rw [← h2]; exact List.mem_map.mpr ⟨(a, s), h1, rfl⟩
      · exact ih hnd.2 h1 h2
  exact this st.edges hu ha' hb'

theorem treeFrom_of_le_one (parents : Nat → List Nat) (hd : Decr parents) (n : Nat)
    (h1 : ∀ s, s < n → (parents s).length ≤ 1) : ∀ f s, s < n → TreeFrom parents f s := by
  intro f
  induction f with
  | zero => intro s _; trivial
  | succ f ih =>
    intro s hs
    unfold TreeFrom
    match hp : parents s with
    | [] => trivial
    | [p] =>
      simp only
      have : p < s := hd s p (by simp [hp])
      exact ih p (by omega)
    | _ :: _ :: _ =>
      have := h1 s hs
      rw [hp] at this
      simp at this

end Pxv.Scope
