import Pxv.Lemmas.LifecyclePlan
import Pxv.Lemmas.Injection
/-! Reachability characterisation of call graphs and the cross-stage bookkeeping of a uniform pipeline:
    proofs behind `pipeline_partition` (`Thm/C03.lean`). -/
namespace Pxv.Life
open Pxv.Scope

/-- the traversal continues through a constructor: transient, or request-scoped and not prebuilt -/
def Open (P : List Nat) (c : CDef) : Prop :=
  c.life = .transient ∨ (c.life = .request ∧ P.contains c.uid = false)

/-- type `t` reaches the request-scoped constructor `x` (which then gets a node) when the components in `P`
    are prebuilt -/
inductive Reach (lk : Nat → Option CDef) (P : List Nat) : Nat → CDef → Prop where
  | here {t : Nat} {c : CDef} : lk t = some c → c.life = .request → P.contains c.uid = false → Reach lk P t c
  | step {t j : Nat} {m : Mode} {c x : CDef} : lk t = some c → Open P c → (j, m) ∈ c.ins → Reach lk P j x →
      Reach lk P t x

/-- every request-scoped node is reachable from one of the types in `roots` -/
def NodesFrom (lk : Nat → Option CDef) (P : List Nat) (roots : List Nat) (cl : Closure) : Prop :=
  ∀ n ∈ cl.nodes, n.ctor.life = .request → ∃ t ∈ roots, Reach lk P t n.ctor

theorem nodesFrom_mono {lk : Nat → Option CDef} {P : List Nat} {r1 r2 : List Nat} {cl : Closure}
    (h : NodesFrom lk P r1 cl) (hs : ∀ t ∈ r1, t ∈ r2) : NodesFrom lk P r2 cl := by
  intro n hn hl
  obtain ⟨t, ht, hr⟩ := h n hn hl
  exact ⟨t, hs t ht, hr⟩

/-- soundness of the traversal: a step from `ty` only adds nodes reachable from `ty` -/
theorem resolve_sound (lk : Nat → Option CDef) (P : List Nat) :
    ∀ f cl ty m roots, NodesFrom lk P roots cl →
      NodesFrom lk P (ty :: roots) (resolve lk P .request f cl (ty, m)).1 := by
  intro f
  induction f with
  | zero =>
    intro cl ty m roots h
    simp only [resolve]
    exact nodesFrom_mono (cl := cl.addParam ty m) h (fun t ht => List.mem_cons_of_mem _ ht)
  | succ f ih =>
    intro cl ty m roots h
    have hbase : NodesFrom lk P (ty :: roots) (cl.addParam ty m) :=
      nodesFrom_mono (cl := cl.addParam ty m) h (fun t ht => List.mem_cons_of_mem _ ht)
    have hbase' : NodesFrom lk P (ty :: roots) cl :=
      nodesFrom_mono h (fun t ht => List.mem_cons_of_mem _ ht)
    simp only [resolve]
    cases hl : lk ty with
    | none => exact hbase
    | some c =>
      simp only
      -- resolving the inputs of `c` from a closure whose nodes come from `ty :: roots`
      have hins : ∀ (l : List (Nat × Mode)) cl', (∀ i ∈ l, i ∈ c.ins) → Open P c → NodesFrom lk P (ty :: roots) cl' →
          NodesFrom lk P (ty :: roots) (foldRes (resolve lk P .request f) cl' l).1 := by
        intro l
        induction l with
        | nil => intro cl' _ _ h'; exact h'
        | cons i rest ih2 =>
          intro cl' hl' ho h'
          simp only [foldRes]
          apply ih2 _ (fun x hx => hl' x (List.mem_cons_of_mem _ hx)) ho
          obtain ⟨j, mj⟩ := i
          have := ih cl' j mj (ty :: roots) h'
          intro n hn hlife
          obtain ⟨t, ht, hr⟩ := this n hn hlife
          simp only [List.mem_cons] at ht
          rcases ht with rfl | ht
          · exact ⟨ty, by simp, Reach.step hl ho (hl' (t, mj) (by simp)) hr⟩
          · exact ⟨t, by simpa using ht, hr⟩
      by_cases ht : c.life = .transient
      · simp only [ht, beq_self_eq_true, if_true]
        have := hins c.ins cl (fun i hi => hi) (Or.inl ht) hbase'
        intro n hn hlife
        simp only [Closure.push, List.mem_append, List.mem_singleton] at hn
        rcases hn with hn | rfl
        · exact this n hn hlife
        · rw [ht] at hlife; cases hlife
      · have ht' : (c.life == Life.transient) = false := by simpa using ht
        simp only [ht', Bool.false_eq_true, if_false]
        by_cases hp : (c.life != Life.request || P.contains c.uid) = true
        · simp only [hp, if_true]; exact hbase
        · simp only [hp, Bool.false_eq_true, if_false]
          have hp' : c.life = .request ∧ P.contains c.uid = false := by
            simp only [Bool.or_eq_true, bne_iff_ne, ne_eq, not_or, Decidable.not_not, Bool.not_eq_true] at hp
            exact hp
          cases hf : cl.nodes.findIdx? (fun n => n.ctor.uid == c.uid) with
          | some i => exact hbase'
          | none =>
            simp only
            have := hins c.ins cl (fun i hi => hi) (Or.inr hp') hbase'
            unfold Closure.pushOnce
            cases hf2 : (foldRes (resolve lk P .request f) cl c.ins).1.nodes.findIdx? (fun n => n.ctor.uid == c.uid) with
            | some i1 => exact this
            | none =>
              intro n hn hlife
              simp only [Closure.push, List.mem_append, List.mem_singleton] at hn
              rcases hn with hn | rfl
              · exact this n hn hlife
              · exact ⟨ty, by simp, Reach.here hl hp'.1 hp'.2⟩

theorem closure_sound (lk : Nat → Option CDef) (P : List Nat) (f : Nat) :
    ∀ (ins : List (Nat × Mode)) cl roots, NodesFrom lk P roots cl →
      NodesFrom lk P (ins.map (·.1) ++ roots) (foldRes (resolve lk P .request f) cl ins).1 := by
  intro ins
  induction ins with
  | nil => intro cl roots h; simp only [List.map_nil, List.nil_append, foldRes]; exact h
  | cons i rest ih =>
    intro cl roots h
    obtain ⟨ty, m⟩ := i
    simp only [foldRes, List.map_cons, List.cons_append]
    have h1 := resolve_sound lk P f cl ty m roots h
    have h2 := ih _ _ h1
    exact nodesFrom_mono h2 (by
      intro t ht
      simp only [List.mem_append, List.mem_cons, List.mem_map] at ht ⊢
      rcases ht with ht | rfl | ht
      · exact Or.inr (Or.inl ht)
      · exact Or.inl rfl
      · exact Or.inr (Or.inr ht))


/-- dependency chains are shorter than the recursion depth: types have a rank that decreases along inputs -/
def Deep (lk : Nat → Option CDef) (rank : Nat → Nat) : Prop :=
  ∀ t c jm, lk t = some c → jm ∈ c.ins → rank jm.1 < rank t

def HasNode (cl : Closure) (x : CDef) : Prop := ∃ n ∈ cl.nodes, n.ctor = x

/-- every request-scoped constructor reachable from an input of an existing node has a node -/
def Closed (lk : Nat → Option CDef) (P : List Nat) (cl : Closure) : Prop :=
  ∀ n ∈ cl.nodes, ∀ jm ∈ n.ctor.ins, ∀ x, Reach lk P jm.1 x → HasNode cl x

theorem hasNode_mono {cl cl' : Closure} (h : ∃ new, cl'.nodes = cl.nodes ++ new) {x : CDef} (hx : HasNode cl x) :
    HasNode cl' x := by
  obtain ⟨new, hn⟩ := h
  obtain ⟨n, hn1, hn2⟩ := hx
  exact ⟨n, by rw [hn]; exact List.mem_append_left _ hn1, hn2⟩

theorem no_reach_of_param {lk : Nat → Option CDef} {P : List Nat} {ty : Nat}
    (h : ∀ c, lk ty = some c → c.life ≠ .transient ∧ (c.life ≠ .request ∨ P.contains c.uid = true)) :
    ∀ x, ¬ Reach lk P ty x := by
  intro x hr
  cases hr with
  | here hl hlife hp =>
    rcases (h _ hl).2 with h2 | h2
    · exact h2 hlife
    · rw [hp] at h2; cases h2
  | step hl ho _ _ =>
    rcases ho with ho | ho
    · exact (h _ hl).1 ho
    · rcases (h _ hl).2 with h2 | h2
      · exact h2 ho.1
      · rw [ho.2] at h2; cases h2

/-- what a traversal step guarantees about reachability -/
structure Covers (lk : Nat → Option CDef) (P : List Nat) (cl cl' : Closure) (tys : List Nat) : Prop where
  closed : Closed lk P cl'
  reach : ∀ t ∈ tys, ∀ x, Reach lk P t x → HasNode cl' x
  mono : ∀ x, HasNode cl x → HasNode cl' x

theorem found_node {lk : Nat → Option CDef} (hu : UidInj lk) {cl : Closure} (hg : Good lk cl)
    {c : CDef} {t i : Nat} (hc : lk t = some c)
    (hf : cl.nodes.findIdx? (fun n => n.ctor.uid == c.uid) = some i) : ∃ n ∈ cl.nodes, n.ctor = c := by
  rw [List.findIdx?_eq_some_iff_getElem] at hf
  obtain ⟨hi, hp, _⟩ := hf
  refine ⟨cl.nodes[i], List.getElem_mem hi, ?_⟩
  obtain ⟨t', ht'⟩ := hg.ran _ (List.getElem_mem hi)
  exact hu t' t _ _ ht' hc (by simpa using hp)

theorem resolve_complete (lk : Nat → Option CDef) (hu : UidInj lk) (P : List Nat) (rank : Nat → Nat)
    (hdeep : Deep lk rank) :
    ∀ f cl ty m, Good lk cl → Closed lk P cl → rank ty < f →
      Covers lk P cl (resolve lk P .request f cl (ty, m)).1 [ty] := by
  intro f
  induction f with
  | zero => intro cl ty m _ _ hr; omega
  | succ f ih =>
    intro cl ty m hg hcl hr
    have hparam : (∀ c, lk ty = some c → c.life ≠ .transient ∧ (c.life ≠ .request ∨ P.contains c.uid = true)) →
        Covers lk P cl (cl.addParam ty m) [ty] := by
      intro h
      refine ⟨hcl, ?_, fun x hx => hx⟩
      intro t ht x hx
      simp only [List.mem_singleton] at ht
      subst ht
      exact absurd hx (no_reach_of_param h x)
    simp only [resolve]
    cases hl : lk ty with
    | none => exact hparam (by intro c hc; rw [hl] at hc; cases hc)
    | some c =>
      simp only
      -- resolving all the inputs of `c`
      have hins : ∀ (l : List (Nat × Mode)) cl', (∀ i ∈ l, i ∈ c.ins) → Good lk cl' → Closed lk P cl' →
          Covers lk P cl' (foldRes (resolve lk P .request f) cl' l).1 (l.map (·.1)) := by
        intro l
        induction l with
        | nil => intro cl' _ _ hc'; exact ⟨hc', by simp, fun x hx => hx⟩
        | cons i rest ih2 =>
          intro cl' hl' hg' hc'
          obtain ⟨j, mj⟩ := i
          simp only [foldRes, List.map_cons]
          have hj : rank j < f := by
            have := hdeep ty c (j, mj) hl (hl' _ (by simp))
            simp only at this; omega
          have c1 := ih cl' j mj hg' hc' hj
          have s1 := resolve_step lk hu P .request f cl' (j, mj) hg'
          have c2 := ih2 _ (fun x hx => hl' x (List.mem_cons_of_mem _ hx)) (step_good s1) c1.closed
          refine ⟨c2.closed, ?_, fun x hx => c2.mono x (c1.mono x hx)⟩
          intro t ht x hx
          simp only [List.mem_cons] at ht
          rcases ht with rfl | ht
          · exact c2.mono x (c1.reach t (by simp) x hx)
          · exact c2.reach t ht x hx
      have hstep := foldRes_step lk _ (resolve_step lk hu P .request f) c.ins cl hg
      have hcov := hins c.ins cl (fun i hi => hi) hg hcl
      -- adding the node of `c` after its inputs
      have hpush : Covers lk P cl ((foldRes (resolve lk P .request f) cl c.ins).1.push c (foldRes (resolve lk P .request f) cl c.ins).2).1 [ty] := by
        have hext : ∃ new, ((foldRes (resolve lk P .request f) cl c.ins).1.push c (foldRes (resolve lk P .request f) cl c.ins).2).1.nodes =
            (foldRes (resolve lk P .request f) cl c.ins).1.nodes ++ new := ⟨[_], rfl⟩
        refine ⟨?_, ?_, fun x hx => hasNode_mono hext (hcov.mono x hx)⟩
        · intro n hn jm hjm x hx
          simp only [Closure.push, List.mem_append, List.mem_singleton] at hn
          rcases hn with hn | rfl
          · exact hasNode_mono hext (hcov.closed n hn jm hjm x hx)
          · exact hasNode_mono hext (hcov.reach jm.1 (List.mem_map.mpr ⟨jm, hjm, rfl⟩) x hx)
        · intro t ht x hx
          simp only [List.mem_singleton] at ht
          subst ht
          cases hx with
          | here hl' _ _ =>
            rw [hl] at hl'; cases hl'
            exact ⟨⟨c, (foldRes (resolve lk P .request f) cl c.ins).2⟩, by simp [Closure.push], rfl⟩
          | step hl' _ hjm hr' =>
            rw [hl] at hl'; cases hl'
            exact hasNode_mono hext (hcov.reach _ (List.mem_map.mpr ⟨_, hjm, rfl⟩) _ hr')
      by_cases ht : c.life = .transient
      · simp only [ht, beq_self_eq_true, if_true]
        exact hpush
      · have ht' : (c.life == Life.transient) = false := by simpa using ht
        simp only [ht', Bool.false_eq_true, if_false]
        by_cases hp : (c.life != Life.request || P.contains c.uid) = true
        · simp only [hp, if_true]
          apply hparam
          intro c' hc'
          rw [hl] at hc'; cases hc'
          refine ⟨ht, ?_⟩
          simp only [Bool.or_eq_true, bne_iff_ne, ne_eq] at hp
          exact hp
        · simp only [hp, Bool.false_eq_true, if_false]
          -- a node of `c` already exists: everything reachable through it has a node
          have hexisting : ∀ cl0, Closed lk P cl0 → (∃ n ∈ cl0.nodes, n.ctor = c) →
              ∀ t ∈ [ty], ∀ x, Reach lk P t x → HasNode cl0 x := by
            intro cl0 hc0 ⟨n, hn, hnc⟩ t ht x hx
            simp only [List.mem_singleton] at ht
            subst ht
            cases hx with
            | here hl' _ _ => rw [hl] at hl'; cases hl'; exact ⟨n, hn, hnc⟩
            | step hl' _ hjm hr' =>
              rw [hl] at hl'; cases hl'
              exact hc0 n hn _ (by rw [hnc]; exact hjm) _ hr'
          cases hf : cl.nodes.findIdx? (fun n => n.ctor.uid == c.uid) with
          | some i => exact ⟨hcl, hexisting cl hcl (found_node hu hg hl hf), fun x hx => hx⟩
          | none =>
            simp only
            unfold Closure.pushOnce
            cases hf2 : (foldRes (resolve lk P .request f) cl c.ins).1.nodes.findIdx? (fun n => n.ctor.uid == c.uid) with
            | some i1 =>
              exact ⟨hcov.closed, hexisting _ hcov.closed (found_node hu (step_good hstep) hl hf2), hcov.mono⟩
            | none => exact hpush


/-! ### more about reachability -/

theorem reach_mono {lk : Nat → Option CDef} {P : List Nat} {t : Nat} {x : CDef} (h : Reach lk P t x) :
    Reach lk [] t x := by
  induction h with
  | here hl hlife _ => exact Reach.here hl hlife rfl
  | step hl ho hjm _ ih =>
    refine Reach.step hl ?_ hjm ih
    rcases ho with ho | ho
    · exact Or.inl ho
    · exact Or.inr ⟨ho.1, rfl⟩

/-- what is reached ends with a request-scoped constructor that is not prebuilt -/
theorem reach_target {lk : Nat → Option CDef} {P : List Nat} {t : Nat} {x : CDef} (h : Reach lk P t x) :
    x.life = .request ∧ P.contains x.uid = false ∧ ∃ t', lk t' = some x := by
  induction h with
  | here hl hlife hp => exact ⟨hlife, hp, _, hl⟩
  | step _ _ _ _ ih => exact ih

/-- going on from a reached constructor through one of its inputs -/
theorem reach_trans {lk : Nat → Option CDef} {t : Nat} {d x : CDef} {j : Nat} {m : Mode}
    (h : Reach lk [] t d) (hjm : (j, m) ∈ d.ins) (hx : Reach lk [] j x) : Reach lk [] t x := by
  induction h with
  | here hl hlife _ => exact Reach.step hl (Or.inr ⟨hlife, rfl⟩) hjm hx
  | step hl ho hjm' _ ih => exact Reach.step hl ho hjm' (ih hjm)

/-! ### parameters of a closure -/

/-- a type that became a parameter: no constructor, a singleton, or a prebuilt request-scoped constructor -/
def ParamTy (lk : Nat → Option CDef) (P : List Nat) (t : Nat) : Prop :=
  ∀ d, lk t = some d → d.life ≠ .transient ∧ (d.life = .request → P.contains d.uid = true)

theorem resolve_params (lk : Nat → Option CDef) (P : List Nat) (rank : Nat → Nat) (hdeep : Deep lk rank) :
    ∀ f cl ty m, rank ty < f → (∀ p ∈ cl.params, ParamTy lk P p.1) →
      ∀ p ∈ (resolve lk P .request f cl (ty, m)).1.params, ParamTy lk P p.1 := by
  intro f
  induction f with
  | zero => intro cl ty m hr; omega
  | succ f ih =>
    intro cl ty m hr hcl
    have hparam : ParamTy lk P ty → ∀ p ∈ (cl.addParam ty m).params, ParamTy lk P p.1 := by
      intro h p hp
      simp only [Closure.addParam, List.mem_append, List.mem_singleton] at hp
      rcases hp with hp | rfl
      · exact hcl p hp
      · exact h
    simp only [resolve]
    cases hl : lk ty with
    | none => exact hparam (by intro d hd; rw [hl] at hd; cases hd)
    | some c =>
      simp only
      have hins : ∀ (l : List (Nat × Mode)) cl', (∀ i ∈ l, i ∈ c.ins) → (∀ p ∈ cl'.params, ParamTy lk P p.1) →
          ∀ p ∈ (foldRes (resolve lk P .request f) cl' l).1.params, ParamTy lk P p.1 := by
        intro l
        induction l with
        | nil => intro cl' _ h; exact h
        | cons i rest ih2 =>
          intro cl' hl' h'
          obtain ⟨j, mj⟩ := i
          simp only [foldRes]
          apply ih2 _ (fun x hx => hl' x (List.mem_cons_of_mem _ hx))
          have hj : rank j < f := by
            have := hdeep ty c (j, mj) hl (hl' _ (by simp))
            simp only at this; omega
          exact ih cl' j mj hj h'
      have hfold := hins c.ins cl (fun i hi => hi) hcl
      by_cases ht : c.life = .transient
      · simp only [ht, beq_self_eq_true, if_true]
        exact hfold
      · have ht' : (c.life == Life.transient) = false := by simpa using ht
        simp only [ht', Bool.false_eq_true, if_false]
        by_cases hp : (c.life != Life.request || P.contains c.uid) = true
        · simp only [hp, if_true]
          apply hparam
          intro d hd
          rw [hl] at hd; cases hd
          refine ⟨ht, ?_⟩
          intro hreq
          simp only [Bool.or_eq_true, bne_iff_ne, ne_eq] at hp
          rcases hp with hp | hp
          · exact absurd hreq hp
          · exact hp
        · simp only [hp, Bool.false_eq_true, if_false]
          cases hf : cl.nodes.findIdx? (fun n => n.ctor.uid == c.uid) with
          | some i => exact hcl
          | none =>
            simp only
            unfold Closure.pushOnce
            cases hf2 : (foldRes (resolve lk P .request f) cl c.ins).1.nodes.findIdx? (fun n => n.ctor.uid == c.uid) with
            | some i1 => exact hfold
            | none => exact hfold

theorem closure_params (lk : Nat → Option CDef) (P : List Nat) (rank : Nat → Nat) (hdeep : Deep lk rank) (f : Nat)
    (ins : List (Nat × Mode)) (hr : ∀ i ∈ ins, rank i.1 < f) :
    ∀ p ∈ (closureOf lk P .request f ins).1.params, ParamTy lk P p.1 := by
  unfold closureOf
  have : ∀ (l : List (Nat × Mode)) cl', (∀ i ∈ l, rank i.1 < f) → (∀ p ∈ cl'.params, ParamTy lk P p.1) →
      ∀ p ∈ (foldRes (resolve lk P .request f) cl' l).1.params, ParamTy lk P p.1 := by
    intro l
    induction l with
    | nil => intro cl' _ h; exact h
    | cons i rest ih2 =>
      intro cl' hl' h'
      obtain ⟨j, mj⟩ := i
      simp only [foldRes]
      apply ih2 _ (fun x hx => hl' x (List.mem_cons_of_mem _ hx))
      exact resolve_params lk P rank hdeep f cl' j mj (hl' (j, mj) (by simp)) h'
  exact this ins {} hr (by intro p hp; simp at hp)


/-! ### users and hoisting -/

theorem mem_dedupNat : ∀ (l : List Nat) (x : Nat), x ∈ dedupNat l ↔ x ∈ l := by
  intro l
  induction l with
  | nil => intro x; simp [dedupNat]
  | cons a as ih =>
    intro x
    simp only [dedupNat, List.mem_cons, List.mem_filter, bne_iff_ne, ne_eq]
    constructor
    · rintro (h | ⟨h, _⟩)
      · exact Or.inl h
      · exact Or.inr ((ih x).mp h)
    · rintro (h | h)
      · exact Or.inl h
      · by_cases hx : x = a
        · exact Or.inl hx
        · exact Or.inr ⟨(ih x).mpr h, hx⟩

theorem minList_le : ∀ (l : List Nat) (v : Nat), v ∈ l → minList l ≤ v := by
  intro l
  induction l with
  | nil => intro v h; cases h
  | cons a as ih =>
    intro v hv
    cases as with
    | nil => simp only [List.mem_singleton] at hv; subst hv; simp [minList]
    | cons b bs =>
      simp only [minList]
      simp only [List.mem_cons] at hv
      rcases hv with rfl | hv
      · exact Nat.min_le_left _ _
      · exact Nat.le_trans (Nat.min_le_right _ _) (ih v (by simpa using hv))

theorem minList_mem : ∀ (l : List Nat), l ≠ [] → minList l ∈ l := by
  intro l
  induction l with
  | nil => intro h; exact absurd rfl h
  | cons a as ih =>
    intro _
    cases as with
    | nil => simp [minList]
    | cons b bs =>
      simp only [minList]
      have := ih (by simp)
      rcases Nat.le_total a (minList (b :: bs)) with h | h
      · rw [Nat.min_eq_left h]; simp
      · rw [Nat.min_eq_right h]; exact List.mem_cons_of_mem _ this

/-- the stages at which the users of `x` would have to build it -/
def minesOf (us : List (Nat × Nat)) (x : Nat) : List Nat := (us.filter (fun u => u.1 == x)).map (·.2)

theorem builtAt_mem {us : List (Nat × Nat)} {x b : Nat} :
    (x, b) ∈ builtAt us ↔ 1 < (minesOf us x).length ∧ b = minList (minesOf us x) := by
  unfold builtAt
  simp only [List.mem_filterMap]
  constructor
  · rintro ⟨y, _, hy⟩
    split at hy
    · rename_i hlen
      simp only [Option.some.injEq, Prod.mk.injEq] at hy
      obtain ⟨rfl, rfl⟩ := hy
      exact ⟨hlen, rfl⟩
    · cases hy
  · rintro ⟨hlen, rfl⟩
    refine ⟨x, ?_, ?_⟩
    · rw [mem_dedupNat]
      have : (minesOf us x) ≠ [] := by intro h; rw [h] at hlen; simp at hlen
      unfold minesOf at this
      have hne : us.filter (fun u => u.1 == x) ≠ [] := by intro h; rw [h] at this; exact this rfl
      obtain ⟨u, hu⟩ := List.exists_mem_of_ne_nil _ hne
      simp only [List.mem_filter, beq_iff_eq] at hu
      exact List.mem_map.mpr ⟨u, hu.1, hu.2⟩
    · show (if (minesOf us x).length > 1 then some (x, minList (minesOf us x)) else none) = _
      rw [if_pos hlen]

theorem builtAt_le {us : List (Nat × Nat)} {x b v : Nat} (h : (x, b) ∈ builtAt us) (hv : (x, v) ∈ us) : b ≤ v := by
  obtain ⟨_, rfl⟩ := builtAt_mem.mp h
  apply minList_le
  exact List.mem_map.mpr ⟨(x, v), List.mem_filter.mpr ⟨hv, by simp⟩, rfl⟩

theorem builtAt_fun {us : List (Nat × Nat)} {x b b' : Nat} (h : (x, b) ∈ builtAt us) (h' : (x, b') ∈ builtAt us) :
    b = b' := by
  rw [(builtAt_mem.mp h).2, (builtAt_mem.mp h').2]

/-- if every user of `d` (with the stage it asks for) is also a user of `x`, and `d` is hoisted, so is `x`,
    not later than `d` -/
theorem builtAt_of_users_subset {us : List (Nat × Nat)} {d x b : Nat} (h : (d, b) ∈ builtAt us)
    (hlen : (minesOf us d).length ≤ (minesOf us x).length)
    (hsub : ∀ v, (d, v) ∈ us → (x, v) ∈ us) : ∃ b', (x, b') ∈ builtAt us ∧ b' ≤ b := by
  obtain ⟨h1, rfl⟩ := builtAt_mem.mp h
  refine ⟨minList (minesOf us x), builtAt_mem.mpr ⟨by omega, rfl⟩, ?_⟩
  apply minList_le
  have hne : minesOf us d ≠ [] := by intro h0; rw [h0] at h1; simp at h1
  have hm := minList_mem _ hne
  unfold minesOf at hm ⊢
  simp only [List.mem_map, List.mem_filter, beq_iff_eq] at hm ⊢
  obtain ⟨u, ⟨hu, hud⟩, huv⟩ := hm
  have : (d, u.2) ∈ us := by rw [← hud]; exact hu
  exact ⟨(x, u.2), ⟨hsub _ this, rfl⟩, huv⟩


/-! ### the components of a pipeline, with their stage -/

/-- every (stage index, component), in invocation order of the stages -/
def allComps : Nat → List StageC → List (Nat × Comp)
  | _, [] => []
  | a, s :: rest => s.order.map (fun c => (a, c)) ++ allComps (a + 1) rest

/-- the stage a component asks its request-scoped values to be built in (↔ `build_in`) -/
def buildIn (k : Nat) (c : Comp) : Nat := if c.isWrapping then k else k - 1

theorem usersFrom_eq (env : Env) : ∀ (l : List StageC) (a : Nat),
    usersFrom env a l = (allComps a l).flatMap (fun kc => usersOf env kc.1 kc.2) := by
  intro l
  induction l with
  | nil => intro a; rfl
  | cons s rest ih =>
    intro a
    simp only [usersFrom, allComps, List.flatMap_append, ih, List.flatMap_map]

theorem usersOf_mem {env : Env} {k : Nat} {c : Comp} {x v : Nat} :
    (x, v) ∈ usersOf env k c ↔ x ∈ (closureOf (env.get c.scope) [] .request env.fuel c.ins).1.rs ∧ v = buildIn k c := by
  unfold usersOf buildIn
  simp only [List.mem_map, Prod.mk.injEq]
  constructor
  · rintro ⟨y, hy, rfl, rfl⟩; exact ⟨hy, rfl⟩
  · rintro ⟨hx, rfl⟩; exact ⟨x, hx, rfl, rfl⟩

/-- the plans recorded so far, reduced to (stage, component) -/
def keyOf (cp : CompPlan) : Nat × Comp := (cp.stage, cp.comp)

theorem stepStages_append (env : Env) (ba : List (Nat × Nat)) (tyOf : Nat → Option Nat) :
    ∀ (l1 l2 : List (Nat × StageC)) (acc : Acc),
      stepStages env ba tyOf (l1 ++ l2) acc = stepStages env ba tyOf l2 (stepStages env ba tyOf l1 acc) := by
  intro l1
  induction l1 with
  | nil => intro l2 acc; rfl
  | cons ks rest ih => intro l2 acc; obtain ⟨k, s⟩ := ks; simp only [List.cons_append, stepStages, ih]

/-- the reverse walk over the stages, as a recursion from the last stage down -/
def walkDown (env : Env) (ba : List (Nat × Nat)) (tyOf : Nat → Option Nat) : Nat → List StageC → Acc
  | _, [] => {}
  | a, s :: rest => stepStage env ba tyOf a (walkDown env ba tyOf (a + 1) rest) s

theorem walkDown_eq (env : Env) (ba : List (Nat × Nat)) (tyOf : Nat → Option Nat) : ∀ (l : List StageC) (a : Nat),
    stepStages env ba tyOf (indexFrom a l).reverse {} = walkDown env ba tyOf a l := by
  intro l
  induction l with
  | nil => intro a; rfl
  | cons s rest ih =>
    intro a
    simp only [indexFrom, List.reverse_cons, stepStages_append, ih, walkDown, stepStages]

theorem plan_comps_eq (env : Env) (tyOf : Nat → Option Nat) (chain : List Comp) (h : Comp) :
    (plan env tyOf chain h).comps =
      (walkDown env (builtAt (usersFrom env 0 (group chain [] [] h))) tyOf 0 (group chain [] [] h)).plans := by
  unfold plan
  simp only
  rw [walkDown_eq]

/-- the plans `stepStage` adds for the components of one stage, in invocation order -/
theorem foldl_stepComp_plans_eq (env : Env) (ba : List (Nat × Nat)) (k : Nat) :
    ∀ (cs : List Comp) (acc : Acc),
      (cs.foldl (stepComp env ba k) acc).plans = (cs.reverse.map (mkPlan env ba k acc.next)) ++ acc.plans ∧
      (cs.foldl (stepComp env ba k) acc).next = acc.next := by
  intro cs
  induction cs with
  | nil => intro acc; simp
  | cons c rest ih =>
    intro acc
    simp only [List.foldl_cons]
    have h1 := ih (stepComp env ba k acc c)
    have hn : (stepComp env ba k acc c).next = acc.next := rfl
    rw [h1.1, h1.2, hn, stepComp_plans_eq]
    simp

theorem stepStage_plans_eq (env : Env) (ba : List (Nat × Nat)) (tyOf : Nat → Option Nat) (k : Nat) (acc : Acc) (s : StageC) :
    (stepStage env ba tyOf k acc s).plans = s.order.map (mkPlan env ba k acc.next) ++ acc.plans := by
  unfold stepStage
  have := (foldl_stepComp_plans_eq env ba k s.order.reverse acc).1
  rw [List.reverse_reverse] at this
  split <;> exact this

theorem walkDown_keys (env : Env) (ba : List (Nat × Nat)) (tyOf : Nat → Option Nat) : ∀ (l : List StageC) (a : Nat),
    (walkDown env ba tyOf a l).plans.map keyOf = allComps a l := by
  intro l
  induction l with
  | nil => intro a; rfl
  | cons s rest ih =>
    intro a
    simp only [walkDown, stepStage_plans_eq, List.map_append, List.map_map, allComps, ih]
    congr 1


/-! ### what travels through the `Next` states -/

/-- a type that may be a parameter at stage `j`: no constructor, a singleton, or a request-scoped constructor hoisted
    into a stage before `j` -/
def TyB (lk : Nat → Option CDef) (ba : List (Nat × Nat)) (j t : Nat) : Prop :=
  ∀ d, lk t = some d → d.life ≠ .transient ∧ (d.life = .request → ∃ b, (d.uid, b) ∈ ba ∧ b < j)

def NextOK (lk : Nat → Option CDef) (ba : List (Nat × Nat)) (k : Nat) (next : Option (List (Nat × Mode))) : Prop :=
  ∀ flds, next = some flds → ∀ f ∈ flds, TyB lk ba (k + 1) f.1

/-- what holds before the components of stage `a` are processed -/
def Pre (lk : Nat → Option CDef) (ba : List (Nat × Nat)) (a : Nat) (acc : Acc) : Prop :=
  (∀ p ∈ acc.state, TyB lk ba a p.1) ∧ NextOK lk ba a acc.next

theorem tyB_mono {lk : Nat → Option CDef} {ba : List (Nat × Nat)} {j j' t : Nat} (h : TyB lk ba j t) (hle : j ≤ j') :
    TyB lk ba j' t := by
  intro d hd
  obtain ⟨h1, h2⟩ := h d hd
  refine ⟨h1, fun hr => ?_⟩
  obtain ⟨b, hb, hlt⟩ := h2 hr
  exact ⟨b, hb, by omega⟩

theorem mem_fields {ps : List (Nat × Mode)} {p : Nat × Mode} (h : p ∈ fields ps) : ∃ m, (p.1, m) ∈ ps := by
  unfold fields at h
  simp only [List.mem_map] at h
  obtain ⟨ty, hty, rfl⟩ := h
  rw [mem_dedupNat] at hty
  simp only [List.mem_map] at hty
  obtain ⟨q, hq, rfl⟩ := hty
  exact ⟨q.2, hq⟩

/-- the world of a uniform pipeline -/
structure World (env : Env) (lk : Nat → Option CDef) (rank : Nat → Nat) (tyOf : Nat → Option Nat) : Prop where
  uid : UidInj lk
  deep : Deep lk rank
  fuel : ∀ t, rank t < env.fuel
  ty : ∀ t d, lk t = some d → tyOf d.uid = some t

theorem paramTy_tyB {lk : Nat → Option CDef} {ba : List (Nat × Nat)} {k t : Nat}
    (h : ParamTy lk ((ba.filter (fun b => b.2 < k)).map (·.1)) t) : TyB lk ba k t := by
  intro d hd
  obtain ⟨h1, h2⟩ := h d hd
  refine ⟨h1, fun hr => ?_⟩
  have := h2 hr
  rw [List.contains_iff_mem, List.mem_map] at this
  obtain ⟨xb, hxb, hx⟩ := this
  simp only [List.mem_filter, decide_eq_true_eq] at hxb
  exact ⟨xb.2, by rw [← hx]; exact hxb.1, hxb.2⟩

theorem mkPlan_params_ok {env : Env} {lk : Nat → Option CDef} {rank : Nat → Nat} {tyOf : Nat → Option Nat}
    (w : World env lk rank tyOf) (ba : List (Nat × Nat)) (k : Nat) (next : Option (List (Nat × Mode))) (c : Comp)
    (hlk : env.get c.scope = lk) : ∀ p ∈ (mkPlan env ba k next c).cl.paramTypes, TyB lk ba k p.1 := by
  intro p hp
  unfold Closure.paramTypes at hp
  obtain ⟨m, hm⟩ := mem_fields hp
  apply paramTy_tyB
  have := closure_params lk ((ba.filter (fun b => b.2 < k)).map (·.1)) rank w.deep env.fuel
    (c.ins ++ (if c.isWrapping then next.getD [] else [])) (fun i _ => w.fuel i.1) (p.1, m)
  apply this
  have hcl : (mkPlan env ba k next c).cl = (closureOf (env.get c.scope) ((ba.filter (fun b => b.2 < k)).map (·.1)) .request
      env.fuel (c.ins ++ (if c.isWrapping then next.getD [] else []))).1 := rfl
  rw [hcl, hlk] at hm
  exact hm

theorem foldl_stepComp_state {env : Env} {lk : Nat → Option CDef} {rank : Nat → Nat} {tyOf : Nat → Option Nat}
    (w : World env lk rank tyOf) (ba : List (Nat × Nat)) (k : Nat) :
    ∀ (cs : List Comp) (acc : Acc), (∀ c ∈ cs, env.get c.scope = lk) → (∀ p ∈ acc.state, TyB lk ba k p.1) →
      ∀ p ∈ (cs.foldl (stepComp env ba k) acc).state, TyB lk ba k p.1 := by
  intro cs
  induction cs with
  | nil => intro acc _ h; exact h
  | cons c rest ih =>
    intro acc hcs hacc
    simp only [List.foldl_cons]
    apply ih _ (fun x hx => hcs x (List.mem_cons_of_mem _ hx))
    intro p hp
    have hst : (stepComp env ba k acc c).state = acc.state ++ (mkPlan env ba k acc.next c).cl.paramTypes := rfl
    rw [hst, List.mem_append] at hp
    rcases hp with hp | hp
    · exact hacc p hp
    · exact mkPlan_params_ok w ba k acc.next c (hcs c (by simp)) p hp

/-- processing stage `a + 1` establishes what stage `a` needs -/
theorem stepStage_pre {env : Env} {lk : Nat → Option CDef} {rank : Nat → Nat} {tyOf : Nat → Option Nat}
    (w : World env lk rank tyOf) (us : List (Nat × Nat)) (a : Nat) (acc : Acc) (s : StageC)
    (hs : ∀ c ∈ s.order, env.get c.scope = lk) (hpre : Pre lk (builtAt us) (a + 1) acc) :
    Pre lk (builtAt us) a (stepStage env (builtAt us) tyOf (a + 1) acc s) := by
  have hstate := foldl_stepComp_state w (builtAt us) (a + 1) s.order.reverse acc
    (fun c hc => hs c (by simpa using hc)) hpre.1
  unfold stepStage
  simp only [Nat.add_one_ne_zero, beq_iff_eq, if_false, Nat.add_sub_cancel]
  constructor
  · intro p hp
    simp only [List.mem_filter, Bool.not_eq_true'] at hp
    obtain ⟨hp1, hp2⟩ := hp
    intro d hd
    obtain ⟨h1, h2⟩ := hstate p hp1 d hd
    refine ⟨h1, fun hr => ?_⟩
    obtain ⟨b, hb, hlt⟩ := h2 hr
    refine ⟨b, hb, ?_⟩
    -- if it were hoisted into stage `a` its type would have been removed
    rcases Nat.lt_or_ge b a with h | h
    · exact h
    · exfalso
      have hba : b = a := by omega
      subst hba
      have hc : (List.filterMap (fun b => tyOf b.fst) (List.filter (fun b_1 => b_1.snd == b) (builtAt us))).contains p.fst = true := by
        rw [List.contains_iff_mem, List.mem_filterMap]
        exact ⟨(d.uid, b), List.mem_filter.mpr ⟨hb, by simp⟩, w.ty _ _ hd⟩
      rw [hc] at hp2
      cases hp2
  · intro flds hf f hf'
    simp only [Option.some.injEq] at hf
    subst hf
    obtain ⟨m, hm⟩ := mem_fields hf'
    exact hstate (f.1, m) hm


/-- all the components of the stages resolve types like `lk` -/
def UniformStages (env : Env) (lk : Nat → Option CDef) (l : List StageC) : Prop :=
  ∀ s ∈ l, ∀ c ∈ s.order, env.get c.scope = lk

theorem walkDown_pre {env : Env} {lk : Nat → Option CDef} {rank : Nat → Nat} {tyOf : Nat → Option Nat}
    (w : World env lk rank tyOf) (us : List (Nat × Nat)) : ∀ (l : List StageC) (a : Nat), UniformStages env lk l →
      Pre lk (builtAt us) a (walkDown env (builtAt us) tyOf (a + 1) l) := by
  intro l
  induction l with
  | nil =>
    intro a _
    exact ⟨by intro p hp; simp [walkDown] at hp, by intro flds hf; simp [walkDown] at hf⟩
  | cons s rest ih =>
    intro a hu
    simp only [walkDown]
    exact stepStage_pre w us a _ s (hu s (by simp)) (ih (a + 1) (fun s' hs' => hu s' (List.mem_cons_of_mem _ hs')))

/-- what is known about every recorded component of a uniform pipeline -/
def Nice (env : Env) (lk : Nat → Option CDef) (ba : List (Nat × Nat)) (cp : CompPlan) : Prop :=
  ∃ next, cp = mkPlan env ba cp.stage next cp.comp ∧ NextOK lk ba cp.stage next ∧ env.get cp.comp.scope = lk

theorem walkDown_nice {env : Env} {lk : Nat → Option CDef} {rank : Nat → Nat} {tyOf : Nat → Option Nat}
    (w : World env lk rank tyOf) (us : List (Nat × Nat)) : ∀ (l : List StageC) (a : Nat), UniformStages env lk l →
      ∀ cp ∈ (walkDown env (builtAt us) tyOf a l).plans, Nice env lk (builtAt us) cp := by
  intro l
  induction l with
  | nil => intro a _ cp hcp; simp [walkDown] at hcp
  | cons s rest ih =>
    intro a hu cp hcp
    simp only [walkDown, stepStage_plans_eq, List.mem_append, List.mem_map] at hcp
    have hu' : UniformStages env lk rest := fun s' hs' => hu s' (List.mem_cons_of_mem _ hs')
    rcases hcp with ⟨c, hc, rfl⟩ | hcp
    · exact ⟨_, rfl, (walkDown_pre w us rest a hu').2, hu s (by simp) c hc⟩
    · exact ih (a + 1) hu' cp hcp

/-! ### counting -/

theorem filter_eq_length_of_nodup : ∀ (l : List Nat) (y : Nat), l.Nodup →
    (l.filter (fun z => z == y)).length = if y ∈ l then 1 else 0 := by
  intro l
  induction l with
  | nil => intro y _; simp
  | cons a as ih =>
    intro y hnd
    simp only [List.nodup_cons] at hnd
    by_cases hay : a = y
    · subst hay
      have : ¬ a ∈ as := hnd.1
      simp [ih a hnd.2, this]
    · have : (a == y) = false := by simpa using hay
      simp only [List.filter_cons, this, Bool.false_eq_true, if_false, ih y hnd.2, List.mem_cons]
      have : ¬ y = a := fun h => hay h.symm
      simp [this]

theorem usersOf_filter_length (env : Env) (k : Nat) (c : Comp) (y : Nat) :
    ((usersOf env k c).filter (fun u => u.1 == y)).length =
      ((closureOf (env.get c.scope) [] .request env.fuel c.ins).1.rs.filter (fun z => z == y)).length := by
  unfold usersOf
  rw [List.filter_map, List.length_map]
  rfl

theorem sum_map_le {α : Type} (f g : α → Nat) : ∀ (l : List α), (∀ a ∈ l, f a ≤ g a) →
    (l.map f).sum ≤ (l.map g).sum := by
  intro l
  induction l with
  | nil => intro _; simp
  | cons a as ih =>
    intro h
    simp only [List.map_cons, List.sum_cons]
    have := h a (by simp)
    have := ih (fun x hx => h x (by simp [hx]))
    omega

theorem sum_ge_two {α : Type} (f : α → Nat) : ∀ (l : List α), l.Nodup → ∀ a b, a ∈ l → b ∈ l → a ≠ b →
    1 ≤ f a → 1 ≤ f b → 2 ≤ (l.map f).sum := by
  intro l
  induction l with
  | nil => intro _ a b ha; cases ha
  | cons x xs ih =>
    intro hnd a b ha hb hab hfa hfb
    simp only [List.nodup_cons] at hnd
    simp only [List.map_cons, List.sum_cons]
    simp only [List.mem_cons] at ha hb
    have hmem : ∀ y ∈ xs, f y ≤ (xs.map f).sum := by
      intro y hy
      obtain ⟨i, hi⟩ := List.mem_iff_getElem?.mp hy
      have hlt : i < xs.length := by
        rcases Nat.lt_or_ge i xs.length with h | h
        · exact h
        · rw [List.getElem?_eq_none h] at hi; cases hi
      have := getElem_le_sum (xs.map f) i (by simpa using hlt)
      simp only [List.getElem_map] at this
      rw [List.getElem?_eq_getElem hlt] at hi
      cases hi
      exact this
    rcases ha with rfl | ha <;> rcases hb with rfl | hb
    · exact absurd rfl hab
    · have := hmem b hb; omega
    · have := hmem a ha; omega
    · have := ih hnd.2 a b ha hb hab hfa hfb; omega

/-- number of user entries of `y` -/
theorem minesOf_length (env : Env) (l : List StageC) (y : Nat) :
    (minesOf (usersFrom env 0 l) y).length =
      ((allComps 0 l).map (fun kc => ((closureOf (env.get kc.2.scope) [] .request env.fuel kc.2.ins).1.rs.filter
        (fun z => z == y)).length)).sum := by
  unfold minesOf
  rw [List.length_map, usersFrom_eq, List.filter_flatMap, List.length_flatMap]
  congr 1
  apply List.map_congr_left
  intro kc _
  exact usersOf_filter_length env kc.1 kc.2 y


/-! ### the first-pass graph of a component, and who uses what -/

def firstPass (env : Env) (c : Comp) : Closure := (closureOf (env.get c.scope) [] .request env.fuel c.ins).1

theorem foldRes_complete (lk : Nat → Option CDef) (hu : UidInj lk) (P : List Nat) (rank : Nat → Nat)
    (hdeep : Deep lk rank) (f : Nat) (hf : ∀ t, rank t < f) :
    ∀ (l : List (Nat × Mode)) cl, Good lk cl → Closed lk P cl →
      Covers lk P cl (foldRes (resolve lk P .request f) cl l).1 (l.map (·.1)) := by
  intro l
  induction l with
  | nil => intro cl _ hc; exact ⟨hc, by simp, fun x hx => hx⟩
  | cons i rest ih =>
    intro cl hg hc
    obtain ⟨j, mj⟩ := i
    simp only [foldRes, List.map_cons]
    have c1 := resolve_complete lk hu P rank hdeep f cl j mj hg hc (hf j)
    have s1 := resolve_step lk hu P .request f cl (j, mj) hg
    have c2 := ih _ (step_good s1) c1.closed
    refine ⟨c2.closed, ?_, fun x hx => c2.mono x (c1.mono x hx)⟩
    intro t ht x hx
    simp only [List.mem_cons] at ht
    rcases ht with rfl | ht
    · exact c2.mono x (c1.reach t (by simp) x hx)
    · exact c2.reach t ht x hx

theorem firstPass_sound {env : Env} {lk : Nat → Option CDef} {c : Comp} (hlk : env.get c.scope = lk) {y : Nat}
    (hy : y ∈ (firstPass env c).rs) : ∃ x, x.uid = y ∧ ∃ jm ∈ c.ins, Reach lk [] jm.1 x := by
  unfold Closure.rs at hy
  simp only [List.mem_map, List.mem_filter, beq_iff_eq] at hy
  obtain ⟨n, ⟨hn, hlife⟩, rfl⟩ := hy
  have := closure_sound lk [] env.fuel c.ins {} [] (by intro n hn; simp at hn)
  unfold firstPass closureOf at hn
  rw [hlk] at hn
  obtain ⟨t, ht, hr⟩ := this n hn hlife
  simp only [List.append_nil, List.mem_map] at ht
  obtain ⟨jm, hjm, rfl⟩ := ht
  exact ⟨n.ctor, rfl, jm, hjm, hr⟩

theorem firstPass_complete {env : Env} {lk : Nat → Option CDef} {rank : Nat → Nat} {tyOf : Nat → Option Nat}
    (w : World env lk rank tyOf) {c : Comp} (hlk : env.get c.scope = lk) {jm : Nat × Mode} (hjm : jm ∈ c.ins)
    {x : CDef} (hr : Reach lk [] jm.1 x) : x.uid ∈ (firstPass env c).rs := by
  have := foldRes_complete lk w.uid [] rank w.deep env.fuel w.fuel c.ins {} ⟨by simp, by simp [Closure.inner]⟩
    (by intro n hn; simp at hn)
  obtain ⟨n, hn, hnx⟩ := this.reach jm.1 (List.mem_map.mpr ⟨jm, hjm, rfl⟩) x hr
  unfold firstPass closureOf Closure.rs
  rw [hlk]
  simp only [List.mem_map, List.mem_filter, beq_iff_eq]
  exact ⟨n, ⟨hn, by rw [hnx]; exact (reach_target hr).1⟩, by rw [hnx]⟩

theorem users_mem {env : Env} {l : List StageC} {y v : Nat} :
    (y, v) ∈ usersFrom env 0 l ↔ ∃ kc ∈ allComps 0 l, y ∈ (firstPass env kc.2).rs ∧ v = buildIn kc.1 kc.2 := by
  rw [usersFrom_eq, List.mem_flatMap]
  constructor
  · rintro ⟨kc, hkc, h⟩; exact ⟨kc, hkc, usersOf_mem.mp h⟩
  · rintro ⟨kc, hkc, h⟩; exact ⟨kc, hkc, usersOf_mem.mpr h⟩

theorem allComps_mem : ∀ (l : List StageC) (a k : Nat) (c : Comp), (k, c) ∈ allComps a l →
    ∃ s, l[k - a]? = some s ∧ a ≤ k ∧ c ∈ s.order := by
  intro l
  induction l with
  | nil => intro a k c h; simp [allComps] at h
  | cons s rest ih =>
    intro a k c h
    simp only [allComps, List.mem_append, List.mem_map, Prod.mk.injEq] at h
    rcases h with ⟨c', hc', rfl, rfl⟩ | h
    · exact ⟨s, by simp, Nat.le_refl _, hc'⟩
    · obtain ⟨s', hs', hle, hc⟩ := ih (a + 1) k c h
      refine ⟨s', ?_, by omega, hc⟩
      have : k - a = (k - (a + 1)) + 1 := by omega
      rw [this, List.getElem?_cons_succ]; exact hs'

/-- if `x` is reached from an input of the hoisted constructor `d`, every user of `d` is a user of `x` -/
theorem users_of_dep {env : Env} {lk : Nat → Option CDef} {rank : Nat → Nat} {tyOf : Nat → Option Nat}
    (w : World env lk rank tyOf) {c' : Comp} (hlk : env.get c'.scope = lk) {t : Nat} {d x : CDef} {jm : Nat × Mode}
    (hd : lk t = some d) (hjm : jm ∈ d.ins) (hr : Reach lk [] jm.1 x) (hmem : d.uid ∈ (firstPass env c').rs) :
    x.uid ∈ (firstPass env c').rs := by
  obtain ⟨d', hd', jm', hjm', hr'⟩ := firstPass_sound hlk hmem
  obtain ⟨_, _, t'', ht''⟩ := reach_target hr'
  have : d' = d := w.uid t'' t _ _ ht'' hd hd'
  subst this
  exact firstPass_complete w hlk hjm' (reach_trans hr' (j := jm.1) (m := jm.2) (by simpa using hjm) hr)


/-! ### where a request-scoped constructor can have a node -/

theorem not_prebuilt_iff {ba : List (Nat × Nat)} {k u : Nat} :
    ((ba.filter (fun b => b.2 < k)).map (·.1)).contains u = false ↔ ¬ ∃ b, (u, b) ∈ ba ∧ b < k := by
  rw [Bool.eq_false_iff]
  simp only [ne_eq, List.contains_iff_mem, List.mem_map, List.mem_filter, decide_eq_true_eq]
  constructor
  · rintro h ⟨b, hb, hlt⟩; exact h ⟨(u, b), ⟨hb, hlt⟩, rfl⟩
  · rintro h ⟨xb, ⟨hxb, hlt⟩, rfl⟩; exact h ⟨xb.2, hxb, hlt⟩

/-- a node of the request-scoped constructor `n.ctor` in the closure of component `c` of stage `k`: the constructor is
    not prebuilt there, and it is reached from `c`'s own inputs, or `c` is the wrapping middleware of the very stage
    the constructor is hoisted into (it fills a field of the `Next` state). -/
theorem node_where {env : Env} {lk : Nat → Option CDef} {rank : Nat → Nat} {tyOf : Nat → Option Nat}
    (w : World env lk rank tyOf) (l : List StageC) (hu : UniformStages env lk l)
    (k : Nat) (c : Comp) (hkc : (k, c) ∈ allComps 0 l) (next : Option (List (Nat × Mode)))
    (hnext : NextOK lk (builtAt (usersFrom env 0 l)) k next) (n : Node)
    (hn : n ∈ (mkPlan env (builtAt (usersFrom env 0 l)) k next c).cl.nodes) (hlife : n.ctor.life = .request) :
    (¬ ∃ b, (n.ctor.uid, b) ∈ builtAt (usersFrom env 0 l) ∧ b < k) ∧
    ((∃ jm ∈ c.ins, Reach lk [] jm.1 n.ctor) ∨
      (c.isWrapping = true ∧ (n.ctor.uid, k) ∈ builtAt (usersFrom env 0 l))) := by
  generalize hba : builtAt (usersFrom env 0 l) = ba at *
  obtain ⟨s, hs, _, hcs⟩ := allComps_mem l 0 k c hkc
  have hlk : env.get c.scope = lk := hu s (List.mem_of_getElem? hs) c hcs
  have hcl : (mkPlan env ba k next c).cl = (closureOf lk ((ba.filter (fun b => b.2 < k)).map (·.1)) .request
      env.fuel (c.ins ++ (if c.isWrapping then next.getD [] else []))).1 := by
    show (closureOf (env.get c.scope) _ _ _ _).1 = _
    rw [hlk]
  rw [hcl] at hn
  have hsound := closure_sound lk ((ba.filter (fun b => b.2 < k)).map (·.1)) env.fuel
    (c.ins ++ (if c.isWrapping then next.getD [] else [])) {} [] (by intro n hn; simp at hn)
  obtain ⟨t, ht, hr⟩ := hsound n hn hlife
  obtain ⟨_, hnp, _⟩ := reach_target hr
  have hnot := not_prebuilt_iff.mp hnp
  refine ⟨hnot, ?_⟩
  simp only [List.append_nil, List.map_append, List.mem_append, List.mem_map] at ht
  rcases ht with ⟨jm, hjm, rfl⟩ | ⟨jm, hjm, rfl⟩
  · exact Or.inl ⟨jm, hjm, reach_mono hr⟩
  · right
    -- `jm` is a field of the `Next` state: `c` wraps
    by_cases hw : c.isWrapping = true
    · rw [if_pos hw] at hjm
      refine ⟨hw, ?_⟩
      cases hnx : next with
      | none => rw [hnx] at hjm; simp at hjm
      | some flds =>
        rw [hnx] at hjm
        simp only [Option.getD_some] at hjm
        have htb := hnext flds hnx jm hjm
        cases hr with
        | here hl _ _ =>
          obtain ⟨b, hb, hlt⟩ := (htb _ hl).2 hlife
          have : b = k := by
            rcases Nat.lt_or_ge b k with h | h
            · exact absurd ⟨b, hb, h⟩ hnot
            · omega
          rw [← this]; exact hb
        | step hl ho hjm' hr' =>
          rename_i j m d
          have hdnt := (htb _ hl).1
          have hdo : d.life = .request ∧ ((ba.filter (fun b => b.2 < k)).map (·.1)).contains d.uid = false := by
            rcases ho with ho | ho
            · exact absurd ho hdnt
            · exact ho
          obtain ⟨b, hb, hlt⟩ := (htb _ hl).2 hdo.1
          have hbk : b = k := by
            rcases Nat.lt_or_ge b k with h | h
            · exact absurd ⟨b, hb, h⟩ (not_prebuilt_iff.mp hdo.2)
            · omega
          subst hbk
          -- every user of `d` is a user of the constructor reached through it
          have hdx : ∀ kc ∈ allComps 0 l, d.uid ∈ (firstPass env kc.2).rs → n.ctor.uid ∈ (firstPass env kc.2).rs := by
            intro kc hkc' hmem
            obtain ⟨s', hs', _, hcs'⟩ := allComps_mem l 0 kc.1 kc.2 hkc'
            exact users_of_dep w (hu s' (List.mem_of_getElem? hs') kc.2 hcs') hl hjm' (reach_mono hr') hmem
          rw [← hba] at hb
          have hlen : (minesOf (usersFrom env 0 l) d.uid).length ≤ (minesOf (usersFrom env 0 l) n.ctor.uid).length := by
            rw [minesOf_length, minesOf_length]
            apply sum_map_le
            intro kc hkc'
            have nd : (closureOf (env.get kc.2.scope) [] Life.request env.fuel kc.2.ins).1.rs.Nodup :=
              closure_dedup _ [] .request (by decide) _ _
            rw [filter_eq_length_of_nodup _ _ nd, filter_eq_length_of_nodup _ _ nd]
            by_cases hm : d.uid ∈ (closureOf (env.get kc.2.scope) [] Life.request env.fuel kc.2.ins).1.rs
            · have := hdx kc hkc' hm
              unfold firstPass at this
              simp [hm, this]
            · simp [hm]
          have hsub : ∀ v, (d.uid, v) ∈ usersFrom env 0 l → (n.ctor.uid, v) ∈ usersFrom env 0 l := by
            intro v hv
            obtain ⟨kc, hkc', hm, hv'⟩ := users_mem.mp hv
            exact users_mem.mpr ⟨kc, hkc', hdx kc hkc' hm, hv'⟩
          obtain ⟨b', hb', hle⟩ := builtAt_of_users_subset hb hlen hsub
          rw [hba] at hb'
          have : b' = b := by
            rcases Nat.lt_or_ge b' b with h | h
            · exact absurd ⟨b', hb', h⟩ hnot
            · omega
          rw [← this]; exact hb'
    · rw [if_neg hw] at hjm; simp at hjm

theorem sum_le_one_of_unique_key {α κ : Type} (key : α → κ) (g : α → Nat) : ∀ (l : List α),
    (l.map key).Nodup → (∀ a ∈ l, g a ≤ 1) →
    (∀ a ∈ l, ∀ b ∈ l, 0 < g a → 0 < g b → key a = key b) → (l.map g).sum ≤ 1 := by
  intro l
  induction l with
  | nil => intro _ _ _; simp
  | cons a as ih =>
    intro hnd hle huniq
    simp only [List.map_cons, List.nodup_cons] at hnd
    simp only [List.map_cons, List.sum_cons]
    have ih' := ih hnd.2 (fun x hx => hle x (by simp [hx]))
      (fun x hx y hy => huniq x (by simp [hx]) y (by simp [hy]))
    by_cases ha : g a = 0
    · omega
    · have h1 := hle a (by simp)
      have : (as.map g).sum = 0 := by
        apply sum_eq_zero_of
        intro m hm
        simp only [List.mem_map] at hm
        obtain ⟨b, hb, rfl⟩ := hm
        rcases Nat.eq_zero_or_pos (g b) with h0 | hpos
        · exact h0
        · exfalso
          have := huniq a (by simp) b (by simp [hb]) (by omega) hpos
          apply hnd.1
          rw [this]
          exact List.mem_map.mpr ⟨b, hb, rfl⟩
      omega


/-- shape of the stages of a pipeline (↔ the assertions of step 1c): the components are pairwise different, stage 0
    holds wrapping middlewares only (the synthetic `wrap_noop`), pre- and post-processors are not wrapping -/
structure StagesOk (l : List StageC) : Prop where
  nodup : (allComps 0 l).Nodup
  first : ∀ c, (0, c) ∈ allComps 0 l → c.isWrapping = true
  side : ∀ s ∈ l, (∀ c ∈ s.pres, c.isWrapping = false) ∧ (∀ c ∈ s.posts, c.isWrapping = false)

theorem wrapping_unique {l : List StageC} (hok : StagesOk l) {k : Nat} {c1 c2 : Comp}
    (h1 : (k, c1) ∈ allComps 0 l) (h2 : (k, c2) ∈ allComps 0 l) (w1 : c1.isWrapping = true) (w2 : c2.isWrapping = true) :
    c1 = c2 := by
  obtain ⟨s1, hs1, _, hc1⟩ := allComps_mem l 0 k c1 h1
  obtain ⟨s2, hs2, _, hc2⟩ := allComps_mem l 0 k c2 h2
  rw [hs1] at hs2
  cases hs2
  have hside := hok.side s1 (List.mem_of_getElem? hs1)
  have mid_of : ∀ c, c ∈ s1.order → c.isWrapping = true → c = s1.mid := by
    intro c hc hw
    simp only [StageC.order, List.mem_append, List.mem_singleton] at hc
    rcases hc with (hc | hc) | hc
    · rw [hside.1 c hc] at hw; cases hw
    · exact hc
    · rw [hside.2 c hc] at hw; cases hw
  rw [mid_of c1 hc1 w1, mid_of c2 hc2 w2]

/-- **C03 — `enforce_invariants` never fires in a uniform pipeline** (↔ the cross-stage bookkeeping of
    `RequestHandlerPipeline::new`, steps 2–3, is right): when the handler and the middlewares of a route resolve every
    type alike, every request-scoped constructor gets a node in at most one closure of the pipeline — the closure of its
    only user, or, when several components use it, the closure of the wrapping middleware of the earliest stage that
    needs it, from where it reaches the others through the `Next` states. -/
theorem pipeline_partition_lem {env : Env} {lk : Nat → Option CDef} {rank : Nat → Nat} {tyOf : Nat → Option Nat}
    (w : World env lk rank tyOf) (chain : List Comp) (h : Comp)
    (hu : UniformStages env lk (group chain [] [] h)) (hok : StagesOk (group chain [] [] h)) :
    (plan env tyOf chain h).invariantsOk = true := by
  generalize hl : group chain [] [] h = l at hu hok
  have hcomps : (plan env tyOf chain h).comps = (walkDown env (builtAt (usersFrom env 0 l)) tyOf 0 l).plans := by
    rw [plan_comps_eq, hl]
  unfold Plan.invariantsOk
  rw [List.all_eq_true]
  intro x _
  simp only [decide_eq_true_eq]
  rw [count_eq, hcomps]
  generalize hba : builtAt (usersFrom env 0 l) = ba
  have hkeys := walkDown_keys env ba tyOf l 0
  have hnice := walkDown_nice w (usersFrom env 0 l) l 0 hu
  rw [hba] at hnice
  generalize hps : (walkDown env ba tyOf 0 l).plans = ps at hkeys hnice
  apply sum_le_one_of_unique_key keyOf
  · rw [hkeys]; exact hok.nodup
  · intro cp hcp
    obtain ⟨next, hmk, _, _⟩ := hnice cp hcp
    have : cp.cl = (closureOf (env.get cp.comp.scope) ((ba.filter (fun b => b.2 < cp.stage)).map (·.1)) .request env.fuel
        (cp.comp.ins ++ (if cp.comp.isWrapping then next.getD [] else []))).1 := by
      rw [hmk]; rfl
    unfold rsCount
    have nd : cp.cl.rs.Nodup := by rw [this]; exact closure_dedup _ _ .request (by decide) _ _
    have := filter_eq_length_of_nodup _ x nd
    unfold Closure.rs at this
    rw [this]
    split <;> omega
  · intro cp1 hcp1 cp2 hcp2 hp1 hp2
    -- a node of `x` in each of the two closures
    have node_of : ∀ cp : CompPlan, 0 < rsCount x cp.cl.nodes → ∃ n ∈ cp.cl.nodes, n.ctor.life = .request ∧ n.ctor.uid = x := by
      intro cp hp
      unfold rsCount at hp
      obtain ⟨y, hy⟩ := List.length_pos_iff_exists_mem.mp hp
      simp only [List.mem_filter, List.mem_map, beq_iff_eq] at hy
      obtain ⟨⟨n, ⟨hn, hlife⟩, rfl⟩, rfl⟩ := hy
      exact ⟨n, hn, hlife, rfl⟩
    -- where such a node can be
    have place : ∀ cp ∈ ps, 0 < rsCount x cp.cl.nodes →
        ((∃ b, (x, b) ∈ ba) ∧ (x, cp.stage) ∈ ba ∧ cp.comp.isWrapping = true) ∨
        ((¬ ∃ b, (x, b) ∈ ba) ∧ x ∈ (firstPass env cp.comp).rs) := by
      intro cp hcp hp
      obtain ⟨n, hn, hlife, hx⟩ := node_of cp hp
      obtain ⟨next, hmk, hnext, hlk⟩ := hnice cp hcp
      have hkc : (cp.stage, cp.comp) ∈ allComps 0 l := by
        rw [← hkeys]; exact List.mem_map.mpr ⟨cp, hcp, rfl⟩
      rw [hmk] at hn
      rw [← hba] at hn hnext
      have := node_where w l hu cp.stage cp.comp hkc next hnext n hn hlife
      rw [hba, hx] at this
      obtain ⟨hnot, hcase⟩ := this
      rcases hcase with ⟨jm, hjm, hr⟩ | ⟨hw, hb⟩
      · have hmem : x ∈ (firstPass env cp.comp).rs := by rw [← hx]; exact firstPass_complete w hlk hjm hr
        by_cases hH : ∃ b, (x, b) ∈ ba
        · left
          obtain ⟨b, hb⟩ := hH
          have huse : (x, buildIn cp.stage cp.comp) ∈ usersFrom env 0 l := users_mem.mpr ⟨_, hkc, hmem, rfl⟩
          have hle : b ≤ buildIn cp.stage cp.comp := by rw [← hba] at hb; exact builtAt_le hb huse
          have hge : ¬ b < cp.stage := fun hlt => hnot ⟨b, hb, hlt⟩
          by_cases hw : cp.comp.isWrapping = true
          · refine ⟨⟨b, hb⟩, ?_, hw⟩
            simp only [buildIn, hw, if_true] at hle
            have : b = cp.stage := by omega
            rw [← this]; exact hb
          · exfalso
            simp only [buildIn, hw, Bool.false_eq_true, if_false] at hle
            rcases Nat.eq_zero_or_pos cp.stage with h0 | hpos
            · have hkc0 : (0, cp.comp) ∈ allComps 0 l := by
                have := hkc
                rw [h0] at this
                exact this
              exact hw (hok.first cp.comp hkc0)
            · omega
        · exact Or.inr ⟨hH, hmem⟩
      · exact Or.inl ⟨⟨_, hb⟩, hb, hw⟩
    have hk1 : keyOf cp1 ∈ allComps 0 l := by rw [← hkeys]; exact List.mem_map.mpr ⟨cp1, hcp1, rfl⟩
    have hk2 : keyOf cp2 ∈ allComps 0 l := by rw [← hkeys]; exact List.mem_map.mpr ⟨cp2, hcp2, rfl⟩
    rcases place cp1 hcp1 hp1 with ⟨_, hb1, hw1⟩ | ⟨hn1, hm1⟩ <;> rcases place cp2 hcp2 hp2 with ⟨hH2, hb2, hw2⟩ | ⟨hn2, hm2⟩
    · -- both: the wrapping middleware of the stage `x` is hoisted into
      have hs : cp1.stage = cp2.stage := by rw [← hba] at hb1 hb2; exact builtAt_fun hb1 hb2
      have : cp1.comp = cp2.comp := by
        apply wrapping_unique hok (k := cp1.stage) hk1 _ hw1 hw2
        have : keyOf cp2 = (cp1.stage, cp2.comp) := by unfold keyOf; rw [hs]
        rw [← this]; exact hk2
      unfold keyOf; rw [hs, this]
    · exact absurd ⟨_, hb1⟩ hn2
    · exact absurd hH2 hn1
    · -- both are users of a constructor that is not hoisted: the same user
      by_cases hkk : keyOf cp1 = keyOf cp2
      · exact hkk
      · exfalso
        apply hn1
        have hlen : 2 ≤ (minesOf (usersFrom env 0 l) x).length := by
          rw [minesOf_length]
          apply sum_ge_two _ _ hok.nodup (keyOf cp1) (keyOf cp2) hk1 hk2 hkk
          · have nd : (closureOf (env.get cp1.comp.scope) [] Life.request env.fuel cp1.comp.ins).1.rs.Nodup :=
              closure_dedup _ [] .request (by decide) _ _
            show 1 ≤ ((closureOf (env.get cp1.comp.scope) [] Life.request env.fuel cp1.comp.ins).1.rs.filter _).length
            rw [filter_eq_length_of_nodup _ _ nd]
            unfold firstPass at hm1
            simp [hm1]
          · have nd : (closureOf (env.get cp2.comp.scope) [] Life.request env.fuel cp2.comp.ins).1.rs.Nodup :=
              closure_dedup _ [] .request (by decide) _ _
            show 1 ≤ ((closureOf (env.get cp2.comp.scope) [] Life.request env.fuel cp2.comp.ins).1.rs.filter _).length
            rw [filter_eq_length_of_nodup _ _ nd]
            unfold firstPass at hm2
            simp [hm2]
        exact ⟨_, by rw [← hba]; exact builtAt_mem.mpr ⟨by omega, rfl⟩⟩


/-! ### the stages `group` makes satisfy `StagesOk` -/

theorem group_count (a : Comp) : ∀ (ms pres posts : List Comp) (h : Comp),
    List.count a ((group ms pres posts h).flatMap StageC.order) =
      List.count a pres + List.count a posts + List.count a ms + List.count a [h] := by
  intro ms
  induction ms with
  | nil =>
    intro pres posts h
    simp only [group, List.flatMap_cons, List.flatMap_nil, List.append_nil, StageC.order, List.count_append, List.count_nil]
    omega
  | cons m ms ih =>
    intro pres posts h
    simp only [group]
    cases hk : m.kind with
    | pre => simp only [ih, List.count_append, List.count_cons, List.count_nil]; omega
    | post => simp only [ih, List.count_append, List.count_cons, List.count_nil]; omega
    | noop => simp only [List.flatMap_cons, StageC.order, ih, List.count_append, List.count_cons, List.count_nil]; omega
    | wrap => simp only [List.flatMap_cons, StageC.order, ih, List.count_append, List.count_cons, List.count_nil]; omega
    | handler => simp only [List.flatMap_cons, StageC.order, ih, List.count_append, List.count_cons, List.count_nil]; omega

theorem allComps_snd : ∀ (l : List StageC) (a : Nat), (allComps a l).map (·.2) = l.flatMap StageC.order := by
  intro l
  induction l with
  | nil => intro a; rfl
  | cons s rest ih =>
    intro a
    simp only [allComps, List.map_append, List.map_map, List.flatMap_cons, ih]
    congr 1
    induction s.order with
    | nil => rfl
    | cons c cs ih2 => simp [ih2]

theorem nodup_of_map_nodup {α β : Type} (f : α → β) : ∀ (l : List α), (l.map f).Nodup → l.Nodup := by
  intro l
  induction l with
  | nil => intro _; exact List.nodup_nil
  | cons a as ih =>
    intro h
    simp only [List.map_cons, List.nodup_cons] at h ⊢
    exact ⟨fun hm => h.1 (List.mem_map.mpr ⟨a, hm, rfl⟩), ih h.2⟩

theorem group_side : ∀ (ms pres posts : List Comp) (h : Comp),
    (∀ c ∈ pres, c.kind = .pre) → (∀ c ∈ posts, c.kind = .post) →
    ∀ s ∈ group ms pres posts h, (∀ c ∈ s.pres, c.kind = .pre) ∧ (∀ c ∈ s.posts, c.kind = .post) := by
  intro ms
  induction ms with
  | nil =>
    intro pres posts h hp hq s hs
    simp only [group, List.mem_singleton] at hs
    subst hs
    exact ⟨hp, hq⟩
  | cons m ms ih =>
    intro pres posts h hp hq s hs
    simp only [group] at hs
    cases hk : m.kind with
    | pre =>
      rw [hk] at hs
      exact ih _ _ h (by intro c hc; simp only [List.mem_append, List.mem_singleton] at hc; rcases hc with hc | rfl; exact hp c hc; exact hk) hq s hs
    | post =>
      rw [hk] at hs
      exact ih _ _ h hp (by intro c hc; simp only [List.mem_append, List.mem_singleton] at hc; rcases hc with hc | rfl; exact hq c hc; exact hk) s hs
    | noop | wrap | handler =>
      rw [hk] at hs
      simp only [List.mem_cons] at hs
      rcases hs with rfl | hs
      · exact ⟨hp, hq⟩
      · exact ih [] [] h (by simp) (by simp) s hs

/-- the pipeline pavexc builds — the synthetic wrapping middleware first, then the chain, then the handler, all
    different components — has well-shaped stages -/
theorem stagesOk_group (c0 : Comp) (ms : List Comp) (h : Comp) (hw : c0.isWrapping = true)
    (hnd : (c0 :: ms ++ [h]).Nodup) : StagesOk (group (c0 :: ms) [] [] h) := by
  have hk : c0.kind = .noop ∨ c0.kind = .wrap := by
    unfold Comp.isWrapping at hw
    simpa using hw
  have hshape : group (c0 :: ms) [] [] h = ⟨[], c0, []⟩ :: group ms [] [] h := by
    simp only [group]
    rcases hk with hk | hk <;> rw [hk]
  refine ⟨?_, ?_, ?_⟩
  · apply nodup_of_map_nodup (·.2)
    rw [allComps_snd]
    have hperm : ((group (c0 :: ms) [] [] h).flatMap StageC.order).Perm (c0 :: ms ++ [h]) := by
      rw [List.perm_iff_count]
      intro a
      rw [group_count]
      simp only [List.count_nil, List.count_append, List.cons_append, List.count_cons]
      omega
    exact hperm.nodup_iff.mpr hnd
  · intro c hc
    rw [hshape] at hc
    simp only [allComps, StageC.order, List.append_nil, List.nil_append, List.map_cons, List.map_nil, List.cons_append,
      List.mem_cons, Prod.mk.injEq, true_and] at hc
    rcases hc with rfl | hc
    · exact hw
    · -- later stages have an index of at least 1
      exfalso
      have : ∀ (l : List StageC) (a k : Nat) (c : Comp), (k, c) ∈ allComps a l → a ≤ k := by
        intro l a k c h
        obtain ⟨_, _, hle, _⟩ := allComps_mem l a k c h
        exact hle
      have := this _ _ _ _ hc
      omega
  · intro s hs
    have := group_side (c0 :: ms) [] [] h (by simp) (by simp) s hs
    refine ⟨fun c hc => ?_, fun c hc => ?_⟩
    · unfold Comp.isWrapping; rw [this.1 c hc]; rfl
    · unfold Comp.isWrapping; rw [this.2 c hc]; rfl


theorem uniformStages_of_uniform {env : Env} {lk : Nat → Option CDef} {chain : List Comp} {h : Comp}
    (hun : Uniform env lk chain h) : UniformStages env lk (group chain [] [] h) := by
  intro s hs c hc
  rcases group_mem chain [] [] h s hs c hc with h1 | h1 | h1 | h1
  · exact hun c (Or.inl h1)
  · simp at h1
  · simp at h1
  · exact hun c (Or.inr h1)

/-- constructors kept in a table — ids pairwise different, inputs of smaller types than the output (no cycles), all
    types below the recursion depth — make a `World` -/
theorem world_of_table (tab : List CDef) (fuel : Nat) (hpos : 0 < fuel) (hn : (tab.map (·.uid)).Nodup)
    (hdec : ∀ c ∈ tab, ∀ jm ∈ c.ins, jm.1 < c.ty) (hb : ∀ c ∈ tab, c.ty < fuel) :
    World { get := fun _ t => tab.find? (fun d => d.ty == t), fuel := fuel } (fun t => tab.find? (fun d => d.ty == t))
      (fun t => if t < fuel then t else 0) (fun u => (tab.find? (fun d => d.uid == u)).map (·.ty)) := by
  have hfind : ∀ t d, tab.find? (fun d => d.ty == t) = some d → d ∈ tab ∧ d.ty = t := by
    intro t d h
    exact ⟨List.mem_of_find?_eq_some h, by simpa using List.find?_some h⟩
  refine ⟨uidInj_of_table tab hn, ?_, ?_, ?_⟩
  · intro t c jm hl hjm
    obtain ⟨hc, hty⟩ := hfind t c hl
    have h1 := hdec c hc jm hjm
    have h2 := hb c hc
    simp only
    rw [if_pos (by omega), if_pos (by omega)]
    omega
  · intro t
    simp only
    split <;> omega
  · intro t d hl
    obtain ⟨hd, hty⟩ := hfind t d hl
    -- the first constructor with that id is `d` itself
    have : tab.find? (fun d' => d'.uid == d.uid) = some d := by
      clear hl hfind hdec hb
      induction tab with
      | nil => cases hd
      | cons a as ih =>
        simp only [List.map_cons, List.nodup_cons] at hn
        simp only [List.mem_cons] at hd
        rcases hd with rfl | hd
        · simp
        · have hne : a.uid ≠ d.uid := by
            intro he
            apply hn.1
            rw [he]
            exact List.mem_map.mpr ⟨d, hd, rfl⟩
          have : (a.uid == d.uid) = false := by simpa using hne
          simp only [List.find?_cons, this]
          exact ih hn.2 hd
    rw [this]
    simp [hty]

end Pxv.Life
