import Pxv.Model.Attr
/-! Helper lemmas for C19 (attributes): the parser reads back the token list the macros write. -/
namespace Pxv.Attr

theorem strItems_toks (s : String) (ss : List String) (rest : List Tok) :
    strItems (.str s :: ((ss.map (fun x => [Tok.punct ',', Tok.str x])).flatten ++ .punct ']' :: rest))
      = some (s :: ss, rest) := by
  induction ss generalizing s with
  | nil => simp [strItems]
  | cons x xs ih =>
    simp only [List.map_cons, List.flatten_cons, List.cons_append, List.nil_append, strItems]
    rw [ih x]

theorem parseVal_valToks (v : Val) (rest : List Tok) :
    parseVal (valToks v ++ rest) = some (v, rest) := by
  cases v with
  | str s => simp [valToks, parseVal]
  | bool b => simp [valToks, parseVal]
  | nat n => simp [valToks, parseVal]
  | strs l =>
    cases l with
    | nil => simp [valToks, parseVal, strItems]
    | cons s ss =>
      simp only [valToks, List.cons_append, List.append_assoc, List.nil_append, parseVal,
        List.singleton_append]
      rw [strItems_toks]

/-- All fields carry a value (the macros never write bare words). -/
def AllValued (fs : List Field) : Prop := ∀ f ∈ fs, f.val.isSome = true

theorem parseFields_emit (fs : List Field) (hv : AllValued fs) (rest : List Tok) :
    ∀ fuel, fs.length ≤ fuel →
      parseFields fuel ((fs.map fieldToks).flatten ++ .punct ')' :: rest) = some (fs, rest) := by
  induction fs with
  | nil => intro fuel _; simp [parseFields]
  | cons f fs ih =>
    intro fuel hf
    cases fuel with
    | zero => simp at hf
    | succ fuel =>
      obtain ⟨k, v⟩ := f
      have hv' : v.isSome = true := hv ⟨k, v⟩ (by simp)
      cases v with
      | none => simp at hv'
      | some v =>
        simp only [List.map_cons, List.flatten_cons, fieldToks, List.cons_append, List.append_assoc,
          List.nil_append, parseFields]
        rw [parseVal_valToks]
        simp only [List.singleton_append]
        rw [ih (fun x hx => hv x (by simp [hx])) fuel (by simpa using hf)]

theorem fields_length_le (fs : List Field) : fs.length ≤ (fs.map fieldToks).flatten.length := by
  induction fs with
  | nil => simp
  | cons f fs ih =>
    simp only [List.map_cons, List.flatten_cons, List.length_append, List.length_cons] at ih ⊢
    have : 1 ≤ (fieldToks f).length := by
      unfold fieldToks; cases f.val <;> simp
    omega

/-- `syn::Attribute::parse_outer` on what a macro wrote gives back kind and fields. -/
theorem parseAttribute_emit (kind : String) (fs : List Field) (hv : AllValued fs) (rest : List Tok) :
    parseAttribute (attrToks kind fs ++ rest)
      = some (⟨false, ["diagnostic", "pavex", kind], .list (some fs)⟩, rest) := by
  have hp : ∀ X : List Tok, parsePath (Tok.ident kind :: Tok.punct '(' :: X)
      = some ([kind], Tok.punct '(' :: X) := by
    intro X; simp [parsePath]
  have hf := parseFields_emit fs hv (.punct ']' :: rest)
    (((fs.map fieldToks).flatten ++ (Tok.punct ')' :: Tok.punct ']' :: rest)).length) (by
      have := fields_length_le fs
      simp only [List.length_append, List.length_cons]
      omega)
  simp only [attrToks, pathToks, List.cons_append, List.nil_append, List.append_assoc, parseAttribute,
    parsePath, hp, hf]

theorem parseOuter_emit (kind : String) (fs : List Field) (hv : AllValued fs) :
    parseOuter ((attrToks kind fs).length + 1) (attrToks kind fs)
      = some [⟨false, ["diagnostic", "pavex", kind], .list (some fs)⟩] := by
  have h := parseAttribute_emit kind fs hv []
  simp only [List.append_nil] at h
  have hne : attrToks kind fs ≠ [] := by simp [attrToks]
  cases hts : attrToks kind fs with
  | nil => exact absurd hts hne
  | cons t ts =>
    rw [hts] at h
    simp only [parseOuter, h]

/-! ### `darling` reads the written fields back as the macro's arguments -/

theorem spec_allValued (s : Spec) : AllValued s.fields := by
  intro f hf
  cases s <;> simp only [Spec.fields, optField, flagField] at hf
  all_goals
    (repeat' split at hf) <;> simp at hf <;> (try rcases hf with hf | hf | hf | hf | hf | hf) <;>
      (try subst hf) <;> (try rfl) <;> simp_all

set_option maxRecDepth 8000 in
theorem fromFields_emit (s : Spec) (h : s.legal = true) :
    fromFields s.kind s.fields = .some (meaning s) := by
  cases s with
  | constructor id lc cl au aef =>
    cases lc <;> rcases cl with _ | _ | _ <;> cases au <;> cases aef <;>
      simp [fromFields, knownKeys, Spec.kind, Spec.fields, optField, hasDup, lookup, getStr,
        getBool, getLifecycle, getCloning, meaning, Lifecycle.str, Cloning.str]
  | prebuilt id cl au =>
    rcases cl with _ | _ | _ <;> cases au <;>
      simp [fromFields, knownKeys, Spec.kind, Spec.fields, optField, hasDup, lookup, getStr,
        getBool, getCloning, meaning, Cloning.str]
  | config id key cl dim iiu =>
    rcases cl with _ | _ | _ <;> cases dim <;> cases iiu <;>
      simp [fromFields, knownKeys, Spec.kind, Spec.fields, optField, flagField, hasDup, lookup, getStr,
        getBool, getCloning, meaning, Cloning.str]
  | wrap id aef =>
    cases aef <;> simp [fromFields, knownKeys, Spec.kind, Spec.fields, optField, hasDup, lookup, getStr,
      getBool, meaning]
  | pre id aef =>
    cases aef <;> simp [fromFields, knownKeys, Spec.kind, Spec.fields, optField, hasDup, lookup, getStr,
      getBool, meaning]
  | post id aef =>
    cases aef <;> simp [fromFields, knownKeys, Spec.kind, Spec.fields, optField, hasDup, lookup, getStr,
      getBool, meaning]
  | fallback id aef =>
    cases aef <;> simp [fromFields, knownKeys, Spec.kind, Spec.fields, optField, hasDup, lookup, getStr,
      getBool, meaning]
  | errorObserver id =>
    simp [fromFields, knownKeys, Spec.kind, Spec.fields, hasDup, lookup, getStr, meaning]
  | errorHandler id idx d =>
    cases d <;> simp [fromFields, knownKeys, Spec.kind, Spec.fields, optField, hasDup, lookup, getStr,
      getBool, getNat, meaning]
  | route id path m ns any aef =>
    rcases m with _ | _ | _ <;> cases ns <;> cases any <;> cases aef <;>
      simp [Spec.legal] at h <;>
      simp [fromFields, knownKeys, Spec.kind, Spec.fields, optField, flagField, hasDup, lookup, getStr,
        getBool, getMethod, meaning]
  | shorthand id m path aef =>
    cases aef <;> simp [fromFields, knownKeys, Spec.kind, Spec.fields, optField, hasDup, lookup, getStr,
      getBool, getMethod, meaning]

theorem spec_kind_known (s : Spec) : (knownKeys s.kind).isSome = true ∧ s.kind ≠ "methods" := by
  cases s <;> simp [Spec.kind, knownKeys]

end Pxv.Attr
