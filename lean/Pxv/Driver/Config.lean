import Pxv.Driver.Util
import Pxv.Model.Config
open Lean Pxv.Driver

namespace Pxv.Config

def sBytes (s : String) : List Nat := s.toUTF8.toList.map (·.toNat)

def key (p : String) (t : CTy) (req : Bool) : Key :=
  { path := (p.splitOn ".").map sBytes, ty := t, required := req }

/-- The fixed family of configuration structs (twins: harness/crates/config/src/main.rs). -/
def schemaOf : String → Option (List Key × Bool)
  | "S1" => some ([key "server.host" .string true, key "server.port" (.u 16) true, key "server.tls" .bool false,
                   key "db.url" .string true, key "db.pool.max_size" (.u 32) true, key "db.pool.timeout" (.i 64) false,
                   key "debug" .bool true, key "name" .string false, key "workers" (.i 64) true], false)
  | "S2" => some ([key "app_name" .string true, key "level" (.u 8) true, key "tag" .string false], true)
  | _ => none

def knownProfiles : List (List Nat) := [sBytes "dev", sBytes "prod", sBytes "local_development", sBytes "staging2", sBytes "prodEU"]

/-- Nested JSON object → leaf paths (bool / integer / string leaves). -/
partial def flatten (pre : Path) (j : Json) : Option (List (Path × Leaf)) :=
  match j with
  | .bool b => some [(pre, .bool b)]
  | .str s => some [(pre, .str (sBytes s))]
  | .num n => if n.exponent = 0 then some [(pre, .int n.mantissa)] else none
  | .obj kvs =>
    kvs.foldl (init := some []) fun acc k v =>
      match acc, flatten (pre ++ [sBytes k]) v with
      | some a, some b => some (a ++ b)
      | _, _ => none
  | _ => none

def file? (j : Json) : Option File :=
  match getNat? j "dist", getStr? j "name", (getVal? j "tree").bind (flatten []) with
  | some d, some n, some c => some { dist := d, name := sBytes n, cfg := c }
  | _, _, _ => none

def pair? (j : Json) : Option (List Nat × List Nat) :=
  match j with
  | .arr #[.str a, .str b] => some (sBytes a, sBytes b)
  | _ => none

def intStr (z : Int) : String := if z < 0 then "-" ++ toString z.natAbs else toString z.natAbs

def valJson : Val → Json
  | .bool b => Json.bool b
  | .int z => Json.str (intStr z)
  | .str s => natListJson s
  | .none => Json.null

def pathStr (p : Path) : String :=
  ".".intercalate (p.map fun seg => String.ofList (seg.map Char.ofNat))

def handle (j : Json) : Json :=
  let explicit : Option (Option (List Nat)) :=
    match getVal? j "explicit" with
    | some (.str s) => some (some (sBytes s))
    | some .null => some none
    | none => some none
    | _ => none
  match explicit, (getArr? j "env").bind (·.mapM pair?), getBool? j "absolute", (getArr? j "files").bind (·.mapM file?),
        getNat? j "depth", (getStr? j "schema").bind schemaOf with
  | some ex, some env, some abs, some files, some depth, some (schema, strict) =>
    -- "manual": the harness's hand-written `ConfigProfile` (free-form names, dots included)
    let known := if (getBool? j "manual").getD false then [sBytes "prod", sBytes "prod.eu", sBytes "v1.2"] else knownProfiles
    let inp : Input := { known := known, explicit := ex, env := env, absolute := abs, files := files,
                         depth := depth, schema := schema, strict := strict }
    match load inp with
    | .ok vs => Json.mkObj [("r", "ok"), ("v", Json.mkObj (vs.map fun (p, v) => (pathStr p, valJson v)))]
    | .error .profileUnset => Json.mkObj [("r", "err"), ("kind", "profile-unset")]
    | .error .profileInvalid => Json.mkObj [("r", "err"), ("kind", "profile-invalid")]
    | .error .extract => Json.mkObj [("r", "err"), ("kind", "extract")]
  | _, _, _, _, _, _ => Json.mkObj [("r", "bad-op")]

end Pxv.Config
