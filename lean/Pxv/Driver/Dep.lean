import Pxv.Driver.Util
import Pxv.Model.DepGraph
open Lean Pxv.Driver

namespace Pxv.Dep

def pairList? (j : Json) : Option (List (Nat × List Nat)) :=
  match j with
  | .arr xs => xs.toList.mapM (fun x => match x with
      | .arr #[k, v] => do pure ((← k.getNat?.toOption), (← natList? v))
      | _ => none)
  | _ => none

def pairs? (j : Json) : Option (List (Nat × Nat)) :=
  match j with
  | .arr xs => xs.toList.mapM (fun x => match x with
      | .arr #[a, b] => do pure ((← a.getNat?.toOption), (← b.getNat?.toOption))
      | _ => none)
  | _ => none

/-- request {"root": r, "observers": [..], "inputs": [..], "deps": [[c,[..]]..], "eh": [[c,h]..], "tr": [[c,[..]]..]}:
    ↔ `DependencyGraph::build`; answers the compute nodes and the edges between them -/
def handle (j : Json) : Json :=
  match getNat? j "root", (getVal? j "observers").bind natList?, (getVal? j "inputs").bind natList?,
        (getVal? j "deps").bind pairList?, (getVal? j "eh").bind pairs?, (getVal? j "tr").bind pairList? with
  | some root, some obs, some inputs, some deps, some eh, some tr =>
    let db : DB := { inputs, deps, eh, tr }
    let fuel := 4 * (deps.length + tr.length + eh.length + inputs.length + obs.length + 4) * (deps.length + tr.length + 4)
    let r := build db fuel root obs
    let comp := fun c => db.isCompute c
    let nodes := r.1.nodes.filter comp
    let edges := r.1.edges.filter (fun e => comp e.1 && comp e.2)
    Json.mkObj [("r", "ok"), ("ended", Json.bool r.2), ("nodes", natListJson nodes),
      ("edges", Json.arr (edges.map (fun e => Json.arr #[Json.num (JsonNumber.fromNat e.1), Json.num (JsonNumber.fromNat e.2)])).toArray)]
  | _, _, _, _, _, _ => Json.mkObj [("r", "bad-op")]

end Pxv.Dep
