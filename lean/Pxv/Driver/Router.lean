import Pxv.Driver.Util
import Pxv.Model.Matchit
import Pxv.Model.Router
open Lean Pxv.Driver

namespace Pxv.Router

open Pxv.Matchit

def strList? (j : Json) (k : String) : Option (List (List Char)) :=
  (getArr? j k).bind (·.mapM (fun g => g.getStr?.toOption.map String.toList))

def insErrJson (self : Bool) : InsErr → Json
  | .conflict => Json.mkObj [("conflict", Json.mkObj [("self", Json.bool self)])]
  | .invalidParam => "invalidParam"
  | .invalidParamSegment => "invalidParamSegment"
  | .invalidCatchAll => "invalidCatchAll"
  | .tooManyParams => "panic"

/-- Insert the patterns in order (values 0, 1, …) up to the first failure; with `tolerate`, a
    conflict of a pattern with itself (the same string inserted before) is skipped, as
    `detect_path_conflicts` does. -/
def miGo (tolerate : Bool) : List (List Char) → Nat → Router → List Json → List Json × Option Router
  | [], _, r, acc => (acc.reverse, some r)
  | p :: ps, i, r, acc =>
    match r.insert p i with
    | .ok r' => miGo tolerate ps (i + 1) r' ("ok" :: acc)
    | .error e =>
      let self := r.selfConflict p
      if tolerate && e == .conflict && self then miGo tolerate ps (i + 1) r (insErrJson true e :: acc)
      else ((insErrJson self e :: acc).reverse, none)

def miJson (routes paths : List (List Char)) (tolerate : Bool) : Json :=
  let (ins, r) := miGo tolerate routes 0 {} []
  let atJ : Json := match r with
    | some r => Json.arr (paths.map (fun p => match r.at p with
        | some i => Json.num (JsonNumber.fromNat i) | none => Json.null)).toArray
    | none => Json.null
  Json.mkObj [("r", "mi"), ("ins", Json.arr ins.toArray), ("at", atJ)]

/-! ### blueprints -/

def insertStr (x : String) : List String → List String
  | [] => [x]
  | y :: ys => if x = y then y :: ys else if x < y then x :: y :: ys else y :: insertStr x ys

/-- `BTreeSet<String>`. -/
def normMethods (ms : List String) : List String := ms.foldl (fun acc m => insertStr m acc) []

/-- {"any":"all"} = `MethodGuard::Any`; {"any":true} = every well-known method; {"some":[..]}. -/
def guard? (j : Json) : Option MGuard :=
  match j.getObjVal? "any" with
  | .ok (.str "all") => some .any
  | .ok (.bool true) => some (.some (normMethods wellKnown))
  | _ =>
    match (getArr? j "some").bind (·.mapM (fun m => m.getStr?.toOption)) with
    | some ms => some (.some (normMethods ms))
    | none => none

def optStr? (j : Json) (k : String) : Option (List Char) := (getStr? j k).map String.toList

partial def op? (handlers : List (Nat × MGuard × List Char)) (j : Json) : Option Op :=
  match j with
  | .arr a =>
    match a.toList with
    | [.str "route", n] =>
      (n.getNat?.toOption).bind (fun i => (handlers.find? (fun h => h.1 = i)).map (fun h => Op.route i h.2.1 h.2.2))
    | [.str "fallback", n] => (n.getNat?.toOption).map Op.fallback
    | [.str "nest", nb] =>
      match (getArr? nb "ops").bind (·.mapM (op? handlers)) with
      | some ops => some (.nest (optStr? nb "prefix") (optStr? nb "domain") ops)
      | none => none
    | _ => none
  | _ => none

def handler? (j : Json) : Option (Nat × MGuard × List Char) :=
  match getNat? j "i", (getVal? j "guard").bind guard?, getStr? j "path" with
  | some i, some g, some p => some (i, g, p.toList)
  | _, _, _ => none

def request? (j : Json) : Option Request :=
  match getStr? j "method", getStr? j "path" with
  | some m, some p => some { method := m, path := p.toList, host := optStr? j "host" }
  | _, _ => none

def rejectStr : Reject → String
  | .routePath => "reject:routePath"
  | .prefixInvalid => "reject:prefix"
  | .domainInvalid => "reject:domain"
  | .mixedDomains => "reject:mixedDomains"
  | .methodConflict => "reject:methodConflict"
  | .pathConflict => "reject:pathConflict"
  | .fallbackAmbiguity => "reject:fallbackAmbiguity"
  | .methodFallbackAmbiguity => "reject:methodFallbackAmbiguity"
  | .domainConflict => "reject:domainConflict"
  | .runtimeOrder => "reject:runtimeOrder"
  | .fallbackPath => "reject:fallbackPath"
  | .panic => "panic"

def natJ (n : Nat) : Json := Json.num (JsonNumber.fromNat n)
def optNatJ : Option Nat → Json
  | some n => natJ n
  | none => Json.null
def strsJ (l : List String) : Json := Json.arr (l.map Json.str).toArray

def targetJson : Target → Json
  | .handler h => Json.mkObj [("handler", natJ h)]
  | .fallback f => Json.mkObj [("fallback", optNatJ f)]

def leafJson (l : Leaf) : Json :=
  Json.mkObj [("path", Json.str (String.ofList l.path)),
    ("arms", Json.arr (l.arms.map (fun a => Json.mkObj [("h", natJ a.2.1), ("methods", strsJ a.2.2)])).toArray),
    ("else", targetJson l.fb)]

def pathRouterJson (r : PathRouter) : Json :=
  Json.mkObj [("routes", Json.arr (r.leaves.map leafJson).toArray), ("root", optNatJ r.rootFb)]

def tableJson : Table → Json
  | .agnostic r => Json.mkObj [("kind", "agnostic"), ("router", pathRouterJson r)]
  | .domains ds f => Json.mkObj [("kind", "domains"), ("root", optNatJ f),
      ("domains", Json.arr (ds.map (fun d => Json.mkObj [("guard", Json.str (String.ofList d.guard)),
        ("pattern", Json.str (String.ofList d.pattern)), ("router", pathRouterJson d.router)])).toArray)]

def outcomeJson : Outcome → Json
  | .handler h => Json.mkObj [("handler", natJ h)]
  | .fallback f allowed =>
    let (status, allow) := defaultFallback allowed
    Json.mkObj [("fallback", optNatJ f), ("allowed", strsJ allowed),
      ("default_status", natJ status), ("default_allow", match allow with | some a => Json.str a | none => Json.null)]

def bpJson (j : Json) : Json :=
  match (getArr? j "handlers").bind (·.mapM handler?) with
  | none => Json.mkObj [("r", "bad-op"), ("why", "handlers")]
  | some hs =>
    match (getArr? j "ops").bind (·.mapM (op? hs)), ((getArr? j "reqs").getD []).mapM request? with
    | some ops, some reqs =>
      match compile ops with
      | .error e => Json.mkObj [("r", "bp"), ("verdict", rejectStr e)]
      | .ok t => Json.mkObj [("r", "bp"), ("verdict", "ok"), ("table", tableJson t), ("nns", Json.bool t.noNestedSuffixB),
          ("out", Json.arr (reqs.map (fun q => outcomeJson (t.dispatch q))).toArray)]
    | _, _ => Json.mkObj [("r", "bad-op"), ("why", "ops/reqs")]

def allowJson (ms : List String) : Json :=
  let (status, allow) := defaultFallback ms
  Json.mkObj [("r", "allow"), ("status", natJ status), ("allow", match allow with | some a => Json.str a | none => Json.null)]

def handle (j : Json) : Json :=
  match getStr? j "op" with
  | some "mi" =>
    match strList? j "routes", strList? j "paths" with
    | some rs, some ps => miJson rs ps ((getBool? j "tolerate").getD false)
    | _, _ => Json.mkObj [("r", "bad-op")]
  | some "bp" => bpJson j
  | some "allow" =>
    match (getArr? j "methods").bind (·.mapM (fun m => m.getStr?.toOption)) with
    | some ms => allowJson ms
    | none => Json.mkObj [("r", "bad-op")]
  | _ => Json.mkObj [("r", "bad-op")]

end Pxv.Router
