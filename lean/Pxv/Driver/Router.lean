import Pxv.Driver.Util
import Pxv.Model.Matchit
open Lean Pxv.Driver

namespace Pxv.Router

open Pxv.Matchit

def strList? (j : Json) (k : String) : Option (List (List Char)) :=
  (getArr? j k).bind (·.mapM (fun g => g.getStr?.toOption.map String.toList))

def insErrJson (self : Bool) : InsErr → Json
  | .conflict => Json.mkObj [("conflict", Json.mkObj [("self", Json.bool self)])]
  | .invalidParam => "invalidParam"
  | .invalidParamSegment => "invalidParamSegment"
  | .invalidCatchAll => "invalidCatchAll"
  | .tooManyParams => "panic"

/-- Insert the patterns in order (values 0, 1, …) up to the first failure; with `tolerate`, a
    conflict of a pattern with itself (the same string inserted before) is skipped, as
    `detect_path_conflicts` does. -/
def miGo (tolerate : Bool) : List (List Char) → Nat → Router → List Json → List Json × Option Router
  | [], _, r, acc => (acc.reverse, some r)
  | p :: ps, i, r, acc =>
    match r.insert p i with
    | .ok r' => miGo tolerate ps (i + 1) r' ("ok" :: acc)
    | .error e =>
      let self := r.selfConflict p
      if tolerate && e == .conflict && self then miGo tolerate ps (i + 1) r (insErrJson true e :: acc)
      else ((insErrJson self e :: acc).reverse, none)

def miJson (routes paths : List (List Char)) (tolerate : Bool) : Json :=
  let (ins, r) := miGo tolerate routes 0 {} []
  let atJ : Json := match r with
    | some r => Json.arr (paths.map (fun p => match r.at p with
        | some i => Json.num (JsonNumber.fromNat i) | none => Json.null)).toArray
    | none => Json.null
  Json.mkObj [("r", "mi"), ("ins", Json.arr ins.toArray), ("at", atJ)]

def handle (j : Json) : Json :=
  match getStr? j "op" with
  | some "mi" =>
    match strList? j "routes", strList? j "paths" with
    | some rs, some ps => miJson rs ps ((getBool? j "tolerate").getD false)
    | _, _ => Json.mkObj [("r", "bad-op")]
  | _ => Json.mkObj [("r", "bad-op")]

end Pxv.Router
