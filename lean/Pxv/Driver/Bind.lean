import Pxv.Driver.Util
import Pxv.Model.Bindings
open Lean Pxv.Driver

namespace Pxv.Bind

partial def ty? (j : Json) : Option Ty :=
  match getNat? j "b" with
  | some n => some (.base n)
  | none =>
    match getBool? j "r", (getVal? j "i").bind ty? with
    | some m, some t => some (.ref m t)
    | _, _ => none

def binding? (j : Json) : Option Binding := do
  let id ← getNat? j "id"
  let ty ← (getVal? j "ty").bind ty?
  pure { ident := id, ty := ty, mutable := (getBool? j "mut").getD false }

def call? (j : Json) : Option (Bool × List Ty) := do
  let post ← getBool? j "post"
  let wants ← (getArr? j "wants").bind (·.mapM ty?)
  pure (post, wants)

def exprJ : Expr → Json
  | .name i => Json.mkObj [("n", Json.num (JsonNumber.fromNat i))]
  | .borrow m i => Json.mkObj [("b", Json.num (JsonNumber.fromNat i)), ("mut", Json.bool m)]

/-- request {"resp": binding, "initial": [binding], "calls": [{"post": bool, "wants": [ty]}]}:
    ↔ the invocation loop of one generated stage function -/
def handle (j : Json) : Json :=
  match (getVal? j "resp").bind binding?, (getArr? j "initial").bind (·.mapM binding?), (getArr? j "calls").bind (·.mapM call?) with
  | some resp, some bs, some calls =>
    match resolveStage resp bs calls with
    | some (ess, bsF) =>
      Json.mkObj [("r", "ok"),
        ("exprs", Json.arr (ess.map (fun es => Json.arr (es.map exprJ).toArray)).toArray),
        ("final", Json.arr (bsF.map (fun b => Json.mkObj [("id", Json.num (JsonNumber.fromNat b.ident)), ("mut", Json.bool b.mutable)])).toArray)]
    | none => Json.mkObj [("r", "none")]
  | _, _, _ => Json.mkObj [("r", "bad-op")]

end Pxv.Bind
