import Pxv.Driver.Util
import Pxv.Driver.CG
import Pxv.Model.Scope
open Lean Pxv.Driver

namespace Pxv.Scope

instance : Inhabited Bp := ⟨.nil⟩

def life? : String → Life
  | "singleton" => .singleton
  | "transient" => .transient
  | _ => .request

/-- items: ["ctor", id, ty, life, cloneIfNecessary] | ["mw", id] | ["route", id] | ["nest", [items]] | ["other"] -/
partial def bp? (ops : List Json) : Bp :=
  match ops with
  | [] => .nil
  | op :: rest =>
    let tail := bp? rest
    match op with
    | .arr #[.str "ctor", i, t, .str l, .bool c] =>
      .cons (.ctor { id := i.getNat?.toOption.getD 0, ty := t.getNat?.toOption.getD 0, life := life? l, cloneIfNecessary := c }) tail
    | .arr #[.str "mw", n] => .cons (.mw (n.getNat?.toOption.getD 0)) tail
    | .arr #[.str "route", n] => .cons (.route (n.getNat?.toOption.getD 0)) tail
    | .arr #[.str "nest", .arr xs] => .cons (.nest (bp? xs.toList)) tail
    | _ => .cons .other tail

def natJ (n : Nat) : Json := Json.num (JsonNumber.fromNat n)

def optCtorJ : Option Ctor → Json
  | some c => natJ c.id
  | none => Json.null

def pairsJ (l : List (Nat × Nat)) : Json := Json.arr (l.map (fun (a, b) => Json.arr #[natJ a, natJ b])).toArray

def nodeJ (n : Pxv.CG.Node) : Json :=
  Json.mkObj [("copy", Json.bool n.copy), ("ref", Json.bool n.isRef), ("cloneable", Json.bool n.cloneable),
    ("kind", if n.branch then "branch" else "compute"), ("tied", natListJson n.tied), ("direct", natListJson n.direct)]

def ekJ : Pxv.CG.EK → Json
  | .move => "move" | .shared => "shared" | .excl => "excl" | .before => "before"

def stageInput? (j : Json) : Option StageInput := do
  let ty ← getNat? j "ty"
  let byRef ← getBool? j "byRef"
  let cloneable ← getBool? j "cloneable"
  let copy := (getBool? j "copy").getD false
  pure { ty, byRef, cloneable, copy }

def mwInputs? (j : Json) : Option (List StageInput) :=
  match j with
  | .arr xs => xs.toList.mapM stageInput?
  | _ => none

/-- {"op":"scope","bp":[items],"ntypes":n}: the scope graph pavexc builds and, for every route, middleware and the
      application state, the constructor `ConstructibleDb::get` designates for each type;
    {"op":"clone","g":graph,"reqs":[[d,c],…]}: the call graph after the clone requests;
    {"op":"stage","mws":[[input,…],…]}: `type2cloning_indexes` of one stage, or the rejecting index. -/
def handle (j : Json) : Json :=
  match getStr? j "op" with
  | some "scope" =>
    match getArr? j "bp", getNat? j "ntypes" with
    | some ops, some nt =>
      let st := process (bp? ops)
      let g := build st
      let tys := List.range nt
      let gets := fun s => Json.arr (tys.map (fun t => optCtorJ (get g st.regs s t))).toArray
      Json.mkObj [("r", "ok"), ("app", natJ g.app), ("edges", pairsJ g.edges),
        ("appParents", natListJson (g.parents g.app)),
        ("nested", pairsJ st.nested),
        ("routes", Json.arr (st.routes.map (fun (r, s) =>
          Json.mkObj [("route", natJ r), ("scope", natJ s), ("get", gets s)])).toArray),
        ("mws", Json.arr (st.mws.map (fun (m, s) =>
          Json.mkObj [("mw", natJ m), ("scope", natJ s), ("get", gets s)])).toArray),
        ("appget", gets g.app)]
    | _, _ => Json.mkObj [("r", "bad-op")]
  | some "generic" =>
    -- {"op":"generic","edges":[[parent,child],…],"app":n,"regs":[[scope,fn,ty],…],"tmpls":[[scope,fn,[ty,…]],…],
    --  "queries":[[scope,ty],…]}: what `get_or_try_bind` designates (function id) for each query
    let pairs := fun (k : String) => ((getArr? j k).getD []).filterMap (fun r => match r with
      | .arr #[a, b] => do pure ((← a.getNat?.toOption), (← b.getNat?.toOption))
      | _ => none)
    let g : SGraph := { app := (getNat? j "app").getD 0, edges := pairs "edges" }
    let regs : List (Nat × Ctor) := ((getArr? j "regs").getD []).filterMap (fun r => match r with
      | .arr #[s, f, t] => do pure ((← s.getNat?.toOption), { id := (← f.getNat?.toOption), ty := (← t.getNat?.toOption) })
      | _ => none)
    let tmpls : List (Nat × Tmpl) := ((getArr? j "tmpls").getD []).filterMap (fun r => match r with
      | .arr #[s, f, .arr ts] => do pure ((← s.getNat?.toOption), { id := (← f.getNat?.toOption), insts := ts.toList.filterMap (·.getNat?.toOption) })
      | _ => none)
    Json.mkObj [("r", "ok"), ("ans", Json.arr ((pairs "queries").map (fun (s, t) => optCtorJ (getT g regs tmpls s t))).toArray)]
  | some "clone" =>
    match (getVal? j "g").bind Pxv.CG.graph?, getArr? j "reqs" with
    | some g, some reqs =>
      let rs := reqs.filterMap (fun r => match r with
        | .arr #[a, b] => do pure ((← a.getNat?.toOption), (← b.getNat?.toOption))
        | _ => none)
      let out := applyReqs { g := g } rs
      Json.mkObj [("r", "ok"), ("nodes", Json.arr (out.g.nodes.map nodeJ).toArray),
        ("edges", Json.arr (out.g.edges.map (fun e => Json.arr #[natJ e.src, natJ e.dst, ekJ e.kind])).toArray),
        ("clones", pairsJ out.clones)]
    | _, _ => Json.mkObj [("r", "bad-op")]
  | some "stage" =>
    match (getArr? j "mws").bind (·.mapM mwInputs?) with
    | some mws =>
      -- per type (pavexc iterates a hash map here: which rejection it reports first is not determined)
      let per := Json.arr ((collectAll [] 0 mws).map (fun e => Json.arr #[natJ e.1, match cloningFor e.2 with
        | none => Json.str "none"
        | some (.error i) => Json.mkObj [("error", natJ i)]
        | some (.ok idxs) => Json.mkObj [("ok", natListJson idxs)]])).toArray
      match stageCloning mws with
      | .ok t => Json.mkObj [("r", "ok"), ("per_type", per), ("cloning", Json.arr (t.map (fun (ty, idxs) => Json.arr #[natJ ty, natListJson idxs])).toArray)]
      | .error i => Json.mkObj [("r", "rejected"), ("per_type", per), ("at", natJ i)]
    | none => Json.mkObj [("r", "bad-op")]
  | _ => Json.mkObj [("r", "bad-op")]

end Pxv.Scope
