import Pxv.Driver.Util
import Pxv.Model.Server
open Lean Pxv.Driver

namespace Pxv.Server

def mode? : Json → Option Mode
  | .str "graceful" => some .graceful
  | .str "forced" => some .forced
  | _ => none

def dres? : Json → Option DRes
  | .str "ok" => some .ok
  | .str "full" => some .full
  | .str "closed" => some .closed
  | _ => none

/-- `"yield"`: `"always"` | `"ifDrained"` | `"never"` (booleans: `true` = always, `false` = never). -/
def yield? : Json → Option YieldPolicy
  | .str "always" => some .always
  | .str "ifDrained" => some .ifDrained
  | .str "never" => some .never
  | .bool true => some .always
  | .bool false => some .never
  | _ => none

def nat? (j : Json) : Option Nat := j.getNat?.toOption
def bool? (j : Json) : Option Bool := j.getBool?.toOption

/-- One trace entry: `["accept", c]`, `["dispatch", c, w, "ok"]`, ... (same names as `Event`). -/
def event? (j : Json) : Option Event :=
  match j with
  | .arr xs =>
    match xs.toList with
    | [.str "call", m] => (mode? m).map .call
    | [.str "cmdSent"] => some .cmdSent
    | [.str "returned", _] => some .returned
    | [.str "handleDone"] => some .handleDone
    | [.str "accept", c] => (nat? c).map .accept
    | [.str "dispatch", c, w, r] => do some (.dispatch (← nat? c) (← nat? w) (← dres? r))
    | [.str "dropConn", c] => (nat? c).map .dropConn
    | [.str "accShutdown", m] => (mode? m).map .accShutdown
    | [.str "accSend", w] => (nat? w).map .accSend
    | [.str "accWaitStart"] => some .accWaitStart
    | [.str "accWaitEnd", .str "all"] => some (.accWaitEnd .complete)
    | [.str "accWaitEnd", .str "timeout"] => some (.accWaitEnd .timeout)
    | [.str "accNotify"] => some .accNotify
    | [.str "accExit"] => some .accExit
    | [.str "wRecv", w, c] => do some (.wRecv (← nat? w) (← nat? c))
    | [.str "wShutdown", w, m] => do some (.wShutdown (← nat? w) (← mode? m))
    | [.str "wClose", w] => (nat? w).map .wClose
    | [.str "wDrain", w, c] => do some (.wDrain (← nat? w) (← nat? c))
    | [.str "wDrainEnd", w] => (nat? w).map .wDrainEnd
    | [.str "wSignal", w] => (nat? w).map .wSignal
    | [.str "wWaitEnd", w, .str "idle"] => (nat? w).map (.wWaitEnd · .complete)
    | [.str "wWaitEnd", w, .str "timeout"] => (nat? w).map (.wWaitEnd · .timeout)
    | [.str "wNotify", w] => (nat? w).map .wNotify
    | [.str "cPoll", c] => (nat? c).map .cPoll
    | [.str "hBegin", c, r] => do some (.hBegin (← nat? c) (← nat? r))
    | [.str "hEnd", c, r] => do some (.hEnd (← nat? c) (← nat? r))
    | [.str "cEnd", c, ok] => do some (.cEnd (← nat? c) (← bool? ok))
    | _ => none
  | _ => none

def phaseName : CPhase → String
  | .unseen => "unseen" | .accepted => "accepted" | .queued => "queued" | .spawned => "spawned"
  | .idle => "idle" | .inflight => "inflight" | .doomed => "doomed" | .ended => "ended" | .dropped => "dropped"

def num (n : Nat) : Json := Json.num (JsonNumber.fromNat n)

/-- What worker `w` holds at the moment it takes its shutdown command. -/
def workerMet (s : State) (w : Nat) (m : Mode) : Json :=
  let W := s.w w
  let cnt (p : CPhase) : Nat := (W.started.filter fun c => (s.c c).phase == p).length
  Json.mkObj [("worker", num w), ("mode", match m with | .graceful => "graceful" | .forced => "forced"),
    ("queued", num W.queue.length), ("spawned", num (cnt .spawned)), ("idle", num (cnt .idle)),
    ("inflight", num (cnt .inflight))]

/-- Replay; also keep the state in which the acceptor took the shutdown command, and what every worker
    held when it took its own. -/
def replay (cfg : Cfg) : State → List Event → Nat → Option State → List Json →
    (State × Option Nat × Option State × List Json)
  | s, [], _, snap, met => (s, none, snap, met.reverse)
  | s, e :: es, i, snap, met =>
    match step cfg s e with
    | some s' =>
      let snap' := match e, snap with
        | .accShutdown _, none => some s
        | _, _ => snap
      let met' := match e with
        | .wShutdown w m => workerMet s w m :: met
        | _ => met
      replay cfg s' es (i + 1) snap' met'
    | none => (s, some i, snap, met.reverse)

def connsJson (s : State) (k : Nat) : Json :=
  .arr ((List.range k).map fun c =>
    let x := s.c c
    Json.mkObj [("phase", phaseName x.phase), ("worker", num x.worker), ("begun", num x.begun),
      ("served", num x.served), ("cancelled", x.cancelled), ("completed", x.completed)]).toArray

def workersJson (s : State) (n : Nat) : Json :=
  .arr ((List.range n).map fun w =>
    let x := s.w w
    Json.mkObj [("dispatched", natListJson x.dispatched), ("started", natListJson x.started),
      ("queue", natListJson x.queue), ("drainedAny", x.drainedAny), ("signalled", x.signalled), ("timedOut", x.timedOut),
      ("forced", x.forced), ("notified", x.notified), ("exited", decide (x.phase = .exited))]).toArray

/-- request: {"cfg": {"n":…, "cap":…, "yield":…}, "conns": k, "trace": [event…]}
    answer: does the trace replay (and where not), plus what the model says happened. -/
def handle (j : Json) : Json :=
  match getVal? j "cfg", getNat? j "conns", (getArr? j "trace") with
  | some c, some k, some tr =>
    match getNat? c "n", getNat? c "cap", (getVal? c "yield").bind yield? with
    | some n, some cap, some y =>
      let cfg : Cfg := { n := n, cap := cap, yieldPolicy := y }
      let evs := tr.map event?
      match evs.findIdx? Option.isNone with
      | some i => Json.mkObj [("r", "bad-event"), ("at", num i)]
      | none =>
        let es := evs.filterMap id
        let (s, bad, snap, met) := replay cfg init es 0 none []
        let snapJson := match snap with
          | some s0 => connsJson s0 k
          | none => Json.null
        Json.mkObj [("r", "ok"), ("conforms", bad.isNone),
          ("bad_at", match bad with | some i => num i | none => Json.null),
          ("conns", connsJson s k), ("workers", workersJson s n), ("at_shutdown", snapJson), ("at_wshutdown", Json.arr met.toArray),
          ("resolved", s.acc.resolved), ("acc_timed_out", s.acc.timedOut),
          ("acc_exited", decide (s.acc.phase = .exited)), ("returned", num s.acc.returned),
          ("handle_done", s.acc.handleDone)]
    | _, _, _ => Json.mkObj [("r", "bad-op")]
  | _, _, _ => Json.mkObj [("r", "bad-op")]

end Pxv.Server
