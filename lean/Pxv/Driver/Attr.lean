import Pxv.Driver.Util
import Pxv.Model.Attr
open Lean Pxv.Driver

namespace Pxv.Attr

def optJ {α} (f : α → Json) : Option α → Json
  | none => Json.null
  | some a => f a

def lifecycleJ (l : Lifecycle) : Json := l.str
def cloningJ (c : Cloning) : Json := c.str
def natJ (n : Nat) : Json := Json.num (JsonNumber.fromNat n)

def methodJ : MethodGuard → Json
  | .any => "any"
  | .some ms => Json.mkObj [("some", Json.arr (ms.map Json.str).toArray)]

/-- serde's externally tagged rendering of `AnnotationProperties`. -/
def propsJ : Props → Json
  | .constructor id lc cl au aef => Json.mkObj [("Constructor", Json.mkObj [("id", id), ("lifecycle", lifecycleJ lc),
      ("cloning_policy", optJ cloningJ cl), ("allow_unused", optJ Json.bool au), ("allow_error_fallback", optJ Json.bool aef)])]
  | .prebuilt id au cl => Json.mkObj [("Prebuilt", Json.mkObj [("id", id), ("allow_unused", optJ Json.bool au),
      ("cloning_policy", optJ cloningJ cl)])]
  | .config id key cl d i => Json.mkObj [("Config", Json.mkObj [("id", id), ("key", key), ("cloning_policy", optJ cloningJ cl),
      ("default_if_missing", optJ Json.bool d), ("include_if_unused", optJ Json.bool i)])]
  | .wrap id aef => Json.mkObj [("WrappingMiddleware", Json.mkObj [("id", id), ("allow_error_fallback", optJ Json.bool aef)])]
  | .pre id aef => Json.mkObj [("PreProcessingMiddleware", Json.mkObj [("id", id), ("allow_error_fallback", optJ Json.bool aef)])]
  | .post id aef => Json.mkObj [("PostProcessingMiddleware", Json.mkObj [("id", id), ("allow_error_fallback", optJ Json.bool aef)])]
  | .errorObserver id => Json.mkObj [("ErrorObserver", Json.mkObj [("id", id)])]
  | .errorHandler id n d => Json.mkObj [("ErrorHandler", Json.mkObj [("id", id), ("error_ref_input_index", natJ n),
      ("default", optJ Json.bool d)])]
  | .route id m path aef => Json.mkObj [("Route", Json.mkObj [("id", id), ("method", methodJ m), ("path", path),
      ("allow_error_fallback", optJ Json.bool aef)])]
  | .fallback id aef => Json.mkObj [("Fallback", Json.mkObj [("id", id), ("allow_error_fallback", optJ Json.bool aef)])]
  | .methods => "Methods"

def outcomeJ : Outcome → Json
  | .none => Json.mkObj [("r", "none")]
  | .some p => Json.mkObj [("r", "some"), ("props", propsJ p)]
  | .unknownAttribute => Json.mkObj [("r", "err"), ("kind", "unknown-attribute")]
  | .invalidParams => Json.mkObj [("r", "err"), ("kind", "invalid-params")]
  | .multiple => Json.mkObj [("r", "err"), ("kind", "multiple")]
  | .panic => Json.mkObj [("r", "panic"), ("msg",
      "Malformed `pavex::diagnostic::route` attribute. You must either accept a list of given methods or allow any method to pass through.")]

def handleAttr (j : Json) : Json :=
  match (getArr? j "attrs").bind (·.mapM (fun (a : Json) => a.getStr?.toOption)) with
  | some strs => outcomeJ (parseItem (strs.map lexString))
  | none => Json.mkObj [("r", "bad-op")]

/-! `{"op":"emit","spec":{…}}`: what the macro writes for these arguments, and what they mean. -/

def lifecycle? : String → Option Lifecycle
  | "singleton" => some .singleton | "request_scoped" => some .requestScoped | "transient" => some .transient
  | _ => none

def cloning? (j : Json) (k : String) : Option (Option Cloning) :=
  match getVal? j k with
  | none | some .null => some none
  | some (.str "never_clone") => some (some .neverClone)
  | some (.str "clone_if_necessary") => some (some .cloneIfNecessary)
  | _ => none

def optBool? (j : Json) (k : String) : Option (Option Bool) :=
  match getVal? j k with
  | none | some .null => some none
  | some (.bool b) => some (some b)
  | _ => none

def flag (j : Json) (k : String) : Bool := (getBool? j k).getD false

def spec? (j : Json) : Option Spec := do
  let kind ← getStr? j "kind"
  let id ← getStr? j "id"
  match kind with
  | "constructor" =>
    some (.constructor id (← (getStr? j "lifecycle").bind lifecycle?) (← cloning? j "cloning_policy")
      (← optBool? j "allow_unused") (← optBool? j "allow_error_fallback"))
  | "prebuilt" => some (.prebuilt id (← cloning? j "cloning_policy") (← optBool? j "allow_unused"))
  | "config" => some (.config id (← getStr? j "key") (← cloning? j "cloning_policy") (flag j "default_if_missing")
      (flag j "include_if_unused"))
  | "wrap" => some (.wrap id (← optBool? j "allow_error_fallback"))
  | "pre_process" => some (.pre id (← optBool? j "allow_error_fallback"))
  | "post_process" => some (.post id (← optBool? j "allow_error_fallback"))
  | "fallback" => some (.fallback id (← optBool? j "allow_error_fallback"))
  | "error_observer" => some (.errorObserver id)
  | "error_handler" => some (.errorHandler id (← getNat? j "error_ref_input_index") (← optBool? j "default"))
  | "route" =>
    let m ← match getVal? j "method" with
      | none | some .null => some none
      | some (.str s) => some (some (MethodArg.single s))
      | some (.arr xs) => (xs.toList.mapM (fun (x : Json) => x.getStr?.toOption)).map (fun l => some (MethodArg.multiple l))
      | _ => none
    some (.route id (← getStr? j "path") m (flag j "allow_non_standard_methods") (flag j "allow_any_method")
      (← optBool? j "allow_error_fallback"))
  | "shorthand" => some (.shorthand id (← getStr? j "method") (← getStr? j "path") (← optBool? j "allow_error_fallback"))
  | _ => none

def tokJ : Tok → Json
  | .ident s => Json.mkObj [("i", s)]
  | .str s => Json.mkObj [("s", s)]
  | .bool b => Json.mkObj [("b", b)]
  | .nat n => Json.mkObj [("n", natJ n)]
  | .punct c => Json.mkObj [("p", String.singleton c)]

def handleEmit (j : Json) : Json :=
  match (getVal? j "spec").bind spec? with
  | some s => Json.mkObj [("r", "emit"), ("attr", render (emitAttr s)),
      ("tokens", Json.arr ((emitAttr s).map tokJ).toArray), ("legal", s.legal),
      ("means", propsJ (meaning s))]
  | none => Json.mkObj [("r", "bad-op")]

/-- `{"op":"lex","s":"…"}`: the stand-in lexer (used to compare real attribute strings, token by token). -/
def handleLex (j : Json) : Json :=
  match (getStr? j "s").map lexString with
  | some (some ts) => Json.mkObj [("r", "lex"), ("tokens", Json.arr (ts.map tokJ).toArray)]
  | some none => Json.mkObj [("r", "lex"), ("tokens", Json.null)]
  | none => Json.mkObj [("r", "bad-op")]

end Pxv.Attr
