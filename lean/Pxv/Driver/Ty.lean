import Pxv.Driver.Util
import Pxv.Model.Ty
import Pxv.Model.TyParse
open Lean Pxv.Driver

/-! JSON-lines driver for the type algebra (C17). Types use the serde representation of
`rustdoc_ir::Type` (externally tagged enums), exactly what the Rust driver (de)serialises. -/
namespace Pxv.Ty

def scalarTags : List (String × Scalar) :=
  [("Usize", .usize), ("U8", .u8), ("U16", .u16), ("U32", .u32), ("U64", .u64), ("U128", .u128),
   ("Isize", .isize), ("I8", .i8), ("I16", .i16), ("I32", .i32), ("I64", .i64), ("I128", .i128),
   ("F32", .f32), ("F64", .f64), ("Bool", .bool), ("Char", .char), ("Str", .str)]

def abiTags : List (String × (Bool → Abi)) :=
  [("C", .c), ("Cdecl", .cdecl), ("Stdcall", .stdcall), ("Fastcall", .fastcall), ("Aapcs", .aapcs),
   ("Win64", .win64), ("SysV64", .sysv64), ("System", .system)]

def ltOfJson (j : Json) : Option Lt :=
  match j with
  | .str "Static" => some .static
  | .str "Inferred" => some .inferred
  | .str "Elided" => some .elided
  | _ => (getStr? j "Named").map .named

def ltToJson : Lt → Json
  | .static => "Static" | .inferred => "Inferred" | .elided => "Elided"
  | .named n => Json.mkObj [("Named", n)]

def gltOfJson (j : Json) : Option GLt :=
  match j with
  | .str "Static" => some .static
  | .str "Inferred" => some .inferred
  | _ => (getStr? j "Named").map .named

def gltToJson : GLt → Json
  | .static => "Static" | .inferred => "Inferred"
  | .named n => Json.mkObj [("Named", n)]

def abiOfJson (j : Json) : Option Abi :=
  match j with
  | .str "Rust" => some .rust
  | _ =>
    match getStr? j "Other" with
    | some s => some (.other s)
    | none => abiTags.findSome? fun (tag, mk) =>
        match getVal? j tag with
        | some v => (getBool? v "unwind").map mk
        | none => none

def abiToJson : Abi → Json
  | .rust => "Rust"
  | .other s => Json.mkObj [("Other", s)]
  | .c u => Json.mkObj [("C", Json.mkObj [("unwind", u)])]
  | .cdecl u => Json.mkObj [("Cdecl", Json.mkObj [("unwind", u)])]
  | .stdcall u => Json.mkObj [("Stdcall", Json.mkObj [("unwind", u)])]
  | .fastcall u => Json.mkObj [("Fastcall", Json.mkObj [("unwind", u)])]
  | .aapcs u => Json.mkObj [("Aapcs", Json.mkObj [("unwind", u)])]
  | .win64 u => Json.mkObj [("Win64", Json.mkObj [("unwind", u)])]
  | .sysv64 u => Json.mkObj [("SysV64", Json.mkObj [("unwind", u)])]
  | .system u => Json.mkObj [("System", Json.mkObj [("unwind", u)])]

def strList? (j : Json) : Option (List String) :=
  match j with
  | .arr xs => xs.toList.mapM (fun x => x.getStr?.toOption)
  | _ => none

def optNat? (j : Json) : Option (Option Nat) :=
  match j with
  | .null => some none
  | _ => j.getNat?.toOption.map some

def optStr? (j : Json) : Option (Option String) :=
  match j with
  | .null => some none
  | _ => j.getStr?.toOption.map some

mutual
partial def tyOfJson (j : Json) : Option Ty := do
  if let some v := getVal? j "Path" then pathOfJson false v
  else if let some v := getVal? j "TypeAlias" then pathOfJson true v
  else if let some v := getVal? j "Reference" then
    pure (.ref (← getBool? v "is_mutable") (← ltOfJson (← getVal? v "lifetime")) (← tyOfJson (← getVal? v "inner")))
  else if let some v := getVal? j "Tuple" then
    pure (.tuple (← tysOfJson (← getArr? v "elements")))
  else if let some v := getStr? j "ScalarPrimitive" then
    (scalarTags.lookup v).map .scalar
  else if let some v := getVal? j "Slice" then
    pure (.slice (← tyOfJson (← getVal? v "element_type")))
  else if let some v := getVal? j "Array" then
    pure (.array (← tyOfJson (← getVal? v "element_type")) (← getNat? v "len"))
  else if let some v := getVal? j "RawPointer" then
    pure (.rawPtr (← getBool? v "is_mutable") (← tyOfJson (← getVal? v "inner")))
  else if let some v := getVal? j "FunctionPointer" then
    let out ← match (← getVal? v "output") with
      | .null => pure OTy.none
      | o => (tyOfJson o).map OTy.some
    pure (.fnPtr (← insOfJson (← getArr? v "inputs")) out (← abiOfJson (← getVal? v "abi")) (← getBool? v "is_unsafe"))
  else if let some v := getVal? j "Generic" then
    pure (.generic (← getStr? v "name"))
  else none
partial def pathOfJson (al : Bool) (v : Json) : Option Ty := do
  pure (.path al (← getStr? v "package_id") (← optNat? (← getVal? v "rustdoc_id"))
    (← strList? (← getVal? v "base_type")) (← argsOfJson (← getArr? v "generic_arguments")))
partial def argsOfJson : List Json → Option GArgs
  | [] => some .nil
  | a :: r => do
    let rest ← argsOfJson r
    if let some t := getVal? a "TypeParameter" then pure (.ty (← tyOfJson t) rest)
    else if let some l := getVal? a "Lifetime" then pure (.lt (← gltOfJson l) rest)
    else if let some c := getVal? a "Const" then pure (.const (← getStr? c "value") rest)
    else none
partial def tysOfJson : List Json → Option Tys
  | [] => some .nil
  | a :: r => do pure (.cons (← tyOfJson a) (← tysOfJson r))
partial def insOfJson : List Json → Option FnIns
  | [] => some .nil
  | a :: r => do pure (.cons (← optStr? (← getVal? a "name")) (← tyOfJson (← getVal? a "type_")) (← insOfJson r))
end

def optNatJson : Option Nat → Json
  | none => .null
  | some n => Json.num (JsonNumber.fromNat n)

def optStrJson : Option String → Json
  | none => .null
  | some s => s

mutual
partial def tyToJson : Ty → Json
  | .path al p i bs as =>
      Json.mkObj [(if al then "TypeAlias" else "Path", Json.mkObj [
        ("package_id", p), ("rustdoc_id", optNatJson i),
        ("base_type", Json.arr (bs.map Json.str).toArray),
        ("generic_arguments", Json.arr (argsToJson as).toArray)])]
  | .ref m l t => Json.mkObj [("Reference", Json.mkObj [("is_mutable", m), ("lifetime", ltToJson l), ("inner", tyToJson t)])]
  | .tuple es => Json.mkObj [("Tuple", Json.mkObj [("elements", Json.arr (tysToJson es).toArray)])]
  | .scalar s => Json.mkObj [("ScalarPrimitive", ((scalarTags.find? (·.2 == s)).map (·.1)).getD "?")]
  | .slice e => Json.mkObj [("Slice", Json.mkObj [("element_type", tyToJson e)])]
  | .array e n => Json.mkObj [("Array", Json.mkObj [("element_type", tyToJson e), ("len", Json.num (JsonNumber.fromNat n))])]
  | .rawPtr m t => Json.mkObj [("RawPointer", Json.mkObj [("is_mutable", m), ("inner", tyToJson t)])]
  | .fnPtr ins out abi u => Json.mkObj [("FunctionPointer", Json.mkObj [
      ("inputs", Json.arr (insToJson ins).toArray),
      ("output", match out with | .none => Json.null | .some t => tyToJson t),
      ("abi", abiToJson abi), ("is_unsafe", u)])]
  | .generic x => Json.mkObj [("Generic", Json.mkObj [("name", x)])]
partial def argsToJson : GArgs → List Json
  | .nil => []
  | .ty t r => Json.mkObj [("TypeParameter", tyToJson t)] :: argsToJson r
  | .lt l r => Json.mkObj [("Lifetime", gltToJson l)] :: argsToJson r
  | .const v r => Json.mkObj [("Const", Json.mkObj [("value", v)])] :: argsToJson r
partial def tysToJson : Tys → List Json
  | .nil => []
  | .cons t r => tyToJson t :: tysToJson r
partial def insToJson : FnIns → List Json
  | .nil => []
  | .cons n t r => Json.mkObj [("name", optStrJson n), ("type_", tyToJson t)] :: insToJson r
end

instance : BEq Scalar := ⟨fun a b => decide (a = b)⟩

/-- A `HashMap` printed as a key-sorted list of pairs. -/
def sortedPairs {α} (l : List (String × α)) (f : α → Json) : Json :=
  let dedup := l.foldl (fun acc kv => if acc.any (·.1 == kv.1) then acc else acc ++ [kv]) []
  let sorted := dedup.toArray.qsort (fun x y => x.1 < y.1)
  Json.arr (sorted.map fun kv => Json.arr #[Json.str kv.1, f kv.2])

def equivJson (a b : Ty) : Json :=
  match isEquivalentTo a b with
  | none => .null
  | some m => sortedPairs m Json.str

def optStringJson : Option String → Json
  | none => .null
  | some s => s

def cratesOf (j : Json) : Option (List (String × String)) :=
  match getVal? j "crates" with
  | none => some []
  | some (.obj kvs) => kvs.toList.mapM (fun (k, v) => v.getStr?.toOption.map (k, ·))
  | some _ => none

/-- request: {"a": T, "b": T, "c": T, "crates": {pkg: name}, "wf": bool} -/
def handle (j : Json) : Json :=
  match (getVal? j "a").bind tyOfJson, (getVal? j "b").bind tyOfJson, (getVal? j "c").bind tyOfJson, cratesOf j with
  | some a, some b, some c, some lk =>
    let wfReq := (getBool? j "wf").getD false
    let tmpl : Json := match isTemplateFor a b with
      | none => .null
      | some bs => Json.mkObj [("b", sortedPairs bs tyToJson), ("bound", tyToJson (bind bs a))]
    let ca := canonicalize a
    let cb := canonicalize b
    let base : List (String × Json) := [
      ("r", "ok"),
      ("wf", wf a),
      ("same_ab", decide (a = b)),
      ("tmpl_ab", tmpl),
      ("is_template", Json.arr #[isTemplate a, isTemplate b, isTemplate c]),
      ("unassigned_a", Json.arr ((unassigned a []).map Json.str).toArray),
      ("eq_aa", equivJson a a),
      ("eq_ab", equivJson a b),
      ("eq_ba", equivJson b a),
      ("eq_bc", equivJson b c),
      ("eq_ac", equivJson a c),
      ("canon_a", tyToJson ca),
      ("canon_b", tyToJson cb),
      ("canon2_a", tyToJson (canonicalize ca)),
      ("canon_eq_ab", decide (ca = cb)),
      ("render_a", Json.mkObj [
        ("err", displayForError a),
        ("type", optStringJson (renderType lk a)),
        ("inferred", optStringJson (renderWithInferredLifetimes lk a))])
    ]
    let ltName := (getStr? j "lt_name").getD "q"
    let ltMap : List (String × String) := match getArr? j "lt_map" with
      | some l => l.filterMap (fun e => match e with
          | .arr #[.str k, .str v] => some (k, v)
          | _ => none)
      | none => []
    let si := setImplicit ltName a
    let rn := renameLts ltMap a
    let lts : List (String × Json) := [
      ("has_implicit_a", hasImplicit a),
      ("set_implicit_a", tyToJson si),
      ("has_implicit_after", hasImplicit si),
      ("canon_set_implicit_a", tyToJson (canonicalize si)),
      ("rename_a", tyToJson rn),
      ("canon_rename_a", tyToJson (canonicalize rn)),
      ("lifetimes_a", Json.arr ((lifetimes a []).map ltToJson).toArray),
      ("named_lifetimes_a", Json.arr ((namedLts a []).map Json.str).toArray)]
    let extra : List (String × Json) :=
      if wfReq then [
        ("reparse_a", match parse (renderD false a) with | some t => tyToJson t | none => Json.null),
        ("reparse_type_a", match (renderLk lk false a).bind parse with | some t => tyToJson t | none => Json.null)] else []
    Json.mkObj (base ++ lts ++ extra)
  | _, _, _, _ => Json.mkObj [("r", "bad-op")]

end Pxv.Ty
