import Pxv.Driver.Util
import Pxv.Model.Errors
open Lean Pxv.Driver

namespace Pxv.Err
open Pxv.Pipe (Mw MwKind)

instance : Inhabited Bp := ⟨.nil⟩

def natOf (s : String) : Nat := s.toNat?.getD 0

/-- node kinds as tools/checks/c06.py writes them: c3 h0 m1 noop ok err new x2 xd o1 ir er br in other -/
def kind? (s : String) : Kind :=
  if s == "noop" then .noop else if s == "ok" then .okMatch else if s == "err" then .errMatch
  else if s == "new" then .errorNew else if s == "xd" then .ehDefault else if s == "ir" then .intoResponse
  else if s == "er" then .earlyReturn else if s == "br" then .branch else if s == "in" then .input
  else if s == "other" then .other
  else
    let rest := (s.drop 1).toString
    if rest.isEmpty || !rest.all Char.isDigit then .other
    else if s.startsWith "c" then .ctor (natOf rest)
    else if s.startsWith "h" then .handler (natOf rest)
    else if s.startsWith "m" then .mw (natOf rest)
    else if s.startsWith "x" then .eh (natOf rest)
    else if s.startsWith "o" then .observer (natOf rest)
    else .other

def kindStr : Kind → String
  | .ctor i => s!"c{i}" | .handler i => s!"h{i}" | .mw i => s!"m{i}" | .noop => "noop"
  | .okMatch => "ok" | .errMatch => "err" | .errorNew => "new" | .eh k => s!"x{k}" | .ehDefault => "xd"
  | .observer o => s!"o{o}" | .intoResponse => "ir" | .earlyReturn => "er" | .branch => "br"
  | .input => "in" | .other => "other"

def ek? : String → EK
  | "shared" => .shared | "excl" => .excl | "before" => .before | _ => .move

def ekStr : EK → String
  | .move => "move" | .shared => "shared" | .excl => "excl" | .before => "before"

def edge? (j : Json) : Option Edge :=
  match j with
  | .arr #[s, d, .str k] => do
    let s ← s.getNat?.toOption
    let d ← d.getNat?.toOption
    pure ⟨s, d, ek? k⟩
  | _ => none

def strList? (j : Json) : List String :=
  match j with
  | .arr xs => xs.toList.filterMap (fun x => x.getStr?.toOption)
  | _ => []

def graph? (j : Json) : Graph :=
  ⟨(((getVal? j "nodes").map strList?).getD []).map kind?, ((getArr? j "edges").getD []).filterMap edge?⟩

def optNat (j : Json) : Option Nat := j.getNat?.toOption

/-- blueprint ops of tools/gen_errors.py (`spec["err"]["bp"]`) -/
partial def bp? (kindOf : Nat → MwKind) (ops : List Json) : Bp :=
  match ops with
  | [] => .nil
  | op :: rest =>
    let tail := bp? kindOf rest
    match op with
    | .arr #[.str "ctor", n, d] => .cons (.ctor (n.getNat?.toOption.getD 0) (optNat d)) tail
    | .arr #[.str "mw", n, d] =>
      let i := n.getNat?.toOption.getD 0
      .cons (.mw ⟨kindOf i, i⟩ (optNat d)) tail
    | .arr #[.str "route", n, d] => .cons (.route (n.getNat?.toOption.getD 0) (optNat d)) tail
    | .arr #[.str "obs", n] => .cons (.obs (n.getNat?.toOption.getD 0)) tail
    | .arr #[.str "eh", n] => .cons (.ehReg (n.getNat?.toOption.getD 0)) tail
    | .arr #[.str "nest", .arr xs] => .cons (.nest (bp? kindOf xs.toList)) tail
    | _ => tail

def target? (j : Json) : Target :=
  match j with
  | .arr #[.str "c", n] => .ctor (n.getNat?.toOption.getD 0)
  | .arr #[.str "h", n] => .handler (n.getNat?.toOption.getD 0)
  | .arr #[.str "m", n] => .mw (n.getNat?.toOption.getD 0)
  | _ => .any

/-- where a component is registered: the path of its blueprint and its component-specific handler -/
def declOf (t : Target) : Bp → List Nat → Nat → Option (List Nat × Option Nat)
  | .nil, _, _ => none
  | .cons (.ctor i d) rest, p, k => if t == .ctor i then some (p, d) else declOf t rest p k
  | .cons (.mw m d) rest, p, k => if t == .mw m.id then some (p, d) else declOf t rest p k
  | .cons (.route h d) rest, p, k => if t == .handler h then some (p, d) else declOf t rest p k
  | .cons (.nest b) rest, p, k =>
    match declOf t b (p ++ [k]) 0 with
    | some r => some r
    | none => declOf t rest p (k + 1)
  | .cons _ rest, p, k => declOf t rest p k

def targetOfKind : Kind → Option Target
  | .ctor i => some (.ctor i)
  | .handler i => some (.handler i)
  | .mw i => some (.mw i)
  | _ => none

def pevStr : PEv → String
  | .ctor i => s!"ctor c{i}"
  | .failCtor i => s!"fail c{i}" | .failHandler i => s!"fail h{i}" | .failMw i => s!"fail m{i}"
  | .eh k => s!"eh x{k}" | .observer o => s!"observer o{o}"
  | .pre m => s!"pre m{m}" | .early m => s!"early m{m}" | .post m => s!"post m{m}"
  | .wrapStart m => s!"wrap-start m{m}" | .wrapEnd m => s!"wrap-end m{m}" | .handler h => s!"handler h{h}"

/-- undo the splice and the branching on a real graph: drop the observers, hang the matchers directly off
    the fallible node again, renumber. -/
def unsplice (g : Graph) : Graph :=
  let keep := (List.range g.size).filter (fun n => !(isObserver (g.kind n)) && g.kind n != .branch)
  let idx := fun n => keep.idxOf n
  let direct := g.edges.filter (fun e => keep.contains e.src && keep.contains e.dst)
  let through := (List.range g.size).filter (fun b => g.kind b == .branch) |>.flatMap (fun b =>
    (g.preds b).flatMap (fun x => (g.succs b).map (fun m => (⟨x, m, .move⟩ : Edge))))
  ⟨keep.map g.kind, (direct ++ through).map (fun e => ⟨idx e.src, idx e.dst, e.kind⟩)⟩

/-- drop what dependency injection adds for the observers' own inputs (the splice only creates the observer
    nodes, their borrow of the `pavex::Error` and the happens-before chain): the other arguments of the
    observers and the nodes that only exist to build them. -/
def pruneObsInputs (g : Graph) : Graph :=
  let es0 := g.edges.filter (fun e => !(isObserver (g.kind e.dst) && e.kind != .before && g.kind e.src != .errorNew))
  let feeder := fun n => match g.kind n with
    | .ctor _ | .input | .other => true
    | _ => false
  let rec go : Nat → List Nat → List Edge → List Nat × List Edge
    | 0, dead, es => (dead, es)
    | fuel + 1, dead, es =>
      let more := (List.range g.size).filter (fun n => feeder n && !dead.contains n && !es.any (fun e => e.src == n))
      if more.isEmpty then (dead, es) else go fuel (dead ++ more) (es.filter (fun e => !more.contains e.dst))
  let (dead, es) := go g.size [] es0
  let keep := (List.range g.size).filter (fun n => !dead.contains n)
  ⟨keep.map g.kind, es.map (fun e => ⟨keep.idxOf e.src, keep.idxOf e.dst, e.kind⟩)⟩

/-- a numbering-independent description of a graph -/
def canon (g : Graph) : List String :=
  let es := g.edges.map (fun e => s!"{kindStr (g.kind e.src)}>{kindStr (g.kind e.dst)}:{ekStr e.kind}")
  let ns := g.nodes.map kindStr
  (es.mergeSort (fun a b => decide (a ≤ b))) ++ ["|"] ++ (ns.mergeSort (fun a b => decide (a ≤ b)))

def jstr (s : String) : Json := Json.str s
def jnat (n : Nat) : Json := Json.num (JsonNumber.fromNat n)

/-- request: {"app":{"mws":[{"i","kind"}],"ehs":[{"k","target","status"}],"bp":[ops]},
              "routes":[{"route":h,"closures":[{"nodes":[kinds by position],"edges":[[s,d,kind]]}]}],
              "requests":[{"route":h,"fail":[kinds],"early":[middleware ids]}]}
    answer: per route the chain / observers the model derives from the blueprint and, per closure and per
    `MatchBranching` node, whether the error arm has the shape the model predicts (designated handler,
    observer chain), whether re-running the model's splice + branching on the un-spliced graph gives the
    graph back, and the `enforce_invariants` count; per request the trace and status. -/
def handle (j : Json) : Json :=
  match getVal? j "app" with
  | none => Json.mkObj [("r", "bad-op")]
  | some app =>
    let mwKinds : List (Nat × MwKind) := ((getArr? app "mws").getD []).map (fun m =>
      ((getNat? m "i").getD 0, match getStr? m "kind" with
        | some "wrap" => MwKind.wrap | some "pre" => MwKind.pre | _ => MwKind.post))
    let kindOf := fun i => ((mwKinds.find? (·.1 == i)).map (·.2)).getD .post
    let ehs := (getArr? app "ehs").getD []
    let targetOf := fun k => ((ehs.find? (fun e => getNat? e "k" == some k)).bind (fun e => (getVal? e "target").map target?)).getD .any
    let statusOf := fun k => ((ehs.find? (fun e => getNat? e "k" == some k)).bind (fun e => getNat? e "status")).getD 0
    let bp := bp? kindOf ((getArr? app "bp").getD [])
    let infos := routes bp [] [] [] 0
    let choiceOf := fun (k : Kind) =>
      match targetOfKind k with
      | none => Choice.default
      | some t =>
        match declOf t bp [] 0 with
        | some (p, d) => designate bp targetOf t p d
        | none => .default
    let rjs := (getArr? j "routes").getD []
    let routeGraphs : List (Nat × List Graph) := rjs.map (fun r =>
      ((getNat? r "route").getD 0, ((getArr? r "closures").getD []).map graph?))
    let routeOut := routeGraphs.map (fun (h, gs) =>
      let info := infos.find? (·.route == h)
      let obs := (info.map (·.observers)).getD []
      let cl := gs.map (fun g =>
        let brs := (List.range g.size).filter (fun b => g.kind b == .branch)
        let arms := brs.map (fun b =>
          let x := (scrutinee g b).getD 0
          let choice := choiceOf (g.kind x)
          let want := choice.kind
          let upcast := match choice with
            | .default => true
            | .user k => targetOf k == .any
          Json.mkObj [("scrutinee", jstr (kindStr (g.kind x))), ("handler", jstr (kindStr want)),
            ("upcast", Json.bool upcast), ("shape", Json.bool (armShape g b want upcast obs))])
        let gp := pruneObsInputs g
        let re := injectBranching (spliceAll obs (unsplice gp))
        Json.mkObj [("root", jstr (((findRoot g).map (fun r => kindStr (g.kind r))).getD "?")),
          ("ordered", Json.bool g.ordered), ("wf", Json.bool (armsWF g)), ("arms", Json.arr arms.toArray),
          ("resplice", Json.bool (canon re == canon gp)), ("spliceReady", Json.bool (spliceReady (unsplice gp) (!obs.isEmpty))),
          ("invariant", Json.bool (invariantHolds g obs.length && invariantHolds re obs.length))])
      Json.mkObj [("route", jnat h), ("known", Json.bool info.isSome),
        ("chain", Json.arr (((info.map (·.chain)).getD []).map (fun m => jstr (s!"m{m.id}"))).toArray),
        ("observers", natListJson obs), ("closures", Json.arr cl.toArray)])
    let reqOut := ((getArr? j "requests").getD []).map (fun q =>
      let h := (getNat? q "route").getD 0
      let failing := (((getVal? q "fail").map strList?).getD []).map kind?
      let early := ((getVal? q "early").bind natList?).getD []
      let gs := ((routeGraphs.find? (·.1 == h)).map (·.2)).getD []
      let graphOf := fun (k : Kind) => (gs.find? (fun g => (findRoot g).map g.kind == some k)).getD ⟨[], []⟩
      let env : Env := ⟨graphOf, fun k => failing.contains k, fun p => early.contains p, statusOf⟩
      match infos.find? (·.route == h) with
      | none => Json.mkObj [("r", "unknown-route")]
      | some info =>
        let res := runRoute env info.chain h
        Json.mkObj [("trace", Json.arr (res.evs.map (fun e => jstr (pevStr e))).toArray),
          ("status", jnat res.status), ("stuck", Json.bool res.stuck)])
    Json.mkObj [("r", "ok"), ("routes", Json.arr routeOut.toArray), ("responses", Json.arr reqOut.toArray)]

end Pxv.Err
