import Pxv.Driver.Util
import Pxv.Model.Body
open Lean Pxv.Driver

namespace Pxv.Body

def frame? (j : Json) : Option Frame :=
  match j with
  | .str "trailers" => some .trailers
  | .str "err" => some .err
  | _ => (natList? j).map .data

/-- request: {"hdr": null | [bytes], "limit": N, "frames": [[bytes] | "trailers" | "err"]} -/
def handle (j : Json) : Json :=
  let hdr : Option (Option (List Nat)) :=
    match getVal? j "hdr" with
    | some .null => some none
    | some v => (natList? v).map some
    | none => some none
  match hdr, getNat? j "limit", (getArr? j "frames").bind (·.mapM frame?) with
  | some hdr, some n, some fs =>
    -- requests with a "proto" field went through the public `BufferedBody::extract` on the other side
    match (if (getStr? j "proto").isSome then extract hdr (.enabled n) fs else extractWithLimit hdr n fs) with
    | .ok b => Json.mkObj [("r", "ok"), ("bytes", natListJson b)]
    | .sizeLimit =>
        Json.mkObj [("r", "size-limit"),
          ("cl", match contentLength hdr with | some n => Json.num (JsonNumber.fromNat n) | none => Json.null)]
    | .bufferErr => Json.mkObj [("r", "buffer-err")]
  | _, _, _ => Json.mkObj [("r", "bad-op")]

end Pxv.Body
