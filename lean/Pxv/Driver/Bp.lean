import Pxv.Driver.Util
import Pxv.Model.Bp
import Pxv.Model.Generate
import Pxv.Driver.Attr
open Lean Pxv.Driver

namespace Pxv.Bp

/-! JSON-lines driver for the blueprint-builder model (`{"op":"bp","bp":{…}}`). -/

def site? (j : Json) : Option Nat := j.getNat?.toOption.map (fun n => min n 2)

def loc (name : String) (s : Nat) : Loc := name ++ "#" ++ toString s

def coords? (j : Json) : Option Coords :=
  match j with
  | .arr #[.str a, .str b, .str c, .str d] => some ⟨a, b, c, d⟩
  | _ => none

def imp? (j : Json) : Option Imp := do
  let sources ← match getVal? j "sources" with
    | some .null => some Sources.all
    | some (.arr xs) => (xs.toList.mapM (fun (x : Json) => x.getStr?.toOption)).map Sources.some
    | _ => none
  some ⟨sources, ← getStr? j "rel", ← getStr? j "pkg", ← getStr? j "ver"⟩

def lifecycle? : String → Option Lifecycle
  | "singleton" => some .singleton
  | "request_scoped" => some .requestScoped
  | "transient" => some .transient
  | _ => none

def cloning? : String → Option Cloning
  | "never_clone" => some .neverClone
  | "clone_if_necessary" => some .cloneIfNecessary
  | _ => none

def lint? : String → Option Lint
  | "unused" => some .unused
  | "error_fallback" => some .errorFallback
  | _ => none

def ctorMod? (j : Json) : Option CtorMod :=
  match j with
  | .arr #[.str "lifecycle", .str l] => (lifecycle? l).map .lifecycle
  | .arr #[.str "cloning", .str c] => (cloning? c).map .cloning
  | .arr #[.str "clone_if_necessary"] => some .cloneIfNecessary
  | .arr #[.str "never_clone"] => some .neverClone
  | .arr #[.str "allow", .str l] => (lint? l).map (.lint .allow)
  | .arr #[.str "warn", .str l] => (lint? l).map (.lint .warn)
  | .arr #[.str "deny", .str l] => (lint? l).map (.lint .deny)
  | .arr #[.str "error_handler", c, s] => do
    some (.errorHandler (← coords? c) (loc "ctor_eh" (← site? s)))
  | _ => none

def cfgMod? (allowCfg : Bool) (j : Json) : Option CfgMod :=
  match j with
  | .arr #[.str "cloning", .str c] => (cloning? c).map .cloning
  | .arr #[.str "clone_if_necessary"] => some .cloneIfNecessary
  | .arr #[.str "never_clone"] => some .neverClone
  | .arr #[.str "default_if_missing"] => if allowCfg then some .defaultIfMissing else none
  | .arr #[.str "required"] => if allowCfg then some .required else none
  | .arr #[.str "include_if_unused"] => if allowCfg then some .includeIfUnused else none
  | _ => none

def hkind? : String → Option HKind
  | "route" => some .route
  | "fallback" => some .fallback
  | "wrap" => some .wrap
  | "pre" => some .pre
  | "post" => some .post
  | _ => none

def optList (j : Json) (k : String) : List Json := (getArr? j k).getD []

/-- The i-th modifier of a chain goes through `Blueprint::{prefix,domain}` if it is the first,
    through `RoutingModifiers::{prefix,domain}` otherwise (different call sites). -/
def rmods? : Bool → List Json → Option (List RMod)
  | _, [] => some []
  | first, j :: js => do
    let m ← match j with
      | .arr #[.str "prefix", .str p, s] =>
        some (RMod.pfx p (loc (if first then "prefix" else "rm_prefix") (← site? s)))
      | .arr #[.str "domain", .str d, s] =>
        some (RMod.dom d (loc (if first then "domain" else "rm_domain") (← site? s)))
      | _ => none
    some (m :: (← rmods? false js))

mutual
partial def op? (j : Json) : Option Op := do
  let k ← getStr? j "k"
  let s ← (getVal? j "s").bind site?
  match k with
  | "constructor" =>
    some (.constructor (← (getVal? j "c").bind coords?) (loc "constructor" s)
      (← (optList j "mods").mapM ctorMod?))
  | "route" | "fallback" | "wrap" | "pre" | "post" =>
    let ehs ← (optList j "ehs").mapM (fun e => match e with
      | .arr #[c, s'] => do some ((← coords? c), loc (k ++ "_eh") (← site? s'))
      | _ => none)
    some (.handler (← hkind? k) (← (getVal? j "c").bind coords?) (loc k s) ehs)
  | "error_observer" => some (.errorObserver (← (getVal? j "c").bind coords?) (loc k s))
  | "error_handler" => some (.errorHandler (← (getVal? j "c").bind coords?) (loc k s))
  | "prebuilt" =>
    some (.prebuilt (← (getVal? j "c").bind coords?) (loc k s) (← (optList j "mods").mapM (cfgMod? false)))
  | "config" =>
    some (.config (← (getVal? j "c").bind coords?) (loc k s) (← (optList j "mods").mapM (cfgMod? true)))
  | "import" => some (.imp (← (getVal? j "i").bind imp?) (loc k s))
  | "routes" => some (.routes (← (getVal? j "i").bind imp?) (loc k s))
  | "nest" =>
    let rm ← rmods? true (optList j "rmods")
    let child ← (getVal? j "bp").bind bp?
    some (.nest rm (loc (if rm.isEmpty then "nest" else "rm_nest") s) child.creation child.ops)
  | "nest_routes" =>
    let rm ← rmods? true (optList j "rmods")
    if rm.isEmpty then none
    else some (.nestRoutes rm (← (getVal? j "i").bind imp?) (loc "rm_routes" s))
  | _ => none

partial def bp? (j : Json) : Option Bp := do
  let s ← (getVal? j "s").bind site?
  let ops ← (← getArr? j "ops").mapM op?
  some ⟨loc "new" s, ops⟩
end

/-! ### the schema as `serde_json` prints `pavex_bp_schema::Blueprint` -/

def locJ (l : Loc) : Json := Json.mkObj [("@loc", l)]

def coordsJ (c : Coords) : Json :=
  Json.mkObj [("id", c.id), ("macro_name", c.macroName),
    ("created_at", Json.mkObj [("package_name", c.pkg), ("package_version", c.ver)])]

def optJ {α} (f : α → Json) : Option α → Json
  | none => Json.null
  | some a => f a

def lifecycleJ : Lifecycle → Json
  | .singleton => "singleton" | .requestScoped => "request_scoped" | .transient => "transient"

def cloningJ : Cloning → Json
  | .neverClone => "never_clone" | .cloneIfNecessary => "clone_if_necessary"

def settingJ : LintSetting → Json
  | .allow => "allow" | .warn => "warn" | .deny => "deny"

def ehJ (e : EH) : Json := Json.mkObj [("coordinates", coordsJ e.coords), ("registered_at", locJ e.registeredAt)]

def lintsJ (l : Lints) : Json :=
  Json.mkObj ((match l.unused with | some s => [("unused", settingJ s)] | none => []) ++
    (match l.errorFallback with | some s => [("error_fallback", settingJ s)] | none => []))

def impJ (i : Imp) (l : Loc) : Json :=
  Json.mkObj [("sources", match i.sources with
      | .all => ("all" : Json)
      | .some ms => Json.mkObj [("some", Json.arr (ms.map Json.str).toArray)]),
    ("relative_to", i.relativeTo),
    ("created_at", Json.mkObj [("package_name", i.pkg), ("package_version", i.ver)]),
    ("registered_at", locJ l)]

def hkindTag : HKind → String
  | .route => "route" | .fallback => "fallback_request_handler" | .wrap => "wrapping_middleware"
  | .pre => "pre_processing_middleware" | .post => "post_processing_middleware"

partial def componentJ : Component → Json
  | .constructor c lc cl eh lints l => Json.mkObj [("constructor", Json.mkObj [
      ("coordinates", coordsJ c), ("lifecycle", optJ lifecycleJ lc), ("cloning_policy", optJ cloningJ cl),
      ("error_handler", optJ ehJ eh), ("lints", lintsJ lints), ("registered_at", locJ l)])]
  | .handler k c l eh => Json.mkObj [(hkindTag k, Json.mkObj [
      ("coordinates", coordsJ c), ("registered_at", locJ l), ("error_handler", optJ ehJ eh)])]
  | .errorObserver c l => Json.mkObj [("error_observer", Json.mkObj [
      ("coordinates", coordsJ c), ("registered_at", locJ l)])]
  | .errorHandler c l => Json.mkObj [("error_handler", Json.mkObj [
      ("coordinates", coordsJ c), ("registered_at", locJ l)])]
  | .prebuilt c cl l => Json.mkObj [("prebuilt_type", Json.mkObj [
      ("coordinates", coordsJ c), ("cloning_policy", optJ cloningJ cl), ("registered_at", locJ l)])]
  | .config c cl dim iiu l => Json.mkObj [("config_type", Json.mkObj [
      ("coordinates", coordsJ c), ("cloning_policy", optJ cloningJ cl),
      ("default_if_missing", optJ Json.bool dim), ("include_if_unused", optJ Json.bool iiu),
      ("registered_at", locJ l)])]
  | .imp i l => Json.mkObj [("import", impJ i l)]
  | .routesImp i l => Json.mkObj [("routes_import", impJ i l)]
  | .nested creation comps pfx dom l => Json.mkObj [("nested_blueprint", Json.mkObj [
      ("blueprint", Json.mkObj [("creation_location", locJ creation),
        ("components", Json.arr (comps.map componentJ).toArray)]),
      ("path_prefix", optJ (fun p => Json.mkObj [("path_prefix", p.1), ("registered_at", locJ p.2)]) pfx),
      ("domain", optJ (fun d => Json.mkObj [("domain", d.1), ("registered_at", locJ d.2)]) dom),
      ("nested_at", locJ l)])]

def schemaJ (s : Schema) : Json :=
  Json.mkObj [("creation_location", locJ s.creation),
    ("components", Json.arr (s.components.map componentJ).toArray)]

/-- Replace every location by `{"loc": n}`, `n` = first-seen index, visiting object keys in sorted
    order (as the Rust driver does). -/
partial def renumber (j : Json) (seen : List String) : Json × List String :=
  match j with
  | .obj kvs =>
    match kvs.toList with
    | [("@loc", .str name)] =>
      match seen.idxOf? name with
      | some i => (Json.mkObj [("loc", Json.num (JsonNumber.fromNat i))], seen)
      | none => (Json.mkObj [("loc", Json.num (JsonNumber.fromNat seen.length))], seen ++ [name])
    | l =>
      let (out, seen) := l.foldl (fun (acc : List (String × Json) × List String) (kv : String × Json) =>
        let (v, s) := renumber kv.2 acc.2
        (acc.1 ++ [(kv.1, v)], s)) ([], seen)
      (Json.mkObj out, seen)
  | .arr xs =>
    let (out, seen) := xs.toList.foldl (fun (acc : List Json × List String) x =>
      let (v, s) := renumber x acc.2
      (acc.1 ++ [v], s)) ([], seen)
    (Json.arr out.toArray, seen)
  | other => (other, seen)

def handleBp (j : Json) : Json :=
  match (getVal? j "bp").bind bp? with
  | none => Json.mkObj [("r", "bad-op")]
  | some bp =>
    Json.mkObj [("r", "ok"), ("schema", (renumber (schemaJ (run bp)) []).1), ("stable", true),
      -- `Blueprint::persist` = `persist_if_changed`: a file with other bytes (of any length) is replaced
      -- (Pxv.Gen.persistIfChanged_result); evaluated here on a same-length stale file
      ("overwrites_stale", (((Pxv.Gen.persistIfChanged (Pxv.Gen.FS.ofList [("bp.ron", ⟨[1, 2, 4], 1⟩)]) "bp.ron" [1, 2, 3]).get "bp.ron").map (·.bytes)) == some [1, 2, 3])]

end Pxv.Bp

namespace Pxv.Bp
def handle (j : Json) : Json :=
  match getStr? j "op" with
  | some "bp" => handleBp j
  | some "attr" => Pxv.Attr.handleAttr j
  | some "emit" => Pxv.Attr.handleEmit j
  | some "lex" => Pxv.Attr.handleLex j
  | _ => Json.mkObj [("r", "bad-op")]
end Pxv.Bp
