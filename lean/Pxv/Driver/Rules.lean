import Pxv.Driver.Util
import Pxv.Model.Rules
open Lean Pxv.Driver

namespace Pxv.Rules

def life? : String → Option Life
  | "singleton" => some .singleton
  | "request" => some .request
  | "transient" => some .transient
  | _ => none

def mode? : String → Option Mode
  | "val" => some .val
  | "ref" => some .ref
  | "mut" => some .mut
  | _ => none

def kind? : String → Option Kind
  | "ctor" => some .ctor
  | "handler" => some .handler
  | "wrap" => some .wrap
  | "pre" => some .pre
  | "post" => some .post
  | "observer" => some .observer
  | _ => none

def inp? (j : Json) : Option Inp :=
  match j with
  | .arr #[t, m] => do
    let t ← t.getNat?.toOption
    let m ← m.getStr?.toOption >>= mode?
    pure ⟨t, m⟩
  | _ => none

def comp? (j : Json) : Option Comp := do
  let kind ← getStr? j "kind" >>= kind?
  let scope ← getNat? j "scope"
  let out := (getNat? j "out").getD 0
  let life ← getStr? j "life" >>= life?
  let cloning ← getBool? j "cloning"
  let ins ← (getArr? j "ins") >>= (·.mapM inp?)
  let fallible ← getBool? j "fallible"
  let fn ← getNat? j "fn"
  pure ⟨kind, scope, out, life, cloning, ins, fallible, fn⟩

def ty? (j : Json) : Option Ty := do
  pure ⟨← getBool? j "clone", ← getBool? j "copy", ← getBool? j "send", ← getBool? j "sync"⟩

def seg? (j : Json) : Option Seg :=
  match j with
  | .arr #[k, v] => do
    let v ← v.getNat?.toOption
    match k with
    | .str "s" => some (.lit v)
    | .str "p" => some (.param v)
    | .str "c" => some (.catchAll v)
    | _ => none
  | _ => none

def route? (j : Json) : Option Route := do
  pure ⟨← getNat? j "comp", ← (getArr? j "path") >>= (·.mapM seg?), ← (getVal? j "methods") >>= natList?, ← getBool? j "any"⟩

def pp? (j : Json) : Option PathParams := do
  pure ⟨← getNat? j "ty", ← (getVal? j "fields") >>= natList?⟩

def db? (j : Json) : Option DB := do
  pure ⟨← (getVal? j "scopes") >>= natList?, ← (getArr? j "types") >>= (·.mapM ty?),
        ← (getArr? j "comps") >>= (·.mapM comp?), ← (getArr? j "routes") >>= (·.mapM route?),
        ← (getArr? j "pparams") >>= (·.mapM pp?)⟩

def DiagKind.name : DiagKind → String
  | .routeMethodConflict => "route_method_conflict"
  | .routePathConflict => "route_path_conflict"
  | .mutInput => "mut_input"
  | .missing => "missing"
  | .mutSingleton => "mut_singleton"
  | .mutTransient => "mut_transient"
  | .mutCloneable => "mut_cloneable"
  | .singletonOnce => "singleton_once"
  | .singletonMulti => "singleton_multi"
  | .singletonDep => "singleton_dep"
  | .observerFallible => "observer_fallible"
  | .cloneNotClone => "clone_not_clone"
  | .cycle => "cycle"
  | .pathParam => "path_param"
  | .notSend => "not_send"
  | .notSync => "not_sync"
  | .singletonByValue => "singleton_by_value"

def diagJson (d : Diag) : Json := .arr #[d.kind.name, Json.num (JsonNumber.fromNat d.a), Json.num (JsonNumber.fromNat d.b)]
def diagsJson (l : List Diag) : Json := .arr (l.map diagJson).toArray

/-- request: {"op":"check","db":{scopes,types,comps,routes,pparams}} (everything interned to numbers) -/
def handle (j : Json) : Json :=
  match getStr? j "op", (getVal? j "db") >>= db? with
  | some "check", some db =>
    Json.mkObj [("r", "ok"),
      ("check", diagsJson db.check),
      ("stage1", diagsJson db.stage1), ("stage2", diagsJson db.stage2),
      ("stage3", diagsJson db.stage3), ("stage4", diagsJson db.stage4),
      ("dynamic", diagsJson db.dynamicCheck),
      ("singleton_dep_direct", diagsJson db.singletonDepsDirect),
      ("method_conflicts_std", diagsJson db.methodConflictsStd),
      ("cycle_nodes", .arr ((if db.check.any (fun d => d.kind == .cycle) then findCycles db.depAdj else []).map natListJson).toArray),
      ("reach", natListJson db.reach)]
  | some "lookup", some db =>
    match getNat? j "scope", getNat? j "ty" with
    | some s, some t =>
      Json.mkObj [("r", "ok"), ("ctor", match db.lookup s t with | some c => Json.num (JsonNumber.fromNat c) | none => Json.null),
                  ("anc", natListJson (db.anc s))]
    | _, _ => Json.mkObj [("r", "bad-op")]
  | some "cycles", _ =>
    match (getArr? j "adj") >>= (·.mapM natList?) with
    | some adj => Json.mkObj [("r", "ok"), ("cycles", .arr ((findCycles adj).map natListJson).toArray)]
    | none => Json.mkObj [("r", "bad-op")]
  | some "shape", _ =>
    match (getArr? j "p") >>= (·.mapM seg?), (getArr? j "q") >>= (·.mapM seg?) with
    | some p, some q => Json.mkObj [("r", "ok"), ("conflict", Json.bool (p != q && shapeConflict p q))]
    | _, _ => Json.mkObj [("r", "bad-op")]
  | _, _ => Json.mkObj [("r", "bad-op")]

end Pxv.Rules
