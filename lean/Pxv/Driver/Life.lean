import Pxv.Driver.Util
import Pxv.Driver.Scope
import Pxv.Model.Lifecycle
open Lean Pxv.Driver Pxv.Scope

namespace Pxv.Life

def mode? : String → Mode
  | "val" => .val
  | "mut" => .mut
  | _ => .ref

def ins? (j : Json) : List (Nat × Mode) :=
  match j with
  | .arr xs => xs.toList.filterMap (fun x => match x with
    | .arr #[t, .str m] => (t.getNat?.toOption).map (fun t => (t, mode? m))
    | _ => none)
  | _ => []

def cdef? (j : Json) : Option CDef := do
  let uid ← getNat? j "uid"
  let ty ← getNat? j "ty"
  let life := life? ((getStr? j "life").getD "request")
  let clone := (getBool? j "clone").getD false
  pure { uid, ty, life, clone, ins := ins? ((getVal? j "ins").getD (Json.arr #[])) }

def kind? : String → CKind
  | "wrap" => .wrap
  | "pre" => .pre
  | "post" => .post
  | _ => .handler

def modeJ : Mode → Json
  | .val => "val" | .ref => "ref" | .mut => "mut"

def originJ : Origin → Json
  | .node c i => Json.arr #[natJ c, natJ i]
  | .app t => Json.mkObj [("app", natJ t)]
  | .stuck => "stuck"

def kindStr : CKind → String
  | .noop => "noop" | .wrap => "m" | .pre => "m" | .post => "m" | .handler => "h"

/-- {"op":"life","bp":[items as for `scope`],"ctors":[{uid,ty,life,clone,ins}],"handlers":[{id,ins}],
     "mws":[{id,kind,ins}]}: for every route the pipeline pavexc builds: per component (in invocation order of the
     stages) the constructors its closure runs and, for every input of the component and of those constructors,
     who built the value that arrives there; whether `enforce_invariants` would panic. -/
def handle (j : Json) : Json :=
  match getArr? j "bp", getArr? j "ctors", getArr? j "handlers", getArr? j "mws" with
  | some ops, some cs, some hs, some ms =>
    let b := bp? ops
    let st := process b
    let g := build st
    let defs := cs.filterMap cdef?
    let toDef := fun (c : Ctor) => defs.find? (fun d => d.uid == c.id)
    let env : Env := { get := fun s t => (get g st.regs s t).bind toDef, fuel := defs.length + 1 }
    let tyOf := fun u => (defs.find? (fun d => d.uid == u)).map (·.ty)
    let mwOf := fun (m : Nat) => (ms.find? (fun x => getNat? x "id" == some m)).map (fun x =>
      ({ kind := kind? ((getStr? x "kind").getD "wrap"), id := m, scope := (st.mwScope m).getD 0,
         ins := ins? ((getVal? x "ins").getD (Json.arr #[])) } : Comp))
    let routeJ := fun (label : Json) (hname : String) (chain : List Nat) (h : Comp) =>
      let noop : Comp := { kind := .noop, id := 0, scope := h.scope, ins := [] }
      let p := plan env tyOf (noop :: chain.filterMap mwOf) h
      let needed := dedupNat (p.comps.flatMap (fun cp =>
        (cp.cl.params.filterMap (fun (t, _) => match p.originOfParam cp.stage t with
          | .app t' => some t'
          | _ => none))))
      Json.mkObj [("route", label), ("panics", Json.bool (!p.invariantsOk)),
        ("builtAt", pairsJ p.builtAt),
        ("needsApp", natListJson needed),
        ("comps", Json.arr (p.comps.zipIdx.map (fun (cp, ci) =>
          Json.mkObj [("comp", Json.str (match cp.comp.kind with
              | .noop => "noop"
              | .handler => hname
              | _ => "m" ++ toString cp.comp.id)),
            ("stage", natJ cp.stage),
            ("args", Json.arr (cp.args.map (fun s => originJ (p.origin ci s))).toArray),
            ("next", Json.arr (cp.nextArgs.map (fun (t, s) => Json.arr #[natJ t, originJ (p.origin ci s)])).toArray),
            ("built", Json.arr (cp.cl.nodes.map (fun n =>
              Json.mkObj [("ctor", natJ n.ctor.uid), ("ins", Json.arr (n.ins.map (fun s => originJ (p.origin ci s))).toArray)])).toArray)])).toArray)]
    let routes0 := (chainsOf b []).filterMap (fun (r, chain) => do
      let hj ← hs.find? (fun x => getNat? x "id" == some r)
      let sc ← st.routeScope r
      let h : Comp := { kind := .handler, id := r, scope := sc, ins := ins? ((getVal? hj "ins").getD (Json.arr #[])) }
      pure (routeJ (natJ r) ("h" ++ toString r) chain h))
    -- the root blueprint's fallback handler (unknown paths, wrong methods): wrapped by every middleware of the root
    let fb : Comp := { kind := .handler, id := 0, scope := fallbackScope b, ins := [] }
    let routes := routes0 ++ [routeJ (Json.str "fallback") "fallback" (ownMws b) fb]
    -- the application state: every singleton type some pipeline needs, resolved from the application-state scope
    let allNeeded := dedupNat (routes.flatMap (fun r => ((getVal? r "needsApp").bind natList?).getD []))
    let (acl, asrcs) := appClosure (env.get g.app) env.fuel allNeeded
    let srcJ := fun (s : Src) => match s with
      | .built i => natJ i
      | .param t => Json.mkObj [("param", natJ t)]
    Json.mkObj [("r", "ok"), ("routes", Json.arr routes.toArray),
      ("app", Json.mkObj [("fields", Json.arr ((allNeeded.zip asrcs).map (fun (t, s) => Json.arr #[natJ t, srcJ s])).toArray),
        ("built", Json.arr (acl.nodes.map (fun n => Json.mkObj [("ctor", natJ n.ctor.uid), ("ins", Json.arr (n.ins.map srcJ).toArray)])).toArray)])]
  | _, _, _, _ => Json.mkObj [("r", "bad-op")]

end Pxv.Life
