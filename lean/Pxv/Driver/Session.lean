import Pxv.Driver.Util
import Pxv.Model.Session
open Lean Pxv.Driver

/-! JSON-lines driver for `Pxv.Session` (keys = strings, values = JSON). Same protocol as
`harness/crates/sess`; session ids are printed as first-seen indices. -/
namespace Pxv.Session

abbrev K := String
abbrev V := Json

def optStr? (j : Json) (k : String) : Option (Option String) :=
  match getVal? j k with
  | some .null => some none
  | some (.str s) => some (some s)
  | none => some none
  | _ => none

def cookieCfg? (j : Json) : Option CookieCfg := do
  let name ← getStr? j "name"
  let domain ← optStr? j "domain"
  let path ← optStr? j "path"
  let secure ← getBool? j "secure"
  let httpOnly ← getBool? j "http_only"
  let sameSite ← match ← optStr? j "same_site" with
    | none => some none
    | some "strict" => some (some SameSite.strict)
    | some "lax" => some (some SameSite.lax)
    | some "none" => some (some SameSite.none)
    | _ => none
  let kind ← match ← getStr? j "kind" with
    | "persistent" => some CookieKind.persistent
    | "session" => some CookieKind.session
    | _ => none
  pure { name, domain, path, secure, httpOnly, sameSite, kind }

def alg? : String → Option Alg
  | "none" => some Alg.none
  | "sign" => some Alg.sign
  | "encrypt" => some Alg.encrypt
  | _ => none

/-- `[alg, key]` with alg ∈ {sign, encrypt} (`FallbackConfig`). -/
def fallback? (j : Json) : Option (Alg × Nat) :=
  match j with
  | .arr #[.str a, k] => do
    let alg ← alg? a
    if alg = .none then none
    let key ← k.getNat?.toOption
    pure (alg, key)
  | _ => none

def crypto? (j : Json) : Option Crypto := do
  let alg ← (getStr? j "alg").bind alg?
  let ruleName := (getStr? j "name").getD ""
  let percentEncode := (getBool? j "percent_encode").getD true
  let key := (getNat? j "key").getD 0
  let fallbacks ← match getVal? j "fallbacks" with
    | none => some []
    | some (.arr a) => a.toList.mapM fallback?
    | _ => none
  pure { alg, ruleName, percentEncode, key, fallbacks }

def config? (j : Json) : Option Config := do
  let ttl ← getNat? j "ttl"
  let creation ← match ← getStr? j "creation" with
    | "never_skip" => some Creation.neverSkip
    | "skip_if_empty" => some Creation.skipIfEmpty
    | _ => none
  let missing ← match ← getStr? j "missing" with
    | "allow" => some Missing.allow
    | "reject" => some Missing.reject
    | _ => none
  let extend ← match ← getStr? j "extend" with
    | "loads_and_changes" => some Extend.onLoadsAndChanges
    | "changes" => some Extend.onChanges
    | _ => none
  let threshold ← match getVal? j "threshold" with
    | some .null => some none
    | none => some none
    | some v => match natList? v with
      | some [n, d] => some (some (n, d))
      | _ => none
  let cookie ← (getVal? j "cookie").bind cookieCfg?
  let crypto ← (getVal? j "crypto").bind crypto?
  pure { ttl, creation, missing, extend, threshold, cookie, crypto }

def op? (j : Json) : Option (Op K V) :=
  match j with
  | .arr a =>
    let name := match a[0]? with | some (.str s) => s | _ => ""
    let key := match a[1]? with | some (.str s) => s | _ => ""
    let val := (a[2]?).getD .null
    match name with
    | "s.get" | "s.get_t" => some (.get key)
    | "s.insert" | "s.insert_t" => some (.insert key val)
    | "s.remove" | "s.remove_t" => some (.remove key)
    | "s.is_empty" => some .isEmpty
    | "s.clear" => some .clear
    | "delete" => some .delete
    | "cycle" => some .cycle
    | "invalidate" => some .invalidate
    | "is_invalidated" => some .isInvalidated
    | "sync" => some .sync
    | "force_load" => some .forceLoad
    | "c.get" | "c.get_m" | "c.get_t" => some (.cGet key)
    | "c.is_empty" | "c.is_empty_m" => some .cIsEmpty
    | "c.insert" | "c.insert_t" => some (.cInsert key val)
    | "c.remove" | "c.remove_t" => some (.cRemove key)
    | "c.clear" => some .cClear
    | _ => none
  | _ => none

def clientMap? (j : Json) : Option (Map K V) :=
  match j with
  | .obj kvs => some (kvs.toList.map fun (k, v) => (k, v))
  | _ => none

def req? (j : Json) : Option (Req K V) := do
  let src ← match getVal? j "src" with
    | some (.str "none") => some Src.none
    | some (.str "tampered") => some Src.none   -- a cookie that fails verification/parsing is no cookie
    | some (.str _) => some Src.jar
    | none => some Src.jar
    | some (.obj o) =>   -- {"parts": j, "client": {..}} = IncomingSession::from_parts
      let o := Json.obj o
      match getNat? o "parts", (getVal? o "client").bind clientMap? with
      | some n, some cl => some (Src.parts n cl)
      | _, _ => none
    | some v => (v.getNat?.toOption).map Src.issued
  let expire := (getBool? j "expire").getD false
  let rem ← getNat? j "rem"
  let ops ← (getArr? j "ops").bind (·.mapM op?)
  let crypto ← match getVal? j "crypto" with
    | none => some none
    | some .null => some none
    | some c => (crypto? c).map some
  pure { src, expire, rem, ops, crypto }

/-! Output, with ids renamed to first-seen indices in traversal order. -/

abbrev Ren := StateM (List Nat)

def ren (id : Nat) : Ren Nat := do
  let seen ← get
  match seen.idxOf? id with
  | some i => pure i
  | none => set (seen ++ [id]); pure seen.length

def num (n : Nat) : Json := Json.num (JsonNumber.fromNat n)
def mapJson (m : Map K V) : Json := Json.mkObj m
def optJson (o : Option String) : Json := match o with | some s => .str s | none => .null

def syncErrStr (e : SyncErr) : String :=
  (match e.op with | .create => "create" | .update => "update" | .delete => "delete" | .updateTtl => "update_ttl" | .changeId => "change_id")
    ++ ":" ++ errStr (some e.err)

def finErrStr : FinErr → String
  | .sync e => "sync:" ++ syncErrStr e
  | .encryptionRequired => "encryption-required"
  | .cryptoRequired => "crypto-required"

def resJson : Res V → Json
  | .unit => .null
  | .val none => .null
  | .val (some v) => .arr #[v]
  | .bool b => .bool b
  | .syncOk => .str "ok"
  | .syncErr e => Json.mkObj [("err", .str (syncErrStr e))]
  | .panic => .str "panic"

def logJson (e : LogE K V) : Ren Json := do
  let a ← ren e.id
  let b ← match e.id2 with
    | some x => (fun y => [num y]) <$> ren x
    | none => pure []
  let ttl := match e.ttl with | some t => [num t] | none => []
  let st := match e.st with | some s => [mapJson s] | none => []
  pure (.arr ([Json.str e.op, num a] ++ b ++ ttl ++ st ++ [Json.str e.res]).toArray)

def sameSiteJson : Option SameSite → Json
  | none => .null
  | some .strict => .str "strict"
  | some .lax => .str "lax"
  | some .none => .str "none"

def finJson (cfg : Config) (f : Fin K V) : Ren Json := do
  match f with
  | .set id cli =>
    let i ← ren id
    let a := wireAttrs cfg
    let prot := match outgoingAlg cfg with | .encrypt => "encrypted" | .sign => "signed" | .none => "plain"
    pure (Json.mkObj [("r", "set"), ("id", num i), ("client", mapJson cli), ("prot", prot),
      ("attrs", Json.mkObj [("name", .str a.name), ("domain", optJson a.domain), ("path", optJson a.path),
        ("secure", .bool a.secure), ("http_only", .bool a.httpOnly), ("same_site", sameSiteJson a.sameSite),
        ("max_age", match a.maxAge with | some n => num n | none => .null)])])
  | .removal =>
    let a := removalAttrs cfg
    let prot := match outgoingAlg cfg with | .none => "plain" | _ => "protected"
    pure (Json.mkObj [("r", "removal"), ("prot", prot),
      ("attrs", Json.mkObj [("name", .str a.name), ("domain", optJson a.domain), ("path", optJson a.path)])])
  | .none => pure (Json.mkObj [("r", "none")])
  | .err e => pure (Json.mkObj [("r", "err"), ("kind", .str (finErrStr e)), ("set", num (respond cfg [] f).length)])
  | .panic => pure (Json.mkObj [("r", "panic")])

def reqJson (o : ReqOut K V) : Ren Json := do
  let cfg := o.cfg
  let inc ← match o.incoming with
    | some id => num <$> ren id
    | none => pure .null
  let log ← o.log.mapM logJson
  let fin ← finJson cfg o.fin
  let dump ← o.store.mapM (fun (p : Nat × Rec K V) => do let i ← ren p.1; pure (i, p.2.state))
  let dump := dump.mergeSort (fun a b => a.1 ≤ b.1)
  pure (Json.mkObj [("in", inc), ("res", .arr (o.res.map resJson).toArray), ("fin", fin), ("log", .arr log.toArray),
    ("store", .arr (dump.map fun (p : Nat × Map K V) => Json.arr #[num p.1, mapJson p.2]).toArray), ("leak", .bool false)])

def handle (j : Json) : Json :=
  match (getVal? j "cfg").bind config?, (getArr? j "requests").bind (·.mapM req?) with
  | some cfg, some reqs =>
    let outs := runHistory cfg reqs Client.init World.init
    let (js, _) := (outs.mapM reqJson).run []
    Json.mkObj [("r", "ok"), ("reqs", .arr js.toArray)]
  | _, _ => Json.mkObj [("r", "bad-case")]

end Pxv.Session
