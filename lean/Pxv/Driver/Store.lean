import Pxv.Driver.Util
import Pxv.Model.Store
open Lean Pxv.Driver

/-! JSON-lines driver for the session-store models (same protocol as harness/crates/c13).
States are indices into the request's `states` table (the model never looks inside a state). -/
namespace Pxv.Store

def natAt? (a : Array Json) (i : Nat) : Option Nat := (a[i]?).bind (·.getNat?.toOption)

/-- An op of the protocol: `none` = malformed, `some (Sum.inl ms)` = `advance`. -/
def op? (ns : Nat) (j : Json) : Option (Sum Nat (Op Nat)) :=
  match j with
  | .arr a =>
    let name : String := match (a[0]? : Option Json) with
      | some (Json.str s) => s
      | _ => ""
    if name == "create" then do
      let i ← natAt? a 1; let s ← natAt? a 2; let t ← natAt? a 3
      if s < ns then pure (.inr (.create i s t)) else none
    else if name == "update" then do
      let i ← natAt? a 1; let s ← natAt? a 2; let t ← natAt? a 3
      if s < ns then pure (.inr (.update i s t)) else none
    else if name == "update_ttl" then do
      let i ← natAt? a 1; let t ← natAt? a 2; pure (.inr (.updateTtl i t))
    else if name == "load" then do let i ← natAt? a 1; pure (.inr (.load i))
    else if name == "delete" then do let i ← natAt? a 1; pure (.inr (.delete i))
    else if name == "change_id" then do
      let o ← natAt? a 1; let n ← natAt? a 2; pure (.inr (.changeId o n))
    else if name == "delete_expired" then
      let ord := ((a[2]?).bind natList?).getD []
      match (a[1]? : Option Json) with
      | none => some (.inr (.deleteExpired none ord))
      | some v =>
        if v.isNull then some (.inr (.deleteExpired none ord))
        else match v.getNat?.toOption with
          | some (n + 1) => some (.inr (.deleteExpired (some (n + 1)) ord))
          | _ => none
    else if name == "advance" then do let ms ← natAt? a 1; pure (.inl ms)
    else none
  | _ => none

def jnat (n : Nat) : Json := Json.num (JsonNumber.fromNat n)
def jint (n : Int) : Json := Json.num (JsonNumber.fromInt n)

def ceilTo (q n : Nat) : Nat := ((n + q - 1) / q) * q
/-- ceil(n / q) * q for an integer `n`, `q > 0`, without relying on the rounding convention of `/`. -/
def ceilMul (q : Nat) (n : Int) : Int :=
  if n ≥ 0 then ((ceilTo q n.toNat : Nat) : Int) else -((((-n).toNat / q) * q : Nat) : Int)

def resJson (q : Nat) : Res Nat → Json
  | .ok => "ok"
  | .dup => "dup"
  | .unknown => "unknown"
  | .loaded none => Json.null
  | .loaded (some (s, ttl)) => Json.mkObj [("state", jnat s), ("ttl", jnat (ceilTo q ttl))]
  | .deleted n removed => Json.mkObj [("n", jnat n), ("removed", natListJson (removed.mergeSort (· ≤ ·)))]

structure Cfg where
  sqlite : Bool
  q : Nat

def cfg? (j : Json) : Option Cfg :=
  match getStr? j "backend" with
  | some "mem" => some ⟨false, (getNat? j "q").getD 1000⟩
  | some "sqlite" => some ⟨true, (getNat? j "q").getD 1000⟩
  | _ => none

def Cfg.step (c : Cfg) : Nat → Op Nat → Tbl Nat → Tbl Nat × Res Nat := if c.sqlite then sqlStep else memStep

/-- Runs protocol ops from `(now, t)`; `advance` only moves the clock. -/
def runOps (c : Cfg) : Nat → Tbl Nat → List (Sum Nat (Op Nat)) → List Json → (Nat × Tbl Nat) × List Json
  | now, t, [], acc => ((now, t), acc.reverse)
  | now, t, .inl ms :: rest, acc => runOps c (now + ms) t rest (Json.str "adv" :: acc)
  | now, t, .inr op :: rest, acc =>
    let r := c.step now op t
    runOps c now r.1 rest (resJson c.q r.2 :: acc)

/-- Every physical record, `(id, deadline - now [ms, rounded up to q], state)`, sorted by id. -/
def dumpJson (c : Cfg) (now : Nat) (t : Tbl Nat) : Json :=
  let rows := (t.map (fun (p : Nat × Rec Nat) =>
    let rel : Int := if c.sqlite then ((p.2.deadline : Int) - ((now / 1000 : Nat) : Int)) * 1000
      else ceilMul c.q ((p.2.deadline : Int) - (now : Int))
    (p.1, rel, p.2.state))).mergeSort (fun a b => a.1 ≤ b.1)
  Json.arr (rows.map (fun p => Json.arr #[jnat p.1, jint p.2.1, jnat p.2.2])).toArray

def opsOf (j : Json) (k : String) : Option (List (Sum Nat (Op Nat))) :=
  match getArr? j k with
  | some l => l.mapM (op? ((getNat? j "nstates").getD 0))
  | none => some []

def handleSeq (c : Cfg) (j : Json) : Json :=
  match opsOf j "ops" with
  | none => Json.mkObj [("r", "bad-op")]
  | some ops =>
    let phase := (getNat? j "phase").getD 0
    let ((now, t), res) := runOps c phase [] ops []
    Json.mkObj [("r", "ok"), ("res", Json.arr res.toArray), ("final", dumpJson c now t)]

/-! ### Concurrent histories: is there a sequential order of the tasks' calls that explains the
observed answers? Depth-first search over interleavings with the *model's* step function; an order
must respect each task's program order and real-time precedence (a call that had returned before
another was invoked comes first), and must also explain what the sequential post-phase and the
final table dump showed. -/

structure Obs where
  op : Op Nat
  res : Json      -- canonical answer observed on the real store
  inv : Nat
  resp : Nat

def obs? (ns : Nat) (opj rj : Json) : Option Obs :=
  match op? ns opj with
  | some (.inr op) =>
    match rj.getObjVal? "r", rj.getObjValAs? Nat "inv", rj.getObjValAs? Nat "resp" with
    | .ok r, .ok i, .ok s => some ⟨op, r, i, s⟩
    | _, _, _ => none
  | _ => none

/-- Mid-flight only the count of `delete_expired` is observable. -/
def sameAnswer (q : Nat) (model : Res Nat) (observed : Json) : Bool :=
  match model with
  | .deleted n _ => observed.compress == (Json.mkObj [("n", jnat n)]).compress
  | r => (resJson q r).compress == observed.compress

structure ConcIn where
  c : Cfg
  now : Nat
  post : List (Sum Nat (Op Nat))
  postSeen : String     -- compressed JSON array of the observed post-phase answers
  finalSeen : String

/-- `fuel` bounds the number of search nodes. Returns the witness (task indices) if one exists. -/
partial def search (ci : ConcIn) (fuel : IO.Ref Nat) (t : Tbl Nat) (tasks : Array (List Obs))
    (acc : List Nat) : IO (Option (List Nat)) := do
  if tasks.all (·.isEmpty) then
    let ((now', t'), postRes) := runOps ci.c ci.now t ci.post []
    if (Json.arr postRes.toArray).compress == ci.postSeen && (dumpJson ci.c now' t').compress == ci.finalSeen then
      return some acc.reverse
    else return none
  let f ← fuel.get
  if f == 0 then return none
  fuel.set (f - 1)
  for k in [0:tasks.size] do
    match tasks[k]! with
    | [] => pure ()
    | o :: rest =>
      let blocked := (List.range tasks.size).any (fun k' => k' != k && match tasks[k']! with
        | o' :: _ => o'.resp < o.inv
        | [] => false)
      if !blocked then
        let r := ci.c.step ci.now o.op t
        if sameAnswer ci.c.q r.2 o.res then
          match ← search ci fuel r.1 (tasks.set! k rest) (k :: acc) with
          | some w => return some w
          | none => pure ()
  return none

def handleConc (c : Cfg) (j : Json) : IO Json := do
  let ns := (getNat? j "nstates").getD 0
  match opsOf j "pre", opsOf j "post", getArr? j "tasks", getArr? j "observed",
      getVal? j "observed_post", getVal? j "observed_final" with
  | some pre, some post, some tasksJ, some obsJ, some postSeen, some finalSeen =>
    let ((now, t), preRes) := runOps c 0 [] pre []
    let tasks? : Option (List (List Obs)) := (tasksJ.zip obsJ).mapM (fun (tj, oj) =>
      match tj, oj with
      | .arr ops, .arr rs =>
        if ops.size != rs.size then none else (ops.toList.zip rs.toList).mapM (fun (a, b) => obs? ns a b)
      | _, _ => none)
    match tasks? with
    | none => return Json.mkObj [("r", "bad-op")]
    | some tasks =>
      if tasksJ.length != obsJ.length then return Json.mkObj [("r", "bad-op")]
      let fuel ← IO.mkRef 3000000
      let w ← search ⟨c, now, post, postSeen.compress, finalSeen.compress⟩ fuel t tasks.toArray []
      let f ← fuel.get
      match w with
      | none =>
        return Json.mkObj [("r", "ok"), ("pre", Json.arr preRes.toArray), ("explained", false), ("exhausted", f == 0)]
      | some w =>
        return Json.mkObj [("r", "ok"), ("pre", Json.arr preRes.toArray), ("explained", true), ("witness", natListJson w)]
  | _, _, _, _, _, _ => return Json.mkObj [("r", "bad-op")]

def handleIO (j : Json) : IO Json := do
  if getStr? j "kind" == some "sql_texts" then
    return Json.mkObj (sqlTexts.map (fun (k, v) => (k, Json.str v)))
  match cfg? j with
  | none => return Json.mkObj [("r", "bad-op")]
  | some c =>
    match getStr? j "kind" with
    | some "seq" => return handleSeq c j
    | some "conc" => handleConc c j
    | _ => return Json.mkObj [("r", "bad-op")]

/-- Like `Pxv.Driver.serve`, for handlers in `IO`. -/
partial def serveIO (f : Json → IO Json) : IO Unit := do
  let stdin ← IO.getStdin
  let stdout ← IO.getStdout
  let rec loop : IO Unit := do
    let line ← stdin.getLine
    if line.isEmpty then return ()
    let t := line.trimAscii.toString
    if t.isEmpty then loop else
    let out ← match Json.parse t with
      | .ok j => f j
      | .error e => pure (Json.mkObj [("bad-json", e)])
    stdout.putStrLn out.compress
    loop
  loop
  stdout.flush

end Pxv.Store
