import Pxv.Driver.Util
import Pxv.Model.Order
import Pxv.Model.Borrow
import Pxv.Model.Stalemate
import Pxv.Model.Complex
open Lean Pxv.Driver

namespace Pxv.CG

def ek? : String → Option EK
  | "move" => some .move
  | "shared" => some .shared
  | "excl" => some .excl
  | "before" => some .before
  | _ => none

def node? (j : Json) : Option Node := do
  let copy := (getBool? j "copy").getD false
  let isRef := (getBool? j "ref").getD false
  let cloneable := (getBool? j "cloneable").getD false
  let branch := (getStr? j "kind") == some "branch"
  let tied ← (getVal? j "tied").bind natList?
  let direct ← (getVal? j "direct").bind natList?
  pure { copy, isRef, cloneable, branch, tied, direct }

def edge? (j : Json) : Option Edge :=
  match j with
  | .arr #[s, d, .str k] => do
    let s ← s.getNat?.toOption
    let d ← d.getNat?.toOption
    let k ← ek? k
    pure ⟨s, d, k⟩
  | _ => none

/-- {"nodes":[{copy,ref,cloneable,kind,tied,direct}...] (index = position in the array), "edges":[[s,d,kind]...]} -/
def graph? (j : Json) : Option Graph := do
  let ns ← (getArr? j "nodes").bind (·.mapM node?)
  let es ← (getArr? j "edges").bind (·.mapM edge?)
  pure ⟨ns, es⟩

def boolJ (b : Bool) : Json := Json.bool b

def ekStr : EK → String
  | .move => "move" | .shared => "shared" | .excl => "excl" | .before => "before"

def graphJ (g : Graph) : Json :=
  Json.mkObj [("n", Json.num (JsonNumber.fromNat g.size)),
    ("edges", Json.arr (g.edges.map (fun e => Json.arr #[Json.num (JsonNumber.fromNat e.src),
      Json.num (JsonNumber.fromNat e.dst), Json.str (ekStr e.kind)])).toArray)]

def diagsJ (ds : List Diag) : Json :=
  Json.arr (ds.map (fun d => Json.arr #[Json.str (match d.kind with
    | .multipleConsumers => "multiple-consumers"
    | .moveWhileBorrowed => "move-while-borrowed"
    | .mutWhileBorrowed => "mut-while-borrowed"), Json.num (JsonNumber.fromNat d.node)])).toArray

/-- request {"op":"check","g":graph,"sigma":[node ids in execution order]}:
    is `sigma` a run of the ordering system, complete, and ownership-safe on the path to every sink?
    request {"op":"order","g":graph}: the model's own order. -/
def handle (j : Json) : Json :=
  match getStr? j "op", (getVal? j "g").bind graph? with
  | some "check", some g =>
    match (getVal? j "sigma").bind natList? with
    | some σ =>
      let all := List.range g.size
      let whole := Json.mkObj [("own", boolJ (ownCheck g σ all)), ("oneMover", boolJ (oneMover g all)),
        ("holdersFirst", boolJ (holdersFirst g σ all))]
      let sinks := g.sinks
      let per := sinks.map (fun s =>
        let A := pathTo g s
        Json.mkObj [("sink", Json.num (JsonNumber.fromNat s)), ("own", boolJ (ownCheck g σ A)),
          ("oneMover", boolJ (oneMover g A)), ("predClosed", boolJ (predClosed g A)),
          ("holdersFirst", boolJ (holdersFirst g σ A)), ("path", natListJson A)])
      Json.mkObj [("r", "ok"), ("wf", boolJ g.wellFormed), ("isRun", boolJ (isRun g σ)),
        ("complete", boolJ (isComplete g σ)), ("captureFree", boolJ (captureFree g)), ("noConflict", boolJ (noConflict g)),
        ("isTopo", boolJ (isTopo g σ)), ("modelOrderOk", boolJ ((order g).isSome)),
        ("sinks", Json.arr per.toArray), ("whole", whole)]
    | none => Json.mkObj [("r", "bad-op")]
  | some "mc", some g =>
    let r := multipleConsumers g
    Json.mkObj [("r", "ok"), ("g", graphJ r.1), ("diags", diagsJ r.2)]
  | some "mwb", some g =>
    let r := moveWhileBorrowed g
    Json.mkObj [("r", "ok"), ("g", graphJ r.1), ("diags", diagsJ r.2),
      ("captured", Json.arr ((captured g).map (fun (k, v) => Json.arr #[Json.num (JsonNumber.fromNat k), natListJson v])).toArray)]
  | some "os", some g =>
    -- ↔ `ordering_stalemates`: the graph it returns, what it reports, and whether the input had a stalemate at all
    let r := resolveStalemates g
    let ds := r.2.map (fun d => match d with
      | .stalemate n bl => Json.mkObj [("node", Json.num (JsonNumber.fromNat n)), ("blocked", natListJson bl)]
      | .outOfFuel => Json.mkObj [("outOfFuel", boolJ true)])
    Json.mkObj [("r", "ok"), ("g", graphJ r.1), ("diags", Json.arr ds.toArray),
      ("stalemate", boolJ !(findStalemate g []).isEmpty), ("orderOk", boolJ ((order r.1).isSome))]
  | some "cx", some g =>
    -- ↔ `complex_borrow_check`; the request lists the edges so that, per destination, they are in insertion order
    let r := complexCheck g
    let ds := r.diags.map (fun (n, bl) => Json.mkObj [("node", Json.num (JsonNumber.fromNat n)), ("blocked", natListJson bl)])
    Json.mkObj [("r", "ok"), ("g", graphJ r.g), ("diags", Json.arr ds.toArray), ("fuelOut", boolJ r.fuelOut),
      ("finished", natListJson r.finished)]
  | some "order", some g =>
    match order g with
    | some σ => Json.mkObj [("r", "ok"), ("order", natListJson σ)]
    | none => Json.mkObj [("r", "stuck")]
  | _, _ => Json.mkObj [("r", "bad-op")]

end Pxv.CG
