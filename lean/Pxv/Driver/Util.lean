import Lean.Data.Json
/-! Shared helpers for the JSON-lines drivers (no Mathlib: must link into `pxmodel`). -/
open Lean

namespace Pxv.Driver

def natList? (j : Json) : Option (List Nat) :=
  match j with
  | .arr xs => xs.toList.mapM (fun x => x.getNat?.toOption)
  | _ => none

def natListJson (l : List Nat) : Json := .arr (l.map (fun (n : Nat) => (Json.num (JsonNumber.fromNat n)))).toArray

def getStr? (j : Json) (k : String) : Option String := (j.getObjValAs? String k).toOption
def getNat? (j : Json) (k : String) : Option Nat := (j.getObjValAs? Nat k).toOption
def getBool? (j : Json) (k : String) : Option Bool := (j.getObjValAs? Bool k).toOption
def getArr? (j : Json) (k : String) : Option (List Json) :=
  match j.getObjVal? k with
  | .ok (.arr xs) => some xs.toList
  | _ => none
def getVal? (j : Json) (k : String) : Option Json := (j.getObjVal? k).toOption

/-- Run `f` on every input line (a JSON object), print one compact JSON line per request. -/
partial def serve (f : Json → Json) : IO Unit := do
  let stdin ← IO.getStdin
  let stdout ← IO.getStdout
  let rec loop : IO Unit := do
    let line ← stdin.getLine
    if line.isEmpty then return ()
    let t := line.trimAscii.toString
    if t.isEmpty then loop else
    let out := match Json.parse t with
      | .ok j => f j
      | .error e => Json.mkObj [("bad-json", e)]
    stdout.putStrLn out.compress
    loop
  loop
  stdout.flush

end Pxv.Driver
