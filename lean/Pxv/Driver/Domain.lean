import Pxv.Driver.Util
import Pxv.Model.Domain
open Lean Pxv.Driver

namespace Pxv.Domain

def errKind : Err → String
  | .empty => "Empty"
  | .tooLong => "TooLong"
  | .emptyLabel => "EmptyDnsLabel"
  | .catchAllNotAtStart => "CatchAllNotAtStart"
  | .invalidStart => "label:InvalidStart"
  | .invalidEnd => "label:InvalidEnd"
  | .invalidChars => "label:InvalidChars"
  | .labelTooLong => "label:TooLong"
  | .paramNotAtStart => "label:ParameterNotAtStart"
  | .tooManyParams => "label:TooManyParameters"
  | .invalidParamName => "InvalidParameterName"
  | .emptyParamName => "EmptyParameterName"
  | .unclosedParam => "UnclosedParameter"

def str (cs : List Char) : Json := Json.str (String.ofList cs)

def guardJson (s : List Char) : Json :=
  match guardNew s with
  | .ok d => Json.mkObj [("r", "ok"), ("norm", str d), ("pattern", str (pattern d))]
  | .error e => Json.mkObj [("r", "err"), ("kind", errKind e)]

def insJson : Ins → Json
  | .ok => "ok"
  | .conflict => Json.mkObj [("conflict", true), ("with_known", true)]
  | .unsupported => Json.mkObj [("invalid", "unsupported")]
  | .panic => "panic"

/-- `{"op":"route","guards":[..],"host":".."}`; `host` is the `Host` header value, over the
    characters for which `http::uri::Authority::host` is the identity (the empty header is the one
    such value `Authority::try_from` rejects). -/
def routeJson (gs : List (List Char)) (h : List Char) : Json :=
  let o := route gs h
  if o.panics then Json.mkObj [("r", "panic"), ("msg", "Too many route parameters.")]
  else
    let noHost := h.isEmpty
    Json.mkObj [
      ("r", "route"),
      -- the generated `domain_router()` inserts exactly `patterns`, numbered in this order (the model has one pattern list)
      ("emitted", true),
      ("verdicts", Json.arr (o.verdicts.map (fun v => match v with
        | .ok () => ("ok" : Json) | .error e => (errKind e : Json))).toArray),
      ("order", Json.arr (o.order.map str).toArray),
      ("patterns", Json.arr (o.patterns.map str).toArray),
      ("ins", Json.arr (o.ins.map insJson).toArray),
      ("host", if noHost then Json.null else str o.host),
      ("each", Json.arr (o.each.map (fun b => Json.bool (b && !noHost))).toArray),
      ("at", match (if noHost then none else o.hit) with
        | some i => Json.num (JsonNumber.fromNat i) | none => Json.null)]

def handle (j : Json) : Json :=
  match getStr? j "op" with
  | some "guard" =>
    match getStr? j "s" with
    | some s => guardJson s.toList
    | none => Json.mkObj [("r", "bad-op")]
  | some "route" =>
    match (getArr? j "guards").bind (·.mapM (fun g => g.getStr?.toOption)), getStr? j "host" with
    | some gs, some h => routeJson (gs.map String.toList) h.toList
    | _, _ => Json.mkObj [("r", "bad-op")]
  | _ => Json.mkObj [("r", "bad-op")]

end Pxv.Domain
