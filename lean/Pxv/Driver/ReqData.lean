import Pxv.Driver.Util
import Pxv.Model.ReqData
import Pxv.Model.Float
open Lean Pxv.Driver

namespace Pxv.ReqData

def nameBytes (s : String) : List Nat := s.toUTF8.toList.map (·.toNat)

def bytesName (bs : List Nat) : String :=
  String.ofList (bs.map (fun b => Char.ofNat b))

def fld (n : String) (t : Ty) : Field := { name := nameBytes n, ty := t }

/-- The fixed family of target structs; the Rust twins live in harness/crates/reqdata/src/shapes.rs. -/
def shapeOf : String → Option (List Field)
  | "PU" => some [fld "a" (.s (.u 8)), fld "b" (.s (.u 16)), fld "c" (.s (.u 32))]
  | "PW" => some [fld "a" (.s (.u 64)), fld "b" (.s (.u 128)), fld "c" (.s (.i 128))]
  | "PI" => some [fld "a" (.s (.i 8)), fld "b" (.s (.i 16)), fld "c" (.s (.i 32)), fld "d" (.s (.i 64))]
  | "PM" => some [fld "id" (.s (.u 32)), fld "name" (.s .string), fld "flag" (.s .bool), fld "ch" (.s .char)]
  | "PS" => some [fld "a" (.s .string), fld "b" (.s .cow), fld "c" (.s .strRef)]
  | "PO" => some [fld "a" (.opt (.u 16)), fld "b" (.opt .string), fld "c" (.s (.i 64))]
  | "PV" => some [fld "a" (.vec (.u 32)), fld "b" (.s (.u 8))]
  | "QM" => some [fld "id" (.s (.u 32)), fld "name" (.s .string), fld "flag" (.s .bool), fld "ch" (.s .char)]
  | "QI" => some [fld "a" (.s (.u 8)), fld "b" (.s (.i 8)), fld "c" (.s (.u 64)), fld "d" (.s (.i 64)),
                  fld "e" (.s (.u 16)), fld "f" (.s (.i 32))]
  | "QO" => some [fld "a" (.opt (.u 32)), fld "b" (.opt .string), fld "c" (.opt .bool), fld "d" (.s (.u 8))]
  | "QV" => some [fld "v" (.vec (.u 32)), fld "s" (.vec .string), fld "d" (.vecDefault (.i 16))]
  | "QS" => some [fld "a" (.s .cow), fld "b" (.s .strRef)]
  | _ => none

def styName : STy → String
  | .u b => s!"u{b}"
  | .i b => s!"i{b}"
  | .bool => "bool"
  | .char => "char"
  | .string => "String"
  | .cow => "String"
  | .strRef => "str"

def styOf : String → Option STy
  | "u8" => some (.u 8) | "u16" => some (.u 16) | "u32" => some (.u 32) | "u64" => some (.u 64)
  | "u128" => some (.u 128)
  | "i8" => some (.i 8) | "i16" => some (.i 16) | "i32" => some (.i 32) | "i64" => some (.i 64)
  | "i128" => some (.i 128)
  | "bool" => some .bool | "char" => some .char
  | _ => none

def intStr (z : Int) : String := if z < 0 then "-" ++ toString z.natAbs else toString z.natAbs

def svalJson : SVal → Json
  | .int z => Json.str (intStr z)
  | .bool b => Json.bool b
  | .char c => Json.num (JsonNumber.fromNat c)
  | .str bs => natListJson bs

def valJson : Val → Json
  | .s v => svalJson v
  | .none => Json.null
  | .some v => Json.mkObj [("some", svalJson v)]
  | .seq vs => Json.mkObj [("seq", Json.arr (vs.map svalJson).toArray)]

/-- `detail`: 2 = path (key, value, type), 1 = query (key only), 0 = form body (kind only). -/
def errJson (detail : Nat) : Err → Json
  | .badUri => Json.mkObj [("r", "bad-uri")]
  | .noMatch => Json.mkObj [("r", "no-match")]
  | .invalidUtf8 k => Json.mkObj [("r", "err"), ("kind", "invalid-utf8"), ("key", bytesName k)]
  | .parseAt k v t =>
    if detail = 2 then
      Json.mkObj [("r", "err"), ("kind", "parse"), ("key", bytesName k), ("value", natListJson v), ("ty", styName t)]
    else if detail = 1 then Json.mkObj [("r", "err"), ("kind", "parse"), ("key", bytesName k)]
    else Json.mkObj [("r", "err"), ("kind", "parse")]
  | .unsupported => Json.mkObj [("r", "err"), ("kind", "unsupported")]
  | .missingField n => Json.mkObj [("r", "err"), ("kind", "missing"), ("field", bytesName n)]
  | .duplicateField n => Json.mkObj [("r", "err"), ("kind", "duplicate"), ("field", bytesName n)]
  | .borrowedStr _ => Json.mkObj [("r", "err"), ("kind", "borrowed")]
  | .multiValue _ => Json.mkObj [("r", "err"), ("kind", "multi")]

def resultJson (detail : Nat) : Except Err (List (List Nat × Val)) → Json
  | .ok vs => Json.mkObj [("r", "ok"), ("v", Json.mkObj (vs.map (fun (n, v) => (bytesName n, valJson v))))]
  | .error e => errJson detail e

def seg? (j : Json) : Option Seg :=
  match getStr? j "lit", getStr? j "param", getStr? j "catch" with
  | some l, _, _ => some (.lit (nameBytes l))
  | _, some p, _ => some (.param (nameBytes p))
  | _, _, some c => some (.catchAll (nameBytes c))
  | _, _, _ => none

def bytesOk (bs : List Nat) : Bool := bs.all (· < 256)

def getBytes? (j : Json) (k : String) : Option (List Nat) :=
  match (getVal? j k).bind natList? with
  | some bs => if bytesOk bs then some bs else none
  | none => none

def pairsJson (ps : List (List Nat × List Nat)) : Json :=
  Json.arr (ps.map (fun (k, v) => Json.arr #[natListJson k, natListJson v])).toArray

def ctJson : CtOutcome → Json
  | .missing => Json.mkObj [("r", "err"), ("kind", "ct-missing")]
  | .mismatch => Json.mkObj [("r", "err"), ("kind", "ct-mismatch")]
  | .ok => Json.mkObj [("r", "ct-ok")]

/-- `"ct": null | absent` = no header; `"ct": [bytes]` = header value. -/
def ctOf (j : Json) : Option (Option (List Nat)) :=
  match getVal? j "ct" with
  | none => some none
  | some .null => some none
  | some v => match natList? v with
    | some bs => if bs.all (· < 256) then some (some bs) else none
    | none => none

def badOp : Json := Json.mkObj [("r", "bad-op")]

def handle (j : Json) : Json :=
  match getStr? j "op" with
  | some "pfloat" =>
    -- a float field `x` of PathParams (`where` = "path": raw segment) or QueryParams (`where` = "query": raw value)
    match getBytes? j "raw", getNat? j "bits", getStr? j "where" with
    | some raw, some bits, some w =>
      let f := if bits = 32 then f32 else f64
      let r := if w = "path" then pathFloat f raw else queryFloat f raw
      match r with
      | .ok b => Json.mkObj [("r", "ok"), ("fbits", Json.str (toString b))]
      | .error .parse => Json.mkObj [("r", "err"), ("kind", "parse")]
      | .error .invalidUtf8 => Json.mkObj [("r", "err"), ("kind", "invalid-utf8")]
    | _, _, _ => badOp
  | some "pdec" =>
    match getBytes? j "b" with
    | some bs => Json.mkObj [("r", "ok"), ("b", natListJson (percentDecode bs))]
    | none => badOp
  | some "penc" =>
    match getBytes? j "b", getBytes? j "set" with
    | some bs, some set => Json.mkObj [("r", "ok"), ("b", natListJson (percentEncode (fun b => set.contains b) bs))]
    | _, _ => badOp
  | some "fser" =>
    match getBytes? j "b" with
    | some bs => Json.mkObj [("r", "ok"), ("b", natListJson (byteSerialize bs))]
    | none => badOp
  | some "fparse" =>
    match getBytes? j "b" with
    | some bs => Json.mkObj [("r", "ok"), ("pairs", pairsJson (formPairs bs))]
    | none => badOp
  | some "utf8" =>
    match getBytes? j "b" with
    | some bs => Json.mkObj [("r", "ok"), ("valid", Json.bool (utf8Valid bs)), ("lossy", natListJson (utf8Lossy bs))]
    | none => badOp
  | some "scalar" =>
    match getBytes? j "b", (getStr? j "ty").bind styOf with
    | some bs, some t =>
      if !utf8Valid bs then badOp
      else match parseScalar t false bs with
        | some v => Json.mkObj [("r", "ok"), ("v", svalJson v)]
        | none => Json.mkObj [("r", "err")]
    | _, _ => badOp
  | some "path" =>
    match getBytes? j "path", (getStr? j "shape").bind shapeOf, (getArr? j "route").bind (·.mapM seg?) with
    | some p, some fields, some segs => resultJson 2 (pathRequest segs fields p)
    | _, _, _ => badOp
  | some "query" =>
    match getBytes? j "q", (getStr? j "shape").bind shapeOf with
    | some q, some fields => resultJson 1 (queryRequest fields q)
    | _, _ => badOp
  | some "form" =>
    match getBytes? j "body", (getStr? j "shape").bind shapeOf, ctOf j with
    | some b, some fields, some ct =>
      match formBodyExtract fields ct b with
      | .ok v => resultJson 0 (.ok v)
      | .error (.de e) => resultJson 0 (.error e)
      | .error (.ct o) => ctJson o
    | _, _, _ => badOp
  | some "ct" =>
    match getStr? j "kind", ctOf j with
    | some "json", some ct => ctJson (ctCheck true ct)
    | some "form", some ct => ctJson (ctCheck false ct)
    | _, _ => badOp
  | _ => badOp

end Pxv.ReqData
