import Pxv.Driver.Util
import Pxv.Model.Pipeline
open Lean Pxv.Driver

namespace Pxv.Pipe

instance : Inhabited Bp := ⟨.nil⟩

/-- blueprint ops as produced by tools/gen_app.py: ["wrap"|"pre"|"post"|"route", i] | ["nest", {"ops": [...]}];
    everything else (constructors, error handlers, observers, raw statements) is not a pipeline registration. -/
partial def bp? (ops : List Json) : Bp :=
  match ops with
  | [] => .nil
  | op :: rest =>
    let tail := bp? rest
    match op with
    | .arr #[.str "wrap", n] => .cons (.mw ⟨.wrap, n.getNat?.toOption.getD 0⟩) tail
    | .arr #[.str "pre", n] => .cons (.mw ⟨.pre, n.getNat?.toOption.getD 0⟩) tail
    | .arr #[.str "post", n] => .cons (.mw ⟨.post, n.getNat?.toOption.getD 0⟩) tail
    | .arr #[.str "route", n] => .cons (.route (n.getNat?.toOption.getD 0)) tail
    | .arr #[.str "nest", nb] => .cons (.nest (bp? ((getArr? nb "ops").getD []))) tail
    | _ => tail

def evStr : Event → String
  | .wrapStart w => s!"wrap-start m{w}"
  | .wrapEnd w => s!"wrap-end m{w}"
  | .pre p => s!"pre m{p}"
  | .early p => s!"early m{p}"
  | .post p => s!"post m{p}"
  | .handler h => s!"handler h{h}"

def kindStr : MwKind → String
  | .wrap => "wrap" | .pre => "pre" | .post => "post"

/-- request {"bp":[ops], "early":[middleware ids that return early]} →
    per route: its chain, the trace of the generated pipeline, and the documented order. -/
def handle (j : Json) : Json :=
  match getArr? j "bp" with
  | some ops =>
    let early := ((getVal? j "early").bind natList?).getD []
    let e := fun p => early.contains p
    let cs := chains (bp? ops) []
    Json.mkObj [("r", "ok"), ("routes", Json.arr (cs.map (fun (h, c) =>
      Json.mkObj [("route", Json.num (JsonNumber.fromNat h)),
        ("chain", Json.arr (c.map (fun m => Json.arr #[Json.str (kindStr m.kind), Json.num (JsonNumber.fromNat m.id)])).toArray),
        ("trace", Json.arr ((run e c h).map (fun ev => Json.str (evStr ev))).toArray),
        ("doc", Json.arr ((doc e (c.length + 1) c h).map (fun ev => Json.str (evStr ev))).toArray)])).toArray)]
  | none => Json.mkObj [("r", "bad-op")]

end Pxv.Pipe
