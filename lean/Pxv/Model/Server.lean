/-
Model of pavex's HTTP server shutdown protocol as a transition system
(runtime/pavex/src/server/{server_handle.rs, worker.rs, shutdown_mode.rs}).

One acceptor thread, `n` worker threads, any number of connections (named by `Nat`s). Every
scheduling-relevant action of the Rust code is one `Event`; `step` says whether the event is possible
in a state and what it does. A *schedule* is an arbitrary event list; `run` replays it. The
`cfg(pavex_verif)` trace points in the Rust code emit exactly this alphabet, so a recorded execution of
the real server is a run of `step` iff the code behaves as modelled (trace conformance).

What is pavex and what is assumed: the acceptor / worker / channel logic is pavex's own code and is
modelled action by action. tokio's channels (`try_send` = `Full` iff the bounded queue is at capacity,
`Closed` iff the receiver closed; FIFO; `close()` then `recv()` drains what was queued), timers
(a timeout can fire at any time) and hyper(-util)'s `GracefulShutdown` (a watched connection that is
polled for the first time after the signal is dropped unread — `cancelled`; an idle one starts no new
request after the signal; `shutdown()` completes when every watched connection is gone) are ASSUMED to
behave as the guards below say; the conformance run validates, but does not prove, those guards.

Import-free.
-/
namespace Pxv.Server

/-- `ShutdownMode` (shutdown_mode.rs). -/
inductive Mode where
  | graceful
  | forced
  deriving Repr, DecidableEq

/-- Result of `WorkerHandle::dispatch` = `mpsc::Sender::try_send`. -/
inductive DRes where
  | ok
  | full
  | closed
  deriving Repr, DecidableEq

/-- How a `tokio::time::timeout(..)` wait ended. -/
inductive WaitRes where
  | complete   -- the awaited future finished (acceptor: all workers done; worker: all connections gone)
  | timeout
  deriving Repr, DecidableEq

/-- Life cycle of one connection. -/
inductive CPhase where
  | unseen     -- not yet returned by `accept()`
  | accepted   -- taken by the acceptor (`AcceptorInboxMessage::Connection`), being dispatched
  | queued     -- sitting in a worker's `connection_inbox`
  | spawned    -- `Worker::handle_connection` ran: task spawned on the worker's `LocalSet`, never polled yet
  | idle       -- task polled at least once before the shutdown signal; no handler in flight
  | inflight   -- the request handler is running
  | doomed     -- first polled after the signal: hyper-util cancels it (`ReadVersion::cancel`) unread
  | ended      -- task finished, or dropped with the worker's `LocalSet`
  | dropped    -- acceptor: "All workers are busy, dropping connection"
  deriving Repr, DecidableEq

structure Conn where
  phase : CPhase := .unseen
  worker : Nat := 0
  /-- number of handler invocations / completions on this connection -/
  begun : Nat := 0
  /-- handler completions whose response could still be written (see `hEnd`) -/
  served : Nat := 0
  /-- history: the connection was first polled only after the shutdown signal (request never read) -/
  cancelled : Bool := false
  completed : Bool := false
  deriving Repr, DecidableEq

/-- Where `Worker::run` (worker.rs) is. -/
inductive WPhase where
  | running    -- in `'event_loop`, awaiting `poll_inboxes`
  | closing    -- took a `Graceful` command, before `connection_inbox.close()`
  | draining   -- in `while let Some(c) = connection_inbox.recv().await`
  | drained    -- drain loop finished (at the `yield_now().await`)
  | waiting    -- in `timeout(t, shutdown_coordinator.shutdown())`: signal sent
  | finishing  -- about to `completion_notifier.send(())`
  | exited
  deriving Repr, DecidableEq

structure Worker where
  phase : WPhase := .running
  /-- `connection_inbox` (bounded mpsc), oldest first -/
  queue : List Nat := []
  closed : Bool := false
  /-- `shutdown_inbox` (unbounded mpsc) -/
  cmds : List Mode := []
  /-- history: connections successfully `try_send`-ed to this worker / handed to `handle_connection` -/
  dispatched : List Nat := []
  started : List Nat := []
  /-- the drain loop of the Graceful arm found at least one queued connection -/
  drainedAny : Bool := false
  signalled : Bool := false
  timedOut : Bool := false
  forced : Bool := false
  notified : Bool := false
  deriving Repr, DecidableEq

/-- Where `Acceptor::run` / `Acceptor::shutdown` (server_handle.rs) is. -/
inductive APhase where
  | listening
  | sending (m : Mode) (i : Nat)   -- in the `for worker_handle in worker_handles` loop, `i` commands sent
  | waiting                        -- in `timeout(t, join all workers)`
  | finishing                      -- about to `completion_notifier.send(())`
  | notified
  | exited                         -- `run` returned: `command_inbox` dropped
  deriving Repr, DecidableEq

structure Acc where
  phase : APhase := .listening
  /-- `next_worker` -/
  next : Nat := 0
  /-- connection taken from the join set and not yet handed over / dropped; tries so far -/
  cur : Option Nat := none
  tries : Nat := 0
  /-- `ServerHandle::shutdown` calls whose command has not been consumed -/
  calls : List Mode := []
  /-- some command is certainly in `command_inbox` (its `send` has returned) -/
  cmdVisible : Bool := false
  mode : Option Mode := none
  timedOut : Bool := false
  resolved : Bool := false
  returned : Nat := 0
  handleDone : Bool := false
  deriving Repr, DecidableEq

structure State where
  acc : Acc := {}
  w : Nat → Worker := fun _ => {}
  c : Nat → Conn := fun _ => {}

/-- When does `Worker::run` yield to its `LocalSet` (`tokio::task::yield_now().await`) between the drain
    loop and `GracefulShutdown::shutdown()`? -/
inductive YieldPolicy where
  | never       -- the code before the `fix:` commit
  | ifDrained   -- only when the drain loop found something queued ("no need to go through the scheduler
                -- if the queue was empty"): overlooks connections spawned by the REGULAR loop
  | always      -- the `fix:` commit: unconditionally
  deriving Repr, DecidableEq

/-- `n` = `ServerConfiguration::n_workers`; `cap` = `max_queue_length` (15 in `Acceptor::new`);
    `yieldPolicy` = when the worker yields to its `LocalSet` between the drain loop and the signal. -/
structure Cfg where
  n : Nat
  cap : Nat := 15
  yieldPolicy : YieldPolicy := .always
  deriving Repr, DecidableEq

/-- Does worker `W`, at the end of its drain loop, yield before it signals? One yield lets every task
    already spawned on the worker's `LocalSet` be polled once (ASSUMED of tokio). -/
def Cfg.yields (cfg : Cfg) (W : Worker) : Bool :=
  match cfg.yieldPolicy with
  | .never => false
  | .ifDrained => W.drainedAny
  | .always => true

inductive Event where
  -- the caller
  | call (m : Mode)            -- `ServerHandle::shutdown(m)` entered
  | cmdSent                    -- its `command_outbox.send(..).await` returned Ok
  | returned                   -- the `shutdown` future resolved
  | handleDone                 -- `ServerHandle::into_future` resolved
  -- the acceptor
  | accept (c : Nat)           -- `poll_inboxes` returned a connection
  | dispatch (c w : Nat) (r : DRes)
  | dropConn (c : Nat)
  | accShutdown (m : Mode)     -- `poll_inboxes` returned the shutdown command
  | accSend (w : Nat)          -- `worker_handle.shutdown(mode)`: command enqueued
  | accWaitStart
  | accWaitEnd (r : WaitRes)
  | accNotify
  | accExit
  -- worker `w`
  | wRecv (w c : Nat)          -- `poll_inboxes` returned a connection; `handle_connection`
  | wShutdown (w : Nat) (m : Mode)
  | wClose (w : Nat)           -- `connection_inbox.close()`
  | wDrain (w c : Nat)         -- drain loop: `recv()` returned a connection; `handle_connection`
  | wDrainEnd (w : Nat)        -- drain loop: `recv()` returned `None`
  | wSignal (w : Nat)          -- `shutdown_coordinator.shutdown()` polled: signal sent
  | wWaitEnd (w : Nat) (r : WaitRes)
  | wNotify (w : Nat)          -- `completion_notifier.send(())`, then the thread exits
  -- connection tasks (hyper) and the request handler
  | cPoll (c : Nat)            -- first poll of the task
  | hBegin (c r : Nat)         -- handler invoked for the `r`-th request on `c`
  | hEnd (c r : Nat)
  | cEnd (c : Nat) (ok : Bool) -- task gone; `ok` = the connection future ran to completion
  deriving Repr, DecidableEq

def State.setAcc (s : State) (a : Acc) : State := { s with acc := a }
def State.setW (s : State) (i : Nat) (x : Worker) : State :=
  { s with w := fun j => if j = i then x else s.w j }
def State.setC (s : State) (i : Nat) (x : Conn) : State :=
  { s with c := fun j => if j = i then x else s.c j }

/-- Is every connection in `l` out of the way? -/
def allPhase (s : State) (p : CPhase → Bool) (l : List Nat) : Bool := l.all fun c => p (s.c c).phase

def allNotified (s : State) (n : Nat) : Bool := (List.range n).all fun w => (s.w w).notified

/-- The thread of the worker serving `c` is still there. -/
def workerAlive (s : State) (c : Nat) : Bool := (s.w (s.c c).worker).phase != .exited

/-- `handle_connection` for `c` on worker `w` (spawn the task); `drain`: called from the drain loop. -/
def startConn (s : State) (w c : Nat) (rest : List Nat) (drain : Bool := false) : State :=
  let W := s.w w
  (s.setW w { W with queue := rest, started := W.started ++ [c], drainedAny := W.drainedAny || drain }).setC c
    { s.c c with phase := .spawned, worker := w }

/-- One transition. `none`: the event cannot happen in this state. -/
def step (cfg : Cfg) (s : State) : Event → Option State
  | .call m => some (s.setAcc { s.acc with calls := s.acc.calls ++ [m] })
  | .cmdSent => some (s.setAcc { s.acc with cmdVisible := true })
  | .returned =>
    if s.acc.resolved = true then some (s.setAcc { s.acc with returned := s.acc.returned + 1 }) else none
  | .handleDone =>
    if s.acc.phase = .exited then some (s.setAcc { s.acc with handleDone := true }) else none
  -- Acceptor::poll_inboxes: command inbox first, then the join set of accept tasks
  | .accept c =>
    if s.acc.phase = .listening ∧ s.acc.cur = none ∧ s.acc.cmdVisible = false ∧ (s.c c).phase = .unseen then
      some ((s.setAcc { s.acc with cur := some c, tries := 0 }).setC c { s.c c with phase := .accepted })
    else none
  -- the `for _ in 0..n_workers` loop of Acceptor::run
  | .dispatch c w r =>
    if s.acc.phase = .listening ∧ s.acc.cur = some c ∧ s.acc.tries < cfg.n ∧ w = s.acc.next ∧ w < cfg.n then
      let W := s.w w
      match r with
      | .ok =>
        if W.closed = false ∧ W.queue.length < cfg.cap then
          some (((s.setAcc { s.acc with cur := none }).setW w
            { W with queue := W.queue ++ [c], dispatched := W.dispatched ++ [c] }).setC c
            { s.c c with phase := .queued, worker := w })
        else none
      | .full =>
        if W.closed = false ∧ cfg.cap ≤ W.queue.length then
          some (s.setAcc { s.acc with next := (s.acc.next + 1) % cfg.n, tries := s.acc.tries + 1 })
        else none
      | .closed =>
        -- the worker is gone: it is replaced by a fresh one
        if W.closed = true then
          some ((s.setAcc { s.acc with next := (s.acc.next + 1) % cfg.n, tries := s.acc.tries + 1 }).setW w {})
        else none
    else none
  | .dropConn c =>
    if s.acc.phase = .listening ∧ s.acc.cur = some c ∧ s.acc.tries = cfg.n then
      some ((s.setAcc { s.acc with cur := none }).setC c { s.c c with phase := .dropped })
    else none
  | .accShutdown m =>
    if s.acc.phase = .listening ∧ s.acc.cur = none ∧ m ∈ s.acc.calls then
      some (s.setAcc { s.acc with phase := .sending m 0, calls := s.acc.calls.erase m, mode := some m })
    else none
  -- Acceptor::shutdown
  | .accSend w =>
    match s.acc.phase with
    | .sending m i =>
      if w = i ∧ i < cfg.n then
        some ((s.setAcc { s.acc with phase := .sending m (i + 1) }).setW w
          { s.w w with cmds := (s.w w).cmds ++ [m] })
      else none
    | _ => none
  | .accWaitStart =>
    if s.acc.phase = .sending .graceful cfg.n then some (s.setAcc { s.acc with phase := .waiting }) else none
  | .accWaitEnd r =>
    if s.acc.phase = .waiting ∧ (r = .complete → allNotified s cfg.n = true) then
      some (s.setAcc { s.acc with phase := .finishing, timedOut := decide (r = .timeout) })
    else none
  | .accNotify =>
    if s.acc.phase = .finishing ∨ s.acc.phase = .sending .forced cfg.n then
      some (s.setAcc { s.acc with phase := .notified, resolved := true })
    else none
  | .accExit =>
    if s.acc.phase = .notified then some (s.setAcc { s.acc with phase := .exited }) else none
  -- Worker::poll_inboxes: shutdown inbox first, then the connection inbox
  | .wRecv w c =>
    match (s.w w).queue with
    | c' :: rest =>
      if w < cfg.n ∧ (s.w w).phase = .running ∧ (s.w w).cmds = [] ∧ c' = c then some (startConn s w c rest)
      else none
    | [] => none
  | .wShutdown w m =>
    match (s.w w).cmds with
    | m' :: rest =>
      if w < cfg.n ∧ (s.w w).phase = .running ∧ m' = m then
        some (s.setW w { s.w w with cmds := rest, forced := decide (m = .forced),
                                     phase := if m = .graceful then .closing else .finishing })
      else none
    | [] => none
  -- Worker::run, the Graceful arm
  | .wClose w =>
    if (s.w w).phase = .closing then some (s.setW w { s.w w with phase := .draining, closed := true }) else none
  | .wDrain w c =>
    match (s.w w).queue with
    | c' :: rest => if (s.w w).phase = .draining ∧ c' = c then some (startConn s w c rest true) else none
    | [] => none
  | .wDrainEnd w =>
    if (s.w w).phase = .draining ∧ (s.w w).queue = [] then some (s.setW w { s.w w with phase := .drained })
    else none
  | .wSignal w =>
    if (s.w w).phase = .drained ∧
        (cfg.yields (s.w w) = true → allPhase s (fun p => p != .spawned) (s.w w).started = true) then
      some (s.setW w { s.w w with phase := .waiting, signalled := true })
    else none
  | .wWaitEnd w r =>
    if (s.w w).phase = .waiting ∧ (r = .complete → allPhase s (fun p => p == .ended) (s.w w).started = true) then
      some (s.setW w { s.w w with phase := .finishing, timedOut := decide (r = .timeout) })
    else none
  | .wNotify w =>
    if (s.w w).phase = .finishing then
      some (s.setW w { s.w w with phase := .exited, notified := true, closed := true })
    else none
  -- connection tasks
  | .cPoll c =>
    if (s.c c).phase = .spawned ∧ workerAlive s c = true then
      if (s.w (s.c c).worker).signalled = true then
        some (s.setC c { s.c c with phase := .doomed, cancelled := true })
      else some (s.setC c { s.c c with phase := .idle })
    else none
  | .hBegin c r =>
    if (s.c c).phase = .idle ∧ r = (s.c c).begun ∧ (s.w (s.c c).worker).signalled = false ∧ workerAlive s c = true then
      some (s.setC c { s.c c with phase := .inflight, begun := (s.c c).begun + 1 })
    else none
  | .hEnd c r =>
    if (s.c c).phase = .inflight ∧ r + 1 = (s.c c).begun ∧ workerAlive s c = true then
      -- every connection's socket is registered with the I/O driver of the ACCEPTOR's runtime
      -- (`incoming.accept()` runs there); once `Acceptor::run` has returned that runtime is dropped and
      -- the response can no longer be written
      some (s.setC c { s.c c with phase := .idle,
                                  served := (s.c c).served + (if s.acc.phase = .exited then 0 else 1) })
    else none
  | .cEnd c ok =>
    let p := (s.c c).phase
    if (ok = true → (p = .idle ∨ p = .inflight ∨ p = .doomed) ∧ workerAlive s c = true) ∧
       (ok = false → (p = .spawned ∨ p = .idle ∨ p = .inflight ∨ p = .doomed) ∧ workerAlive s c = false) then
      some (s.setC c { s.c c with phase := .ended, completed := ok })
    else none

/-- Replay a schedule. -/
def run (cfg : Cfg) (s : State) : List Event → Option State
  | [] => some s
  | e :: es =>
    match step cfg s e with
    | some s' => run cfg s' es
    | none => none

def init : State := {}

/-- Index of the first event that cannot happen (for the conformance report). -/
def firstBad (cfg : Cfg) (s : State) : List Event → Nat → Option Nat
  | [], _ => none
  | e :: es, i =>
    match step cfg s e with
    | some s' => firstBad cfg s' es (i + 1)
    | none => some i

end Pxv.Server
