import Pxv.Model.Matchit
import Pxv.Model.Domain
/-
C07 — routing.  Executable model of

* the blueprint walk that turns registrations into routing components
  (compiler/pavexc/src/compiler/analyses/user_components/blueprint.rs: `process_blueprint`,
  `_process_blueprint`, `process_route`, `process_fallback`, `process_nesting_constraints`,
  `validate_route_path`; annotations/coordinates.rs: the route path is appended to the prefix),
* the accept/reject decision and the routing tables of
  compiler/pavexc/src/compiler/analyses/user_components/router.rs (`Router::new`,
  `DomainRouter::new`, `detect_domain_conflicts`, `PathRouter::new`, `detect_method_conflicts`,
  `detect_path_conflicts`, `assign_fallbacks`, `check_method_not_allowed_fallbacks`,
  `ScopeBasedFallbackTree::find_fallback_id`), route_path.rs (`RoutePath::parse`),
* the generated dispatch of compiler/pavexc/src/compiler/codegen/router.rs (`route_mappings`,
  `path_router_init`, `path_router`, `domain_router_init`, `domain_router`),
* runtime/pavex/src/router (`MethodAllowList::allow_header_value`, `default_fallback`),

on top of the `matchit` model (Pxv/Model/Matchit.lean) and the domain-guard model
(Pxv/Model/Domain.lean).  Strings are `List Char`; HTTP methods are `String`s.
-/
namespace Pxv.Router

open Pxv.Matchit

/-! ## Blueprints -/

/-- `pavex_bp_schema::MethodGuard` (`Some` holds a `BTreeSet<String>`). -/
inductive MGuard where
  | any
  | some (ms : List String)
  deriving Repr, DecidableEq

/-- The registrations that matter for routing. `route h g path`: `bp.route(H)` for a handler
    annotated with method guard `g` and path `path`; `fallback f`: `bp.fallback(F)`;
    `nest pfx dom ops`: `bp.prefix(pfx).domain(dom).nest(nested)`. -/
inductive Op where
  | route (h : Nat) (g : MGuard) (path : List Char)
  | fallback (f : Nat)
  | nest (pfx : Option (List Char)) (dom : Option (List Char)) (ops : List Op)
  deriving Repr

/-- A scope of the scope graph, as the path leading to it from the root scope. -/
abbrev Scope := List Nat

/-- `UserComponent::RequestHandler` with its (finalised) `RouterKey` and its own scope. -/
structure Handler where
  id : Nat
  h : Nat
  guard : MGuard
  path : List Char
  dom : Option (List Char)
  scope : Scope
  deriving Repr, DecidableEq

/-- `UserComponent::Fallback`; `f = none` is the framework's `DEFAULT_FALLBACK`. `bp` is the scope
    of the blueprint it was registered against (the parent of its own scope `scope`). -/
structure Fb where
  id : Nat
  f : Option Nat
  pfx : Option (List Char)
  dom : Option (List Char)
  bp : Scope
  scope : Scope
  deriving Repr, DecidableEq

inductive Comp where
  | handler (x : Handler)
  | fallback (x : Fb)
  deriving Repr, DecidableEq

/-- Why a blueprint is refused (or the compiler crashes). -/
inductive Reject where
  | routePath | prefixInvalid | domainInvalid | mixedDomains
  | methodConflict | pathConflict | fallbackAmbiguity | methodFallbackAmbiguity | domainConflict
  | runtimeOrder | fallbackPath
  | panic
  deriving Repr, DecidableEq

/-- State of the blueprint walk: components interned so far (in id order), next scope-node id,
    the domain guards in the order they were first seen (`domain_guard2locations: IndexMap`),
    and the first diagnostic, if any. -/
structure St where
  comps : List Comp := []
  nextScope : Nat := 1
  doms : List (List Char) := []
  err : Option Reject := none
  deriving Repr

def St.fail (st : St) (e : Reject) : St := if st.err.isSome then st else { st with err := some e }

/-- A nested blueprint waiting in `processing_queue`. -/
structure Item where
  parent : Scope
  pfx : Option (List Char)
  dom : Option (List Char)
  nbPfx : Option (List Char)
  nbDom : Option (List Char)
  ops : List Op

/-- `validate_route_path`: the path of a route is empty or starts with `/`. -/
def checkRoutePath (path : List Char) (st : St) : St :=
  if path ≠ [] ∧ path.head? ≠ some '/' then st.fail .routePath else st

/-- `process_route`: intern the request handler (its own scope below the blueprint's) with the
    prefix already in front of its path (`router_key.path = format!("{}{}", prefix, path)`). -/
def addHandler (st : St) (h : Nat) (g : MGuard) (full : List Char) (dom : Option (List Char)) (scope : Scope) : St :=
  { st with comps := st.comps ++ [.handler { id := st.comps.length, h := h, guard := g, path := full, dom := dom,
                                               scope := scope ++ [st.nextScope] }],
            nextScope := st.nextScope + 1 }

/-- The `for component in &bp.components` loop of `_process_blueprint`: routes are interned in
    order, the *last* fallback wins, nested blueprints are pushed on the shared queue. -/
def procOps : List Op → Scope → Option (List Char) → Option (List Char) → St → Option Nat → List Item →
    St × Option Nat × List Item
  | [], _, _, _, st, fb, q => (st, fb, q)
  | .route h g path :: ops, scope, dom, pfx, st, fb, q =>
    procOps ops scope dom pfx (addHandler (checkRoutePath path st) h g (pfx.getD [] ++ path) dom scope) fb q
  | .fallback f :: ops, scope, dom, pfx, st, _, q => procOps ops scope dom pfx st (some f) q
  | .nest p d nops :: ops, scope, dom, pfx, st, fb, q =>
    procOps ops scope dom pfx st fb (q ++ [{ parent := scope, pfx := pfx, dom := dom, nbPfx := p, nbDom := d, ops := nops }])

/-- `_process_blueprint`: the loop, then the blueprint's fallback (the root always has one). -/
def procBp (ops : List Op) (scope : Scope) (dom pfx : Option (List Char)) (isRoot : Bool) (st : St) (q : List Item) :
    St × List Item :=
  let (st, fb, q) := procOps ops scope dom pfx st none q
  let fbReg : Option (Option Nat) := match fb with
    | some f => some (some f)
    | none => if isRoot then some none else none
  match fbReg with
  | none => (st, q)
  | some f =>
    let x : Fb := { id := st.comps.length, f := f, pfx := pfx, dom := dom, bp := scope, scope := scope ++ [st.nextScope] }
    ({ st with comps := st.comps ++ [.fallback x], nextScope := st.nextScope + 1 }, q)

/-- `process_nesting_constraints`: the prefix must be non-empty, start with `/` and not end with
    `/`; the domain must be a valid guard (stored normalised). -/
def nestingConstraints (p d : Option (List Char)) : Except Reject (Option (List Char) × Option (List Char)) :=
  let pOk := match p with
    | none => true
    | some s => s ≠ [] && s.head? == some '/' && s.getLast? != some '/'
  if !pOk then .error .prefixInvalid
  else match d with
    | none => .ok (p, none)
    | some g => match Pxv.Domain.guardNew g with
      | .ok n => .ok (p, some n)
      | .error _ => .error .domainInvalid

/-- `format!("{}{}", parent_prefix, current_prefix)`: prefixes are concatenated in nesting order. -/
def joinPrefix (parent cp : Option (List Char)) : Option (List Char) :=
  match parent with
  | some pre => some (pre ++ cp.getD [])
  | none => cp

/-- The domain guard of a nested blueprint replaces the enclosing one. -/
def innerDomain (parent cd : Option (List Char)) : Option (List Char) :=
  match cd with
  | some g => some g
  | none => parent

/-- `aux.domain_guard2locations.entry(guard)`: first-seen order of the domain guards. -/
def St.noteDomain (st : St) (cd : Option (List Char)) : St :=
  match cd with
  | some g => if st.doms.contains g then st else { st with doms := st.doms ++ [g] }
  | none => st

/-- The `while let Some(item) = processing_queue.pop()` loop of `process_blueprint` (LIFO). -/
def procQueue : Nat → List Item → St → St
  | 0, _, st => st
  | fuel + 1, q, st =>
    match q.getLast? with
    | none => st
    | some it =>
      let nested : Scope := it.parent ++ [st.nextScope]
      let st := { st with nextScope := st.nextScope + 1 }
      match nestingConstraints it.nbPfx it.nbDom with
      | .error e => procQueue fuel q.dropLast (st.fail e)
      | .ok (cp, cd) =>
        let r := procBp it.ops nested (innerDomain it.dom cd) (joinPrefix it.pfx cp) false (st.noteDomain cd) q.dropLast
        procQueue fuel r.2 r.1

mutual
/-- Number of nested blueprints (bounds the queue loop). -/
def Op.nests : Op → Nat
  | .nest _ _ ops => 1 + nestsList ops
  | _ => 0
def nestsList : List Op → Nat
  | [] => 0
  | o :: os => o.nests + nestsList os
end

/-- `process_blueprint`. -/
def processBlueprint (ops : List Op) : St :=
  let (st, q) := procBp ops [] none none true {} []
  procQueue (nestsList ops + 1) q st

/-! ## Scopes and fallbacks -/

def handlersOf (cs : List Comp) : List Handler := cs.filterMap (fun c => match c with | .handler x => some x | _ => none)
def fallbacksOf (cs : List Comp) : List Fb := cs.filterMap (fun c => match c with | .fallback x => some x | _ => none)

def Comp.scope : Comp → Scope
  | .handler x => x.scope
  | .fallback x => x.scope

/-- `ScopeBasedFallbackTree::find_fallback_id`: the fallback of the deepest blueprint that has one
    and encloses the scope. -/
def scopeFallback (fbs : List Fb) (s : Scope) : Option Fb :=
  fbs.foldl (fun best fb =>
    if fb.bp.isPrefixOf s then
      match best with
      | none => some fb
      | some b => if fb.bp.length ≥ b.bp.length then some fb else some b
    else best) none

def commonPrefix : Scope → Scope → Scope
  | a :: as, b :: bs => if a = b then a :: commonPrefix as bs else []
  | _, _ => []

/-- `ScopeGraph::find_common_ancestor`. -/
def commonAncestor : List Scope → Scope
  | [] => []
  | s :: ss => ss.foldl commonPrefix s

/-! ## `RoutePath::parse` and the path of a prefix-based fallback -/

structure Param where
  start : Nat
  stop : Nat
  catchAll : Bool
  deriving Repr, DecidableEq

/-- The scanner of `RoutePath::parse`: `(index, char)` pairs, `skip` = the next character was
    already consumed through `chars.peek()`/`chars.next()` (second brace of `{{`/`}}`, the `*` of a
    catch-all), `inside` = `inside_braces`, `cur` = `current_param` (start, catch-all, name).
    Returns name ↦ details in `IndexMap` order. -/
def parseParams : List (Nat × Char) → Bool → Bool → Nat × Bool × List Char → List (List Char × Param) → List (List Char × Param)
  | [], _, _, _, acc => acc
  | _ :: rest, true, inside, cur, acc => parseParams rest false inside cur acc
  | (pos, c) :: rest, false, inside, cur, acc =>
    let nxt := rest.head?.map (·.2)
    if c = '{' then
      if nxt = some '{' then parseParams rest true inside cur acc
      else if nxt = some '*' then parseParams rest true true (pos, true, []) acc
      else parseParams rest false true (pos, false, []) acc
    else if c = '}' then
      if nxt = some '}' then parseParams rest true inside cur acc
      else if inside then
        let info : Param := { start := cur.1, stop := pos, catchAll := cur.2.1 }
        let acc := if acc.any (fun e => e.1 == cur.2.2)
          then acc.map (fun e => if e.1 == cur.2.2 then (e.1, info) else e)
          else acc ++ [(cur.2.2, info)]
        parseParams rest false false cur acc
      else parseParams rest false inside cur acc
    else
      if inside then parseParams rest false inside (cur.1, cur.2.1, cur.2.2 ++ [c]) acc
      else parseParams rest false inside cur acc

def routeParams (raw : List Char) : List (List Char × Param) :=
  parseParams ((List.range raw.length).zip raw) false false (0, false, []) []

def catchAllSuffix : List Char := "{*catch_all}".toList

/-- `assign_fallbacks`: the catch-all route registered for a blueprint nested at `prefix` that has a
    fallback; `none` when the prefix itself ends with a catch-all parameter. -/
def fallbackPath (pfx : List Char) : Option (List Char) :=
  match (routeParams pfx).getLast? with
  | some (_, d) =>
    if pfx.length - 1 = d.stop then
      if d.catchAll then none
      else some (pfx.take (pfx.length - (d.stop - d.start + 1)) ++ catchAllSuffix)
    else some (pfx ++ catchAllSuffix)
  | none => some (pfx ++ catchAllSuffix)

/-! ## `PathRouter::new` -/

/-- `METHODS` (router.rs) = `WELL_KNOWN_METHODS` (codegen/router.rs). -/
def wellKnown : List String := ["GET", "POST", "PUT", "DELETE", "PATCH", "HEAD", "OPTIONS", "CONNECT", "TRACE"]

def MGuard.admits (g : MGuard) (m : String) : Bool :=
  match g with
  | .any => true
  | .some ms => ms.contains m

def MGuard.listed (g : MGuard) : List String :=
  match g with
  | .any => []
  | .some ms => ms

/-- `detect_method_conflicts`: for every path and every method that is well-known or named by a
    guard registered for that path, at most one handler may accept it. -/
def methodConflict (hs : List Handler) : Bool :=
  hs.any (fun a =>
    let group := hs.filter (fun b => b.path == a.path)
    let methods := wellKnown ++ group.flatMap (fun b => b.guard.listed)
    methods.any (fun m => (group.filter (fun b => b.guard.admits m)).length > 1))

/-- `detect_path_conflicts`: build the router from the handlers' paths, in id order; the same path
    twice is fine. -/
def insertPaths : List (List Char) → Nat → Router → Except InsErr Router
  | [], _, r => .ok r
  | p :: ps, i, r =>
    match r.insert p i with
    | .ok r' => insertPaths ps (i + 1) r'
    | .error e => if e = .conflict ∧ r.selfConflict p then insertPaths ps (i + 1) r else .error e

/-- A path-based fallback: the catch-all path and the fallback it leads to. -/
structure PathFb where
  path : List Char
  fb : Fb
  deriving Repr

/-- First loop of `assign_fallbacks`: the catch-all path of every prefixed fallback is inserted into
    (a clone of) the validation router; a `Conflict` means a user route already plays that role.
    The second router holds just the catch-all paths (`insert(..).unwrap()`). -/
def fallbackPaths : List Fb → Router → Router → List PathFb → Except Reject (List PathFb × Router)
  | [], _, pr, acc => .ok (acc, pr)
  | fb :: fbs, vr, pr, acc =>
    match fb.pfx with
    | none => fallbackPaths fbs vr pr acc
    | some p =>
      match fallbackPath p with
      | none => fallbackPaths fbs vr pr acc
      | some fp =>
        match vr.insert fp 0 with
        | .error .conflict => fallbackPaths fbs vr pr acc
        | .error .tooManyParams => .error .panic
        | .error _ => .error .fallbackPath
        | .ok vr' =>
          match pr.insert fp acc.length with
          | .error _ => .error .panic
          | .ok pr' => fallbackPaths fbs vr' pr' (acc ++ [{ path := fp, fb := fb }])

/-- Second loop of `assign_fallbacks`: the fallback of each handler, `none` if path-based and
    scope-based fallbacks disagree (a diagnostic). -/
def handlerFallback (fbsAll : List Fb) (pfbs : List PathFb) (pr : Router) (h : Handler) : Option Fb :=
  match scopeFallback fbsAll h.scope with
  | none => none
  | some sf =>
    match (pr.at h.path).bind (fun i => pfbs[i]?) with
    | none => some sf
    | some pf =>
      if pf.fb.id = sf.id then some pf.fb
      else if pf.fb.bp.isPrefixOf sf.bp then some sf
      else none

/-- `check_method_not_allowed_fallbacks`: handlers (with a finite method guard) whose paths land on
    the same entry of the method-aware router must share their fallback. `groups` = route id ↦
    fallback ids seen. -/
def methodFallbackCheck : List (Handler × Fb) → Router → List (Nat × List Nat) → Except Reject Unit
  | [], _, groups => if groups.any (fun g => g.2.length > 1) then .error .methodFallbackAmbiguity else .ok ()
  | (h, fb) :: rest, r, groups =>
    match h.guard with
    | .any => methodFallbackCheck rest r groups
    | .some _ =>
      let add (rid : Nat) (groups : List (Nat × List Nat)) : List (Nat × List Nat) :=
        if groups.any (fun g => g.1 = rid) then
          groups.map (fun g => if g.1 = rid then (g.1, if g.2.contains fb.id then g.2 else g.2 ++ [fb.id]) else g)
        else groups ++ [(rid, [fb.id])]
      match r.at h.path with
      | some rid => methodFallbackCheck rest r (add rid groups)
      | none =>
        let rid := groups.length
        match r.insert h.path rid with
        | .error _ => .error .panic
        | .ok r' => methodFallbackCheck rest r' (add rid groups)

/-- Who runs when a table entry is hit: a request handler or a fallback. -/
inductive Target where
  | handler (h : Nat)
  | fallback (f : Option Nat)
  deriving Repr, DecidableEq

/-- `LeafRouter` / `CodegenMethodRouter`: the method arms (component id, handler, methods) in
    component-id order and what runs when no arm matches. -/
structure Leaf where
  path : List Char
  arms : List (Nat × Nat × List String)
  fb : Target
  deriving Repr, DecidableEq

/-- `BTreeMap<String, LeafRouter>::entry(path)`: the map is kept as an association list with
    distinct keys (update the entry if the key is there, else add it); `sortLeaves` below gives the
    iteration order. -/
def leafUpsert (path : List Char) (mk : Leaf) (upd : Leaf → Leaf) : List Leaf → List Leaf
  | [] => [upd mk]
  | l :: ls => if l.path = path then upd l :: ls else l :: leafUpsert path mk upd ls

/-- One step of the loop that fills `path2method_router`. -/
def leafStep (x : Handler × Fb) (acc : List Leaf) : List Leaf :=
  match x.1.guard with
  | .any =>
    -- `insert(path, LeafRouter::new(*id))`: replaces whatever was there
    leafUpsert x.1.path { path := x.1.path, arms := [], fb := .handler x.1.h }
      (fun _ => { path := x.1.path, arms := [], fb := .handler x.1.h }) acc
  | .some ms =>
    -- `entry(path).or_insert_with(|| LeafRouter::new(fallback)).handler_id2methods.insert(id, methods)`
    leafUpsert x.1.path { path := x.1.path, arms := [], fb := .fallback x.2.f }
      (fun l => { l with arms := l.arms ++ [(x.1.id, x.1.h, ms)] }) acc

/-- The loop that fills `path2method_router` from the handlers (in id order). -/
def buildLeaves : List (Handler × Fb) → List Leaf → List Leaf
  | [], acc => acc
  | x :: rest, acc => buildLeaves rest (leafStep x acc)

/-- `for (path, fallback_id) in path_catchall2fallback_id { entry(path).or_insert_with(..) }`. -/
def addCatchAlls : List PathFb → List Leaf → List Leaf
  | [], acc => acc
  | p :: ps, acc => addCatchAlls ps (leafUpsert p.path { path := p.path, arms := [], fb := .fallback p.fb.f } id acc)

/-- Iteration order of the `BTreeMap`: keys ascending (byte order). -/
def insertLeaf (x : Leaf) : List Leaf → List Leaf
  | [] => [x]
  | l :: ls => if Pxv.Domain.ltChars x.path l.path then x :: l :: ls else l :: insertLeaf x ls

def sortLeaves (ls : List Leaf) : List Leaf := ls.foldr insertLeaf []

/-- The generated `fn router()`: `insert(path, route_id).unwrap()` for every key, in key order. -/
def runtimeInserts : List Leaf → Nat → Router → Except InsErr Router
  | [], _, r => .ok r
  | l :: ls, i, r =>
    match r.insert l.path i with
    | .ok r' => runtimeInserts ls (i + 1) r'
    | .error e => .error e

structure PathRouter where
  leaves : List Leaf
  rootFb : Option Nat
  deriving Repr, DecidableEq

/-- `PathRouter::new(component_ids, …)`; `fbsAll` = every fallback of the application (the
    scope-based fallback tree is global). -/
def PathRouter.new (comps : List Comp) (fbsAll : List Fb) : Except Reject PathRouter :=
  let hs := handlersOf comps
  let fbs := fallbacksOf comps
  match scopeFallback fbsAll (commonAncestor (comps.map Comp.scope)) with
  | none => .error .panic
  | some rootFb =>
    if methodConflict hs then .error .methodConflict
    else match insertPaths (hs.map (·.path)) 0 {} with
      | .error _ => .error .pathConflict
      | .ok vr =>
        match fallbackPaths fbs vr {} [] with
        | .error e => .error e
        | .ok (pfbs, pr) =>
          let assigned := hs.map (fun h => (h, handlerFallback fbsAll pfbs pr h))
          if assigned.any (fun a => a.2.isNone) then .error .fallbackAmbiguity
          else
            let hfs : List (Handler × Fb) := assigned.filterMap (fun a => a.2.map (fun fb => (a.1, fb)))
            match methodFallbackCheck hfs {} [] with
            | .error e => .error e
            | .ok () =>
              let leaves := sortLeaves (addCatchAlls pfbs (buildLeaves hfs []))
              -- the generated server inserts the keys in this order: it must succeed as well
              match runtimeInserts leaves 0 {} with
              | .error _ => .error .runtimeOrder
              | .ok _ => .ok { leaves := leaves, rootFb := rootFb.f }

/-! ## `Router::new` -/

structure DomainEntry where
  guard : List Char
  pattern : List Char
  router : PathRouter
  deriving Repr, DecidableEq

inductive Table where
  | agnostic (r : PathRouter)
  | domains (ds : List DomainEntry) (rootFb : Option Nat)
  deriving Repr, DecidableEq

def insertAllOk : List (List Char) → Nat → Router → Bool
  | [], _, _ => true
  | p :: ps, i, r =>
    match r.insert p i with
    | .ok r' => insertAllOk ps (i + 1) r'
    | .error _ => false

def compDom : Comp → Option (List Char)
  | .handler x => x.dom
  | .fallback x => x.dom

/-- `for (domain, components) in domain2components { PathRouter::new(&components, …)? }`. -/
def buildDomains (comps : List Comp) (fbsAll : List Fb) : List (List Char) → Except Reject (List DomainEntry)
  | [] => .ok []
  | g :: gs =>
    match PathRouter.new (comps.filter (fun c => compDom c = some g)) fbsAll with
    | .error e => .error e
    | .ok r =>
      match buildDomains comps fbsAll gs with
      | .error e => .error e
      | .ok ds => .ok ({ guard := g, pattern := Pxv.Domain.pattern g, router := r } :: ds)

/-- `Router::new`, `DomainRouter::new`. -/
def routerNew (st : St) : Except Reject Table :=
  let hs := handlersOf st.comps
  let fbsAll := fallbacksOf st.comps
  let anyDom := hs.any (fun h => h.dom.isSome)
  let anyAgn := hs.any (fun h => h.dom.isNone)
  if anyDom ∧ anyAgn then .error .mixedDomains
  else if !anyDom then
    match PathRouter.new st.comps fbsAll with
    | .error e => .error e
    | .ok r => .ok (.agnostic r)
  else
    -- `BTreeMap<DomainGuard, Vec<UserComponentId>>`
    let guards := (st.comps.filterMap compDom).foldl (fun acc g => Pxv.Domain.insertSorted g acc) []
    match scopeFallback fbsAll [] with
    | none => .error .panic
    | some rootFb =>
      match buildDomains st.comps fbsAll guards with
      | .error e => .error e
      | .ok ds =>
        -- `detect_domain_conflicts` (registration order), then the order the generated
        -- `domain_router()` uses
        if !insertAllOk (st.doms.map Pxv.Domain.pattern) 0 {} then .error .domainConflict
        else if !insertAllOk (ds.map (·.pattern)) 0 {} then .error .runtimeOrder
        else .ok (.domains ds rootFb.f)

/-- The verdict of the compiler on a blueprint, and the routing table it generates. -/
def compile (ops : List Op) : Except Reject Table :=
  let st := processBlueprint ops
  match st.err with
  | some e => .error e
  | none => routerNew st

/-! ## The generated dispatch -/

structure Request where
  method : String
  path : List Char
  host : Option (List Char)
  deriving Repr, DecidableEq

/-- What the generated `route` function invokes: a handler, or a fallback together with the
    `AllowedMethods` it is given (`[]` = `MethodAllowList::from_iter(vec![])`). -/
inductive Outcome where
  | handler (h : Nat)
  | fallback (f : Option Nat) (allowed : List String)
  deriving Repr, DecidableEq

def Leaf.allowed (l : Leaf) : List String := l.arms.flatMap (fun a => a.2.2)

/-- The `match &request_head.method { … }` of one route id. -/
def Leaf.dispatch (l : Leaf) (m : String) : Outcome :=
  match l.arms.find? (fun a => a.2.2.contains m) with
  | some a => .handler a.2.1
  | none =>
    match l.fb with
    | .handler h => .handler h
    | .fallback f => .fallback f l.allowed

def PathRouter.routes (r : PathRouter) : List (Nat × List Char) :=
  (List.range r.leaves.length).zip (r.leaves.map (·.path))

/-- The generated `route` (path level): `self.router.at(path)`, then the method arms. -/
def PathRouter.dispatch (r : PathRouter) (m : String) (path : List Char) : Outcome :=
  match atRoutes r.routes path with
  | none => .fallback r.rootFb []
  | some i =>
    match r.leaves[i]? with
    | some l => l.dispatch m
    | none => .fallback r.rootFb []

/-- `Authority::host()` on the header values we consider: no user-info, an optional `:port`. -/
def hostOf (h : List Char) : Option (List Char) :=
  if h.isEmpty then none else some (h.takeWhile (· ≠ ':'))

def Table.dispatch (t : Table) (req : Request) : Outcome :=
  match t with
  | .agnostic r => r.dispatch req.method req.path
  | .domains ds rootFb =>
    match req.host.bind hostOf with
    | none => .fallback rootFb []
    | some h =>
      match atRoutes ((List.range ds.length).zip (ds.map (·.pattern))) (Pxv.Domain.normHost h) with
      | none => .fallback rootFb []
      | some i =>
        match ds[i]? with
        | some d => d.router.dispatch req.method req.path
        | none => .fallback rootFb []

/-! ## Specification side: what it means for a table entry to match -/

def Leaf.toks (l : Leaf) : List Tok := Pxv.Matchit.toks l.path

/-- The entry's path pattern matches the request path (documented meaning: static text equal, a
    `{param}` takes a non-empty run inside one segment, followed by its static suffix, a trailing
    `{*param}` takes a non-empty rest). -/
def Leaf.Matches (l : Leaf) (path : List Char) : Prop := matchTok l.toks path = true

/-- The route set of the generated `matchit` router. -/
def PathRouter.rset (r : PathRouter) : RSet := r.routes.map (fun q => (q.1, Pxv.Matchit.toks q.2))

/-- `l` is an entry of `r` that matches `path` and is at least as specific as every other entry that
    matches it. -/
def MostSpecific (r : PathRouter) (l : Leaf) (path : List Char) : Prop :=
  l ∈ r.leaves ∧ l.Matches path ∧ ∀ l' ∈ r.leaves, l'.Matches path → specGE l.toks l'.toks = true

/-- The handlers registered for an entry that accept the method. -/
def Leaf.accepting (l : Leaf) (m : String) : List Nat :=
  (l.arms.filter (fun a => a.2.2.contains m)).map (fun a => a.2.1)

/-- The path routers of a table. -/
def Table.pathRouters : Table → List PathRouter
  | .agnostic r => [r]
  | .domains ds _ => ds.map (·.router)

def DomainEntry.toks (d : DomainEntry) : List Tok := Pxv.Matchit.toks d.pattern

/-- The route set of the generated `domain_router()`. -/
def domRset (ds : List DomainEntry) : RSet :=
  ((List.range ds.length).zip (ds.map (·.pattern))).map (fun q => (q.1, Pxv.Matchit.toks q.2))

/-- `d` is a domain entry whose pattern matches the (normalised) host and is at least as specific
    as every other one that does. -/
def MostSpecificDomain (ds : List DomainEntry) (d : DomainEntry) (host : List Char) : Prop :=
  d ∈ ds ∧ matchTok d.toks host = true ∧ ∀ d' ∈ ds, matchTok d'.toks host = true → specGE d.toks d'.toks = true

/-- What the property asks of the path level: the request is answered by the method arms of a most
    specific entry that matches the path; if no entry matches, by the router's root fallback, which
    is handed no allowed methods. -/
inductive Routed (r : PathRouter) (m : String) (path : List Char) : Outcome → Prop where
  | entry (l : Leaf) : MostSpecific r l path → Routed r m path (l.dispatch m)
  | none : (∀ l ∈ r.leaves, ¬ l.Matches path) → Routed r m path (.fallback r.rootFb [])

/-- … and of the whole table: with domain guards, the path router of a most specific guard that the
    `Host` fits decides; without a fitting guard (or without a usable `Host`), the top-level
    fallback. -/
inductive TableRouted : Table → Request → Outcome → Prop where
  | agnostic {r : PathRouter} {req : Request} {o : Outcome} :
      Routed r req.method req.path o → TableRouted (.agnostic r) req o
  | domain {ds : List DomainEntry} {f : Option Nat} {req : Request} {o : Outcome} {h : List Char} (d : DomainEntry) :
      req.host.bind hostOf = some h → MostSpecificDomain ds d (Pxv.Domain.normHost h) →
      Routed d.router req.method req.path o → TableRouted (.domains ds f) req o
  | noDomain {ds : List DomainEntry} {f : Option Nat} {req : Request} :
      (∀ h, req.host.bind hostOf = some h → ∀ d ∈ ds, matchTok d.toks (Pxv.Domain.normHost h) = false) →
      TableRouted (.domains ds f) req (.fallback f [])

/-- The side condition of the `matchit` model, for every router of the table. -/
def Table.NoNestedSuffix : Table → Prop
  | .agnostic r => Pxv.Matchit.NoNestedSuffix r.rset
  | .domains ds _ => Pxv.Matchit.NoNestedSuffix (domRset ds) ∧ ∀ d ∈ ds, Pxv.Matchit.NoNestedSuffix d.router.rset

/-- Decision procedure for `Table.NoNestedSuffix`. -/
def Table.noNestedSuffixB : Table → Bool
  | .agnostic r => Pxv.Matchit.noNestedSuffixB r.rset
  | .domains ds _ => Pxv.Matchit.noNestedSuffixB (domRset ds) && ds.all (fun d => Pxv.Matchit.noNestedSuffixB d.router.rset)

/-! ## `runtime/pavex/src/router` -/

/-- `MethodAllowList::allow_header_value`. -/
def allowHeader (ms : List String) : Option String :=
  if ms.isEmpty then none else some (",".intercalate ms)

/-- `default_fallback`: status and `Allow` header. -/
def defaultFallback (ms : List String) : Nat × Option String :=
  match allowHeader ms with
  | some v => (405, some v)
  | none => (404, none)

end Pxv.Router
