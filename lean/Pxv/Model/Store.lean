/-
Model of the two bundled session stores behind `SessionStorageBackend`
(runtime/sessions/pavex_session/src/store_.rs):

  * `InMemorySessionStore`  (runtime/sessions/pavex_session_memory_store/src/lib.rs), method by method;
  * `SqliteSessionStore`    (runtime/sessions/pavex_session_sqlx/src/sqlite.rs), statement by statement,
    each statement keyed by its SQL text (`sqlTexts`; the check re-extracts the texts from the Rust
    source on every run and fails if they differ);

and of the specification both are measured against: `MapWithExpiry` (`specStep`).

Time is explicit: every call happens at an instant `now : Nat` (memory: any unit, the store compares
full-precision timestamps; SQLite: milliseconds, the statements see `unixepoch() = now / 1000`).
Session states are opaque (`σ`): no store inspects them. Import-free.
-/
namespace Pxv.Store

/-- A stored record: `StoreRecord { state, deadline }` / a row `(deadline, state)` of `sessions`. -/
structure Rec (σ : Type) where
  state : σ
  deadline : Nat
  deriving Repr, DecidableEq

/-- The physical container: `HashMap<SessionId, StoreRecord>` / the table `sessions` with
    `id TEXT PRIMARY KEY`. An association list; `get` sees the first entry of an id and `put`/`erase`
    keep at most one (invariant `WF` in the lemmas). -/
abbrev Tbl (σ : Type) := List (Nat × Rec σ)

def get {σ} : Tbl σ → Nat → Option (Rec σ)
  | [], _ => none
  | (j, r) :: t, i => if j = i then some r else get t i

/-- `HashMap::remove` / `DELETE … WHERE id = ?`. -/
def erase {σ} (t : Tbl σ) (i : Nat) : Tbl σ := t.filter (fun p => p.1 != i)

/-- `HashMap::insert` (replaces) / an `INSERT` or `UPDATE` of the row with that primary key. -/
def put {σ} (t : Tbl σ) (i : Nat) (r : Rec σ) : Tbl σ := (i, r) :: erase t i

def keys {σ} (t : Tbl σ) : List Nat := t.map (·.1)

/-- Removes every listed id. -/
def eraseAll {σ} (t : Tbl σ) (ids : List Nat) : Tbl σ := t.filter (fun p => !ids.contains p.1)

def dedup : List Nat → List Nat
  | [] => []
  | x :: xs => x :: (dedup xs).filter (· != x)

/-- The order in which the container is traversed (`HashMap::iter` with a random hasher; a `SELECT …
    LIMIT` without `ORDER BY`): unknowable, hence a parameter. The ids of `ord` that are keys come
    first, in that order; the remaining keys follow. Always a permutation of the keys. -/
def iterOrder {σ} (t : Tbl σ) (ord : List Nat) : List Nat :=
  (dedup ord).filter (fun i => (get t i).isSome) ++ (dedup (keys t)).filter (fun i => !ord.contains i)

/-- The trait methods (`SessionStorageBackend`), TTLs in the backend's time unit. `deleteExpired`
    carries the traversal order as its (universally quantified) second argument. -/
inductive Op (σ : Type) where
  | create (id : Nat) (st : σ) (ttl : Nat)
  | update (id : Nat) (st : σ) (ttl : Nat)
  | updateTtl (id : Nat) (ttl : Nat)
  | load (id : Nat)
  | delete (id : Nat)
  | changeId (old new : Nat)
  | deleteExpired (batch : Option Nat) (ord : List Nat)
  deriving Repr, DecidableEq

/-- What a call answers, errors mapped to their kind. -/
inductive Res (σ : Type) where
  | ok
  | dup                                   -- `DuplicateIdError`
  | unknown                               -- `UnknownIdError`
  | loaded (r : Option (σ × Nat))         -- `Ok(Option<SessionRecord { state, ttl }>)`
  | deleted (n : Nat) (removed : List Nat) -- `Ok(n)`; `removed`: which ids physically went away
  deriving Repr, DecidableEq

/-! ## In-memory backend (lib.rs), one function per method -/

/-- `StoreRecord::is_stale`: `self.deadline <= Timestamp::now()`. -/
def memStale {σ} (now : Nat) (r : Rec σ) : Bool := decide (r.deadline ≤ now)

/-- `InMemorySessionStore::get_mut_if_fresh`. -/
def memFresh {σ} (t : Tbl σ) (now i : Nat) : Option (Rec σ) :=
  match get t i with
  | some r => if memStale now r then none else some r
  | none => none

/-- `InMemorySessionStore::_delete`: `guard.remove(id)` happens *before* the staleness test. -/
def memDelete {σ} (t : Tbl σ) (now i : Nat) : Tbl σ × Option (Rec σ) :=
  match get t i with
  | none => (t, none)
  | some r => (erase t i, if memStale now r then none else some r)

/-- Ids `delete_expired` collects: traversal order, `record.deadline <= now`, stop at `batch`. -/
def memStaleIds {σ} (t : Tbl σ) (now : Nat) (batch : Option Nat) (ord : List Nat) : List Nat :=
  let stale := (iterOrder t ord).filter (fun i => match get t i with
    | some r => memStale now r
    | none => false)
  match batch with
  | some b => stale.take b
  | none => stale

/-- `impl SessionStorageBackend for InMemorySessionStore`: the whole body runs under the mutex. -/
def memStep {σ} (now : Nat) (op : Op σ) (t : Tbl σ) : Tbl σ × Res σ :=
  match op with
  | .create i st ttl =>          -- fn create
    match memFresh t now i with
    | some _ => (t, .dup)
    | none => (put t i ⟨st, now + ttl⟩, .ok)
  | .update i st ttl =>          -- fn update
    match memFresh t now i with
    | some _ => (put t i ⟨st, now + ttl⟩, .ok)
    | none => (t, .unknown)
  | .updateTtl i ttl =>          -- fn update_ttl
    match memFresh t now i with
    | some r => (put t i ⟨r.state, now + ttl⟩, .ok)
    | none => (t, .unknown)
  | .load i =>                   -- fn load: ttl = deadline - now, clamped at 0
    match memFresh t now i with
    | some r => (t, .loaded (some (r.state, r.deadline - now)))
    | none => (t, .loaded none)
  | .delete i =>                 -- fn delete
    match memDelete t now i with
    | (t', some _) => (t', .ok)
    | (t', none) => (t', .unknown)
  | .changeId old new =>         -- fn change_id (after `fix:` — the old id is validated first)
    match memFresh t now old with
    | none => (t, .unknown)
    | some _ =>
      match memFresh t now new with
      | some _ => (t, .dup)
      | none =>
        match memDelete t now old with
        | (t', some r) => (put t' new r, .ok)
        | (t', none) => (t', .unknown)
  | .deleteExpired batch ord =>  -- fn delete_expired
    let ids := memStaleIds t now batch ord
    (eraseAll t ids, .deleted ids.length ids)

/-! ## SQLite backend (sqlite.rs), one function per SQL statement

`now` is in milliseconds; the statements only ever see `unixepoch() = now / 1000` and store
`deadline = (Timestamp::now() + ttl).as_second() = (now + ttl) / 1000`. -/

/-- The SQL texts this model was written for (whitespace-normalised), per trait method. -/
def sqlTexts : List (String × String) := [
  ("create", "INSERT INTO sessions (id, deadline, state) VALUES (?, ?, ?) ON CONFLICT(id) DO UPDATE SET deadline = excluded.deadline, state = excluded.state WHERE sessions.deadline <= unixepoch()"),
  ("update", "UPDATE sessions SET deadline = ?, state = ? WHERE id = ? AND deadline > unixepoch()"),
  ("update_ttl", "UPDATE sessions SET deadline = ? WHERE id = ? AND deadline > unixepoch()"),
  ("load", "SELECT deadline, state FROM sessions WHERE id = ? AND deadline > unixepoch()"),
  ("delete", "DELETE FROM sessions WHERE id = ? AND deadline > unixepoch()"),
  ("change_id", "UPDATE sessions SET id = ? WHERE id = ? AND deadline > unixepoch()"),
  ("delete_expired/batch", "DELETE FROM sessions WHERE id IN (SELECT id FROM sessions WHERE deadline < unixepoch() LIMIT ?)"),
  ("delete_expired/all", "DELETE FROM sessions WHERE deadline < unixepoch()")]

/-- `… AND deadline > unixepoch()`: the row filter of every statement but `create`/`delete_expired`. -/
def sqlLive {σ} (nowS : Nat) (r : Rec σ) : Bool := decide (nowS < r.deadline)

/-- The row `WHERE id = ? AND deadline > unixepoch()` selects, if any. -/
def sqlSel {σ} (t : Tbl σ) (nowS i : Nat) : Option (Rec σ) :=
  match get t i with
  | some r => if sqlLive nowS r then some r else none
  | none => none

/-- Rows `… WHERE deadline < unixepoch() [LIMIT ?]` selects. -/
def sqlExpiredIds {σ} (t : Tbl σ) (nowS : Nat) (batch : Option Nat) (ord : List Nat) : List Nat :=
  let ex := (iterOrder t ord).filter (fun i => match get t i with
    | some r => decide (r.deadline < nowS)
    | none => false)
  match batch with
  | some b => ex.take b
  | none => ex

/-- `impl SessionStorageBackend for SqliteSessionStore`: one statement per method. -/
def sqlStep {σ} (now : Nat) (op : Op σ) (t : Tbl σ) : Tbl σ × Res σ :=
  let nowS := now / 1000
  match op with
  | .create i st ttl =>
    -- INSERT … ON CONFLICT(id) DO UPDATE SET … WHERE sessions.deadline <= unixepoch()  → always Ok
    match get t i with
    | none => (put t i ⟨st, (now + ttl) / 1000⟩, .ok)
    | some r => if r.deadline ≤ nowS then (put t i ⟨st, (now + ttl) / 1000⟩, .ok) else (t, .ok)
  | .update i st ttl =>
    -- UPDATE sessions SET deadline = ?, state = ? WHERE id = ? AND deadline > unixepoch()
    match sqlSel t nowS i with
    | some _ => (put t i ⟨st, (now + ttl) / 1000⟩, .ok)
    | none => (t, .unknown)               -- rows_affected == 0
  | .updateTtl i ttl =>
    -- UPDATE sessions SET deadline = ? WHERE id = ? AND deadline > unixepoch()
    match sqlSel t nowS i with
    | some r => (put t i ⟨r.state, (now + ttl) / 1000⟩, .ok)
    | none => (t, .unknown)
  | .load i =>
    -- SELECT deadline, state FROM sessions WHERE id = ? AND deadline > unixepoch();
    -- ttl = Timestamp::from_second(deadline) - Timestamp::now(), clamped at 0
    match sqlSel t nowS i with
    | some r => (t, .loaded (some (r.state, r.deadline * 1000 - now)))
    | none => (t, .loaded none)
  | .delete i =>
    -- DELETE FROM sessions WHERE id = ? AND deadline > unixepoch()
    match sqlSel t nowS i with
    | some _ => (erase t i, .ok)
    | none => (t, .unknown)
  | .changeId old new =>
    -- UPDATE sessions SET id = ? WHERE id = ? AND deadline > unixepoch()
    match sqlSel t nowS old with
    | none => (t, .unknown)               -- rows_affected == 0
    | some r =>
      if new = old then (t, .ok)          -- the row is rewritten with the same key
      else match get t new with
        | some _ => (t, .dup)             -- PRIMARY KEY violation (1555), whatever the row's deadline
        | none => (put (erase t old) new r, .ok)
  | .deleteExpired batch ord =>
    -- DELETE FROM sessions WHERE deadline < unixepoch()   /   … WHERE id IN (SELECT id … LIMIT ?)
    let ids := sqlExpiredIds t nowS batch ord
    (eraseAll t ids, .deleted ids.length ids)

/-! ## Specification: a map with expiry -/

/-- The abstract store: a plain map `id → (state, deadline)`. -/
abbrev AMap (σ : Type) := Nat → Option (Rec σ)

def AMap.empty {σ} : AMap σ := fun _ => none
def AMap.set {σ} (a : AMap σ) (i : Nat) (v : Option (Rec σ)) : AMap σ := fun j => if j = i then v else a j

/-- A record is live strictly before its deadline. -/
def live {σ} (now : Nat) (r : Rec σ) : Bool := decide (now < r.deadline)

/-- The live record of an id, if any: all an observer can ever learn about the map. -/
def AMap.liveAt {σ} (a : AMap σ) (now i : Nat) : Option (Rec σ) :=
  match a i with
  | some r => if live now r then some r else none
  | none => none

/-- Spec-level operations: deadlines instead of TTLs (each backend has its own clock resolution). -/
inductive SOp (σ : Type) where
  | create (id : Nat) (st : σ) (deadline : Nat)
  | update (id : Nat) (st : σ) (deadline : Nat)
  | updateTtl (id : Nat) (deadline : Nat)
  | load (id : Nat)
  | delete (id : Nat)
  | changeId (old new : Nat)
  | deleteExpired
  deriving Repr, DecidableEq

/-- Does a spec-level call name the id `j`? -/
def SOp.mentions {σ} : SOp σ → Nat → Bool
  | .create i _ _, j | .update i _ _, j | .updateTtl i _, j | .load i, j | .delete i, j => i == j
  | .changeId o n, j => o == j || n == j
  | .deleteExpired, _ => false

inductive SRes (σ : Type) where
  | ok | dup | unknown
  | loaded (r : Option (σ × Nat))         -- state and deadline
  | deleted                               -- `delete_expired` succeeded (the count is not specified)
  deriving Repr, DecidableEq

/-- The two points where the property text leaves a choice (or where a recorded finding needs one). -/
structure Policy where
  /-- `create` on a live id answers `Ok` (and still writes nothing) instead of `DuplicateId`.
      `false` is what the property demands. -/
  createOnLiveOk : Bool
  /-- `change_id(i, i)` on a live `i` answers `Ok` rather than `DuplicateId`; no effect either way. -/
  renameSelfOk : Bool
  deriving Repr, DecidableEq

/-- `MapWithExpiry`. `load` = the live record; `create` never overwrites a live record;
    `update`/`update_ttl`/`delete`/`change_id` answer unknown-id on absent or expired records and
    otherwise take effect in one step; `delete_expired` never touches a live record. -/
def specStep {σ} (p : Policy) (now : Nat) (op : SOp σ) (a : AMap σ) : AMap σ × SRes σ :=
  match op with
  | .create i st dl =>
    match a.liveAt now i with
    | some _ => (a, if p.createOnLiveOk then .ok else .dup)
    | none => (a.set i (some ⟨st, dl⟩), .ok)
  | .update i st dl =>
    match a.liveAt now i with
    | some _ => (a.set i (some ⟨st, dl⟩), .ok)
    | none => (a, .unknown)
  | .updateTtl i dl =>
    match a.liveAt now i with
    | some r => (a.set i (some ⟨r.state, dl⟩), .ok)
    | none => (a, .unknown)
  | .load i =>
    match a.liveAt now i with
    | some r => (a, .loaded (some (r.state, r.deadline)))
    | none => (a, .loaded none)
  | .delete i =>
    match a.liveAt now i with
    | some _ => (a.set i none, .ok)
    | none => (a, .unknown)
  | .changeId old new =>
    match a.liveAt now old with
    | none => (a, .unknown)
    | some r =>
      if new = old then (a, if p.renameSelfOk then .ok else .dup)
      else match a.liveAt now new with
        | some _ => (a, .dup)
        | none => ((a.set old none).set new (some r), .ok)
  | .deleteExpired => (a, .deleted)

/-- What the property demands of `create`. -/
def Policy.strict (renameSelfOk : Bool) : Policy := ⟨false, renameSelfOk⟩

/-! ## Histories

A history is a list of `(delay, call)`: `delay` time units pass, then the call happens. Time never
runs backwards by construction. -/

def run {σ S R} (step : Nat → Op σ → S → S × R) : Nat → S → List (Nat × Op σ) → List R
  | _, _, [] => []
  | now, s, (d, op) :: h =>
    let r := step (now + d) op s
    r.2 :: run step (now + d) r.1 h

def runSpec {σ} (p : Policy) : Nat → AMap σ → List (Nat × SOp σ) → List (SRes σ)
  | _, _, [] => []
  | now, a, (d, op) :: h =>
    let r := specStep p (now + d) op a
    r.2 :: runSpec p (now + d) r.1 h

/-- Final physical state of a history (used by the driver to compare whole tables). -/
def runState {σ S R} (step : Nat → Op σ → S → S × R) : Nat → S → List (Nat × Op σ) → Nat × S
  | now, s, [] => (now, s)
  | now, s, (d, op) :: h => runState step (now + d) (step (now + d) op s).1 h

/-! ### How each backend's calls and answers read at the level of the specification

`g` is the clock resolution: 1 for the memory store, 1000 for SQLite (milliseconds → seconds). -/

def absOp {σ} (g now : Nat) : Op σ → SOp σ
  | .create i st ttl => .create i st ((now + ttl) / g)
  | .update i st ttl => .update i st ((now + ttl) / g)
  | .updateTtl i ttl => .updateTtl i ((now + ttl) / g)
  | .load i => .load i
  | .delete i => .delete i
  | .changeId o n => .changeId o n
  | .deleteExpired _ _ => .deleteExpired

def absRes {σ} (g now : Nat) : Res σ → SRes σ
  | .ok => .ok
  | .dup => .dup
  | .unknown => .unknown
  | .loaded none => .loaded none
  | .loaded (some (st, ttl)) => .loaded (some (st, (now + ttl) / g))
  | .deleted _ _ => .deleted

/-- Observations of a backend run, read at spec level. -/
def runObs {σ S} (g : Nat) (step : Nat → Op σ → S → S × Res σ) : Nat → S → List (Nat × Op σ) → List (SRes σ)
  | _, _, [] => []
  | now, s, (d, op) :: h =>
    let r := step (now + d) op s
    absRes g (now + d) r.2 :: runObs g step (now + d) r.1 h

/-- The same history as the specification sees it (its clock runs at resolution `g`). -/
def specObs {σ} (p : Policy) (g : Nat) : Nat → AMap σ → List (Nat × Op σ) → List (SRes σ)
  | _, _, [] => []
  | now, a, (d, op) :: h =>
    let r := specStep p ((now + d) / g) (absOp g (now + d) op) a
    r.2 :: specObs p g (now + d) r.1 h

/-! ## The two recorded SQLite findings, as predicates on a call about to happen -/

/-- Finding 1: `create` on an id whose row is live (answers `Ok`, writes nothing). -/
def sqlCreateOnLive {σ} (now : Nat) (op : Op σ) (t : Tbl σ) : Bool :=
  match op with
  | .create i _ _ => (sqlSel t (now / 1000) i).isSome
  | _ => false

/-- Finding 2: `change_id` of a live record onto an id whose *expired* row is still in the table
    (answers `DuplicateId`). -/
def sqlSquattedRename {σ} (now : Nat) (op : Op σ) (t : Tbl σ) : Bool :=
  match op with
  | .changeId o n =>
    (sqlSel t (now / 1000) o).isSome && n != o && (get t n).isSome && (sqlSel t (now / 1000) n).isNone
  | _ => false

/-- Does some call of the history (run with `step`) satisfy `pred` at the moment it happens? -/
def anyStep {σ S R} (step : Nat → Op σ → S → S × R) (pred : Nat → Op σ → S → Bool) :
    Nat → S → List (Nat × Op σ) → Bool
  | _, _, [] => false
  | now, s, (d, op) :: h =>
    pred (now + d) op s || anyStep step pred (now + d) (step (now + d) op s).1 h

/-! ## Concurrency: interleavings of atomic calls

`progs[k]` is what task `k` still has to do. A schedule is a list of ticks: some time passes, then
one task performs its next call as one indivisible step — the memory store holds the mutex for the
whole body and awaits nothing else; a SQLite method is one statement. -/

structure Tick where
  delay : Nat
  task : Nat
  deriving Repr, DecidableEq

/-- Events `(task, answer)` in the order they happen. -/
def runConc {σ S R} (step : Nat → Op σ → S → S × R) : Nat → S → List (List (Op σ)) → List Tick → List (Nat × R)
  | _, _, _, [] => []
  | now, s, progs, ⟨d, k⟩ :: sched =>
    match progs[k]? with
    | some (op :: rest) =>
      let r := step (now + d) op s
      (k, r.2) :: runConc step (now + d) r.1 (progs.set k rest) sched
    | _ => runConc step (now + d) s progs sched

/-- The sequential history a schedule amounts to: the calls in the order the schedule performs
    them, each tagged with its task; idle ticks only let time pass. `carry` is time not yet
    attributed to a call. -/
def linearise {σ} : Nat → List (List (Op σ)) → List Tick → List (Nat × (Nat × Op σ))
  | _, _, [] => []
  | carry, progs, ⟨d, k⟩ :: sched =>
    match progs[k]? with
    | some (op :: rest) => (k, (carry + d, op)) :: linearise 0 (progs.set k rest) sched
    | _ => linearise (carry + d) progs sched

end Pxv.Store
