/-
The compile-time rule checks of `pavexc` as decision procedures over an abstract component
database. Import-free.

Mirrors (file: item)
* compiler/pavexc/src/compiler/analyses/constructibles.rs: `ConstructibleDb::get` (scope lookup),
  `detect_missing_constructors` (worklist + the `&mut` sub-rules), `verify_singleton_ambiguity`,
  `verify_lifecycle_of_singleton_dependencies`, `error_observers_cannot_depend_on_fallible_components`
* compiler/pavexc/src/compiler/analyses/call_graph/dependency_graph.rs: `DependencyGraph::build`
  (which components are in the graph), `find_cycles` (DFS with a visited set and a stack)
* compiler/pavexc/src/compiler/analyses/application_state/thread_safety.rs, .../cloning.rs,
  compiler/pavexc/src/compiler/analyses/cloning.rs
* compiler/pavexc/src/compiler/component/mod.rs `CannotTakeMutReferenceError::check_callable`
  (constructor.rs, wrapping_middleware.rs, error_observer.rs)
* compiler/pavexc/src/compiler/analyses/user_components/router.rs: `detect_method_conflicts`,
  `detect_path_conflicts` (matchit's insertion conflict, modelled semantically)
* compiler/pavexc/src/compiler/path_parameters.rs `verify_path_parameters`
* compiler/pavexc/src/compiler/app.rs `App::build`: the pass sequence with `exit_on_errors!`

Abstractions: a type is a number (its canonical form); generic constructors, prebuilt/config types
and error handlers' own inputs are not modelled; component ids are positions in `comps` (pavexc's
ids differ, diagnostics are compared as sets of kinds).
-/
namespace Pxv.Rules

/-! ## Generic graph algorithms -/

/-- successor function of a graph given by adjacency lists; nodes are `0 .. adj.length-1`. -/
def succOf (adj : List (List Nat)) (v : Nat) : List Nat := adj.getD v []

/-- enqueue: only what is still unprocessed and not queued yet (↔ `Queue::enqueue` on two `BTreeSet`s). -/
def enq (next todo rem : List Nat) : List Nat :=
  next.foldl (fun td x => if rem.contains x && !td.contains x then td ++ [x] else td) todo

/-- The worklist loop of `detect_missing_constructors` / `DependencyGraph::build`: `rem` is the
    complement of the `processed` set, `todo` the `to_be_processed` set. Returns the processed
    components in processing order. Fuel is the number of unprocessed components. -/
def closureLoop (succ : Nat → List Nat) : Nat → List Nat → List Nat → List Nat → List Nat
  | 0, _, _, done => done
  | _ + 1, [], _, done => done
  | fuel + 1, i :: todo, rem, done =>
    let rem' := rem.erase i
    closureLoop succ fuel (enq (succ i) todo rem') rem' (done ++ [i])

/-- everything reachable from `roots` among nodes `< n`. -/
def closure (succ : Nat → List Nat) (n : Nat) (roots : List Nat) : List Nat :=
  closureLoop succ n (enq roots [] (List.range n)) (List.range n) []

structure DfsState where
  /-- complement of `visited` -/
  unvis : List Nat
  stack : List Nat
  cycles : List (List Nat)
  deriving Repr, DecidableEq

/-- ↔ `find_cycles::dfs`. Fuel bounds the recursion depth (number of unvisited nodes). -/
def dfs (adj : List (List Nat)) : Nat → Nat → DfsState → DfsState
  | 0, _, st => st
  | fuel + 1, v, st =>
    let st1 : DfsState := { st with unvis := st.unvis.erase v, stack := st.stack ++ [v] }
    let st2 := (succOf adj v).foldl (fun (st : DfsState) w =>
      if st.unvis.contains w then dfs adj fuel w st
      else if st.stack.contains w then
        { st with cycles := st.cycles ++ [st.stack.dropWhile (· != w)] }
      else st) st1
    { st2 with stack := st2.stack.dropLast }

/-- ↔ `find_cycles`: one DFS per still unvisited node, in index order. -/
def findCyclesState (adj : List (List Nat)) : DfsState :=
  (List.range adj.length).foldl (fun st v =>
    if st.unvis.contains v then dfs adj adj.length v st else st)
    { unvis := List.range adj.length, stack := [], cycles := [] }

def findCycles (adj : List (List Nat)) : List (List Nat) := (findCyclesState adj).cycles

/-! ## The component database -/

inductive Life where
  | singleton | request | transient
  deriving Repr, DecidableEq

inductive Mode where
  | val | ref | mut
  deriving Repr, DecidableEq

inductive Kind where
  | ctor | handler | wrap | pre | post | observer
  deriving Repr, DecidableEq

structure Inp where
  ty : Nat
  mode : Mode
  deriving Repr, DecidableEq

structure Comp where
  kind : Kind
  /-- the blueprint (scope) the component was registered against -/
  scope : Nat
  /-- output type (constructors only) -/
  out : Nat
  life : Life
  /-- cloning policy is `CloneIfNecessary` -/
  cloneIfNec : Bool
  ins : List Inp
  /-- returns a `Result` -/
  fallible : Bool
  /-- identity of the callable: the same constructor registered twice shares it -/
  fn : Nat
  deriving Repr, DecidableEq

structure Ty where
  clone : Bool
  copy : Bool
  send : Bool
  sync : Bool
  deriving Repr, DecidableEq

/-- one segment of a route template -/
inductive Seg where
  | lit (s : Nat)
  | param (name : Nat)
  | catchAll (name : Nat)
  deriving Repr, DecidableEq

structure Route where
  /-- the request handler component -/
  comp : Nat
  path : List Seg
  /-- `MethodGuard::Some` -/
  methods : List Nat
  /-- `MethodGuard::Any` -/
  any : Bool
  deriving Repr, DecidableEq

/-- a use of `PathParams<T>`: the type id of `PathParams<T>` and the field names of `T`. -/
structure PathParams where
  ty : Nat
  fields : List Nat
  deriving Repr, DecidableEq

structure DB where
  /-- parent of every scope; scope 0 is the root blueprint (its own parent) -/
  parent : List Nat
  tys : List Ty
  comps : List Comp
  routes : List Route
  pparams : List PathParams
  deriving Repr, DecidableEq

def defaultComp : Comp := ⟨.handler, 0, 0, .request, false, [], false, 0⟩
def defaultTy : Ty := ⟨false, false, true, true⟩

def DB.comp (db : DB) (i : Nat) : Comp := db.comps.getD i defaultComp
def DB.ty (db : DB) (t : Nat) : Ty := db.tys.getD t defaultTy
def DB.n (db : DB) : Nat := db.comps.length
def DB.parentOf (db : DB) (s : Nat) : Nat := db.parent.getD s 0

/-! ## Scope lookup ↔ `ConstructibleDb::get` -/

def DB.isCtorFor (db : DB) (s t i : Nat) : Bool :=
  let c := db.comp i
  c.kind == .ctor && c.scope == s && c.out == t

/-- ↔ `ConstructiblesInScope::get`: the constructor registered for `t` against scope `s`
    (`HashMap::insert`: the last registration wins). -/
def DB.ctorIn (db : DB) (s t : Nat) : Option Nat :=
  (List.range db.n).reverse.find? (db.isCtorFor s t)

/-- ↔ `ConstructibleDb::get`: look in the scope, then in its parent, up to the root. -/
def DB.lookupAux (db : DB) (t : Nat) : Nat → Nat → Option Nat
  | 0, _ => none
  | fuel + 1, s =>
    match db.ctorIn s t with
    | some c => some c
    | none => if s = 0 then none else db.lookupAux t fuel (db.parentOf s)

def DB.lookup (db : DB) (s t : Nat) : Option Nat := db.lookupAux t (s + 1) s

/-- the scopes visible from `s`: itself and its ancestors, nearest first. -/
def DB.ancAux (db : DB) : Nat → Nat → List Nat
  | 0, _ => []
  | fuel + 1, s => s :: (if s = 0 then [] else db.ancAux fuel (db.parentOf s))

def DB.anc (db : DB) (s : Nat) : List Nat := db.ancAux (s + 1) s

/-! ## Dependencies -/

/-- the constructors found for the inputs of component `i`, looked up from scope `s`. -/
def DB.depsFrom (db : DB) (s i : Nat) : List Nat :=
  (db.comp i).ins.filterMap (fun x => db.lookup s x.ty)

/-- … from the component's own scope (what every analysis pass does). -/
def DB.deps (db : DB) (i : Nat) : List Nat := db.depsFrom (db.comp i).scope i

def Kind.isRoot : Kind → Bool
  | .ctor => false
  | _ => true

/-- ↔ `Queue::bootstrap`: handlers, middlewares, error observers. -/
def DB.roots (db : DB) : List Nat := (List.range db.n).filter (fun i => (db.comp i).kind.isRoot)

/-- the components `detect_missing_constructors` processes. -/
def DB.reach (db : DB) : List Nat := closure db.deps db.n db.roots

/-! ## Diagnostics -/

inductive DiagKind where
  | routeMethodConflict | routePathConflict
  | mutInput
  | missing | mutSingleton | mutTransient | mutCloneable
  | singletonOnce | singletonMulti
  | singletonDep
  | observerFallible
  | cloneNotClone
  | cycle
  | pathParam
  | notSend | notSync
  | singletonByValue
  deriving Repr, DecidableEq

structure Diag where
  kind : DiagKind
  /-- the component (or type, or route index) the diagnostic is about -/
  a : Nat
  /-- second coordinate: input index, dependency, method, … -/
  b : Nat
  deriving Repr, DecidableEq

/-! ### `detect_missing_constructors` -/

/-- diagnostics for one processed component. -/
def DB.missingAt (db : DB) (i : Nat) : List Diag :=
  (db.comp i).ins.zipIdx.filterMap (fun (x, k) =>
    match db.lookup (db.comp i).scope x.ty with
    | none => some ⟨.missing, i, k⟩
    | some c =>
      if x.mode = .mut then
        match (db.comp c).life with
        | .singleton => some ⟨.mutSingleton, i, k⟩
        | .transient => some ⟨.mutTransient, i, k⟩
        | .request => if (db.comp c).cloneIfNec then some ⟨.mutCloneable, i, k⟩ else none
      else none)

def DB.detectMissing (db : DB) : List Diag := db.reach.flatMap db.missingAt

/-! ### `CannotTakeMutReferenceError::check_callable` (constructors, wrapping middlewares, observers) -/

def Kind.noMutInputs : Kind → Bool
  | .ctor | .wrap | .observer => true
  | _ => false

def DB.mutInputs (db : DB) : List Diag :=
  (List.range db.n).filterMap (fun i =>
    if (db.comp i).kind.noMutInputs then
      ((db.comp i).ins.zipIdx.find? (fun (x, _) => x.mode == .mut)).map (fun (_, k) => ⟨.mutInput, i, k⟩)
    else none)

/-! ### `verify_singleton_ambiguity` -/

def DB.scopes (db : DB) : List Nat := List.range (max db.parent.length 1)

/-- the singleton constructors for type `t`, one per scope that has one in its constructibles map. -/
def DB.singletonRegs (db : DB) (t : Nat) : List Nat :=
  db.scopes.filterMap (fun s =>
    match db.ctorIn s t with
    | some c => if (db.comp c).life = .singleton then some c else none
    | none => none)

def DB.singletonAmbiguity (db : DB) : List Diag :=
  (List.range db.tys.length).filterMap (fun t =>
    let regs := db.singletonRegs t
    if regs.length > 1 then
      some ⟨if regs.all (fun c => (db.comp c).fn == (db.comp (regs.headD 0)).fn) then .singletonOnce else .singletonMulti, t, regs.length⟩
    else none)

/-! ### `verify_lifecycle_of_singleton_dependencies` -/

/-- the transient constructors among the dependencies of `i`. -/
def DB.transDeps (db : DB) (i : Nat) : List Nat :=
  (db.deps i).filter (fun j => (db.comp j).life = .transient)

def DB.requestDeps (db : DB) (i : Nat) : List Nat :=
  (db.deps i).filter (fun j => (db.comp j).life = .request)

def DB.singletons (db : DB) : List Nat :=
  (List.range db.n).filter (fun i => (db.comp i).life = .singleton && (db.comp i).kind = .ctor)

/-- after the fix: the singleton and every transient constructor it goes through. -/
def DB.singletonDeps (db : DB) : List Diag :=
  db.singletons.flatMap (fun s =>
    (closure db.transDeps db.n [s]).flatMap (fun i => (db.requestDeps i).map (fun r => ⟨.singletonDep, s, r⟩)))

/-- before the fix (`fix:` commit on the repo branch): direct inputs only. -/
def DB.singletonDepsDirect (db : DB) : List Diag :=
  db.singletons.flatMap (fun s => (db.requestDeps s).map (fun r => ⟨.singletonDep, s, r⟩))

/-! ### `error_observers_cannot_depend_on_fallible_components` -/

def DB.observers (db : DB) : List Nat := (List.range db.n).filter (fun i => (db.comp i).kind = .observer)

/-- the walk from observer `o`: every input is looked up from the *observer's* scope; it does not
    look below singletons nor below a fallible constructor. -/
def DB.obsSucc (db : DB) (o i : Nat) : List Nat :=
  if i = o ∨ ((db.comp i).life ≠ .singleton ∧ !(db.comp i).fallible) then db.depsFrom (db.comp o).scope i else []

def DB.observerFallible (db : DB) : List Diag :=
  db.observers.filterMap (fun o =>
    ((closure (db.obsSucc o) db.n [o]).find? (fun c => c != o && (db.comp c).life != .singleton && (db.comp c).fallible)).map
      (fun c => ⟨.observerFallible, o, c⟩))

/-! ### `cloneables_can_be_cloned` -/

def DB.cloneNotClone (db : DB) : List Diag :=
  (List.range db.n).filterMap (fun i =>
    let c := db.comp i
    if c.kind = .ctor ∧ c.cloneIfNec ∧ !(db.ty c.out).clone then some ⟨.cloneNotClone, i, c.out⟩ else none)

/-! ### cycles: `DependencyGraph::build` + `find_cycles` -/

/-- adjacency of the dependency graph: the components reached from the roots, each pointing at the
    constructors of its inputs. (pavexc's edges point the other way, from a constructor to its
    consumer; the cycles are the same sets of nodes.) -/
def DB.depAdj (db : DB) : List (List Nat) :=
  let reach := db.reach
  (List.range db.n).map (fun i => if reach.contains i then db.deps i else [])

def DB.cycles (db : DB) : List Diag :=
  (findCycles db.depAdj).map (fun c => ⟨.cycle, c.headD 0, c.length⟩)

/-! ### application state: `runtime_singletons_are_thread_safe`, `runtime_singletons_can_be_cloned_if_needed` -/

/-- components that run while a request is processed -/
def DB.requestTime (db : DB) : List Nat :=
  db.reach.filter (fun i => !((db.comp i).kind = .ctor && (db.comp i).life = .singleton))

/-- singletons that are inputs of some request-time component: fields of `ApplicationState`. -/
def DB.runtimeSingletons (db : DB) : List Nat :=
  (db.requestTime.flatMap (fun i => (db.deps i).filter (fun c => (db.comp c).life = .singleton))).eraseDups

def DB.threadSafety (db : DB) : List Diag :=
  db.runtimeSingletons.flatMap (fun c =>
    let t := db.ty (db.comp c).out
    (if t.send then [] else [⟨.notSend, c, (db.comp c).out⟩]) ++
    (if t.sync then [] else [⟨.notSync, c, (db.comp c).out⟩]))

def DB.byValueAt (db : DB) (i : Nat) : List Diag :=
  (db.comp i).ins.zipIdx.filterMap (fun (x, k) =>
    match db.lookup (db.comp i).scope x.ty with
    | some c =>
      if x.mode = .val ∧ (db.comp c).life = .singleton ∧ !(db.ty x.ty).copy ∧ !(db.comp c).cloneIfNec
      then some ⟨.singletonByValue, i, k⟩ else none
    | none => none)

def DB.singletonByValue (db : DB) : List Diag := db.requestTime.flatMap db.byValueAt

/-! ### router -/

/-- ↔ `METHODS` (router.rs): the well-known methods are numbered 0..8, anything else is non-standard. -/
def wellKnownMethods : List Nat := [0, 1, 2, 3, 4, 5, 6, 7, 8]

def Route.accepts (r : Route) (m : Nat) : Bool := r.any || r.methods.contains m

/-- the routes registered for template `p` (↔ one entry of `path2method2component_id`). -/
def DB.group (db : DB) (p : List Seg) : List Route := db.routes.filter (fun r => r.path == p)

def DB.paths (db : DB) : List (List Seg) := (db.routes.map (·.path)).eraseDups

/-- ↔ `detect_method_conflicts` (after the fix: non-standard methods named by a guard are examined too). -/
def DB.methodConflicts (db : DB) : List Diag :=
  (db.paths.zipIdx).flatMap (fun (p, k) =>
    let group := db.group p
    let methods := (wellKnownMethods ++ group.flatMap (·.methods)).eraseDups
    methods.filterMap (fun m => if (group.filter (·.accepts m)).length > 1 then some ⟨.routeMethodConflict, k, m⟩ else none))

/-- before the fix: only the nine well-known methods. -/
def DB.methodConflictsStd (db : DB) : List Diag :=
  (db.paths.zipIdx).flatMap (fun (p, k) =>
    let group := db.group p
    wellKnownMethods.filterMap (fun m => if (group.filter (·.accepts m)).length > 1 then some ⟨.routeMethodConflict, k, m⟩ else none))

/-- the variant a seeded change introduced ("two routes can only compete for a method that one of them has asked for"):
    only the methods some guard of the path NAMES are examined; a route with `MethodGuard::Any` names none. -/
def DB.methodConflictsNamed (db : DB) : List Diag :=
  (db.paths.zipIdx).flatMap (fun (p, k) =>
    let group := db.group p
    let methods := (group.flatMap (·.methods)).eraseDups
    methods.filterMap (fun m => if (group.filter (·.accepts m)).length > 1 then some ⟨.routeMethodConflict, k, m⟩ else none))

/-- matchit 0.9's insertion conflict, semantically (parameter names are erased before insertion):
    the two templates agree segment by segment (equal literals, a parameter where the other has one)
    until both end, or until one has a catch-all where the other has a catch-all or a parameter. -/
def shapeConflict : List Seg → List Seg → Bool
  | [], [] => true
  | .lit a :: p, .lit b :: q => a == b && shapeConflict p q
  | .param _ :: p, .param _ :: q => shapeConflict p q
  | .catchAll _ :: _, .catchAll _ :: _ => true
  | .catchAll _ :: _, .param _ :: _ => true
  | .param _ :: _, .catchAll _ :: _ => true
  | _, _ => false

/-- ↔ `detect_path_conflicts`: paths are inserted in registration order; an insertion fails when the
    router already holds a *different* template of the same shape. -/
def DB.pathConflicts (db : DB) : List Diag :=
  db.routes.zipIdx.filterMap (fun (r, k) =>
    if (db.routes.take k).any (fun r' => r'.path != r.path && shapeConflict r'.path r.path) then
      some ⟨.routePathConflict, k, 0⟩ else none)

/-! ### `verify_path_parameters` -/

def paramNames : List Seg → List Nat
  | [] => []
  | .lit _ :: p => paramNames p
  | .param n :: p => n :: paramNames p
  | .catchAll n :: p => n :: paramNames p

/-- after the fix: every `PathParams<T>` constructor in the handler's graph is checked. -/
def DB.pathParams (db : DB) : List Diag :=
  db.routes.zipIdx.flatMap (fun (r, k) =>
    let g := closure db.deps db.n [r.comp]
    db.pparams.filterMap (fun pp =>
      if g.any (fun c => (db.comp c).kind = .ctor && (db.comp c).out = pp.ty) ∧
         pp.fields.any (fun f => !(paramNames r.path).contains f)
      then some ⟨.pathParam, k, pp.ty⟩ else none))

/-! ## `App::build`: the pass sequence with `exit_on_errors!` -/

def DB.stage1 (db : DB) : List Diag :=
  let m := db.methodConflicts
  if m.isEmpty then db.pathConflicts else m

def DB.stage2 (db : DB) : List Diag := db.mutInputs

def DB.stage3 (db : DB) : List Diag :=
  db.detectMissing ++ db.singletonAmbiguity ++ db.singletonDeps ++ db.observerFallible ++ db.cloneNotClone

def DB.stage4 (db : DB) : List Diag :=
  db.cycles ++ db.pathParams ++ db.threadSafety ++ db.singletonByValue

/-- the error diagnostics of `App::build` for the modelled rules. -/
def DB.check (db : DB) : List Diag :=
  if !db.stage1.isEmpty then db.stage1
  else if !db.stage2.isEmpty then db.stage2
  else if !db.stage3.isEmpty then db.stage3
  else db.stage4

/-! ## The same questions asked from the *route's* scope

`build_call_graph` (core_graph.rs) resolves every input from the scope of the call graph's root
component, not from the scope of the component that has the input. -/

/-- dependencies of `i` when its inputs are looked up from scope `s`. -/
def DB.reachFrom (db : DB) (r : Nat) : List Nat := closure (db.depsFrom (db.comp r).scope) db.n [r]

/-- an input without a constructor, as the call graph of root `r` sees it. -/
def DB.missingFromRoot (db : DB) (r : Nat) : List Diag :=
  (db.reachFrom r).flatMap (fun i =>
    (db.comp i).ins.zipIdx.filterMap (fun (x, k) =>
      match db.lookup (db.comp r).scope x.ty with
      | none => some ⟨.missing, i, k⟩
      | some _ => none))

def DB.depAdjFromRoot (db : DB) (r : Nat) : List (List Nat) :=
  let reach := db.reachFrom r
  (List.range db.n).map (fun i => if reach.contains i then db.depsFrom (db.comp r).scope i else [])

/-- what a resolution from the roots' scopes would report (spec side of the known finding). -/
def DB.dynamicCheck (db : DB) : List Diag :=
  db.roots.flatMap (fun r => db.missingFromRoot r ++ (findCycles (db.depAdjFromRoot r)).map (fun c => ⟨.cycle, c.headD 0, c.length⟩))

end Pxv.Rules
