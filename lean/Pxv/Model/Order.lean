import Pxv.Model.CallGraph
/-
(1) The ownership discipline a generated function body must obey (`OwnSafe`): the specification
    side, a mini model of Rust's move/borrow rules for straight-line `let v = f(args)` code whose
    data flow is a call graph executed in a given node order.
(2) The node-ordering step of pavexc (`OrderedCallGraph::order`, borrow_checker/assign_order.rs)
    as a transition system: `canPlace` mirrors `!is_blocked`, `isRun` says that a node sequence
    is a sequence of legal placements. The Rust code is one strategy for choosing the next node;
    every strategy yields a run.
Import-free.
-/
namespace Pxv.CG
open Graph

/-- position of `n` in the execution order `σ`. -/
def pos (σ : List Nat) (n : Nat) : Nat := σ.idxOf n

/-- data edges only (`HappensBefore` carries no value). -/
def Edge.isData (e : Edge) : Bool := e.kind != .before

/-- What the value produced by `w` keeps borrowed, transitively, `fuel` levels deep
    (↔ `node2captured_nodes` when fully propagated): direct borrows, plus whatever the
    lifetime-tied inputs held. -/
def held (g : Graph) : Nat → Nat → List Nat
  | 0, _ => []
  | fuel + 1, w => (g.node w).direct ++ (g.node w).tied.flatMap (held g fuel)

/-- `w` holds a borrow of `d`. -/
def holds (g : Graph) (w d : Nat) : Bool := (held g g.size w).contains d

/-- nodes that use the value of `w` (any data edge out of `w`). -/
def users (g : Graph) (w : Nat) : List Nat := ((g.outEdges w).filter Edge.isData).map (·.dst)

/-- every argument is produced earlier, on the same path. -/
def Defd (g : Graph) (σ A : List Nat) : Prop :=
  ∀ t ∈ σ, t ∈ A → ∀ e ∈ g.inEdges t, e.isData = true →
    e.src ∈ σ ∧ e.src ∈ A ∧ pos σ e.src < pos σ t

/-- a non-Copy value that some *other* statement of the path takes by value is used here strictly
    before that statement (hence also: at most one statement moves it). -/
def NoUseAfterMove (g : Graph) (σ A : List Nat) : Prop :=
  ∀ t ∈ σ, t ∈ A → ∀ e ∈ g.inEdges t, e.isData = true → (g.node e.src).copy = false →
    ∀ c ∈ σ, c ∈ A → c ≠ t → c ∈ g.consumers e.src → pos σ t < pos σ c

/-- every use, on path `A`, of the value `w` happens strictly before statement `t`. -/
def UsedBefore (g : Graph) (σ A : List Nat) (w t : Nat) : Prop :=
  ∀ u ∈ σ, u ∈ A → u ∈ users g w → pos σ u < pos σ t

instance (g : Graph) (σ A : List Nat) (w t : Nat) : Decidable (UsedBefore g σ A w t) := by
  unfold UsedBefore; exact inferInstance

/-- when a non-Copy value is moved, or any value is borrowed `&mut`, no value created earlier that
    still holds a borrow of it is used at or after this statement. -/
def NoMoveWhileBorrowed (g : Graph) (σ A : List Nat) : Prop :=
  ∀ t ∈ σ, t ∈ A → ∀ e ∈ g.inEdges t,
    ((e.kind = .move ∧ (g.node e.src).copy = false) ∨ e.kind = .excl) →
    ∀ w ∈ σ, w ∈ A → holds g w e.src = true → pos σ w < pos σ t → UsedBefore g σ A w t

/-- The ownership rules for executing, in the order `σ`, the nodes of `σ` that lie on the
    control-flow path `A` (each node a statement `let v_n = f_n(args)` whose arguments are its
    incoming data edges; positions are taken in `σ`, which orders the statements of every path). -/
structure OwnSafe (g : Graph) (σ : List Nat) (A : List Nat) : Prop where
  nodup : σ.Nodup
  defd : Defd g σ A
  noUseAfterMove : NoUseAfterMove g σ A
  noMoveWhileBorrowed : NoMoveWhileBorrowed g σ A

instance (g : Graph) (σ A : List Nat) : Decidable (Defd g σ A) := by
  unfold Defd; exact inferInstance
instance (g : Graph) (σ A : List Nat) : Decidable (NoUseAfterMove g σ A) := by
  unfold NoUseAfterMove; exact inferInstance
instance (g : Graph) (σ A : List Nat) : Decidable (NoMoveWhileBorrowed g σ A) := by
  unfold NoMoveWhileBorrowed; exact inferInstance

instance (g : Graph) (σ A : List Nat) : Decidable (OwnSafe g σ A) :=
  decidable_of_iff (σ.Nodup ∧ Defd g σ A ∧ NoUseAfterMove g σ A ∧ NoMoveWhileBorrowed g σ A)
    ⟨fun ⟨a, b, c, d⟩ => ⟨a, b, c, d⟩, fun ⟨a, b, c, d⟩ => ⟨a, b, c, d⟩⟩

/-- Executable checker: decides exactly the specification (`ownCheck_iff` in Thm/C01.lean). -/
def ownCheck (g : Graph) (σ : List Nat) (A : List Nat) : Bool := decide (OwnSafe g σ A)

/-- nodes that keep a borrow of `d` alive through one of their inputs: they use the output of a
    node that holds a reference to `d` (↔ the second loop of `OwnershipRelationships::compute`,
    fed by `captured_nodes`; fix "capture-aware ordering"). -/
def holderUsers (g : Graph) (d : Nat) : List Nat :=
  (List.range g.size).filter (fun t => t != d && (g.inEdges t).any (fun e => e.isData && holds g e.src d))

/-- ↔ `node_id2borrower_ids[d]` as computed by `OwnershipRelationships::compute`: the nodes that
    borrow `d` directly, and the nodes that use a value holding a reference to `d`. -/
def allBorrowers (g : Graph) (d : Nat) : List Nat := g.borrowers d ++ holderUsers g d

/-- ↔ `!is_blocked` in `OrderedCallGraph::order`: every dependency (any edge kind) is placed, and no
    dependency that this node consumes is still borrowed by an unplaced node, unless it is Copy. -/
def canPlace (g : Graph) (placed : List Nat) (n : Nat) : Bool :=
  (g.preds n).all (fun p =>
    placed.contains p &&
    !((g.consumers p).contains n && (allBorrowers g p).any (fun b => !placed.contains b) &&
      !(g.node p).copy))

/-- `σ` extends `placed` by legal placements only. -/
def isRunFrom (g : Graph) : List Nat → List Nat → Bool
  | _, [] => true
  | placed, n :: rest => !placed.contains n && canPlace g placed n && isRunFrom g (placed ++ [n]) rest

/-- `σ` is an order the ordering step may produce. -/
def isRun (g : Graph) (σ : List Nat) : Bool := isRunFrom g [] σ

/-- the order is complete: every node is placed (the Rust code panics otherwise: "stuck"). -/
def isComplete (g : Graph) (σ : List Nat) : Bool := (List.range g.size).all σ.contains

/-- One deterministic strategy (lowest placeable index first); `none` = stuck. -/
def orderLoop (g : Graph) : Nat → List Nat → Option (List Nat)
  | 0, placed => if placed.length == g.size then some placed else none
  | fuel + 1, placed =>
    if placed.length == g.size then some placed
    else match (List.range g.size).find? (fun n => !placed.contains n && canPlace g placed n) with
      | some n => orderLoop g fuel (placed ++ [n])
      | none => none

def order (g : Graph) : Option (List Nat) := orderLoop g g.size []

/-- `A` is closed under (data and happens-before) predecessors: a control-flow path. -/
def predClosed (g : Graph) (A : List Nat) : Bool :=
  A.all (fun n => (g.preds n).all A.contains)

/-- within `A`, every non-Copy value is taken by value by at most one node
    (what `multiple_consumers` establishes per sink). -/
def oneMover (g : Graph) (A : List Nat) : Bool :=
  (List.range g.size).all (fun d => (g.node d).copy ||
    (g.consumers d).all (fun c1 => (g.consumers d).all (fun c2 =>
      !A.contains c1 || !A.contains c2 || c1 == c2)))

/-- no value keeps a borrow alive in its output. -/
def captureFree (g : Graph) : Bool := g.nodes.all (fun n => n.tied.isEmpty && n.direct.isEmpty)

/-- What `order` would have to guarantee when captures are present: every user of a value that
    holds a borrow of `d` is placed before the node that moves (or `&mut`-borrows) `d`. -/
def holdersFirst (g : Graph) (σ A : List Nat) : Bool := decide (NoMoveWhileBorrowed g σ A)

/-- no non-Copy value is both consumed and borrowed. -/
def noConflict (g : Graph) : Bool :=
  (List.range g.size).all (fun d => (g.node d).copy || (g.consumers d).isEmpty || (allBorrowers g d).isEmpty)

/-- `τ` lists every node once and respects every edge (the graph is acyclic). -/
def isTopo (g : Graph) (τ : List Nat) : Bool :=
  decide τ.Nodup && (List.range g.size).all τ.contains && τ.all (fun n => decide (n < g.size)) &&
  g.edges.all (fun e => decide (pos τ e.src < pos τ e.dst))

/-- ancestors-or-self of `s`, i.e. the statements on the control-flow path ending in sink `s`. -/
def pathTo (g : Graph) (s : Nat) : List Nat := (List.range g.size).filter (fun n => g.reaches n s)

end Pxv.CG
