/-
`DependencyGraph::build` (compiler/pavexc/src/compiler/analyses/call_graph/dependency_graph.rs): the graph on which
pavexc looks for dependency cycles (and for error handlers that need the value whose construction failed) before it
builds a call graph. Components are numbers; what the loop asks the component database is abstracted into four tables.
Import-free.
-/
namespace Pxv.Dep

/-- what `build` asks `ComponentDb` / `ConstructibleDb` about a component -/
structure DB where
  /-- components that become `Input` nodes (prebuilt types; lifecycles with no invocation count): never explored -/
  inputs : List Nat := []
  /-- a compute component → the constructors of its inputs, as resolved from its scope (inputs without a constructor become
      `Input` nodes of their own and are left out) -/
  deps : List (Nat × List Nat) := []
  /-- ↔ `error_handler_id` (registered on the `Err` matcher of a fallible component) -/
  eh : List (Nat × Nat) := []
  /-- ↔ `transformer_ids` whose scope covers the root (the `Ok` / `Err` matchers of a fallible component) -/
  tr : List (Nat × List Nat) := []
  deriving Repr, DecidableEq

def look (m : List (Nat × List Nat)) (k : Nat) : List Nat :=
  match m.find? (·.1 == k) with
  | some (_, v) => v
  | none => []

def DB.depsOf (db : DB) (c : Nat) : List Nat := look db.deps c
def DB.trOf (db : DB) (c : Nat) : List Nat := look db.tr c
def DB.ehOf (db : DB) (c : Nat) : Option Nat := (db.eh.find? (·.1 == c)).map (·.2)
def DB.isCompute (db : DB) (c : Nat) : Bool := !db.inputs.contains c

/-- a work item: the component to visit and, if any, the node it hangs off: `(true, p)` = `VisitorNeighbour::Parent(p)` (edge
    `p → this`), `(false, c)` = `VisitorNeighbour::Child(c)` (edge `this → c`) -/
abbrev Item := Nat × Option (Bool × Nat)

structure St where
  nodes : List Nat := []
  edges : List (Nat × Nat) := []
  /-- `nodes_to_be_visited` (an `IndexSet`; `pop` takes the last element) -/
  work : List Item := []
  processed : List Nat := []
  handled : List Nat := []
  transformed : List Nat := []
  deriving Repr, DecidableEq

def addNode (ns : List Nat) (c : Nat) : List Nat := if ns.contains c then ns else ns ++ [c]
def addEdge (es : List (Nat × Nat)) (e : Nat × Nat) : List (Nat × Nat) := if es.contains e then es else es ++ [e]
def pushItem (w : List Item) (i : Item) : List Item := if w.contains i then w else w ++ [i]

/-- ↔ one iteration of `while let Some(node_to_be_visited) = nodes_to_be_visited.pop()` -/
def visit (db : DB) (s : St) (it : Item) : St :=
  let c := it.1
  let s := { s with nodes := addNode s.nodes c }
  let s := match it.2 with
    | some (true, p) => { s with edges := addEdge s.edges (p, c) }
    | some (false, ch) => { s with edges := addEdge s.edges (c, ch) }
    | none => s
  if s.processed.contains c then s
  else
    let s := if db.isCompute c then
        { s with work := (db.depsOf c).foldl (fun w d => pushItem w (d, some (false, c))) s.work }
      else s
    { s with processed := s.processed ++ [c] }

def visitAll (db : DB) : Nat → St → St
  | 0, s => s
  | fuel + 1, s =>
    match s.work.getLast? with
    | none => s
    | some it => visitAll db fuel (visit db { s with work := s.work.dropLast } it)

/-- ↔ "for each node, we try to add a `Compute` node for the respective error handler" -/
def handleErrors (db : DB) (s : St) : St :=
  s.nodes.foldl (fun s c =>
    if s.handled.contains c then s
    else
      let s := if db.isCompute c then
          match db.ehOf c with
          | some h => { s with work := pushItem s.work (h, some (true, c)) }
          | none => s
        else s
      { s with handled := s.handled ++ [c] }) s

/-- ↔ "for each node, we add the respective transformers": over the nodes present when the phase starts -/
def addTransformers (db : DB) (s : St) : St :=
  s.nodes.foldl (fun s c =>
    if s.transformed.contains c then s
    else
      let s := if db.isCompute c then
          (db.trOf c).foldl (fun s t => { s with nodes := addNode s.nodes t, edges := addEdge s.edges (c, t) }) s
        else s
      { s with transformed := s.transformed ++ [c] }) s

/-- one iteration of the outer `loop`; the flag says `break` -/
def round (db : DB) (visitFuel : Nat) (s : St) : St × Bool :=
  let s1 := visitAll db visitFuel s
  let sizeBefore := s1.nodes.length
  let s2 := handleErrors db s1
  let s3 := addTransformers db s2
  (s3, s3.work.isEmpty && s3.nodes.length == sizeBefore)

/-- the variant a seeded change introduced: stop as soon as nothing is left to visit -/
def roundEarly (db : DB) (visitFuel : Nat) (s : St) : St × Bool :=
  let r := round db visitFuel s
  (r.1, r.1.work.isEmpty)

def loopWith (rnd : St → St × Bool) : Nat → St → St × Bool
  | 0, s => (s, false)
  | fuel + 1, s =>
    let r := rnd s
    if r.2 then (r.1, true) else loopWith rnd fuel r.1

/-- ↔ `DependencyGraph::build(root, observers)`: the flag says that the loop ended by itself (fuel was enough) -/
def build (db : DB) (fuel : Nat) (root : Nat) (observers : List Nat) : St × Bool :=
  loopWith (round db fuel) fuel { work := (observers.map (fun o => (o, none))) ++ [(root, none)] }

def buildEarly (db : DB) (fuel : Nat) (root : Nat) (observers : List Nat) : St × Bool :=
  loopWith (roundEarly db fuel) fuel { work := (observers.map (fun o => (o, none))) ++ [(root, none)] }

end Pxv.Dep
