/-
Middleware chains and the request-processing pipeline.
 * `chains`  ↔ compiler/pavexc/src/compiler/analyses/user_components/blueprint.rs
              (`process_blueprint` / `_process_blueprint`: `current_middleware_chain`, snapshot at `nest`)
 * `group`   ↔ compiler/pavexc/src/compiler/analyses/processing_pipeline/pipeline.rs, step 1c (`StageIds`)
 * `runStages` ↔ the stage functions emitted by processing_pipeline/codegen.rs:
              `'incoming: { pres (early return breaks out); wrapping_or_handler }` then the posts;
              a wrapping middleware invokes the next stage where it awaits `next`.
 * `doc`     the order docs/guide/middleware/execution_order.md describes, as a direct recursion.
Import-free.
-/
namespace Pxv.Pipe

inductive MwKind where
  | wrap | pre | post
  deriving Repr, DecidableEq

structure Mw where
  kind : MwKind
  id : Nat
  deriving Repr, DecidableEq

mutual
  /-- one registration in a blueprint -/
  inductive Item where
    | mw (m : Mw)
    | route (id : Nat)
    | nest (b : Bp)
  /-- a blueprint: registrations in call order -/
  inductive Bp where
    | nil
    | cons (i : Item) (rest : Bp)
end

/-- For every route of the blueprint (nested ones included), the middleware chain that wraps it:
    everything registered before it in its own blueprint, after what the enclosing blueprints had
    registered when this blueprint was nested. -/
def chains : Bp → List Mw → List (Nat × List Mw)
  | .nil, _ => []
  | .cons (.mw m) rest, c => chains rest (c ++ [m])
  | .cons (.route h) rest, c => (h, c) :: chains rest c
  | .cons (.nest b) rest, c => chains b c ++ chains rest c

/-- the middle of a stage: a wrapping middleware or the request handler -/
inductive Mid where
  | wrap (id : Nat)
  | handler (id : Nat)
  deriving Repr, DecidableEq

/-- ↔ `StageIds` -/
structure Stage where
  pres : List Nat
  mid : Mid
  posts : List Nat
  deriving Repr, DecidableEq

/-- ↔ step 1c: walk the chain, collecting pres and posts until the next wrapping middleware (or,
    at the end, the handler) closes the stage. -/
def group : List Mw → List Nat → List Nat → Nat → List Stage
  | [], pres, posts, h => [⟨pres, .handler h, posts⟩]
  | m :: ms, pres, posts, h =>
    match m.kind with
    | .pre => group ms (pres ++ [m.id]) posts h
    | .post => group ms pres (posts ++ [m.id]) h
    | .wrap => ⟨pres, .wrap m.id, posts⟩ :: group ms [] [] h

/-- the stages of a route (the synthetic `wrap_noop` that pavexc puts first is transparent: it owns
    no pre/post and emits no event, so it is left out of the model's traces). -/
def stages (chain : List Mw) (h : Nat) : List Stage := group chain [] [] h

inductive Event where
  | wrapStart (id : Nat) | wrapEnd (id : Nat)
  | pre (id : Nat) | early (id : Nat) | post (id : Nat)
  | handler (id : Nat)
  deriving Repr, DecidableEq

/-- run the pre-processing middlewares of a stage; `k` is what follows inside `'incoming`. -/
def runPres (early : Nat → Bool) : List Nat → List Event → List Event
  | [], k => k
  | p :: ps, k => .pre p :: (if early p then [.early p] else runPres early ps k)

/-- ↔ the generated stage functions, outermost stage first. -/
def runStages (early : Nat → Bool) : List Stage → List Event
  | [] => []
  | s :: rest =>
    runPres early s.pres
      (match s.mid with
       | .wrap w => [.wrapStart w] ++ runStages early rest ++ [.wrapEnd w]
       | .handler h => [.handler h])
    ++ s.posts.map .post

/-- `pavexc`'s pipeline for one route. -/
def run (early : Nat → Bool) (chain : List Mw) (h : Nat) : List Event :=
  runStages early (stages chain h)

/-- registrations up to (excluding) the first wrapping middleware, and what comes after it. -/
def splitWrap : List Mw → List Mw × Option (Nat × List Mw)
  | [] => ([], none)
  | m :: ms =>
    match m.kind with
    | .wrap => ([], some (m.id, ms))
    | _ => let r := splitWrap ms; (m :: r.1, r.2)

def presOf (l : List Mw) : List Nat := (l.filter (·.kind == .pre)).map (·.id)
def postsOf (l : List Mw) : List Nat := (l.filter (·.kind == .post)).map (·.id)

/-- The documented order: the pre-processors registered before the next wrapping middleware run
    first, in registration order (an early return skips the rest of them and everything inside);
    then that wrapping middleware runs around everything registered after it; the
    post-processors registered before it run once it is done, in registration order. -/
def doc (early : Nat → Bool) : Nat → List Mw → Nat → List Event
  | 0, _, _ => []
  | fuel + 1, regs, h =>
    let s := splitWrap regs
    runPres early (presOf s.1)
      (match s.2 with
       | none => [.handler h]
       | some (w, rest) => [.wrapStart w] ++ doc early fuel rest h ++ [.wrapEnd w])
    ++ (postsOf s.1).map .post

end Pxv.Pipe
