/-
C07 — model of the third-party router `matchit` 0.9.2 (`Router::insert`, `Router::at`), on ASCII
routes and paths (`matchit` works on bytes; a `Char` below stands for one byte).

Two parts, both executable and import-free:

* **`insert`** is a *structural port* of `tree.rs` (`Node::insert`, `Node::insert_route`,
  `normalize_params`, `find_wildcard`, the three `*_wild_child_in_segment` predicates) and of
  `escape.rs` (`UnescapedRoute::new`, `splice`): the answer of `insert` (ok / `Conflict` /
  `InvalidParam` / `InvalidParamSegment` / `InvalidCatchAll` / the "Too many route parameters"
  panic) depends on the shape of the radix tree, which depends on the insertion order, so the tree
  is rebuilt node by node.  Child priorities (which only permute static children) are left out.
* **`at`** is *semantic*: a route is a list of tokens (`Tok`), and `atGo` is the depth-first search
  `Node::at` performs (static child before wildcard child, backtracking to skipped wildcards, a
  parameter with static suffix commits to the longest suffix that fits) expressed over the *set* of
  inserted routes instead of over the tree.

Validated against the real crate by the in-process differential run of `tools/checks/c07.py`
(random tables × paths, including malformed patterns); not verified.
-/
namespace Pxv.Matchit

/-! ## `escape.rs` -/

/-- `UnescapedRoute`: the bytes with `{{` / `}}` collapsed, and the indices of the collapsed ones. -/
structure URoute where
  inner : List Char
  escaped : List Nat
  deriving Repr, DecidableEq

/-- `UnescapedRoute::new`. `i` is the index of the next byte of the output. -/
def unescGo : List Char → Nat → List Char × List Nat
  | [], _ => ([], [])
  | [c], _ => ([c], [])
  | c :: d :: rest, i =>
    if (c = '{' ∧ d = '{') ∨ (c = '}' ∧ d = '}') then
      let (cs, es) := unescGo rest (i + 1)
      (c :: cs, i :: es)
    else
      let (cs, es) := unescGo (d :: rest) (i + 1)
      (c :: cs, es)

def unesc (s : List Char) : URoute := let (cs, es) := unescGo s 0; ⟨cs, es⟩

/-- One byte of a route with its "was escaped" flag (an `UnescapedRef` is a view: flags suffice). -/
structure B where
  ch : Char
  esc : Bool
  deriving Repr, DecidableEq

abbrev Rt := List B

def URoute.flags (u : URoute) : Rt :=
  (List.range u.inner.length).zipWith (fun i c => ⟨c, u.escaped.contains i⟩) u.inner

def bytes (r : Rt) : List Char := r.map (·.ch)

inductive InsErr where
  | conflict | invalidParam | invalidParamSegment | invalidCatchAll | tooManyParams
  deriving Repr, DecidableEq

/-! ## `find_wildcard` -/

/-- The inner loop of `find_wildcard`: look for the closing brace, starting at index `i`
    (`prev` = the byte at `i - 1`). Returns the index one past the closing brace. -/
def findClose : Rt → Nat → Char → Except InsErr Nat
  | [], _, _ => .error .invalidParam
  | b :: rest, i, prev =>
    if b.ch = '}' then
      if b.esc then findClose rest (i + 1) b.ch
      else if prev = '*' then .error .invalidParam
      else .ok (i + 1)
    else if b.ch = '*' ∨ b.ch = '/' then .error .invalidParam
    else findClose rest (i + 1) b.ch

/-- `find_wildcard`: the range `start..end` of the first wildcard. -/
def findWildcardGo : Rt → Nat → Except InsErr (Option (Nat × Nat))
  | [], _ => .ok none
  | b :: rest, start =>
    if b.ch = '}' ∧ !b.esc then .error .invalidParam
    else if b.ch ≠ '{' ∨ b.esc then findWildcardGo rest (start + 1)
    else
      match rest with
      | [] => .error .invalidParam
      | n :: rest' =>
        if n.ch = '}' then .error .invalidParam
        else match findClose rest' (start + 2) n.ch with
          | .error e => .error e
          | .ok e => .ok (some (start, e))

def findWildcard (p : Rt) : Except InsErr (Option (Nat × Nat)) := findWildcardGo p 0

/-- `if let Ok(Some(w)) = find_wildcard(..)`. -/
def findWildcard? (p : Rt) : Option (Nat × Nat) :=
  match findWildcard p with
  | .ok (some w) => some w
  | _ => none

/-! ## `normalize_params` (on the index-list representation, with `splice` as written) -/

/-- `UnescapedRoute::splice(range, replace)`: escaped indices inside the range are dropped, those
    strictly greater than `range.end` are shifted (an index equal to `range.end` is not — as in the
    source). -/
def splice (u : URoute) (s e : Nat) (repl : List Char) : URoute :=
  let esc := u.escaped.filter (fun x => !(s ≤ x ∧ x < e))
  let esc := esc.map (fun i => if i > e then i + repl.length - (e - s) else i)
  ⟨u.inner.take s ++ repl ++ u.inner.drop e, esc⟩

def URoute.sliceOff (u : URoute) (start : Nat) : Rt := u.flags.drop start

/-- The loop of `normalize_params`; `next` counts the parameters renamed so far (`b'a' + next`). -/
def normalizeGo : Nat → URoute → Nat → Nat → Except InsErr URoute
  | 0, u, _, _ => .ok u
  | fuel + 1, u, start, next =>
    match findWildcard (u.sliceOff start) with
    | .error e => .error e
    | .ok none => .ok u
    | .ok (some (ws, we)) =>
      let ws := ws + start
      let we := we + start
      if we - ws < 2 then .error .invalidParam
      else if u.inner.getD (ws + 1) ' ' = '*' then normalizeGo fuel u we next
      else
        let u' := splice u ws we ['{', Char.ofNat ('a'.toNat + next), '}']
        if next + 1 ≥ 26 then .error .tooManyParams
        else normalizeGo fuel u' (ws + 3) (next + 1)

def normalize (s : List Char) : Except InsErr Rt :=
  let u := unesc s
  match normalizeGo (u.inner.length + 1) u 0 0 with
  | .error e => .error e
  | .ok u' => .ok u'.flags

/-! ## The radix tree -/

inductive NT where
  | root | param (suffix : Bool) | catchAll | static
  deriving Repr, DecidableEq

inductive Node where
  | mk (pre : Rt) (wild : Bool) (indices : List Char) (nt : NT) (children : List Node) (val : Option Nat)
  deriving Repr

namespace Node
def pre : Node → Rt | mk p _ _ _ _ _ => p
def wild : Node → Bool | mk _ w _ _ _ _ => w
def indices : Node → List Char | mk _ _ i _ _ _ => i
def nt : Node → NT | mk _ _ _ t _ _ => t
def children : Node → List Node | mk _ _ _ _ c _ => c
def val : Node → Option Nat | mk _ _ _ _ _ v => v
def setPre (n : Node) (p : Rt) : Node := mk p n.wild n.indices n.nt n.children n.val
def setWild (n : Node) (w : Bool) : Node := mk n.pre w n.indices n.nt n.children n.val
def setIndices (n : Node) (i : List Char) : Node := mk n.pre n.wild i n.nt n.children n.val
def setNt (n : Node) (t : NT) : Node := mk n.pre n.wild n.indices t n.children n.val
def setChildren (n : Node) (c : List Node) : Node := mk n.pre n.wild n.indices n.nt c n.val
def setVal (n : Node) (v : Option Nat) : Node := mk n.pre n.wild n.indices n.nt n.children v
/-- `Node::default()`. -/
def empty : Node := mk [] false [] .static [] none
end Node

def isSlash (r : List Char) : Bool := r == ['/']
/-- `matches!(*suffix, b"" | b"/")`. -/
def trivialSuffix (r : Rt) : Bool := bytes r == [] || bytes r == ['/']
def endsWithSlash (r : Rt) : Bool := (bytes r).getLast? == some '/'

/-- `Node::wild_child_in_segment`. -/
def wcis : Nat → Node → Bool
  | 0, _ => false
  | fuel + 1, n =>
    if (bytes n.pre).contains '/' then false
    else match n.nt with
      | .param _ => true
      | _ => n.children.any (wcis fuel)

/-- `Node::prefix_wild_child_in_segment`. -/
def pwcis : Nat → Node → Bool
  | 0, _ => false
  | fuel + 1, n =>
    if n.nt = .root ∧ n.pre = [] then false
    else if endsWithSlash n.pre then n.children.any (pwcis fuel)
    else n.children.any (wcis fuel)

/-- `Node::suffix_wild_child_in_segment`. -/
def swcis : Nat → Node → Bool
  | 0, _ => false
  | fuel + 1, n =>
    if n.nt = .param true then true
    else n.children.any (fun c => if (bytes c.pre).contains '/' then false else swcis fuel c)

/-- `Node::add_child`: wildcards stay at the end. -/
def addChild (n : Node) (c : Node) : Node × Nat :=
  let len := n.children.length
  if n.wild ∧ len > 0 then (n.setChildren (n.children.take (len - 1) ++ [c] ++ n.children.drop (len - 1)), len - 1)
  else (n.setChildren (n.children ++ [c]), len)

/-- `Node::add_suffix_child`: suffixes sorted by descending length (`partition_point(len >= new)`). -/
def addSuffixChild (n : Node) (c : Node) : Node × Nat :=
  let i := (n.children.takeWhile (fun x => x.pre.length ≥ c.pre.length)).length
  (n.setChildren (n.children.take i ++ [c] ++ n.children.drop i), i)

def setChildAt (n : Node) (i : Nat) (c : Node) : Node := n.setChildren (n.children.set i c)

/-- Position of the first `/` (`iter().position(|&b| b == b'/')`). -/
def slashPos (r : Rt) : Option Nat :=
  let k := (r.takeWhile (fun b => b.ch ≠ '/')).length
  if k < r.length then some k else none

/-- `Node::insert_route`: hang what is left of a route (`p`) below `node`, one wildcard at a time. -/
def insertRoute : Nat → Node → Rt → Nat → Except InsErr Node
  | 0, _, _, _ => .error .invalidParam
  | fuel + 1, node, p, v =>
    match findWildcard p with
    | .error e => .error e
    | .ok none => .ok ((node.setVal (some v)).setPre p)
    | .ok (some (ws, we)) =>
      if (p.getD (ws + 1) ⟨' ', false⟩).ch = '*' then
        if we ≠ p.length then .error .invalidCatchAll
        else
          let node := if ws > 0 then node.setPre (p.take ws) else node
          let p := if ws > 0 then p.drop ws else p
          let child := Node.mk p false [] .catchAll [] (some v)
          .ok ((addChild node child).1.setWild true)
      else
        let node := if ws > 0 then node.setPre (p.take ws) else node
        let p := if ws > 0 then p.drop ws else p
        let wlen := we - ws
        let term := match slashPos p with | some k => k + 1 | none => p.length
        let wildcard := p.take wlen
        let suffix := (p.take term).drop wlen
        let rest := p.drop term
        if (findWildcard? suffix).isSome then .error .invalidParamSegment
        else
          let hasSuffix := !trivialSuffix suffix
          -- the parameter node, then its suffix node (if any), then the remaining route below
          let below (n : Node) : Except InsErr Node :=
            if rest.isEmpty then .ok (n.setVal (some v))
            else
              match rest with
              | [] => .ok (n.setVal (some v))
              | r0 :: _ =>
                if r0.ch ≠ '{' ∨ r0.esc then
                  match insertRoute fuel Node.empty rest v with
                  | .error e => .error e
                  | .ok c => .ok ((addChild (n.setIndices (n.indices ++ [r0.ch])) c).1)
                else insertRoute fuel n rest v
          let paramNode := Node.mk wildcard false [] (.param hasSuffix) [] none
          let built : Except InsErr Node :=
            if suffix.isEmpty then below paramNode
            else
              match below (Node.mk suffix false [] .static [] none) with
              | .error e => .error e
              | .ok sc => .ok ((addSuffixChild paramNode sc).1)
          match built with
          | .error e => .error e
          | .ok pn => .ok ((addChild node pn).1.setWild true)

/-- Length of the common prefix of the route and the node's prefix (bytes and escape flags). -/
def commonLen : Rt → Rt → Nat
  | a :: as, b :: bs => if a.ch = b.ch ∧ a.esc = b.esc then commonLen as bs + 1 else 0
  | _, _ => 0

/-- The `'walk` loop of `Node::insert`, as a recursion over the tree. `parent` is the node we came
    from (`state.parent()`), `dfuel` bounds the depth of the `*_in_segment` walks. -/
def insNode : Nat → Nat → Option Node → Node → Rt → Nat → Except InsErr Node
  | 0, _, _, _, _, _ => .error .conflict
  | fuel + 1, dfuel, parent, node, remaining, v =>
    let common := commonLen remaining node.pre
    if node.pre.length > common then
      -- fork: the non-matching suffix moves into a child
      let child := Node.mk (node.pre.drop common) node.wild node.indices .static node.children node.val
      let node' := Node.mk (node.pre.take common) false [(node.pre.getD common ⟨' ', false⟩).ch] node.nt [child] none
      insNode fuel dfuel parent node' remaining v
    else if remaining.length = common then
      if node.val.isSome then .error .conflict else .ok (node.setVal (some v))
    else
      let commonRemaining := remaining
      let remaining := remaining.drop common
      match remaining with
      | [] => .error .conflict
      | next :: _ =>
      match node.nt with
      | .param hasSuffix =>
        let term := match slashPos remaining with | some k => k + 1 | none => remaining.length
        let suffix := remaining.take term
        match node.children.findIdx? (fun c => bytes c.pre == bytes suffix) with
        | some i =>
          match insNode fuel dfuel (some node) (node.children.getD i Node.empty) remaining v with
          | .error e => .error e
          | .ok c => .ok (setChildAt node i c)
        | none =>
          let extra := node.children.any (fun c =>
            let cp := bytes c.pre
            let sf := bytes suffix
            if cp.length ≤ sf.length then sf.take cp.length == cp && isSlash (sf.drop cp.length)
            else cp.take sf.length == sf && isSlash (cp.drop sf.length))
          if !extra && !trivialSuffix suffix && (match parent with | some p => pwcis dfuel p | none => false) then
            .error .conflict
          else if (findWildcard? suffix).isSome then .error .invalidParamSegment
          else
            let node := node.setNt (.param (hasSuffix || !trivialSuffix suffix))
            let rest := remaining.drop term
            let sc0 := Node.mk suffix false [] .static [] none
            let scE : Except InsErr Node :=
              match rest with
              | [] => .ok (sc0.setVal (some v))
              | r0 :: _ =>
                if r0.ch ≠ '{' ∨ r0.esc then
                  match insertRoute (rest.length + 1) Node.empty rest v with
                  | .error e => .error e
                  | .ok c => .ok ((addChild (sc0.setIndices [r0.ch]) c).1)
                else insertRoute (rest.length + 1) sc0 rest v
            match scE with
            | .error e => .error e
            | .ok sc => .ok ((addSuffixChild node sc).1)
      | _ =>
        -- a static child that starts with the next byte
        let idx := (List.range node.indices.length).find? (fun i =>
          node.indices.getD i ' ' = next.ch ∧ !((next.ch = '{' ∨ next.ch = '}') ∧ !next.esc))
        match idx with
        | some i =>
          match insNode fuel dfuel (some node) (node.children.getD i Node.empty) remaining v with
          | .error e => .error e
          | .ok c => .ok (setChildAt node i c)
        | none =>
          if (next.ch ≠ '{' ∨ next.esc) ∧ node.nt ≠ .catchAll then
            let term := match slashPos remaining with | some k => k | none => remaining.length
            let seg := remaining.take term
            let clash := match findWildcard? seg with
              | some (ws, we) =>
                (ws > 0 && swcis dfuel node) || (!trivialSuffix (seg.drop we) && pwcis dfuel node)
              | none => false
            if clash then .error .conflict
            else
              match insertRoute (remaining.length + 1) Node.empty remaining v with
              | .error e => .error e
              | .ok c => .ok ((addChild (node.setIndices (node.indices ++ [next.ch])) c).1)
          else if node.wild then
            let wi := node.children.length - 1
            let w := node.children.getD wi Node.empty
            if remaining.length ≥ w.pre.length ∧ bytes (remaining.take w.pre.length) ≠ bytes w.pre then .error .conflict
            else if w.nt = .catchAll then .error .conflict
            else
              let clash :=
                if !endsWithSlash node.pre ∧ w.nt = .param true then
                  let term := match slashPos remaining with | some k => k + 1 | none => remaining.length
                  match findWildcard? (remaining.take term) with
                  | some (_, we) => trivialSuffix (remaining.drop we)
                  | none => false
                else false
              if clash then .error .conflict
              else
                match insNode fuel dfuel (some node) w remaining v with
                | .error e => .error e
                | .ok c => .ok (setChildAt node wi c)
          else
            let clash := match findWildcard? remaining with
              | some (_, we) =>
                (!trivialSuffix (remaining.drop we) && pwcis dfuel node) ||
                (common ≥ 1 && (commonRemaining.getD (common - 1) ⟨' ', false⟩).ch ≠ '/' && swcis dfuel node)
              | none => false
            if clash then .error .conflict
            else insertRoute (remaining.length + 1) node remaining v

/-- The router: the tree (if any route was inserted) and the routes inserted so far. -/
structure Router where
  root : Node := Node.empty
  routes : List (Nat × List Char) := []
  chars : Nat := 0

/-- `Router::insert(route, v)`. -/
def Router.insert (r : Router) (route : List Char) (v : Nat) : Except InsErr Router :=
  match normalize route with
  | .error e => .error e
  | .ok rt =>
    let chars := r.chars + route.length + 2
    let res :=
      if r.root.val.isNone ∧ r.root.children.isEmpty then
        match insertRoute (rt.length + 1) r.root rt v with
        | .error e => .error e
        | .ok n => .ok (n.setNt .root)
      else insNode (chars + rt.length + 2) (chars + 2) none r.root rt v
    match res with
    | .error e => .error e
    | .ok n => .ok { root := n, routes := r.routes ++ [(v, route)], chars := chars }

/-- Is a `Conflict` answered to `insert(route)` one `with` the very same string
    (`Conflict { with } if with == router_key.path`, which `detect_path_conflicts` tolerates)?
    `with` is the *unescaped* text of the earlier route, so a route written with `{{`/`}}` never
    conflicts "with itself". -/
def Router.selfConflict (r : Router) (route : List Char) : Bool :=
  r.routes.any (fun q => q.2 == route) && (unesc route).escaped.isEmpty

/-! ## Routes as token lists; the semantic `at` -/

/-- What a route looks like to `Node::at`: a static byte, a `{param}` together with the static text
    that follows it inside its segment, or a trailing `{*catch_all}`. -/
inductive Tok where
  | c (ch : Char)
  | par (suf : List Char)
  | star
  deriving Repr, DecidableEq

/-- Tokens of a normalised route (escape flags tell a literal brace from a wildcard). Routes that
    `insert` accepts have one wildcard per segment and a catch-all only at the end, so the literal
    text after a `{param}` up to the next `/` is its suffix. -/
def toksGo : Nat → Rt → List Tok
  | 0, _ => []
  | _, [] => []
  | fuel + 1, b :: rest =>
    if b.ch = '{' ∧ !b.esc then
      let isStar := (rest.head?.map (·.ch)) = some '*'
      let after := (rest.dropWhile (fun x => !(x.ch = '}' ∧ !x.esc))).drop 1
      if isStar then [.star]
      else
        let suf := after.takeWhile (fun x => x.ch ≠ '/')
        .par (bytes suf) :: toksGo fuel (after.drop suf.length)
    else .c b.ch :: toksGo fuel rest

def toks (route : List Char) : List Tok :=
  match normalize route with
  | .ok rt => toksGo (rt.length + 1) rt
  | .error _ => []

/-- The first path segment and what follows it (`""` or `"/…"`). -/
def splitSeg (p : List Char) : List Char × List Char := (p.takeWhile (· ≠ '/'), p.dropWhile (· ≠ '/'))

/-- Does `{param}suf` take the segment `seg`? (non-empty parameter value, then the literal suffix) -/
def fits (suf seg : List Char) : Bool := suf.length < seg.length && suf.isSuffixOf seg

/-- The documented meaning of a route: does it match the path? -/
def matchTok : List Tok → List Char → Bool
  | [], [] => true
  | .c x :: ts, y :: p => x == y && matchTok ts p
  | .par suf :: ts, p =>
    fits suf (splitSeg p).1 && matchTok ts (splitSeg p).2
  | .star :: _, _ :: _ => true
  | _, _ => false

abbrev RSet := List (Nat × List Tok)

def advC (y : Char) (S : RSet) : RSet :=
  S.filterMap (fun r => match r.2 with | .c x :: t => if x = y then some (r.1, t) else none | _ => none)

def advPar (suf : List Char) (S : RSet) : RSet :=
  S.filterMap (fun r => match r.2 with | .par s :: t => if s = suf then some (r.1, t) else none | _ => none)

/-- The value stored where a route ends. -/
def endsHere (S : RSet) : Option Nat := (S.find? (fun r => r.2.isEmpty)).map (·.1)

def startsWithStar : List Tok → Bool
  | .star :: _ => true
  | _ => false

def starHere (S : RSet) : Option Nat := (S.find? (fun r => startsWithStar r.2)).map (·.1)

/-- The suffix children of the parameter node that are candidates for this segment: the route must
    go on exactly when the path does (`last` = this is the last path segment). -/
def parCands (S : RSet) (seg : List Char) (last : Bool) : List (List Char) :=
  S.filterMap (fun r => match r.2 with
    | .par s :: t => if fits s seg && (t.isEmpty == last) then some s else none
    | _ => none)

/-- The longest candidate (the first of that length). -/
def longest : List (List Char) → Option (List Char)
  | [] => none
  | s :: ss => match longest ss with
    | none => some s
    | some b => if b.length > s.length then some b else some s

theorem length_dropWhile_le {α : Type} (f : α → Bool) (l : List α) : (l.dropWhile f).length ≤ l.length := by
  induction l with
  | nil => simp
  | cons a t ih => simp only [List.dropWhile_cons]; split <;> simp <;> omega

theorem splitSeg_snd_le (p : List Char) : (splitSeg p).2.length ≤ p.length := by
  unfold splitSeg; exact length_dropWhile_le _ _

/-- `Node::at`, over the set of routes that pass through the current position. `fuel` bounds the
    length of the path (every step consumes at least one byte). -/
def atFuel : Nat → RSet → List Char → Option Nat
  | 0, _, _ => none
  | _ + 1, S, [] => endsHere S
  | fuel + 1, S, y :: p =>
    match atFuel fuel (advC y S) p with
    | some i => some i
    | none =>
      let seg := (splitSeg (y :: p)).1
      let rest := (splitSeg (y :: p)).2
      let viaPar :=
        if y = '/' then none
        else match longest (parCands S seg rest.isEmpty) with
          | none => none
          | some suf => atFuel fuel (advPar suf S) rest
      match viaPar with
      | some i => some i
      | none => starHere S

def atGo (S : RSet) (p : List Char) : Option Nat := atFuel (p.length + 1) S p

/-! ### specification side: specificity of routes -/

/-- How far a token goes on static text: a static byte beats a parameter, a parameter with a longer
    static suffix beats one with a shorter suffix, the catch-all comes last. -/
def Tok.rank : Tok → Nat × Nat
  | .c _ => (2, 0)
  | .par s => (1, s.length)
  | .star => (0, 0)

/-- `a` is at least as specific as `b`: at the first token where they differ `a` ranks at least as
    high (two routes that match the same path differ, if at all, in rank there). -/
def specGE : List Tok → List Tok → Bool
  | .star :: _, .star :: _ => true
  | x :: as, y :: bs =>
    if x = y then specGE as bs
    else decide (x.rank.1 > y.rank.1) || (x.rank.1 == y.rank.1 && decide (x.rank.2 ≥ y.rank.2))
  | _, _ => true

/-- No two routes that agree up to a `{param}` carry *nested* static suffixes there (one a proper
    suffix of the other; a bare `{param}` has the empty suffix). `Node::at` commits to the longest
    suffix that fits a segment: under this condition at most one fits. -/
def NoNestedSuffix (S : RSet) : Prop :=
  ∀ (pre : List Tok) (s1 s2 : List Char) (t1 t2 : List Tok) (i j : Nat),
    (i, pre ++ Tok.par s1 :: t1) ∈ S → (j, pre ++ Tok.par s2 :: t2) ∈ S →
    s1 = s2 ∨ (¬ s1 <:+ s2 ∧ ¬ s2 <:+ s1)

/-- Do two routes carry nested parameter suffixes at the first position where they differ? -/
def nestedSuffix : List Tok → List Tok → Bool
  | .par s1 :: t1, .par s2 :: t2 =>
    if s1 = s2 then nestedSuffix t1 t2 else (s1.isSuffixOf s2 || s2.isSuffixOf s1)
  | x :: t1, y :: t2 => if x = y then nestedSuffix t1 t2 else false
  | _, _ => false

/-- Decision procedure for `NoNestedSuffix`. -/
def noNestedSuffixB (S : RSet) : Bool := S.all (fun a => S.all (fun b => !nestedSuffix a.2 b.2))

/-- `Router::at(path)` for a router holding `routes` (value, pattern). -/
def atRoutes (routes : List (Nat × List Char)) (path : List Char) : Option Nat :=
  atGo (routes.map (fun r => (r.1, toks r.2))) path

def Router.at (r : Router) (path : List Char) : Option Nat := atRoutes r.routes path

end Pxv.Matchit
