/-
Model of `pavex::config::ConfigLoader::load` (runtime/pavex/src/config/mod.rs) and of the parts of
`figment` 0.10 it is built from. Import-free.

Mirrors (Rust item in parentheses):
  * `selectProfile`   (`ConfigLoader::load` + `ConfigProfile::load` + the derived `FromStr`,
                       runtime/pavex_macros/src/config_profile.rs)
  * `findFile`        (`figment::providers::Data::file`: relative paths are searched in the current
                       directory and every ancestor, PER FILE; a file that is not found is an empty source)
  * `envKey`/`envSource` (`Env::prefixed("PX_").split("__").ignore(&["PROFILE"])`, `Env::iter`, `util::nest`)
  * `parseEnvValue`   (`impl FromStr for figment::value::Value`, scalar subset)
  * `merge`           (`Coalescible::merge` on `Value`/`Dict`: the later source wins)
  * `extract`         (`Figment::extract` into a struct of typed leaves, strict interpreter)

Representation: a nested dictionary is the set of its leaf paths (`Cfg` = association list from
key paths to leaves). Nested `merge` on dictionaries is then: keep every leaf of the later source, and
those leaves of the earlier one whose path is neither a prefix nor an extension of a later leaf
(a leaf-vs-dict clash is resolved for the later source, as `coalesce` does). Empty dictionaries
are not representable (and are not generated). Strings are byte lists.
-/
namespace Pxv.Config

/-- Leaves of a configuration dictionary (`figment::value::Value` without `Dict`). -/
inductive Leaf where
  | bool (b : Bool)
  | int (z : Int)
  | str (s : List Nat)
  | float (raw : List Nat)     -- only its kind matters: no modelled field accepts it
  deriving Repr, DecidableEq

abbrev Path := List (List Nat)

/-- `p` is a prefix of `q` (possibly equal). -/
def isPrefix : Path → Path → Bool
  | [], _ => true
  | _ :: _, [] => false
  | a :: p, b :: q => a = b && isPrefix p q

/-- One path lies on the other: the two leaves cannot coexist in a nested dictionary. -/
def related (p q : Path) : Bool := isPrefix p q || isPrefix q p

def lookup (k : Path) : List (Path × Leaf) → Option Leaf
  | [] => none
  | (k', v) :: rest => if k' = k then some v else lookup k rest

/-- `a.merge(b)`: `b` wins on every clash; everything of `a` that does not clash survives. -/
def merge (a b : List (Path × Leaf)) : List (Path × Leaf) :=
  b ++ a.filter (fun e => !(b.any (fun e' => related e.1 e'.1)))

/-! ## environment -/

def isWs (b : Nat) : Bool := b = 32 || b = 9 || b = 10 || b = 12 || b = 13

def trimStart (bs : List Nat) : List Nat := bs.dropWhile isWs
def trim (bs : List Nat) : List Nat := (trimStart (trimStart bs).reverse).reverse

def lower (b : Nat) : Nat := if 65 ≤ b ∧ b ≤ 90 then b + 32 else b
def lowerAll (bs : List Nat) : List Nat := bs.map lower

/-- ASCII case-insensitive equality (`uncased`). -/
def eqUncased (a b : List Nat) : Bool := lowerAll a = lowerAll b

/-- `str::replace("__", ".")`: left to right, non-overlapping. -/
def replaceDU : List Nat → List Nat
  | 95 :: 95 :: rest => 46 :: replaceDU rest
  | b :: rest => b :: replaceDU rest
  | [] => []

/-- `str::split('.')`. -/
def splitDot : List Nat → List (List Nat)
  | [] => [[]]
  | b :: bs =>
    match splitDot bs with
    | [] => [[b]]
    | p :: ps => if b = 46 then [] :: p :: ps else (b :: p) :: ps

/-- `"PX_"`, `"PROFILE"`. -/
def pxPrefix : List Nat := [80, 88, 95]
def profileKey : List Nat := [80, 82, 79, 70, 73, 76, 69]

/-- The key path an environment variable name contributes, if any:
    trim, strip `PX_` (any case), `__` → `.`, drop `PROFILE` (any case), trim, no empty segment,
    lower-case, split at `.`. -/
def envKey (name : List Nat) : Option Path :=
  let n := trim name
  if eqUncased (n.take 3) pxPrefix && 3 ≤ n.length then
    let k := replaceDU (n.drop 3)
    if eqUncased k profileKey then none
    else
      let k := trim k
      let segs := splitDot k
      if segs.any (·.isEmpty) then none else some (segs.map lowerAll)
  else none

def digitsVal : List Nat → Nat → Option Nat
  | [], acc => some acc
  | b :: bs, acc => if 48 ≤ b ∧ b ≤ 57 then digitsVal bs (acc * 10 + (b - 48)) else none

def parseDigits (max : Nat) (ds : List Nat) : Option Nat :=
  if ds.isEmpty then none
  else match digitsVal ds 0 with
    | some n => if n ≤ max then some n else none
    | none => none

/-- `usize::from_str` then `isize::from_str` (64-bit). -/
def parseEnvInt (v : List Nat) : Option Int :=
  match v with
  | 45 :: rest => (parseDigits (2 ^ 63) rest).map (fun n => -(n : Int))
  | 43 :: rest => (parseDigits (2 ^ 64 - 1) rest).map (fun n => (n : Int))
  | _ => (parseDigits (2 ^ 64 - 1) v).map (fun n => (n : Int))

def isDigit (b : Nat) : Bool := 48 ≤ b && b ≤ 57

/-- `[+-]?digits.digits`: the only dotted shape the generator uses for floats. -/
def floatLike (v : List Nat) : Bool :=
  let v := match v with
    | 43 :: r => r
    | 45 :: r => r
    | _ => v
  let ip := v.takeWhile isDigit
  match v.dropWhile isDigit with
  | 46 :: fp => !ip.isEmpty && !fp.isEmpty && fp.all isDigit
  | _ => false

def isSeparator (b : Nat) : Bool := b = 44 || b = 123 || b = 125 || b = 91 || b = 93

def startsWith (pre bs : List Nat) : Bool := bs.take pre.length = pre

def trueLit : List Nat := [116, 114, 117, 101]
def falseLit : List Nat := [102, 97, 108, 115, 101]

/-- `"…".parse::<figment::value::Value>()` for values without quotes, brackets or braces at
    the start: booleans, integers, (float-shaped) floats, otherwise the trimmed string — and the
    untouched original whenever the value parser does not consume the whole input. -/
def parseEnvValue (raw : List Nat) : Leaf :=
  let t := trimStart raw
  if startsWith trueLit t then
    if (t.drop 4).all isWs then .bool true else .str raw
  else if startsWith falseLit t then
    if (t.drop 5).all isWs then .bool false else .str raw
  else if t.any isSeparator then .str raw
  else
    let v := trim t
    if v.contains 46 && floatLike v then .float v
    else match parseEnvInt v with
      | some z => .int z
      | none => .str v

/-- `Env::data`: one nested dictionary per variable, merged into the accumulator in iteration
    order (`dict = dict.merge(nested_dict)`), so later variables win. -/
def envFold : List (List Nat × List Nat) → List (Path × Leaf) → List (Path × Leaf)
  | [], d => d
  | (name, value) :: rest, d =>
    match envKey name with
    | none => envFold rest d
    | some k => envFold rest (merge d [(k, parseEnvValue value)])

def envSource (vars : List (List Nat × List Nat)) : List (Path × Leaf) := envFold vars []

/-! ## profile selection -/

inductive Err where
  | profileUnset      -- `PX_PROFILE` not set and no explicit profile
  | profileInvalid    -- `PX_PROFILE` is not one of the profile names
  | extract           -- `Figment::extract` failed (missing required key, wrong type, clash)
  deriving Repr, DecidableEq

/-- `std::env::var(name)`: exact, case-sensitive name (names are unique in an environment). -/
def envVar (name : List Nat) : List (List Nat × List Nat) → Option (List Nat)
  | [] => none
  | (n, v) :: rest => if n = name then some v else envVar name rest

def pxProfileVar : List Nat := pxPrefix ++ profileKey

/-- `self.profile` or `Profile::load()`. -/
def selectProfile (known : List (List Nat)) (explicit : Option (List Nat))
    (env : List (List Nat × List Nat)) : Except Err (List Nat) :=
  match explicit with
  | some p => .ok p
  | none =>
    match envVar pxProfileVar env with
    | none => .error .profileUnset
    | some v => if known.contains v then .ok v else .error .profileInvalid

/-! ## files -/

/-- A configuration file the harness wrote: `dist` ancestors above the working directory
    (0 = in the working directory's own `<dir>/`), base name, contents. -/
structure File where
  dist : Nat
  name : List Nat
  cfg : List (Path × Leaf)

/-- `Data::file(<dir>/<name>.yml)`: absolute ⇒ only the directory itself (`dist = 0`);
    relative ⇒ nearest ancestor that has THIS file. Not found ⇒ `none` (an empty source). -/
def findFile (absolute : Bool) (files : List File) (name : List Nat) (fuel : Nat) : Option (List (Path × Leaf)) :=
  let rec go (d : Nat) : Nat → Option (List (Path × Leaf))
    | 0 => none
    | fuel + 1 =>
      match files.find? (fun f => f.dist = d && f.name = name) with
      | some f => some f.cfg
      | none => if absolute then none else go (d + 1) fuel
  go 0 fuel

/-! ## extraction into a typed struct -/

inductive CTy where
  | string
  | u (bits : Nat)
  | i (bits : Nat)
  | bool
  deriving Repr, DecidableEq

structure Key where
  path : Path
  ty : CTy
  required : Bool      -- `false` = `Option<T>`
  deriving Repr, DecidableEq

inductive Val where
  | bool (b : Bool)
  | int (z : Int)
  | str (s : List Nat)
  | none
  deriving Repr, DecidableEq

/-- Strict (non-lossy) conversion of a leaf to a field type. -/
def convert (t : CTy) (l : Leaf) : Option Val :=
  match t, l with
  | .string, .str s => some (.str s)
  | .u bits, .int z => if 0 ≤ z ∧ z < 2 ^ bits then some (.int z) else none
  | .i bits, .int z => if -(2 ^ (bits - 1) : Int) ≤ z ∧ z < 2 ^ (bits - 1) then some (.int z) else none
  | .bool, .bool b => some (.bool b)
  | _, _ => none

/-- Some other leaf sits strictly above or below `p`: the dictionary has the wrong shape there. -/
def clashes (p : Path) (cfg : List (Path × Leaf)) : Bool :=
  cfg.any (fun e => e.1 != p && related e.1 p)

def extractKey (cfg : List (Path × Leaf)) (k : Key) : Except Err Val :=
  if clashes k.path cfg then .error .extract
  else match lookup k.path cfg with
    | some l => match convert k.ty l with
      | some v => .ok v
      | none => .error .extract
    | none => if k.required then .error .extract else .ok .none

def extract (schema : List Key) (cfg : List (Path × Leaf)) : Except Err (List (Path × Val)) :=
  match schema with
  | [] => .ok []
  | k :: ks =>
    match extractKey cfg k with
    | .error e => .error e
    | .ok v => match extract ks cfg with
      | .ok r => .ok ((k.path, v) :: r)
      | .error e => .error e

/-! ## the loader -/

structure Input where
  known : List (List Nat)                  -- the profile names of the `ConfigProfile` enum
  explicit : Option (List Nat)             -- `ConfigLoader::profile(..)`
  env : List (List Nat × List Nat)         -- the process environment, in `environ` order
  absolute : Bool                          -- is `configuration_dir` absolute?
  files : List File
  depth : Nat                              -- how many ancestors the search may visit
  schema : List Key
  strict : Bool                            -- `#[serde(deny_unknown_fields)]` on a flat struct

def baseName : List Nat := [98, 97, 115, 101]

/-- The three sources, lowest precedence first. -/
def sources (inp : Input) (profile : List Nat) :
    List (Path × Leaf) × List (Path × Leaf) × List (Path × Leaf) :=
  ((findFile inp.absolute inp.files baseName inp.depth).getD [],
   (findFile inp.absolute inp.files profile inp.depth).getD [],
   envSource inp.env)

/-- `ConfigLoader::<P>::load::<Config>()`. -/
def load (inp : Input) : Except Err (List (Path × Val)) :=
  match selectProfile inp.known inp.explicit inp.env with
  | .error e => .error e
  | .ok profile =>
    let (b, p, e) := sources inp profile
    let cfg := merge (merge b p) e
    if inp.strict && cfg.any (fun e => !(inp.schema.any (fun k => k.path = e.1))) then .error .extract
    else extract inp.schema cfg

end Pxv.Config
