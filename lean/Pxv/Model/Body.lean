/-
Model of `BufferedBody::_extract_with_limit` (runtime/pavex/src/request/body/buffered_body.rs)
on top of `http_body_util::Limited` (limited.rs) and `BodyExt::collect`.

Bytes are `Nat`s (< 256 is irrelevant for the property). Import-free.
-/
namespace Pxv.Body

/-- What the wrapped body yields on each `poll_frame`. -/
inductive Frame where
  | data (bs : List Nat)   -- `Frame::data`
  | trailers               -- a non-data frame: passes through `Limited` untouched
  | err                    -- the transport fails
  deriving Repr, DecidableEq

/-- Result of the extractor, errors mapped to their kind. -/
inductive Outcome where
  | ok (bs : List Nat)
  | sizeLimit              -- `ExtractBufferedBodyError::SizeLimitExceeded`
  | bufferErr              -- `ExtractBufferedBodyError::UnexpectedBufferError`
  deriving Repr, DecidableEq

/-- `HeaderValue::to_str`: visible ASCII or tab only. -/
def isVisibleAscii (b : Nat) : Bool := b == 9 || (32 ≤ b && b < 127)

/-- Value of a run of ASCII digits, `none` on any non-digit. -/
def digitsVal : List Nat → Nat → Option Nat
  | [], acc => some acc
  | b :: bs, acc => if 48 ≤ b ∧ b ≤ 57 then digitsVal bs (acc * 10 + (b - 48)) else none

def usizeMax : Nat := 2 ^ 64 - 1

/-- `str::parse::<usize>()`: optional single `+`, at least one digit, no overflow. -/
def parseUsize (bs : List Nat) : Option Nat :=
  let ds := match bs with
    | 43 :: rest => rest
    | _ => bs
  if ds.isEmpty then none
  else match digitsVal ds 0 with
    | some n => if n ≤ usizeMax then some n else none
    | none => none

/-- `headers.get(CONTENT_LENGTH).and_then(|v| v.to_str().ok()?.parse::<usize>().ok())`. -/
def contentLength (hdr : Option (List Nat)) : Option Nat :=
  match hdr with
  | none => none
  | some bs => if bs.all isVisibleAscii then parseUsize bs else none

/-- `Limited::poll_frame` driven by `collect()`: `rem` is `Limited::remaining`,
    `acc` the bytes buffered so far. -/
def collectLimited : Nat → List Frame → List Nat → Outcome
  | _, [], acc => .ok acc
  | rem, .data bs :: fs, acc =>
      if bs.length > rem then .sizeLimit
      else collectLimited (rem - bs.length) fs (acc ++ bs)
  | rem, .trailers :: fs, acc => collectLimited rem fs acc
  | _, .err :: _, _ => .bufferErr

/-- `_extract_with_limit`; `N` is `max_size` in bytes (a `u64`, so `N ≤ usizeMax` on the
    64-bit targets this model speaks about). -/
def extractWithLimit (hdr : Option (List Nat)) (N : Nat) (frames : List Frame) : Outcome :=
  match contentLength hdr with
  | some len => if len > N then .sizeLimit else collectLimited (min N usizeMax) frames []
  | none => collectLimited (min N usizeMax) frames []

/-- All payload bytes the client sent, in order. -/
def dataJoin : List Frame → List Nat
  | [] => []
  | .data bs :: fs => bs ++ dataJoin fs
  | _ :: fs => dataJoin fs

def noErr : List Frame → Bool
  | [] => true
  | .err :: _ => false
  | _ :: fs => noErr fs

/-- Extractors layered on `BufferedBody` (`JsonBody::extract`, `UrlEncodedBody::extract`)
    only ever see `&BufferedBody.bytes`: post-composition with a parser `p`. -/
def extractThen {α} (p : List Nat → α) (hdr : Option (List Nat)) (N : Nat)
    (frames : List Frame) : Option α :=
  match extractWithLimit hdr N frames with
  | .ok b => some (p b)
  | _ => none

/-- `BodySizeLimit` -/
inductive Limit where
  | enabled (maxSize : Nat)
  | disabled
  deriving Repr, DecidableEq

/-- `body.collect()` without a limit (`BodySizeLimit::Disabled`). -/
def collectAll : List Frame → List Nat → Outcome
  | [], acc => .ok acc
  | .data bs :: fs, acc => collectAll fs (acc ++ bs)
  | .trailers :: fs, acc => collectAll fs acc
  | .err :: _, _ => .bufferErr

/-- the PUBLIC `BufferedBody::extract(request_head, body, body_size_limit)`: with a limit the body goes through
    `_extract_with_limit` whatever the request head says; only `Disabled` buffers everything. -/
def extract (hdr : Option (List Nat)) (l : Limit) (frames : List Frame) : Outcome :=
  match l with
  | .enabled n => extractWithLimit hdr n frames
  | .disabled => collectAll frames []

/-- the variant a seeded change introduced: "a request without Content-Length (and without Transfer-Encoding) has no body",
    so it is collected without the limit. True of HTTP/1.1, false of HTTP/2, where END_STREAM ends the body. -/
def extractSkipUnannounced (hdr : Option (List Nat)) (l : Limit) (frames : List Frame) : Outcome :=
  match l, hdr with
  | .enabled n, some _ => extractWithLimit hdr n frames
  | _, _ => collectAll frames []

end Pxv.Body

