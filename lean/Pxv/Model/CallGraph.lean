/-
Abstract call graphs as the borrow checker of pavexc sees them
(compiler/pavexc/src/compiler/analyses/call_graph/core_graph.rs: `RawCallGraph`,
`CallGraphNode`, `CallGraphEdgeMetadata`). Nodes are numbered 0..n-1. Import-free.
-/
namespace Pxv.CG

/-- ↔ `CallGraphEdgeMetadata`. -/
inductive EK where
  | move | shared | excl | before
  deriving Repr, DecidableEq

structure Node where
  /-- ↔ `CopyChecker::is_copy` (a `MatchBranching` node counts as Copy). -/
  copy : Bool := false
  /-- ↔ `multiple_consumers::is_ref`: the value is itself a reference. -/
  isRef : Bool := false
  /-- ↔ `get_clone_component_id(..).is_some()`: a constructor whose policy is not `NeverClone`. -/
  cloneable : Bool := false
  /-- ↔ `CallGraphNode::MatchBranching`. -/
  branch : Bool := false
  /-- dependencies whose borrow the output keeps alive, by node id
      (↔ `inputs_with_lifetime_tied_with_output`, matched by type against the incoming edges). -/
  tied : List Nat := []
  /-- dependencies the output directly borrows from (↔ `inputs_that_output_borrows_immutably_from`). -/
  direct : List Nat := []
  deriving Repr, DecidableEq

structure Edge where
  src : Nat
  dst : Nat
  kind : EK
  deriving Repr, DecidableEq

structure Graph where
  nodes : List Node
  edges : List Edge
  deriving Repr, DecidableEq

namespace Graph

def size (g : Graph) : Nat := g.nodes.length

def node (g : Graph) (i : Nat) : Node := g.nodes.getD i {}

/-- Incoming edges of `n`. -/
def inEdges (g : Graph) (n : Nat) : List Edge := g.edges.filter (·.dst == n)

/-- Outgoing edges of `n`. -/
def outEdges (g : Graph) (n : Nat) : List Edge := g.edges.filter (·.src == n)

/-- ↔ `neighbors_directed(n, Incoming)`: every edge kind counts (happens-before included). -/
def preds (g : Graph) (n : Nat) : List Nat := (g.inEdges n).map (·.src)

def succs (g : Graph) (n : Nat) : List Nat := (g.outEdges n).map (·.dst)

/-- nodes that take `d` by value (↔ `node_id2consumer_ids[d]`). -/
def consumers (g : Graph) (d : Nat) : List Nat :=
  ((g.outEdges d).filter (·.kind == .move)).map (·.dst)

/-- nodes that borrow `d`, `&` or `&mut` (↔ `node_id2borrower_ids[d]`). -/
def borrowers (g : Graph) (d : Nat) : List Nat :=
  ((g.outEdges d).filter (fun e => e.kind == .shared || e.kind == .excl)).map (·.dst)

/-- ↔ `externals(Outgoing)`. -/
def sinks (g : Graph) : List Nat := (List.range g.size).filter (fun n => (g.outEdges n).isEmpty)

/-- ↔ `externals(Incoming)`. -/
def sources (g : Graph) : List Nat := (List.range g.size).filter (fun n => (g.inEdges n).isEmpty)

/-- All edge endpoints are nodes. -/
def wellFormed (g : Graph) : Bool := g.edges.all (fun e => e.src < g.size && e.dst < g.size)

/-- Nodes reachable from `frontier` in at most `fuel` rounds (↔ `has_path_connecting`). -/
def reachFrom (g : Graph) : Nat → List Nat → List Nat → List Nat
  | 0, _, seen => seen
  | fuel + 1, frontier, seen =>
    let next := (frontier.flatMap g.succs).filter (fun n => !seen.contains n)
    let next := next.eraseDups
    if next.isEmpty then seen else reachFrom g fuel next (seen ++ next)

/-- `reaches g a b`: there is a path (possibly empty) from `a` to `b`. -/
def reaches (g : Graph) (a b : Nat) : Bool := (reachFrom g g.size [a] [a]).contains b

end Graph
end Pxv.CG
