import Pxv.Model.Order
/-
The first two clone-insertion passes of pavexc's borrow checker, mirrored on abstract call graphs:
 * `multipleConsumers` ↔ call_graph/borrow_checker/multiple_consumers.rs
 * `moveWhileBorrowed` ↔ call_graph/borrow_checker/move_while_borrowed.rs (with the fixes 37343ca and 05372da:
   every source is traversed; cloning nodes inherit the borrows of the node they feed)
Import-free.
-/
namespace Pxv.CG
open Graph

inductive DiagKind where
  | multipleConsumers | moveWhileBorrowed | mutWhileBorrowed
  deriving Repr, DecidableEq

structure Diag where
  kind : DiagKind
  /-- the contended value -/
  node : Nat
  deriving Repr, DecidableEq

/-- insertion sort without duplicates (↔ `BTreeSet<NodeIndex>`). -/
def insertSorted (x : Nat) : List Nat → List Nat
  | [] => [x]
  | y :: ys => if x < y then x :: y :: ys else if x == y then y :: ys else y :: insertSorted x ys

def toSet (l : List Nat) : List Nat := l.foldl (fun acc x => insertSorted x acc) []

def union (a b : List Nat) : List Nat := b.foldl (fun acc x => if acc.contains x then acc else acc ++ [x]) a

/-- ↔ the three graph edits every pass performs to clone `dep` for `consumer`:
    add a `Clone::clone` node, `dep -&-> clone`, `clone -move-> consumer`, drop `dep -> consumer`.
    The consumer's capture bookkeeping follows the value it now receives. -/
def insertClone (g : Graph) (dep consumer : Nat) : Graph × Nat :=
  let c := g.size
  let rename := fun (l : List Nat) => l.map (fun x => if x == dep then c else x)
  let nodes := (g.nodes.zipIdx.map (fun (nd, i) =>
    if i == consumer then { nd with tied := rename nd.tied, direct := rename nd.direct } else nd)) ++ [({} : Node)]
  let edges := (g.edges.filter (fun e => !(e.src == dep && e.dst == consumer))) ++
    [⟨dep, c, .shared⟩, ⟨c, consumer, .move⟩]
  (⟨nodes, edges⟩, c)

/-- ↔ the cloning loop of `multiple_consumers` for one contended, cloneable value `n`: for each
    competing set, every consumer that has not received a clone yet, except the last one, gets one. -/
def mcCloneStep (n : Nat) (acc : Graph × List Nat) (set : List Nat) : Graph × List Nat :=
  let ids := set.filter (fun c => !acc.2.contains c)
  if ids.length ≤ 1 then acc
  else
    let others := ids.dropLast
    (others.foldl (fun g c => (insertClone g n c).1) acc.1, acc.2 ++ others)

def mcCloneSets (g : Graph) (n : Nat) (sets : List (List Nat)) : Graph × List Nat :=
  sets.foldl (mcCloneStep n) (g, [])

/-- one node of `multiple_consumers`; `sinks` are the sinks of the graph the pass started from. -/
def mcNode (sinks : List Nat) (st : Graph × List Diag) (n : Nat) : Graph × List Diag :=
  let g := st.1
  let consumers := toSet (g.consumers n)
  if consumers.length ≤ 1 then st
  else if (g.node n).copy || (g.node n).isRef then st
  else
    let sets := sinks.foldl (fun (acc : List (List Nat)) s =>
      let cs := consumers.filter (fun c => g.reaches c s)
      if cs.length > 1 && !acc.contains cs then acc ++ [cs] else acc) []
    if sets.isEmpty then st
    else if !(g.node n).cloneable then (g, st.2 ++ sets.map (fun _ => ⟨.multipleConsumers, n⟩))
    else
      ((mcCloneSets g n sets).1, st.2)

/-- ↔ `multiple_consumers`. -/
def multipleConsumers (g : Graph) : Graph × List Diag :=
  (List.range g.size).foldl (mcNode g.sinks) (g, [])

def lookup (m : List (Nat × List Nat)) (k : Nat) : List Nat :=
  match m.find? (·.1 == k) with
  | some (_, v) => v
  | none => []

def setKey (m : List (Nat × List Nat)) (k : Nat) (v : List Nat) : List (Nat × List Nat) :=
  (m.filter (·.1 != k)) ++ [(k, v)]

/-- a processing order in which every node comes after all its successors (↔ the post-order DFS). -/
def postOrderLoop (g : Graph) : Nat → List Nat → List Nat
  | 0, done => done
  | fuel + 1, done =>
    match (List.range g.size).find? (fun n => !done.contains n && (g.succs n).all done.contains) with
    | some n => postOrderLoop g fuel (done ++ [n])
    | none => done

def postOrder (g : Graph) : List Nat := postOrderLoop g g.size []

/-- one node of `captured_nodes`: what the output of `n` holds a reference to, given what its
    dependencies hold. -/
def capturedNode (g : Graph) (cap : List (Nat × List Nat)) (n : Nat) : List (Nat × List Nat) :=
  let nd := g.node n
  let deps := ((g.inEdges n).filter Edge.isData).map (·.src)
  let cur := deps.foldl (fun cur d =>
    let cur := if nd.tied.contains d then union cur (lookup cap d) else cur
    if nd.direct.contains d then union cur [d] else cur) []
  if cur.isEmpty then cap else setKey cap n cur

/-- ↔ `captured_nodes` (after fix f51fe0e): nodes are examined in topological order, each after all
    its dependencies, so the transitive captures are complete. -/
def captured (g : Graph) : List (Nat × List Nat) :=
  (postOrder g).reverse.foldl (capturedNode g) []

structure MwbState where
  g : Graph
  borrows : List (Nat × List Nat)
  diags : List Diag

/-- one dependency of the node `n` in the second traversal of `move_while_borrowed`: `acc` = the graph, the diagnostics and
    the clones inserted so far (clone node, cloned value). -/
def mwbEdge (g : Graph) (n : Nat) (immNow later : List Nat) (acc : Graph × List Diag × List (Nat × Nat)) (e : Edge) :
    Graph × List Diag × List (Nat × Nat) :=
  let contended := immNow.contains e.src || later.contains e.src
  match e.kind with
  | .move =>
    if !contended then acc
    else if (g.node e.src).copy then acc
    else if (g.node e.src).cloneable then
      let (g', c) := insertClone acc.1 e.src n
      (g', acc.2.1, acc.2.2 ++ [(c, e.src)])
    else (acc.1, acc.2.1 ++ [⟨.moveWhileBorrowed, e.src⟩], acc.2.2)
  | .excl => if contended then (acc.1, acc.2.1 ++ [⟨.mutWhileBorrowed, e.src⟩], acc.2.2) else acc
  | _ => acc

/-- one node of the second traversal of `move_while_borrowed`. -/
def mwbNode (cap : List (Nat × List Nat)) (st : MwbState) (n : Nat) : MwbState :=
  let g := st.g
  let later := (g.succs n).foldl (fun acc s => union acc (lookup st.borrows s)) []
  let ins := g.inEdges n
  let immNow := ins.foldl (fun acc e =>
    let acc := union acc (lookup cap e.src)
    if e.kind == .shared then union acc [e.src] else acc) []
  let mutNow := (ins.filter (·.kind == .excl)).map (·.src)
  let r := ins.foldl (mwbEdge g n immNow later) (g, st.diags, [])
  let borrowed := union (union immNow mutNow) later
  let borrows := r.2.2.foldl (fun b (c, d) => setKey b c (union borrowed [d])) st.borrows
  ⟨r.1, setKey borrows n borrowed, r.2.1⟩

/-- ↔ `move_while_borrowed`. -/
def moveWhileBorrowed (g : Graph) : Graph × List Diag :=
  let st := (postOrder g).foldl (mwbNode (captured g)) ⟨g, [], []⟩
  (st.g, st.diags)

end Pxv.CG

namespace Pxv.CG

/-! ### the control skeleton of `complex_borrow_check` (borrow_checker/complex.rs)

The outer `'fixed_point` loop alternates between parking blocked nodes and cloning one of their inputs. What a round of
the inner `'visiting` loop does to the call graph is abstracted into what the outer loop looks at: how many nodes ended
up parked and whether a clone was inserted. -/

inductive Strat where
  | park | clone | error
  deriving Repr, DecidableEq

/-- `strategy_on_block`, `unblocked_any_node`, `n_parked_nodes` -/
structure Ctl where
  strat : Strat := .park
  flag : Bool := false
  prev : Option Nat := none
  deriving Repr, DecidableEq

/-- the tail of one iteration of `'fixed_point`, after a visiting round that left `n` nodes parked and inserted a clone
    iff `cloned`; `none` = `break 'fixed_point`. `resetFlag` is the repair (819c099): `unblocked_any_node` goes back to
    `false` when the strategy returns to parking. -/
def Ctl.next (resetFlag : Bool) (c : Ctl) (n : Nat) (cloned : Bool) : Option Ctl :=
  let flag := c.flag || cloned
  if n == 0 then none
  else if c.prev == some n then
    match c.strat with
    | .park => some { strat := .clone, flag := flag, prev := some n }
    | .clone =>
      if flag then some { strat := .park, flag := (if resetFlag then false else flag), prev := some n }
      else some { strat := .error, flag := flag, prev := some n }
    | .error => none
  else some { c with flag := flag, prev := some n }

/-- the loop under a call graph that no longer changes: every round parks the same `n` nodes and clones nothing;
    `some c'` = still running after `k` rounds -/
def Ctl.stable (resetFlag : Bool) (n : Nat) : Nat → Ctl → Option Ctl
  | 0, c => some c
  | k + 1, c => (c.next resetFlag n false).bind (Ctl.stable resetFlag n k)

end Pxv.CG
