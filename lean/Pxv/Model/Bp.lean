/-
C19 (part 1) — what you register is what the compiler sees: the blueprint builder.

Import-free executable model of the public `Blueprint` API of `runtime/pavex/src/blueprint/`
(`blueprint.rs`, `nesting.rs`, `constructor.rs`, `config.rs`, `prebuilt.rs`, `route.rs`,
`wrapping.rs`, `pre.rs`, `post.rs`, `fallback.rs`, `conversions.rs`) over the schema value of
`compiler/pavex_bp_schema/src/lib.rs`.

A *program* (`Bp`) is what user code can write against that API: `Blueprint::new()`, then a
sequence of registrations, each optionally followed by the chained modifier calls its
`Registered…` handle offers (the handle mutably borrows the blueprint, so the chain always
targets the component just pushed), `prefix`/`domain` chains ended by `nest`/`routes`.
`run` executes a program the way the Rust code does: push into `components`, then mutate
`components[component_id]` in place for every modifier.

Source locations (`#[track_caller]` + `Location::caller()`) are abstract call-site names (`Loc`).
`Blueprint::persist` (RON) followed by `ron::de::from_reader` in `pavexc_cli::generate` is assumed
to be the identity on schema values; the correspondence run goes through both.
-/
namespace Pxv.Bp

abbrev Loc := String

/-- `AnnotationCoordinates` (+ `CreatedAt`). -/
structure Coords where
  id : String
  pkg : String
  ver : String
  macroName : String
  deriving Repr, DecidableEq

inductive Lifecycle where
  | singleton | requestScoped | transient
  deriving Repr, DecidableEq

inductive Cloning where
  | neverClone | cloneIfNecessary
  deriving Repr, DecidableEq

/-- `pavex_bp_schema::Lint`, in its derived `Ord` order. -/
inductive Lint where
  | unused | errorFallback
  deriving Repr, DecidableEq

inductive LintSetting where
  | allow | warn | deny
  deriving Repr, DecidableEq

/-- `pavex_bp_schema::ErrorHandler`. -/
structure EH where
  coords : Coords
  registeredAt : Loc
  deriving Repr, DecidableEq

inductive Sources where
  | all
  | some (modules : List String)
  deriving Repr, DecidableEq

/-- `BTreeMap<Lint, LintSetting>` as a list of at most two entries, `Unused` first. -/
structure Lints where
  unused : Option LintSetting := none
  errorFallback : Option LintSetting := none
  deriving Repr, DecidableEq

/-- `BTreeMap::insert`. -/
def Lints.insert (m : Lints) (l : Lint) (s : LintSetting) : Lints :=
  match l with
  | .unused => { m with unused := some s }
  | .errorFallback => { m with errorFallback := some s }

def Lints.get (m : Lints) : Lint → Option LintSetting
  | .unused => m.unused
  | .errorFallback => m.errorFallback

/-- The callable-with-error-handler components (`Route`, `Fallback`, the three middlewares). -/
inductive HKind where
  | route | fallback | wrap | pre | post
  deriving Repr, DecidableEq

/-- `pavex_bp_schema::Import` / `RoutesImport`. -/
structure Imp where
  sources : Sources
  relativeTo : String
  pkg : String
  ver : String
  deriving Repr, DecidableEq

/-- `pavex_bp_schema::{Component, Blueprint}`. -/
inductive Component where
  | constructor (c : Coords) (lifecycle : Option Lifecycle) (cloning : Option Cloning)
      (eh : Option EH) (lints : Lints) (registeredAt : Loc)
  | handler (k : HKind) (c : Coords) (registeredAt : Loc) (eh : Option EH)
  | errorObserver (c : Coords) (registeredAt : Loc)
  | errorHandler (c : Coords) (registeredAt : Loc)
  | prebuilt (c : Coords) (cloning : Option Cloning) (registeredAt : Loc)
  | config (c : Coords) (cloning : Option Cloning) (defaultIfMissing includeIfUnused : Option Bool)
      (registeredAt : Loc)
  | imp (i : Imp) (registeredAt : Loc)
  | routesImp (i : Imp) (registeredAt : Loc)
  | nested (creation : Loc) (components : List Component)
      (pfx : Option (String × Loc)) (dom : Option (String × Loc)) (nestedAt : Loc)

structure Schema where
  creation : Loc
  components : List Component

/-! ## Programs against the public API -/

/-- `RegisteredConstructor::{lifecycle, cloning, clone_if_necessary, never_clone, allow, warn,
    deny, error_handler}`. -/
inductive CtorMod where
  | lifecycle (l : Lifecycle)
  | cloning (c : Cloning)
  | cloneIfNecessary
  | neverClone
  | lint (s : LintSetting) (l : Lint)
  | errorHandler (c : Coords) (at_ : Loc)
  deriving Repr, DecidableEq

/-- `Registered{Prebuilt,Config}::{cloning, clone_if_necessary, never_clone}` and
    `RegisteredConfig::{default_if_missing, required, include_if_unused}`. -/
inductive CfgMod where
  | cloning (c : Cloning)
  | cloneIfNecessary
  | neverClone
  | defaultIfMissing
  | required
  | includeIfUnused
  deriving Repr, DecidableEq

/-- `RoutingModifiers::{prefix, domain}` (and `Blueprint::{prefix, domain}` for the first one). -/
inductive RMod where
  | pfx (p : String) (at_ : Loc)
  | dom (d : String) (at_ : Loc)
  deriving Repr, DecidableEq

inductive Op where
  | constructor (c : Coords) (at_ : Loc) (mods : List CtorMod)
  /-- `route`, `fallback`, `wrap`, `pre_process`, `post_process`, then `.error_handler(..)*` -/
  | handler (k : HKind) (c : Coords) (at_ : Loc) (ehs : List (Coords × Loc))
  | errorObserver (c : Coords) (at_ : Loc)
  | errorHandler (c : Coords) (at_ : Loc)
  /-- `prebuilt(..)`; only the three cloning modifiers exist on its handle -/
  | prebuilt (c : Coords) (at_ : Loc) (mods : List CfgMod)
  | config (c : Coords) (at_ : Loc) (mods : List CfgMod)
  | imp (i : Imp) (at_ : Loc)
  | routes (i : Imp) (at_ : Loc)
  /-- `bp.nest(child)` (no modifiers) or `bp.prefix(..).domain(..)….nest(child)` -/
  | nest (rmods : List RMod) (at_ : Loc) (creation : Loc) (child : List Op)
  /-- `bp.prefix(..)….routes(import)` -/
  | nestRoutes (rmods : List RMod) (i : Imp) (at_ : Loc)

/-- A whole program: `let mut bp = Blueprint::new();` at `creation`, then the calls. -/
structure Bp where
  creation : Loc
  ops : List Op

/-! ## Execution, as the Rust code does it -/

/-- `&mut self.blueprint.components[self.component_id]`, updated through `f`. -/
def modifyAt (i : Nat) (f : Component → Component) : List Component → List Component
  | [] => []
  | c :: cs => match i with
    | 0 => f c :: cs
    | i + 1 => c :: modifyAt i f cs

/-- One `RegisteredConstructor` method on the constructor it refers to (`fn constructor(&mut self)`;
    for any other component kind the source says `unreachable!`, the model leaves it alone). -/
def applyCtorMod (m : CtorMod) : Component → Component
  | .constructor c lc cl eh lints loc =>
    match m with
    | .lifecycle l => .constructor c (some l) cl eh lints loc
    | .cloning x => .constructor c lc (some x) eh lints loc
    | .cloneIfNecessary => .constructor c lc (some .cloneIfNecessary) eh lints loc
    | .neverClone => .constructor c lc (some .neverClone) eh lints loc
    | .lint s l => .constructor c lc cl eh (lints.insert l s) loc
    | .errorHandler hc hloc => .constructor c lc cl (some ⟨hc, hloc⟩) lints loc
  | other => other

def applyEh (h : Coords × Loc) : Component → Component
  | .handler k c loc _ => .handler k c loc (some ⟨h.1, h.2⟩)
  | other => other

/-- `RegisteredPrebuilt` has only the cloning methods: the others are not expressible there. -/
def applyCfgMod (m : CfgMod) : Component → Component
  | .prebuilt c cl loc =>
    match m with
    | .cloning x => .prebuilt c (some x) loc
    | .cloneIfNecessary => .prebuilt c (some .cloneIfNecessary) loc
    | .neverClone => .prebuilt c (some .neverClone) loc
    | _ => .prebuilt c cl loc
  | .config c cl dim iiu loc =>
    match m with
    | .cloning x => .config c (some x) dim iiu loc
    | .cloneIfNecessary => .config c (some .cloneIfNecessary) dim iiu loc
    | .neverClone => .config c (some .neverClone) dim iiu loc
    | .defaultIfMissing => .config c cl (some true) iiu loc
    | .required => .config c cl (some false) iiu loc
    | .includeIfUnused => .config c cl dim (some true) loc
  | other => other

/-- `RoutingModifiers { path_prefix, domain }` after a chain of `prefix`/`domain` calls. -/
def runRMods : List RMod → Option (String × Loc) × Option (String × Loc) →
    Option (String × Loc) × Option (String × Loc)
  | [], st => st
  | .pfx p l :: ms, st => runRMods ms (some (p, l), st.2)
  | .dom d l :: ms, st => runRMods ms (st.1, some (d, l))

/-- `push_component` followed by the modifier calls on `components[component_id]`. -/
def pushThen (comps : List Component) (init : Component) (mods : List (Component → Component)) :
    List Component :=
  let id := comps.length
  mods.foldl (fun cs f => modifyAt id f cs) (comps ++ [init])

mutual
/-- One statement of the program against the current `schema.components`. -/
def exec (comps : List Component) : Op → List Component
  | .constructor c loc mods =>
    pushThen comps (.constructor c none none none {} loc) (mods.map applyCtorMod)
  | .handler k c loc ehs => pushThen comps (.handler k c loc none) (ehs.map applyEh)
  | .errorObserver c loc => pushThen comps (.errorObserver c loc) []
  | .errorHandler c loc => pushThen comps (.errorHandler c loc) []
  | .prebuilt c loc mods => pushThen comps (.prebuilt c none loc) (mods.map applyCfgMod)
  | .config c loc mods => pushThen comps (.config c none none none loc) (mods.map applyCfgMod)
  | .imp i loc => pushThen comps (.imp i loc) []
  | .routes i loc => pushThen comps (.routesImp i loc) []
  | .nest rmods loc creation child =>
    let st := runRMods rmods (none, none)
    comps ++ [.nested creation (execAll [] child) st.1 st.2 loc]
  | .nestRoutes rmods i loc =>
    -- `RoutingModifiers::routes`: `Blueprint::new()`, `bp.routes(import)`, `self.nest(bp)`,
    -- all three `#[track_caller]`-attributed to the caller of `routes`.
    let st := runRMods rmods (none, none)
    comps ++ [.nested loc [.routesImp i loc] st.1 st.2 loc]

def execAll (comps : List Component) : List Op → List Component
  | [] => comps
  | op :: ops => execAll (exec comps op) ops
end

/-- The schema `Blueprint::persist` writes for the program. -/
def run (bp : Bp) : Schema := { creation := bp.creation, components := execAll [] bp.ops }

/-! ## Declarative reading: what each statement *means* -/

def lastSome {α β} (f : α → Option β) : List α → Option β
  | [] => none
  | a :: as => match lastSome f as with
    | some b => some b
    | none => f a

def ctorLifecycle : CtorMod → Option Lifecycle
  | .lifecycle l => some l
  | _ => none

def ctorCloning : CtorMod → Option Cloning
  | .cloning c => some c
  | .cloneIfNecessary => some .cloneIfNecessary
  | .neverClone => some .neverClone
  | _ => none

def ctorEh : CtorMod → Option EH
  | .errorHandler c l => some ⟨c, l⟩
  | _ => none

def ctorLint (l : Lint) : CtorMod → Option LintSetting
  | .lint s l' => if l' = l then some s else none
  | _ => none

def cfgCloning : CfgMod → Option Cloning
  | .cloning c => some c
  | .cloneIfNecessary => some .cloneIfNecessary
  | .neverClone => some .neverClone
  | _ => none

def cfgDefault : CfgMod → Option Bool
  | .defaultIfMissing => some true
  | .required => some false
  | _ => none

def cfgInclude : CfgMod → Option Bool
  | .includeIfUnused => some true
  | _ => none

def rmodPrefix : RMod → Option (String × Loc)
  | .pfx p l => some (p, l)
  | _ => none

def rmodDomain : RMod → Option (String × Loc)
  | .dom d l => some (d, l)
  | _ => none

mutual
/-- The component a statement stands for: every property is the one set by the **last** call
    that sets it; a nested blueprint is the meaning of its own statements, unchanged. -/
def meaning : Op → Component
  | .constructor c loc mods =>
    .constructor c (lastSome ctorLifecycle mods) (lastSome ctorCloning mods) (lastSome ctorEh mods)
      { unused := lastSome (ctorLint .unused) mods,
        errorFallback := lastSome (ctorLint .errorFallback) mods } loc
  | .handler k c loc ehs => .handler k c loc (lastSome (fun h => some ⟨h.1, h.2⟩) ehs)
  | .errorObserver c loc => .errorObserver c loc
  | .errorHandler c loc => .errorHandler c loc
  | .prebuilt c loc mods => .prebuilt c (lastSome cfgCloning mods) loc
  | .config c loc mods =>
    .config c (lastSome cfgCloning mods) (lastSome cfgDefault mods) (lastSome cfgInclude mods) loc
  | .imp i loc => .imp i loc
  | .routes i loc => .routesImp i loc
  | .nest rmods loc creation child =>
    .nested creation (meanings child) (lastSome rmodPrefix rmods) (lastSome rmodDomain rmods) loc
  | .nestRoutes rmods i loc =>
    .nested loc [.routesImp i loc] (lastSome rmodPrefix rmods) (lastSome rmodDomain rmods) loc

def meanings : List Op → List Component
  | [] => []
  | op :: ops => meaning op :: meanings ops
end

end Pxv.Bp
