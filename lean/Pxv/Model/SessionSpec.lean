import Pxv.Model.Session
/-
The specification C11 is stated against: a session is a *plain pair of maps* (client map, server
map) plus a few status bits; the server side of the world is a plain function `id ↦ map`.
There is no lazy loading cell, no changed/unchanged marker, no TTL, no store protocol
(create / update / update_ttl / change_id / delete and their failure modes): a server operation
looks at the record and then acts on the map, `flush` writes the whole map back under the id the
cookie will carry.

The documented policies are part of the specification: `MissingServerState`, `ServerStateCreation`,
`delete()` (pending deletion: inserts are ignored until the next sync), `invalidate()`.

`strict = true` additionally describes the one recorded finding (C11-F7, pinned by the project's
test `id_cycling_fails_if_the_old_state_record_is_gone_and_it_had_not_been_loaded_previously`):
cycling the id of a session whose record is missing and was never looked at fails the sync.
`strict = false` is the ideal behaviour (nothing to rename: go on).
-/
namespace Pxv.Session.Spec
open Pxv.Session

/-- The server side of the session as the application sees it. -/
inductive SSrv (κ ν : Type) where
  | unseen                      -- not looked at yet in this request
  | present (m : Map κ ν)
  | absent                      -- no record
  | deleted                     -- `delete()`/`invalidate()` pending
  deriving Repr

structure SSess (κ ν : Type) where
  id : CurId
  cli : Map κ ν
  cliDirty : Bool
  srv : SSrv κ ν
  inv : Bool

/-- The server side of the world: which map is stored under which id. -/
structure SWorld (κ ν : Type) where
  recs : Nat → Option (Map κ ν)
  nextId : Nat

section
variable {κ ν : Type} [DecidableEq κ]

def SWorld.set (W : SWorld κ ν) (id : Nat) (v : Option (Map κ ν)) : SWorld κ ν :=
  { W with recs := fun i => if id = i then v else W.recs i }

def SWorld.unset (W : SWorld κ ν) : Option Nat → SWorld κ ν
  | some o => W.set o none
  | none => W

def newSession (incoming : Option (Nat × Map κ ν)) (W : SWorld κ ν) : SSess κ ν × SWorld κ ν :=
  match incoming with
  | some (id, cli) => ({ id := .existing id, cli, cliDirty := false, srv := .unseen, inv := false }, W)
  | none => ({ id := .newlyGenerated W.nextId, cli := [], cliDirty := false, srv := .absent, inv := false },
             { W with nextId := W.nextId + 1 })

/-- Looking at the server side for the first time in a request. -/
def look (cfg : Config) (S : SSess κ ν) (W : SWorld κ ν) : SSess κ ν :=
  match S.srv with
  | .unseen =>
    match S.id.oldId.bind W.recs with
    | some m => { S with srv := .present m }
    | none =>
      match cfg.missing with
      | .allow => { S with srv := .absent }
      | .reject => { S with srv := .deleted, inv := true }
  | _ => S

/-- The id after a sync that left the session without a record. -/
def normId : CurId → CurId
  | .newlyGenerated n => .newlyGenerated n
  | other => .existing other.newId

/-- `sync` on the pair of maps. `none` = refused (only with `strict`). -/
def flush (cfg : Config) (strict : Bool) (S : SSess κ ν) (W : SWorld κ ν) : Option (SSess κ ν × SWorld κ ν) :=
  match S.srv with
  | .unseen =>
    match S.id with
    | .toBeRenamed old new =>
      match W.recs old with
      | some m => some ({ S with id := .existing new }, (W.set old none).set new (some m))
      | none => if strict then none else some ({ S with id := .existing new }, W)
    | _ => some (S, W)
  | .present m => some ({ S with id := .existing S.id.newId }, (W.unset S.id.oldId).set S.id.newId (some m))
  | .absent =>
    if (S.id.oldId.isSome || S.cliDirty) && decide (cfg.creation = .neverSkip) then
      some ({ S with srv := .present [], id := .existing S.id.newId }, W.set S.id.newId (some []))
    else some ({ S with id := normId S.id }, W)
  | .deleted =>
    some ({ S with srv := if S.inv then .deleted else .absent, id := normId S.id }, W.unset S.id.oldId)

def f7 : SyncErr := ⟨.changeId, .unknownId⟩

def cIsEmpty (S : SSess κ ν) : Bool := if S.inv then true else S.cli.isEmpty

/-- One operation, with its obvious meaning on the pair of maps. -/
def step (cfg : Config) (strict : Bool) (op : Op κ ν) (S : SSess κ ν) (W : SWorld κ ν) : Res ν × SSess κ ν × SWorld κ ν :=
  match op with
  | .get k =>
    let S := look cfg S W
    (.val (match S.srv with | .present m => Map.lookup m k | _ => none), S, W)
  | .insert k v =>
    let S := look cfg S W
    match S.srv with
    | .present m => (.val (Map.lookup m k), { S with srv := .present (Map.insert m k v) }, W)
    | .absent => (.val none, { S with srv := .present (Map.insert [] k v) }, W)
    | _ => (.val none, S, W)
  | .remove k =>
    let S := look cfg S W
    match S.srv with
    | .present m => (.val (Map.lookup m k), { S with srv := .present (Map.erase m k) }, W)
    | _ => (.val none, S, W)
  | .isEmpty =>
    let S := look cfg S W
    (.bool (match S.srv with | .present m => m.isEmpty | _ => true), S, W)
  | .clear =>
    let S := look cfg S W
    match S.srv with
    | .present _ => (.unit, { S with srv := .present [] }, W)
    | _ => (.unit, S, W)
  | .delete => (.unit, { S with srv := .deleted }, W)
  | .invalidate => (.unit, { S with srv := .deleted, inv := true }, W)
  | .cycle =>
    let id := match S.id.oldId with
      | some old => CurId.toBeRenamed old W.nextId
      | none => CurId.newlyGenerated W.nextId
    (.unit, { S with id }, { W with nextId := W.nextId + 1 })
  | .isInvalidated => (.bool S.inv, S, W)
  | .forceLoad => (.unit, look cfg S W, W)
  | .sync =>
    match flush cfg strict S W with
    | some (S, W) => (.syncOk, S, W)
    | none => (.syncErr f7, S, W)
  | .cGet k => (.val (if S.inv then none else Map.lookup S.cli k), S, W)
  | .cIsEmpty => (.bool (cIsEmpty S), S, W)
  | .cInsert k v =>
    if S.inv then (.val none, S, W)
    else (.val (Map.lookup S.cli k), { S with cli := Map.insert S.cli k v, cliDirty := true }, W)
  | .cRemove k =>
    if S.inv then (.val none, S, W)
    else match Map.lookup S.cli k with
      | none => (.val none, S, W)
      | some v => (.val (some v), { S with cli := Map.erase S.cli k, cliDirty := true }, W)
  | .cClear =>
    if S.inv || S.cli.isEmpty then (.unit, S, W)
    else (.unit, { S with cli := [], cliDirty := true }, W)

def runOps (cfg : Config) (strict : Bool) : List (Op κ ν) → SSess κ ν → SWorld κ ν → List (Res ν) × SSess κ ν × SWorld κ ν
  | [], S, W => ([], S, W)
  | op :: ops, S, W =>
    let (r, S, W) := step cfg strict op S W
    let (rs, S, W) := runOps cfg strict ops S W
    (r :: rs, S, W)

/-- End of the request: flush, then the cookie. No cookie for a brand-new session that has
    nothing in it; a removal cookie for an invalidated session that the client knows about. -/
def finalize (cfg : Config) (strict : Bool) (S : SSess κ ν) (W : SWorld κ ν) : Fin κ ν × SWorld κ ν :=
  match flush cfg strict S W with
  | none => (.err (.sync f7), W)
  | some (S, W) =>
    if S.inv then (if S.id.oldId.isSome then .removal else .none, W)
    else if S.cli.isEmpty && S.id.oldId.isNone then (.none, W)
    else (.set S.id.newId S.cli, W)

/-- The middleware: the cookie must get through the processor's crypto rules. -/
def finalizeSession (cfg : Config) (strict : Bool) (S : SSess κ ν) (W : SWorld κ ν) : Fin κ ν × SWorld κ ν :=
  let mustEncrypt := !cIsEmpty S
  let refuse : Option FinErr :=
    if mustEncrypt && !willEncrypt cfg then some .encryptionRequired
    else if !(willEncrypt cfg || willSign cfg) then some .cryptoRequired
    else none
  match finalize cfg strict S W with
  | (.set id c, W) => (match refuse with | some e => .err e | none => .set id c, W)
  | (.removal, W) => (match refuse with | some e => .err e | none => .removal, W)
  | r => r

def runRequest (cfg : Config) (strict : Bool) (incoming : Option (Nat × Map κ ν)) (ops : List (Op κ ν)) (W : SWorld κ ν) :
    List (Res ν) × Fin κ ν × SWorld κ ν :=
  let (S, W) := newSession incoming W
  let (rs, S, W) := runOps cfg strict ops S W
  let (f, W) := finalizeSession cfg strict S W
  (rs, f, W)

def expire (pres : Option (Nat × Map κ ν)) (W : SWorld κ ν) : SWorld κ ν :=
  match pres with
  | some (id, _) => W.set id none
  | none => W

/-- What the specification says a history observes: per request the operation results and the
    response's session cookie. Which session a request starts with (the cookie the client sends,
    read by the processor in force for that request, or `from_parts`) and what the client holds
    afterwards are shared with the model (`presented`, `sent`, `afterResponse`). -/
def runHistory (cfg : Config) (strict : Bool) : List (Req κ ν) → Client κ ν → SWorld κ ν → List (List (Res ν) × Fin κ ν)
  | [], _, _ => []
  | rq :: rest, c, W =>
    let cfg' := reqCfg cfg rq.crypto
    let pres := presented cfg' c rq.src
    let W := if rq.expire then expire pres W else W
    let (rs, f, W) := runRequest cfg' strict pres rq.ops W
    let c' : Client κ ν := { jar := afterResponse cfg' (sent c rq.src) f, issued := c.issued ++ [issuedBy cfg' f] }
    (rs, f) :: runHistory cfg strict rest c' W

def SWorld.init : SWorld κ ν := { recs := fun _ => none, nextId := 0 }

end
end Pxv.Session.Spec
