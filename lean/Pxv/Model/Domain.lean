/-
C20 — domain guards.  Import-free executable model of

* `validate`, `DomainGuard::new`, `DomainGuard::matchit_pattern`
  (compiler/pavexc/src/compiler/analyses/domain.rs),
* the host normalisation emitted into every generated server
  (compiler/pavexc/src/compiler/codegen/router.rs, `domain_router`),
* the part of `matchit` 0.9 (`Node::insert`, `Node::at`) that is reachable with the patterns
  `matchit_pattern` can produce (semantic model: validated by differential runs, not verified),
* `DomainRouter::detect_domain_conflicts` (analyses/user_components/router.rs) and the generated
  `domain_router()`: insertion of every pattern in `BTreeMap<DomainGuard, _>` order,

and the specification side: `Grammar` (the documented syntax of a guard) and `Fits` (the documented
meaning of a guard, label by label).  Strings are `List Char`.
-/
namespace Pxv.Domain

/-! ## Characters, identifiers -/

/-- `char::is_ascii_alphanumeric() || c == '-'`: what a DNS label may contain. -/
def labelChar (c : Char) : Bool := c.isAlphanum || c == '-'

def identStart (c : Char) : Bool := c.isAlpha || c == '_'
def identCont (c : Char) : Bool := c.isAlphanum || c == '_'

/-- The words `syn::Ident::parse` refuses (syn 2.0 `ident.rs::accept_as_ident`). -/
def keywords : List (List Char) :=
  ["_", "abstract", "as", "async", "await", "become", "box", "break", "const", "continue", "crate",
   "do", "dyn", "else", "enum", "extern", "false", "final", "fn", "for", "if", "impl", "in", "let",
   "loop", "macro", "match", "mod", "move", "mut", "override", "priv", "pub", "ref", "return",
   "Self", "self", "static", "struct", "super", "trait", "true", "try", "type", "typeof", "unsafe",
   "unsized", "use", "virtual", "where", "while", "yield"].map String.toList

/-- `syn::parse_str::<syn::Ident>(name).is_ok()` for names over ASCII letters, digits, `_`, `-`,
    `*`, `{` (the alphabet of the property): an ASCII identifier that is not a keyword.
    (Non-ASCII `XID` identifiers and surrounding white space, which `syn` also accepts, are outside
    the modelled alphabet.) -/
def isIdent (n : List Char) : Bool :=
  match n with
  | [] => false
  | c :: cs => identStart c && cs.all identCont && !(keywords.contains n)

/-! ## `validate` -/

inductive Err where
  | empty | tooLong | emptyLabel | catchAllNotAtStart
  | invalidStart | invalidEnd | invalidChars | labelTooLong | paramNotAtStart | tooManyParams
  | invalidParamName | emptyParamName | unclosedParam
  deriving Repr, DecidableEq

/-- `str::split('.')`. -/
def splitDots : List Char → List (List Char)
  | [] => [[]]
  | c :: cs =>
    if c = '.' then [] :: splitDots cs
    else match splitDots cs with
      | [] => [[c]]
      | l :: ls => (c :: l) :: ls

/-- The label iterator of `validate`: `input.split('.')`, minus the last (empty) item when the
    input ends with a dot. -/
def labelsOf (s : List Char) : List (List Char) :=
  if s.getLast? = some '.' then (splitDots s).dropLast else splitDots s

/-- Scanner state inside one label: `label_length`, `parsed_parameters` (start index and
    catch-all flag; the end index is only used for messages), the `CurrentParameter` if any
    (name, start index, catch-all flag) and whether `invalid_label_chars` is non-empty. -/
structure St where
  len : Nat := 0
  parsed : List (Nat × Bool) := []
  cur : Option (List Char × Nat × Bool) := none
  invalid : Bool := false
  deriving Repr, DecidableEq

/-- The `loop { let Some((i, char)) = chars.next() … }` of `validate`, up to the end of the label.
    `i` is the index of the next character. The source peeks for a `*` right after the `{` that
    opens a parameter and consumes it; here the `*` is recognised one step later, when the
    parameter has just been opened (empty name, not yet catch-all) — the same thing. -/
def scan : Nat → List Char → St → Except Err St
  | _, [], st => .ok st
  | i, c :: cs, st =>
    if c = '}' then
      match st.cur with
      | some (name, start, ca) =>
        if name = [] then .error .emptyParamName
        else if !isIdent name then .error .invalidParamName
        else scan (i + 1) cs { st with len := st.len + 1, parsed := st.parsed ++ [(start, ca)], cur := none }
      | none => scan (i + 1) cs { st with len := st.len + 1, invalid := true }
    else
      match st.cur with
      | some (name, start, ca) =>
        if c = '*' ∧ name = [] ∧ ca = false then scan (i + 1) cs { st with cur := some ([], start, true) }
        else scan (i + 1) cs { st with cur := some (name ++ [c], start, ca) }
      | none =>
        if c = '{' then scan (i + 1) cs { st with cur := some ([], i, false) }
        else scan (i + 1) cs { st with len := st.len + 1, invalid := st.invalid || !labelChar c }

/-- The checks at the end of a label (in the order of the source) and the three checks after the
    loop. Returns `label_length`. -/
def finish (idx : Nat) (label : List Char) (st : St) : Except Err Nat :=
  if st.cur.isSome then .error .unclosedParam
  else if st.invalid then .error .invalidChars
  else if st.parsed.length > 1 then .error .tooManyParams
  else
    let paramCheck : Except Err Unit :=
      match st.parsed.head? with
      | some (start, ca) =>
        if start ≠ 0 then .error .paramNotAtStart
        else if ca && idx ≠ 0 then .error .catchAllNotAtStart
        else .ok ()
      | none => .ok ()
    match paramCheck with
    | .error e => .error e
    | .ok () =>
      match label.head?, label.getLast? with
      | some first, some last =>
        if first ≠ '{' && !first.isAlphanum then .error .invalidStart
        else if last ≠ '}' && !last.isAlphanum then .error .invalidEnd
        else if st.len > 63 then .error .labelTooLong
        else .ok st.len
      | _, _ => .error .emptyLabel

def scanLabel (idx : Nat) (label : List Char) : Except Err Nat :=
  match scan 0 label {} with
  | .error e => .error e
  | .ok st => finish idx label st

/-- `for (label_index, label) in labels.enumerate()`; `total` is `total_length`. -/
def validateLabels : Nat → List (List Char) → Nat → Except Err Nat
  | _, [], total => .ok total
  | idx, l :: ls, total =>
    if l = [] then .error .emptyLabel
    else match scanLabel idx l with
      | .error e => .error e
      | .ok n => validateLabels (idx + 1) ls (total + 1 + n)

/-- domain.rs `validate`. -/
def validate (s : List Char) : Except Err Unit :=
  if s = [] then .error .empty
  else match validateLabels 0 (labelsOf s) 0 with
    | .error e => .error e
    | .ok total => if total - 1 > 253 then .error .tooLong else .ok ()

/-! ## `DomainGuard::new`, `matchit_pattern` -/

/-- `str::trim_end_matches('.')`. -/
def trimDots (s : List Char) : List Char := (s.reverse.dropWhile (· == '.')).reverse

/-- `DomainGuard::new`: the stored `domain`. -/
def guardNew (s : List Char) : Except Err (List Char) :=
  match validate s with
  | .error e => .error e
  | .ok () => .ok (trimDots s)

/-- The loop of `matchit_pattern` over the reversed characters. `nm = some acc` while we are
    inside `take_while(|c| *c != '{')`; `acc` is the parameter name read so far, already back in
    its original orientation. -/
def patGo : List Char → Option (List Char) → List Char
  | [], none => []
  | [], some nm => '{' :: nm ++ ['}']
  | c :: cs, none =>
    if c = '.' then '/' :: patGo cs none
    else if c = '}' then patGo cs (some [])
    else c :: patGo cs none
  | c :: cs, some nm =>
    if c = '{' then '{' :: nm ++ '}' :: patGo cs none
    else patGo cs (some (c :: nm))

/-- `DomainGuard::matchit_pattern` (on the stored, normalised domain). -/
def pattern (domain : List Char) : List Char := patGo domain.reverse none

/-! ## Host normalisation in the generated server -/

/-- `s.strip_suffix('.').unwrap_or(s)`: one trailing dot, if any, is dropped. -/
def stripDot (s : List Char) : List Char :=
  if s.getLast? = some '.' then s.dropLast else s

/-- The value of `host` handed to `domain_router.at(..)`, given `host = a.host()`:
    `host.strip_suffix('.').unwrap_or(host).replace('.', "/").chars().rev().collect()`. -/
def normHost (h : List Char) : List Char :=
  ((stripDot h).map (fun c => if c = '.' then '/' else c)).reverse

/-! ## Semantic model of `matchit` 0.9.2 on the pattern family of `matchit_pattern`

A pattern is a `/`-separated list of segments; a segment is a literal, or a literal prefix
followed by one `{name}` that ends the segment; the last segment may instead end with `{*name}`.
(`matchit` supports more — parameter suffixes, escapes — none of which `matchit_pattern` can emit
for a validated guard.) -/

inductive Seg where
  | lit (s : List Char)
  | param (pre name : List Char)
  | catchAll (pre name : List Char)
  deriving Repr, DecidableEq

/-- `str::split('/')`. -/
def splitSlash : List Char → List (List Char)
  | [] => [[]]
  | c :: cs =>
    if c = '/' then [] :: splitSlash cs
    else match splitSlash cs with
      | [] => [[c]]
      | l :: ls => (c :: l) :: ls

/-- One segment of a route; `none` outside the modelled family. -/
def parseSeg (s : List Char) : Option Seg :=
  let pre := s.takeWhile (· ≠ '{')
  if pre.contains '}' then none
  else match s.dropWhile (· ≠ '{') with
    | [] => some (.lit s)
    | _ :: w =>
      let catchAll := w.head? = some '*'
      let w := if catchAll then w.drop 1 else w
      let name := w.takeWhile (· ≠ '}')
      if name = [] || name.contains '{' || name.contains '*' then none
      else match w.dropWhile (· ≠ '}') with
        | ['}'] => some (if catchAll then .catchAll pre name else .param pre name)
        | _ => none

def Seg.isCatchAll : Seg → Bool
  | .catchAll _ _ => true
  | _ => false

def parseSegs : List (List Char) → Option (List Seg)
  | [] => some []
  | s :: ss =>
    match parseSeg s, parseSegs ss with
    | some a, some as => some (a :: as)
    | _, _ => none

/-- A route; `none` outside the modelled family (a catch-all that is not last, …). -/
def parsePat (p : List Char) : Option (List Seg) :=
  match parseSegs (splitSlash p) with
  | none => none
  | some segs => if segs.dropLast.any Seg.isCatchAll then none else some segs

/-- Does the route match the path (given by its `/`-separated segments)? `Node::at` on a router
    holding just this route: static bytes compare equal, `{p}` takes a non-empty run up to the next
    `/` (or the end), `{*p}` takes a non-empty rest. -/
def segsMatch : List Seg → List (List Char) → Bool
  | [], [] => true
  | .lit s :: ss, p :: ps => p == s && segsMatch ss ps
  | .param pre _ :: ss, p :: ps => (pre.isPrefixOf p && pre.length < p.length) && segsMatch ss ps
  | .catchAll pre _ :: ss, p :: ps => ss.isEmpty && pre.isPrefixOf p && (pre.length < p.length || !ps.isEmpty)
  | _, _ => false

/-- Would `insert` of one of the two routes fail with `Conflict` if the other is present?
    Same static text up to a point where both put a wildcard (parameter names are irrelevant:
    `matchit` normalises them), or the same route. -/
def conflict : List Seg → List Seg → Bool
  | [], [] => true
  | .lit s :: as, .lit t :: bs => s == t && conflict as bs
  | .param p _ :: as, .param q _ :: bs => p == q && conflict as bs
  | .param p _ :: _, .catchAll q _ :: _ => p == q
  | .catchAll p _ :: _, .param q _ :: _ => p == q
  | .catchAll p _ :: _, .catchAll q _ :: _ => p == q
  | _, _ => false

/-- How far a segment goes on static text: `none` = all the way (literal). -/
def Seg.rank : Seg → Option Nat
  | .lit _ => none
  | .param pre _ => some pre.length
  | .catchAll pre _ => some pre.length

/-- `a` is searched before `b` by `Node::at` (static children first, wildcard child last,
    backtracking): at the first segment where they differ, `a` stays on static text longer. -/
def prefer : List Seg → List Seg → Bool
  | a :: as, b :: bs =>
    match a.rank, b.rank with
    | none, none => if a == b then prefer as bs else false
    | none, some _ => true
    | some _, none => false
    | some m, some n =>
      if m > n then true
      else if m < n then false
      else if a.isCatchAll || b.isCatchAll then false
      else prefer as bs
  | _, _ => false

/-- `normalize_params` panics ("Too many route parameters.") once it has renamed 26 parameters. -/
def paramCount (segs : List Seg) : Nat :=
  (segs.filter (fun s => match s with | .param _ _ => true | _ => false)).length

inductive Ins where
  | ok | conflict | unsupported | panic
  deriving Repr, DecidableEq

/-! ### `Node::insert`: when does it answer `Conflict`?

`matchit` keeps its routes in a compressed trie whose shape, as long as every earlier `insert`
succeeded, is determined by the set of routes. The function below replays the walk of
`Node::insert` over that set instead of over the tree: `S` holds, for the position reached so
far, what is left of every earlier route that passes through it. Besides the genuine conflicts
(same route; two different wildcards at the same position) it reproduces the one "prefix/suffix"
check of matchit 0.9.2 that is reachable with our routes: when a `{param}` that is followed by
further segments is attached to a node without wildcard child, `insert` compares against
*everything* that follows the parameter (`remaining.slice_off(wildcard.end)`) and answers
`Conflict` if `prefix_wild_child_in_segment` holds for the node — also for routes that share no
path (e.g. `moc/b{p}` then `moc/{s}/ba{q}`). -/

/-- A route as the trie sees it: bytes, `{param}` (names are normalised away), `{*catch_all}`. -/
inductive Tok where
  | c (ch : Char)
  | par
  | star
  deriving Repr, DecidableEq

def Seg.toks : Seg → List Tok
  | .lit s => s.map .c
  | .param pre _ => pre.map .c ++ [.par]
  | .catchAll pre _ => pre.map .c ++ [.star]

def toks : List Seg → List Tok
  | [] => []
  | [s] => s.toks
  | s :: ss => s.toks ++ .c '/' :: toks ss

def Tok.isWild : Tok → Bool
  | .c _ => false
  | _ => true

def startsWild (r : List Tok) : Bool := match r with | t :: _ => t.isWild | [] => false
def startsStar (r : List Tok) : Bool := match r with | .star :: _ => true | _ => false

/-- `wild_child_in_segment` along one route: a `{param}` is reached before any `/`. -/
def reachesParam : List Tok → Bool
  | [] => false
  | .par :: _ => true
  | .star :: _ => false
  | .c ch :: r => ch != '/' && reachesParam r

/-- Common static prefix of two routes (an edge never contains a wildcard). -/
def commonStatic : List Tok → List Tok → List Tok
  | .c x :: a, .c y :: b => if x = y then .c x :: commonStatic a b else []
  | _, _ => []

def staticPrefix : List Tok → List Tok
  | .c x :: a => .c x :: staticPrefix a
  | _ => []

/-- The label of the trie edge shared by the routes in `G` (which all start with the same byte). -/
def edge : List (List Tok) → List Tok
  | [] => []
  | r :: rs => rs.foldl commonStatic (staticPrefix r)

def leadChars (S : List (List Tok)) : List Char :=
  (S.filterMap (fun r => match r with | .c x :: _ => some x | _ => none)).eraseDups

/-- `Node::prefix_wild_child_in_segment` of the node at the current position; `slash` = its
    prefix ends with `/`. -/
def pwcis : Nat → List (List Tok) → Bool → Bool
  | 0, _, _ => false
  | fuel + 1, S, slash =>
    if !slash then S.any reachesParam
    else (leadChars S).any (fun x =>
      let G := S.filter (fun r => match r with | .c y :: _ => x == y | _ => false)
      let q := edge G
      let G' := G.map (·.drop q.length)
      if q.getLast? = some (.c '/') then pwcis fuel G' true else G'.any reachesParam)

def maxLen (S : List (List Tok)) : Nat := S.foldl (fun m r => max m r.length) 0

/-- Does `insert` of route `R` answer `Conflict`, given what is left (`S`) of the earlier routes
    through the current position? `slash`: the text consumed so far ends with `/`; `root`: nothing
    consumed so far (`prefix_wild_child_in_segment` is `false` for a root with empty prefix). -/
def insChk : List (List Tok) → List Tok → Bool → Bool → Bool
  | S, [], _, _ => S.any (·.isEmpty)
  | S, t :: R, slash, root =>
    let next := S.filterMap (fun r => match r with
      | t' :: r' => if t' = t then some r' else none
      | [] => none)
    match t with
    | .c ch => if !next.isEmpty then insChk next R (ch == '/') false else false
    | .par =>
      if S.any startsWild then (if S.any startsStar then true else insChk next R false false)
      else !R.isEmpty && !root && pwcis (maxLen S + 1) S slash
    | .star => S.any startsWild

/-- Insert every route in order (`detect_domain_conflicts`, and the generated `domain_router()`),
    up to the first failure (the verdict is decided there). `acc` = routes inserted so far. -/
def insertAll : List (List Char) → Nat → List (Nat × List Seg) → List Ins × List (Nat × List Seg)
  | [], _, acc => ([], acc)
  | p :: ps, i, acc =>
    match parsePat p with
    | none => ([.unsupported], acc)
    | some segs =>
      if paramCount segs ≥ 26 then ([.panic], acc)
      else if insChk (acc.map (fun q => toks q.2)) (toks segs) false true then ([.conflict], acc)
      else let (r, a) := insertAll ps (i + 1) (acc ++ [(i, segs)]); (.ok :: r, a)

/-- One step of the search for the matching route that `Node::at` reaches first. -/
def pickStep (segs : List (List Char)) (best : Option (Nat × List Seg)) (r : Nat × List Seg) :
    Option (Nat × List Seg) :=
  if segsMatch r.2 segs then
    match best with
    | none => some r
    | some b => if prefer r.2 b.2 then some r else some b
  else best

def bestRoute (routes : List (Nat × List Seg)) (segs : List (List Char)) : Option (Nat × List Seg) :=
  routes.foldl (pickStep segs) none

/-- `Router::at`: the matching route that is searched first. -/
def atRoutes (routes : List (Nat × List Seg)) (path : List Char) : Option Nat :=
  (bestRoute routes (splitSlash path)).map (·.1)

/-- A router holding exactly the given route: does `at(path)` succeed? -/
def matches1 (pat path : List Char) : Bool :=
  match parsePat pat with
  | none => false
  | some segs => segsMatch segs (splitSlash path)

/-! ## The whole pipeline: guards of a blueprint → router → host -/

/-- Code-point lexicographic order (= `String`'s `Ord`, which `DomainGuard` derives). -/
def ltChars : List Char → List Char → Bool
  | [], [] => false
  | [], _ :: _ => true
  | _ :: _, [] => false
  | a :: as, b :: bs => if a.toNat < b.toNat then true else if b.toNat < a.toNat then false else ltChars as bs

/-- Insertion into a sorted, duplicate-free list (`BTreeSet::insert`). -/
def insertSorted (x : List Char) : List (List Char) → List (List Char)
  | [] => [x]
  | y :: ys => if x = y then y :: ys else if ltChars x y then x :: y :: ys else y :: insertSorted x ys

/-- The key order of `BTreeMap<DomainGuard, _>` over the valid guards among `gs`. -/
def routerOrder (gs : List (List Char)) : List (List Char) :=
  gs.foldl (fun acc g => match guardNew g with | .ok d => insertSorted d acc | .error _ => acc) []

structure RouteOut where
  verdicts : List (Except Err Unit)
  order : List (List Char)
  patterns : List (List Char)
  ins : List Ins
  host : List Char
  each : List Bool
  hit : Option Nat
  /-- some pattern makes `normalize_params` panic (pavexc inserts every pattern, even after a conflict) -/
  panics : Bool

/-- What compile-time conflict detection plus the generated router do for a set of guards and the
    value of `a.host()`. -/
def route (gs : List (List Char)) (h : List Char) : RouteOut :=
  let order := routerOrder gs
  let pats := order.map pattern
  let (ins, routes) := insertAll pats 0 []
  let path := normHost h
  { verdicts := gs.map validate
    order := order
    patterns := pats
    ins := ins
    host := path
    each := pats.map (fun p => matches1 p path)
    hit := if ins.all (· == .ok) then atRoutes routes path else none
    panics := pats.any (fun p => match parsePat p with | some segs => paramCount segs ≥ 26 | none => false) }

/-! ## Specification: the documented grammar and meaning of a guard -/

/-- What may follow a parameter inside its label: label characters, ending (if non-empty) with a
    letter or digit. -/
def RestOk (rest : List Char) : Prop :=
  (∀ c ∈ rest, labelChar c = true) ∧ (∀ c, rest.getLast? = some c → c.isAlphanum = true)

/-- One DNS label of a guard, with the length it counts for (`{…}` counts 1: the shortest text it
    can stand for). `first` = this is the leftmost label. -/
inductive LabelG : Bool → List Char → Nat → Prop
  /-- a plain label: letters, digits, hyphens; starts and ends with a letter or digit; ≤ 63 -/
  | lit {first : Bool} {s : List Char} :
      s ≠ [] → (∀ c ∈ s, labelChar c = true) →
      (∀ c, s.head? = some c → c.isAlphanum = true) →
      (∀ c, s.getLast? = some c → c.isAlphanum = true) →
      s.length ≤ 63 → LabelG first s s.length
  /-- `{name}` at the start of the label, `name` a Rust identifier -/
  | param {first : Bool} {name rest : List Char} :
      isIdent name = true → RestOk rest → 1 + rest.length ≤ 63 →
      LabelG first ('{' :: name ++ '}' :: rest) (1 + rest.length)
  /-- `{*name}`: only in the leftmost label -/
  | catchAll {name rest : List Char} :
      isIdent name = true → RestOk rest → 1 + rest.length ≤ 63 →
      LabelG true ('{' :: '*' :: name ++ '}' :: rest) (1 + rest.length)

/-- Labels separated by single dots, with the total counted length. -/
inductive LabelsG : Bool → List Char → Nat → Prop
  | one {first : Bool} {l : List Char} {n : Nat} : LabelG first l n → LabelsG first l n
  | cons {first : Bool} {l s : List Char} {n m : Nat} :
      LabelG first l n → LabelsG false s m → LabelsG first (l ++ '.' :: s) (n + 1 + m)

/-- The documented rules for a domain guard: a (possibly templated) DNS name of at most 253
    characters, in relative or absolute (one trailing dot) form. -/
inductive Grammar : List Char → Prop
  | relative {body : List Char} {n : Nat} : LabelsG true body n → n ≤ 253 → Grammar body
  | absolute {body : List Char} {n : Nat} : LabelsG true body n → n ≤ 253 → Grammar (body ++ ['.'])

/-- A label of a guard, taken apart. -/
inductive GLabel where
  | lit (s : List Char)
  | param (name rest : List Char)
  | catchAll (name rest : List Char)
  deriving Repr, DecidableEq

def parseLabel (l : List Char) : GLabel :=
  match l with
  | '{' :: '*' :: t => .catchAll (t.takeWhile (· ≠ '}')) ((t.dropWhile (· ≠ '}')).drop 1)
  | '{' :: t => .param (t.takeWhile (· ≠ '}')) ((t.dropWhile (· ≠ '}')).drop 1)
  | _ => .lit l

/-- The labels of a guard, left to right (one trailing dot ignored). -/
def guardLabels (g : List Char) : List GLabel := (splitDots (stripDot g)).map parseLabel

/-- The labels of a host name, left to right (one trailing dot ignored). -/
def hostLabels (h : List Char) : List (List Char) := splitDots (stripDot h)

/-- Label-wise meaning of a guard, read from the right (top-level domain first): a literal label
    equals the host's label; `{p}rest` stands for a label `x ++ rest` with `x` non-empty; a
    (leftmost) `{*p}rest` stands for everything that is left, provided it ends with `rest` and
    `{*p}` gets at least one character — i.e. one or more labels. -/
def fitsFrom : List GLabel → List (List Char) → Prop
  | [], [] => True
  | .lit s :: gs, l :: ls => l = s ∧ fitsFrom gs ls
  | .param _ rest :: gs, l :: ls => (∃ x, x ≠ [] ∧ l = x ++ rest) ∧ fitsFrom gs ls
  | .catchAll _ rest :: gs, l :: ls => gs = [] ∧ ∃ x, l = x ++ rest ∧ (x ≠ [] ∨ ls ≠ [])
  | _, _ => False

/-- **The documented meaning**: host `h` fits guard `g`. -/
def Fits (g h : List Char) : Prop := fitsFrom (guardLabels g).reverse (hostLabels h).reverse

end Pxv.Domain
