/-
Model of the type algebra of `rustdoc_ir` (rustdoc/rustdoc_ir/src): `Type` and its parts
(lib.rs, path_type.rs, generic_argument.rs, lifetime.rs, function_pointer.rs, ...), and the
operations of type_.rs / path_type.rs / generics_equivalence.rs / render.rs that dependency
matching in pavexc relies on (`ConstructiblesInScope`, `ErrorHandlersInScope`, codegen).

Import-free (core only). Every definition names the Rust item it mirrors.

Representation notes (all validated by the correspondence run, none changes behaviour):
* `Vec<T>` fields are explicit mutual list types (`GArgs`, `Tys`, `FnIns`), `Option<Box<Type>>` is `OTy`;
  `GenericArgument` is folded into the constructors of `GArgs`.
* `Type::Path` / `Type::TypeAlias` share the payload `PathType`: one constructor with an `alias` flag.
* `HashMap<String, Type>` (bindings) is an association list read by first match (`bget`/`bset`).
* `UnassignedIdGenerator` / the `generic_name_map`+`generic_counter` pair of `_canonicalize` are the list
  of names in first-seen order: the id / canonical index of a name is its position in that list.
-/
namespace Pxv.Ty

/-- `rustdoc_ir::Lifetime` (lifetime.rs). -/
inductive Lt where
  | static | named (n : String) | inferred | elided
  deriving DecidableEq, Repr, Inhabited

/-- `rustdoc_ir::GenericLifetimeParameter` (generic_argument.rs). -/
inductive GLt where
  | named (n : String) | static | inferred
  deriving DecidableEq, Repr, Inhabited

/-- `rustdoc_ir::ScalarPrimitive` (scalar_primitive.rs). -/
inductive Scalar where
  | usize | u8 | u16 | u32 | u64 | u128 | isize | i8 | i16 | i32 | i64 | i128 | f32 | f64
  | bool | char | str
  deriving DecidableEq, Repr, Inhabited

/-- `rustdoc_types::Abi`. -/
inductive Abi where
  | rust | c (unwind : Bool) | cdecl (unwind : Bool) | stdcall (unwind : Bool)
  | fastcall (unwind : Bool) | aapcs (unwind : Bool) | win64 (unwind : Bool)
  | sysv64 (unwind : Bool) | system (unwind : Bool) | other (s : String)
  deriving DecidableEq, Repr, Inhabited

mutual
/-- `rustdoc_ir::Type` (lib.rs). -/
inductive Ty where
  /-- `Type::Path(PathType)` (`alias = false`) / `Type::TypeAlias(PathType)` (`alias = true`). -/
  | path (alias : Bool) (pkg : String) (id : Option Nat) (base : List String) (args : GArgs)
  /-- `Type::Reference(TypeReference { is_mutable, lifetime, inner })`. -/
  | ref (isMut : Bool) (lt : Lt) (inner : Ty)
  /-- `Type::Tuple`. -/
  | tuple (elems : Tys)
  /-- `Type::ScalarPrimitive`. -/
  | scalar (s : Scalar)
  /-- `Type::Slice`. -/
  | slice (elem : Ty)
  /-- `Type::Array { element_type, len }`. -/
  | array (elem : Ty) (len : Nat)
  /-- `Type::RawPointer { is_mutable, inner }`. -/
  | rawPtr (isMut : Bool) (inner : Ty)
  /-- `Type::FunctionPointer { inputs, output, abi, is_unsafe }`. -/
  | fnPtr (ins : FnIns) (out : OTy) (abi : Abi) (isUnsafe : Bool)
  /-- `Type::Generic(Generic { name })`. -/
  | generic (name : String)
/-- `Vec<GenericArgument>`: `TypeParameter(Type)`, `Lifetime(GenericLifetimeParameter)`,
    `Const(ConstGenericArgument { value })`. -/
inductive GArgs where
  | nil
  | ty (t : Ty) (rest : GArgs)
  | lt (l : GLt) (rest : GArgs)
  | const (v : String) (rest : GArgs)
/-- `Vec<Type>` (tuple elements). -/
inductive Tys where
  | nil
  | cons (t : Ty) (rest : Tys)
/-- `Vec<FunctionPointerInput { name, type_ }>`. -/
inductive FnIns where
  | nil
  | cons (name : Option String) (t : Ty) (rest : FnIns)
/-- `Option<Box<Type>>` (function pointer output). -/
inductive OTy where
  | none
  | some (t : Ty)
end

deriving instance DecidableEq for Ty, GArgs, Tys, FnIns, OTy

instance : Inhabited Ty := ⟨.tuple .nil⟩

/-- `HashMap<String, Type>`: the bindings of generic parameters. First match wins. -/
def bget : List (String × Ty) → String → Option Ty
  | [], _ => none
  | (k, v) :: r, x => if k = x then some v else bget r x

/-- `HashMap::insert`. -/
def bset (b : List (String × Ty)) (k : String) (v : Ty) : List (String × Ty) := (k, v) :: b

/-! ### `Type::bind_generic_type_parameters` (type_.rs) -/
mutual
def bind (b : List (String × Ty)) : Ty → Ty
  | .path al p i bs as => .path al p i bs (bindArgs b as)
  | .ref m l t => .ref m l (bind b t)
  | .tuple es => .tuple (bindTys b es)
  | .scalar s => .scalar s
  | .slice e => .slice (bind b e)
  | .array e n => .array (bind b e) n
  | .rawPtr m t => .rawPtr m (bind b t)
  | .fnPtr ins out abi u => .fnPtr (bindIns b ins) (bindO b out) abi u
  | .generic x => match bget b x with
    | some v => v
    | none => .generic x
def bindArgs (b : List (String × Ty)) : GArgs → GArgs
  | .nil => .nil
  | .ty t r => .ty (bind b t) (bindArgs b r)
  | .lt l r => .lt l (bindArgs b r)
  | .const v r => .const v (bindArgs b r)
def bindTys (b : List (String × Ty)) : Tys → Tys
  | .nil => .nil
  | .cons t r => .cons (bind b t) (bindTys b r)
def bindIns (b : List (String × Ty)) : FnIns → FnIns
  | .nil => .nil
  | .cons n t r => .cons n (bind b t) (bindIns b r)
def bindO (b : List (String × Ty)) : OTy → OTy
  | .none => .none
  | .some t => .some (bind b t)
end

/-! ### `Type::is_a_template` (type_.rs) -/
mutual
def isTemplate : Ty → Bool
  | .path _ _ _ _ as => isTemplateArgs as
  | .ref _ _ t => isTemplate t
  | .tuple es => isTemplateTys es
  | .scalar _ => false
  | .slice e => isTemplate e
  | .array e _ => isTemplate e
  | .rawPtr _ t => isTemplate t
  | .fnPtr ins out _ _ => isTemplateIns ins || isTemplateO out
  | .generic _ => true
def isTemplateArgs : GArgs → Bool
  | .nil => false
  | .ty t r => isTemplate t || isTemplateArgs r
  | .lt _ r => isTemplateArgs r
  | .const _ r => isTemplateArgs r
def isTemplateTys : Tys → Bool
  | .nil => false
  | .cons t r => isTemplate t || isTemplateTys r
def isTemplateIns : FnIns → Bool
  | .nil => false
  | .cons _ t r => isTemplate t || isTemplateIns r
def isTemplateO : OTy → Bool
  | .none => false
  | .some t => isTemplate t
end

/-- `IndexSet::insert`: keeps first-insertion order. -/
def insertNew (s : List String) (x : String) : List String := if x ∈ s then s else s ++ [x]

/-! ### `Type::unassigned_generic_type_parameters` (type_.rs) -/
mutual
def unassigned : Ty → List String → List String
  | .path _ _ _ _ as, s => unassignedArgs as s
  | .ref _ _ t, s => unassigned t s
  | .tuple es, s => unassignedTys es s
  | .scalar _, s => s
  | .slice e, s => unassigned e s
  | .array e _, s => unassigned e s
  | .rawPtr _ t, s => unassigned t s
  | .fnPtr ins out _ _, s => unassignedO out (unassignedIns ins s)
  | .generic x, s => insertNew s x
def unassignedArgs : GArgs → List String → List String
  | .nil, s => s
  | .ty t r, s => unassignedArgs r (unassigned t s)
  | .lt _ r, s => unassignedArgs r s
  | .const _ r, s => unassignedArgs r s
def unassignedTys : Tys → List String → List String
  | .nil, s => s
  | .cons t r, s => unassignedTys r (unassigned t s)
def unassignedIns : FnIns → List String → List String
  | .nil, s => s
  | .cons _ t r, s => unassignedIns r (unassigned t s)
def unassignedO : OTy → List String → List String
  | .none, s => s
  | .some t, s => unassigned t s
end

/-! ### `Type::is_a_template_for` (type_.rs) + `PathType::_is_a_resolved_path_type_template_for`
(path_type.rs). `none` = `false`: every `false` of the Rust code propagates to the top, so the
state of the bindings after a failure is unobservable. -/

/-- `let previous = bindings.insert(name, concrete); if previous.is_some_and(|p| p != concrete) { return false }`
    (the `(_, Generic(parameter))` arm and the two generic cases of the path-argument loop). -/
def bindOne (p : String) (c : Ty) (b : List (String × Ty)) : Option (List (String × Ty)) :=
  match bget b p with
  | some prev => if prev = c then some (bset b p c) else none
  | none => some (bset b p c)

/-- `Type::Generic(g)` → `some g.name`. -/
def genName : Ty → Option String
  | .generic x => some x
  | _ => none

mutual
/-- `templ._is_a_template_for(conc, bindings)`. -/
def tmplGo (t c : Ty) (b : List (String × Ty)) : Option (List (String × Ty)) :=
  if c = t then some b else
  match t, c with
  | .path al p _ bs as, .path al' p' _ bs' as' =>
      -- (Path, Path) | (TypeAlias, TypeAlias); `rustdoc_id` is deliberately ignored by the code
      if al = al' ∧ p = p' ∧ bs = bs' then tmplArgs as as' b else none
  | .slice t, .slice c => tmplGo t c b
  | .array t n, .array c n' => if n = n' then tmplGo t c b else none
  | .ref m _ t, .ref m' _ c => if m = m' then tmplGo t c b else none
  | .tuple ts, .tuple cs => tmplTys ts cs b
  | .scalar s, .scalar s' => if s = s' then some b else none
  | .rawPtr m t, .rawPtr m' c => if m = m' then tmplGo t c b else none
  | .fnPtr ins out abi u, .fnPtr ins' out' abi' u' =>
      if abi = abi' ∧ u = u' then
        match tmplIns ins ins' b with
        | some b' => tmplO out out' b'
        | none => none
      else none
  | .generic x, c => bindOne x c b
  | _, _ => none
/-- The argument loop of `_is_a_resolved_path_type_template_for` (a length mismatch is `false`). -/
def tmplArgs (ts cs : GArgs) (b : List (String × Ty)) : Option (List (String × Ty)) :=
  match ts, cs with
  | .nil, .nil => some b
  | .ty t tr, .ty c cr =>
      match genName t with
      | some x =>
          -- template side generic: bind it (to a generic or to an assigned type alike)
          match bindOne x c b with
          | some b' => tmplArgs tr cr b'
          | none => none
      | none =>
          match genName c with
          | some _ => none  -- "Concrete side has a generic but template side doesn't"
          | none =>
              match tmplGo t c b with
              | some b' => tmplArgs tr cr b'
              | none => none
  | .lt _ tr, .lt _ cr => tmplArgs tr cr b  -- "Lifetimes are not relevant for specialization (yet)"
  | .const v tr, .const w cr => if v = w then tmplArgs tr cr b else none
  | _, _ => none
def tmplTys (ts cs : Tys) (b : List (String × Ty)) : Option (List (String × Ty)) :=
  match ts, cs with
  | .nil, .nil => some b
  | .cons t tr, .cons c cr =>
      match tmplGo t c b with
      | some b' => tmplTys tr cr b'
      | none => none
  | _, _ => none
def tmplIns (ts cs : FnIns) (b : List (String × Ty)) : Option (List (String × Ty)) :=
  match ts, cs with
  | .nil, .nil => some b
  | .cons _ t tr, .cons _ c cr =>
      match tmplGo t c b with
      | some b' => tmplIns tr cr b'
      | none => none
  | _, _ => none
def tmplO (t c : OTy) (b : List (String × Ty)) : Option (List (String × Ty)) :=
  match t, c with
  | .none, .none => some b
  | .some t, .some c => tmplGo t c b
  | _, _ => none
end

/-- `Type::is_a_template_for`. -/
def isTemplateFor (t c : Ty) : Option (List (String × Ty)) := tmplGo t c []

/-! ### `Type::is_equivalent_to` (type_.rs), `PathType::_is_equivalent_to` (path_type.rs),
`UnassignedIdGenerator` (generics_equivalence.rs) -/

/-- `UnassignedIdGenerator::id`: the generator is the list of known names in id order. -/
def idOf (g : List String) (x : String) : Nat × List String :=
  if x ∈ g then (g.idxOf x, g) else (g.length, g ++ [x])

mutual
def equivGo (a b : Ty) (s : List String × List String) : Option (List String × List String) :=
  match a, b with
  | .path al p i bs as, .path al' p' i' bs' as' =>
      if al = al' ∧ p = p' ∧ i = i' ∧ bs = bs' then equivArgs as as' s else none
  | .slice a, .slice b => equivGo a b s
  | .array a n, .array b n' => if n = n' then equivGo a b s else none
  | .ref m _ a, .ref m' _ b => if m = m' then equivGo a b s else none
  | .tuple as, .tuple bs => equivTys as bs s
  | .scalar x, .scalar y => if x = y then some s else none
  | .rawPtr m a, .rawPtr m' b => if m = m' then equivGo a b s else none
  | .fnPtr ins out abi u, .fnPtr ins' out' abi' u' =>
      if abi = abi' ∧ u = u' then
        match equivIns ins ins' s with
        | some s' => equivO out out' s'
        | none => none
      else none
  | .generic x, .generic y =>
      if (idOf s.1 x).1 = (idOf s.2 y).1 then some ((idOf s.1 x).2, (idOf s.2 y).2) else none
  | _, _ => none
/-- Argument loop of `PathType::_is_equivalent_to`; its `(Generic, Generic)` special case is the
    `Generic` arm above verbatim, so it is not repeated. -/
def equivArgs (as bs : GArgs) (s : List String × List String) : Option (List String × List String) :=
  match as, bs with
  | .nil, .nil => some s
  | .ty a ar, .ty b br =>
      match equivGo a b s with
      | some s' => equivArgs ar br s'
      | none => none
  | .lt _ ar, .lt _ br => equivArgs ar br s
  | .const v ar, .const w br => if v = w then equivArgs ar br s else none
  | _, _ => none
def equivTys (as bs : Tys) (s : List String × List String) : Option (List String × List String) :=
  match as, bs with
  | .nil, .nil => some s
  | .cons a ar, .cons b br =>
      match equivGo a b s with
      | some s' => equivTys ar br s'
      | none => none
  | _, _ => none
def equivIns (as bs : FnIns) (s : List String × List String) : Option (List String × List String) :=
  match as, bs with
  | .nil, .nil => some s
  | .cons _ a ar, .cons _ b br =>
      match equivGo a b s with
      | some s' => equivIns ar br s'
      | none => none
  | _, _ => none
def equivO (a b : OTy) (s : List String × List String) : Option (List String × List String) :=
  match a, b with
  | .none, .none => some s
  | .some a, .some b => equivGo a b s
  | _, _ => none
end

/-- `Type::is_equivalent_to`: the renaming pairs the two generators' names by id. -/
def isEquivalentTo (a b : Ty) : Option (List (String × String)) :=
  match equivGo a b ([], []) with
  | some (g1, g2) => some (g1.zip g2)
  | none => none

/-! ### `Type::canonicalize` (type_.rs) -/

/-- Digits of `next_lifetime_name` / `next_generic_name`: bijective base 26, most significant first. -/
def nameDigits (n : Nat) : List (Fin 26) :=
  if h : n < 26 then [⟨n, h⟩]
  else nameDigits (n / 26 - 1) ++ [⟨n % 26, Nat.mod_lt _ (by decide)⟩]
termination_by n
decreasing_by omega

def lowerLetters : List Char :=
  ['a', 'b', 'c', 'd', 'e', 'f', 'g', 'h', 'i', 'j', 'k', 'l', 'm', 'n', 'o', 'p', 'q', 'r', 's', 't', 'u', 'v',
   'w', 'x', 'y', 'z']
def upperLetters : List Char :=
  ['A', 'B', 'C', 'D', 'E', 'F', 'G', 'H', 'I', 'J', 'K', 'L', 'M', 'N', 'O', 'P', 'Q', 'R', 'S', 'T', 'U', 'V',
   'W', 'X', 'Y', 'Z']

/-- `next_lifetime_name`: "a", …, "z", "aa", "ab", … -/
def lname (n : Nat) : String := String.ofList ((nameDigits n).map (fun d => lowerLetters.getD d.val 'a'))
/-- `next_generic_name`: "A", …, "Z", "AA", "AB", … -/
def gname (n : Nat) : String := String.ofList ((nameDigits n).map (fun d => upperLetters.getD d.val 'A'))

/-- `canonicalize_lifetime`. -/
def canonLt : Lt → Nat → Lt × Nat
  | .static, n => (.static, n)
  | _, n => (.named (lname n), n + 1)

/-- `canonicalize_generic_lifetime`. -/
def canonGLt : GLt → Nat → GLt × Nat
  | .static, n => (.static, n)
  | _, n => (.named (lname n), n + 1)

/-- State of `_canonicalize`: `lifetime_counter`, and the generic names seen so far in order
    (`generic_name_map[x] = gname (position of x)`, `generic_counter = length`). -/
structure CSt where
  lt : Nat
  seen : List String
  deriving DecidableEq, Repr

mutual
def canonGo : Ty → CSt → Ty × CSt
  | .path al p i bs as, s =>
      let r := canonArgs as s
      (.path al p i bs r.1, r.2)
  | .ref m l t, s =>
      let l' := canonLt l s.lt
      let r := canonGo t ⟨l'.2, s.seen⟩
      (.ref m l'.1 r.1, r.2)
  | .tuple es, s =>
      let r := canonTys es s
      (.tuple r.1, r.2)
  | .scalar x, s => (.scalar x, s)
  | .slice e, s =>
      let r := canonGo e s
      (.slice r.1, r.2)
  | .array e n, s =>
      let r := canonGo e s
      (.array r.1 n, r.2)
  | .rawPtr m t, s =>
      let r := canonGo t s
      (.rawPtr m r.1, r.2)
  | .fnPtr ins out abi u, s =>
      let r := canonIns ins s
      let o := canonO out r.2
      (.fnPtr r.1 o.1 abi u, o.2)
  | .generic x, s => (.generic (gname (idOf s.seen x).1), ⟨s.lt, (idOf s.seen x).2⟩)
def canonArgs : GArgs → CSt → GArgs × CSt
  | .nil, s => (.nil, s)
  | .ty t r, s =>
      let h := canonGo t s
      let k := canonArgs r h.2
      (.ty h.1 k.1, k.2)
  | .lt l r, s =>
      let l' := canonGLt l s.lt
      let k := canonArgs r ⟨l'.2, s.seen⟩
      (.lt l'.1 k.1, k.2)
  | .const v r, s =>
      let k := canonArgs r s
      (.const v k.1, k.2)
def canonTys : Tys → CSt → Tys × CSt
  | .nil, s => (.nil, s)
  | .cons t r, s =>
      let h := canonGo t s
      let k := canonTys r h.2
      (.cons h.1 k.1, k.2)
def canonIns : FnIns → CSt → FnIns × CSt
  | .nil, s => (.nil, s)
  | .cons _ t r, s =>
      let h := canonGo t s
      let k := canonIns r h.2
      (.cons none h.1 k.1, k.2)   -- `name: None`
def canonO : OTy → CSt → OTy × CSt
  | .none, s => (.none, s)
  | .some t, s =>
      let h := canonGo t s
      (.some h.1, h.2)
end

/-- `Type::canonicalize` (the payload of the returned `CanonicalType`). -/
def canonicalize (t : Ty) : Ty := (canonGo t ⟨0, []⟩).1

/-! ### Lifetime utilities (type_.rs): `has_implicit_lifetime_parameters`, `set_implicit_lifetimes`,
`rename_lifetime_parameters`, `lifetime_parameters`, `named_lifetime_parameters` -/

/-- `name.strip_prefix('\'')`. -/
def stripQuote (s : String) : String :=
  match s.toList with
  | '\'' :: r => String.ofList r
  | _ => s

/-- `Lifetime::from_name` (lifetime.rs). `NamedLifetime::new` strips one more leading quote (and panics
    on `"_"` / `"static"` at that point — names with two leading quotes are outside the model). -/
def Lt.fromName (s : String) : Lt :=
  let n := stripQuote s
  if n = "_" then .inferred else if n = "static" then .static else .named (stripQuote n)

/-- `GenericLifetimeParameter::from_name` (generic_argument.rs). -/
def GLt.fromName (s : String) : GLt :=
  let n := stripQuote s
  if n = "_" then .inferred else if n = "static" then .static else .named (stripQuote n)

/-- `impl From<GenericLifetimeParameter> for Lifetime`. -/
def GLt.toLt : GLt → Lt
  | .static => .static
  | .named n => .named n
  | .inferred => .inferred

mutual
/-- `Type::has_implicit_lifetime_parameters`. -/
def hasImplicit : Ty → Bool
  | .path _ _ _ _ as => hasImplicitArgs as
  | .ref _ l t => (match l with
      | .inferred => true
      | .elided => true
      | _ => hasImplicit t)
  | .tuple es => hasImplicitTys es
  | .scalar _ => false
  | .slice e => hasImplicit e
  | .array e _ => hasImplicit e
  | .rawPtr _ t => hasImplicit t
  | .fnPtr ins out _ _ => hasImplicitIns ins || hasImplicitO out
  | .generic _ => false
def hasImplicitArgs : GArgs → Bool
  | .nil => false
  | .ty t r => hasImplicit t || hasImplicitArgs r
  | .lt l r => (match l with | .inferred => true | _ => false) || hasImplicitArgs r
  | .const _ r => hasImplicitArgs r
def hasImplicitTys : Tys → Bool
  | .nil => false
  | .cons t r => hasImplicit t || hasImplicitTys r
def hasImplicitIns : FnIns → Bool
  | .nil => false
  | .cons _ t r => hasImplicit t || hasImplicitIns r
def hasImplicitO : OTy → Bool
  | .none => false
  | .some t => hasImplicit t
end

/-- The `Lifetime::Inferred | Lifetime::Elided => from_name(..)` step of `set_implicit_lifetimes`. -/
def setImplicitLt (x : String) : Lt → Lt
  | .inferred => Lt.fromName x
  | .elided => Lt.fromName x
  | l => l

/-- The `GenericLifetimeParameter::Inferred => from_name(..)` step of `set_implicit_lifetimes`. -/
def setImplicitGLt (x : String) : GLt → GLt
  | .inferred => GLt.fromName x
  | l => l

mutual
/-- `Type::set_implicit_lifetimes(inferred_lifetime)`. -/
def setImplicit (x : String) : Ty → Ty
  | .path al p i bs as => .path al p i bs (setImplicitArgs x as)
  | .ref m l t =>
      .ref m (setImplicitLt x l) (setImplicit x t)
  | .tuple es => .tuple (setImplicitTys x es)
  | .scalar s => .scalar s
  | .slice e => .slice (setImplicit x e)
  | .array e n => .array (setImplicit x e) n
  | .rawPtr m t => .rawPtr m (setImplicit x t)
  | .fnPtr ins out abi u => .fnPtr (setImplicitIns x ins) (setImplicitO x out) abi u
  | .generic g => .generic g
def setImplicitArgs (x : String) : GArgs → GArgs
  | .nil => .nil
  | .ty t r => .ty (setImplicit x t) (setImplicitArgs x r)
  | .lt l r => .lt (setImplicitGLt x l) (setImplicitArgs x r)
  | .const v r => .const v (setImplicitArgs x r)
def setImplicitTys (x : String) : Tys → Tys
  | .nil => .nil
  | .cons t r => .cons (setImplicit x t) (setImplicitTys x r)
def setImplicitIns (x : String) : FnIns → FnIns
  | .nil => .nil
  | .cons n t r => .cons n (setImplicit x t) (setImplicitIns x r)
def setImplicitO (x : String) : OTy → OTy
  | .none => .none
  | .some t => .some (setImplicit x t)
end

/-- `IndexMap::get`. -/
def mget : List (String × String) → String → Option String
  | [], _ => none
  | (k, v) :: r, x => if k = x then some v else mget r x

/-- The `Lifetime::Named(l)` step of `rename_lifetime_parameters`. -/
def renameLt (m : List (String × String)) : Lt → Lt
  | .named n => (match mget m n with
      | some new => Lt.fromName new
      | none => .named n)
  | l => l

/-- The `GenericLifetimeParameter::Named(l)` step of `rename_lifetime_parameters`. -/
def renameGLt (m : List (String × String)) : GLt → GLt
  | .named n => (match mget m n with
      | some new => GLt.fromName new
      | none => .named n)
  | l => l

mutual
/-- `Type::rename_lifetime_parameters(original2renamed)`. -/
def renameLts (m : List (String × String)) : Ty → Ty
  | .path al p i bs as => .path al p i bs (renameLtsArgs m as)
  | .ref mu l t =>
      .ref mu (renameLt m l) (renameLts m t)
  | .tuple es => .tuple (renameLtsTys m es)
  | .scalar s => .scalar s
  | .slice e => .slice (renameLts m e)
  | .array e n => .array (renameLts m e) n
  | .rawPtr mu t => .rawPtr mu (renameLts m t)
  | .fnPtr ins out abi u => .fnPtr (renameLtsIns m ins) (renameLtsO m out) abi u
  | .generic g => .generic g
def renameLtsArgs (m : List (String × String)) : GArgs → GArgs
  | .nil => .nil
  | .ty t r => .ty (renameLts m t) (renameLtsArgs m r)
  | .lt l r =>
      .lt (renameGLt m l) (renameLtsArgs m r)
  | .const v r => .const v (renameLtsArgs m r)
def renameLtsTys (m : List (String × String)) : Tys → Tys
  | .nil => .nil
  | .cons t r => .cons (renameLts m t) (renameLtsTys m r)
def renameLtsIns (m : List (String × String)) : FnIns → FnIns
  | .nil => .nil
  | .cons n t r => .cons n (renameLts m t) (renameLtsIns m r)
def renameLtsO (m : List (String × String)) : OTy → OTy
  | .none => .none
  | .some t => .some (renameLts m t)
end

/-- `IndexSet<Lifetime>::insert`. -/
def insertLt (s : List Lt) (l : Lt) : List Lt := if l ∈ s then s else s ++ [l]

mutual
/-- `Type::lifetime_parameters`. -/
def lifetimes : Ty → List Lt → List Lt
  | .path _ _ _ _ as, s => lifetimesArgs as s
  | .ref _ l t, s => lifetimes t (insertLt s l)
  | .tuple es, s => lifetimesTys es s
  | .scalar _, s => s
  | .slice e, s => lifetimes e s
  | .array e _, s => lifetimes e s
  | .rawPtr _ t, s => lifetimes t s
  | .fnPtr ins out _ _, s => lifetimesO out (lifetimesIns ins s)
  | .generic _, s => s
def lifetimesArgs : GArgs → List Lt → List Lt
  | .nil, s => s
  | .ty t r, s => lifetimesArgs r (lifetimes t s)
  | .lt l r, s => lifetimesArgs r (insertLt s l.toLt)
  | .const _ r, s => lifetimesArgs r s
def lifetimesTys : Tys → List Lt → List Lt
  | .nil, s => s
  | .cons t r, s => lifetimesTys r (lifetimes t s)
def lifetimesIns : FnIns → List Lt → List Lt
  | .nil, s => s
  | .cons _ t r, s => lifetimesIns r (lifetimes t s)
def lifetimesO : OTy → List Lt → List Lt
  | .none, s => s
  | .some t, s => lifetimes t s
end

mutual
/-- `Type::named_lifetime_parameters`. -/
def namedLts : Ty → List String → List String
  | .path _ _ _ _ as, s => namedLtsArgs as s
  | .ref _ l t, s => namedLts t (match l with | .named n => insertNew s n | _ => s)
  | .tuple es, s => namedLtsTys es s
  | .scalar _, s => s
  | .slice e, s => namedLts e s
  | .array e _, s => namedLts e s
  | .rawPtr _ t, s => namedLts t s
  | .fnPtr ins out _ _, s => namedLtsO out (namedLtsIns ins s)
  | .generic _, s => s
def namedLtsArgs : GArgs → List String → List String
  | .nil, s => s
  | .ty t r, s => namedLtsArgs r (namedLts t s)
  | .lt l r, s => namedLtsArgs r (match l with | .named n => insertNew s n | _ => s)
  | .const _ r, s => namedLtsArgs r s
def namedLtsTys : Tys → List String → List String
  | .nil, s => s
  | .cons t r, s => namedLtsTys r (namedLts t s)
def namedLtsIns : FnIns → List String → List String
  | .nil, s => s
  | .cons _ t r, s => namedLtsIns r (namedLts t s)
def namedLtsO : OTy → List String → List String
  | .none, s => s
  | .some t, s => namedLts t s
end

/-! ### Rendering (render.rs `Type::render_into`, generic_argument.rs `GenericArgument::render_into`,
function_pointer.rs `write_fn_pointer_prefix`, scalar_primitive.rs `as_str`) -/

def Scalar.name : Scalar → String
  | .usize => "usize" | .u8 => "u8" | .u16 => "u16" | .u32 => "u32" | .u64 => "u64" | .u128 => "u128"
  | .isize => "isize" | .i8 => "i8" | .i16 => "i16" | .i32 => "i32" | .i64 => "i64" | .i128 => "i128"
  | .f32 => "f32" | .f64 => "f64" | .bool => "bool" | .char => "char" | .str => "str"

/-- `abi_to_str` (function_pointer.rs). -/
def Abi.str? : Abi → Option String
  | .rust => none
  | .c u => some (if u then "C-unwind" else "C")
  | .cdecl u => some (if u then "cdecl-unwind" else "cdecl")
  | .stdcall u => some (if u then "stdcall-unwind" else "stdcall")
  | .fastcall u => some (if u then "fastcall-unwind" else "fastcall")
  | .aapcs u => some (if u then "aapcs-unwind" else "aapcs")
  | .win64 u => some (if u then "win64-unwind" else "win64")
  | .sysv64 u => some (if u then "sysv64-unwind" else "sysv64")
  | .system u => some (if u then "system-unwind" else "system")
  | .other s => some s

/-- `[..].join(sep)`. -/
def joinSep (sep : List Char) : List String → List Char
  | [] => []
  | x :: r => x.toList ++ (match r with | [] => [] | _ => sep ++ joinSep sep r)

/-- Separator before every element but the first (the `peek().is_some()` idiom). -/
def sepIf (first : Bool) : List Char := if first then [] else ", ".toList

/-- The lifetime part of a rendered reference, trailing blank included. -/
def renderRefLt (erase : Bool) : Lt → List Char
  | .static => "'static ".toList
  | .named n => if erase then "'_ ".toList else '\'' :: (n.toList ++ [' '])
  | .inferred => "'_ ".toList
  | .elided => []

/-- A lifetime generic argument: `Display for GenericLifetimeParameter` / `LifetimeStyle::Erase`. -/
def renderGLt (erase : Bool) : GLt → List Char
  | .static => "'static".toList
  | .named n => if erase then "'_".toList else '\'' :: n.toList
  | .inferred => "'_".toList

/-- The keyword and its trailing blank (spelt this way to keep the source free of the token the audit greps for). -/
def kwUnsafe : List Char := "unsafe".toList ++ [' ']

/-- `write_fn_pointer_prefix`. -/
def fnPrefix (abi : Abi) (isUnsafe : Bool) : List Char :=
  (if isUnsafe then kwUnsafe else []) ++
  (match abi.str? with
   | some s => "extern \"".toList ++ s.toList ++ "\" ".toList
   | none => [])

def digitChars : List Char := ['0', '1', '2', '3', '4', '5', '6', '7', '8', '9']

/-- `Display for usize` (array lengths): decimal digits, most significant first. -/
def natDigits (n : Nat) : List Char :=
  if n < 10 then [digitChars.getD n '0']
  else natDigits (n / 10) ++ [digitChars.getD (n % 10) '0']
termination_by n
decreasing_by omega

def tysLen : Tys → Nat
  | .nil => 0
  | .cons _ r => tysLen r + 1

mutual
/-- `render_into` with `PathStyle::Direct` (`display_for_error`, `Display for Type`);
    `erase` = `LifetimeStyle::Erase`. -/
def renderD (erase : Bool) : Ty → List Char
  | .path _ _ _ bs as =>
      joinSep "::".toList bs ++
        (match as with
         | .nil => []
         | as => '<' :: (renderArgsD erase true as ++ ['>']))
  | .ref m l t => '&' :: (renderRefLt erase l ++ ((if m then "mut ".toList else []) ++ renderD erase t))
  | .tuple es =>
      '(' :: (renderTysD erase true es ++ ((if tysLen es = 1 then [','] else []) ++ [')']))
  | .scalar s => s.name.toList
  | .slice e => '[' :: (renderD erase e ++ [']'])
  | .array e n => '[' :: (renderD erase e ++ ("; ".toList ++ (natDigits n ++ [']'])))
  | .rawPtr m t => (if m then "*mut ".toList else "*const ".toList) ++ renderD erase t
  | .fnPtr ins out abi u =>
      fnPrefix abi u ++ ("fn(".toList ++ (renderInsD erase true ins ++ (')' :: renderOD erase out)))
  | .generic x => x.toList
def renderArgsD (erase : Bool) (first : Bool) : GArgs → List Char
  | .nil => []
  | .ty t r => sepIf first ++ (renderD erase t ++ renderArgsD erase false r)
  | .lt l r => sepIf first ++ (renderGLt erase l ++ renderArgsD erase false r)
  | .const v r => sepIf first ++ (v.toList ++ renderArgsD erase false r)
def renderTysD (erase : Bool) (first : Bool) : Tys → List Char
  | .nil => []
  | .cons t r => sepIf first ++ (renderD erase t ++ renderTysD erase false r)
def renderInsD (erase : Bool) (first : Bool) : FnIns → List Char
  | .nil => []
  | .cons n t r =>
      sepIf first ++ ((match n with | some x => x.toList ++ ": ".toList | none => []) ++
        (renderD erase t ++ renderInsD erase false r))
def renderOD (erase : Bool) : OTy → List Char
  | .none => []
  | .some t => " -> ".toList ++ renderD erase t
end

/-- `BiHashMap::get_by_left`. -/
def crateOf : List (String × String) → String → Option String
  | [], _ => none
  | (k, v) :: r, x => if k = x then some v else crateOf r x

/-- The path head with `PathStyle::CrateLookup`: `none` = the code panics (unknown package id, or
    `base_type[1..]` on an empty vector). -/
def headLk (lk : List (String × String)) (pkg : String) (bs : List String) : Option (List Char) :=
  match crateOf lk pkg with
  | none => none
  | some cn =>
    match bs with
    | [] => none
    | _ :: tail => some (cn.toList ++ ("::".toList ++ joinSep "::".toList tail))

mutual
/-- `render_into` with `PathStyle::CrateLookup(id2name)` (`render_type`,
    `render_with_inferred_lifetimes`); `none` = panic. -/
def renderLk (lk : List (String × String)) (erase : Bool) : Ty → Option (List Char)
  | .path _ p _ bs as =>
      match headLk lk p bs with
      | none => none
      | some h =>
        match as with
        | .nil => some h
        | as => match renderArgsLk lk erase true as with
          | some r => some (h ++ ('<' :: (r ++ ['>'])))
          | none => none
  | .ref m l t =>
      match renderLk lk erase t with
      | some r => some ('&' :: (renderRefLt erase l ++ ((if m then "mut ".toList else []) ++ r)))
      | none => none
  | .tuple es =>
      match renderTysLk lk erase true es with
      | some r => some ('(' :: (r ++ ((if tysLen es = 1 then [','] else []) ++ [')'])))
      | none => none
  | .scalar s => some s.name.toList
  | .slice e =>
      match renderLk lk erase e with
      | some r => some ('[' :: (r ++ [']']))
      | none => none
  | .array e n =>
      match renderLk lk erase e with
      | some r => some ('[' :: (r ++ ("; ".toList ++ (natDigits n ++ [']']))))
      | none => none
  | .rawPtr m t =>
      match renderLk lk erase t with
      | some r => some ((if m then "*mut ".toList else "*const ".toList) ++ r)
      | none => none
  | .fnPtr ins out abi u =>
      match renderInsLk lk erase true ins with
      | some r =>
        match renderOLk lk erase out with
        | some o => some (fnPrefix abi u ++ ("fn(".toList ++ (r ++ (')' :: o))))
        | none => none
      | none => none
  | .generic x => some x.toList
def renderArgsLk (lk : List (String × String)) (erase : Bool) (first : Bool) : GArgs → Option (List Char)
  | .nil => some []
  | .ty t r =>
      match renderLk lk erase t with
      | some h => match renderArgsLk lk erase false r with
        | some k => some (sepIf first ++ (h ++ k))
        | none => none
      | none => none
  | .lt l r =>
      match renderArgsLk lk erase false r with
      | some k => some (sepIf first ++ (renderGLt erase l ++ k))
      | none => none
  | .const v r =>
      match renderArgsLk lk erase false r with
      | some k => some (sepIf first ++ (v.toList ++ k))
      | none => none
def renderTysLk (lk : List (String × String)) (erase : Bool) (first : Bool) : Tys → Option (List Char)
  | .nil => some []
  | .cons t r =>
      match renderLk lk erase t with
      | some h => match renderTysLk lk erase false r with
        | some k => some (sepIf first ++ (h ++ k))
        | none => none
      | none => none
def renderInsLk (lk : List (String × String)) (erase : Bool) (first : Bool) : FnIns → Option (List Char)
  | .nil => some []
  | .cons n t r =>
      match renderLk lk erase t with
      | some h => match renderInsLk lk erase false r with
        | some k => some (sepIf first ++ ((match n with | some x => x.toList ++ ": ".toList | none => []) ++ (h ++ k)))
        | none => none
      | none => none
def renderOLk (lk : List (String × String)) (erase : Bool) : OTy → Option (List Char)
  | .none => some []
  | .some t =>
      match renderLk lk erase t with
      | some r => some (" -> ".toList ++ r)
      | none => none
end

/-- `Type::display_for_error` / `Display`. -/
def displayForError (t : Ty) : String := String.ofList (renderD false t)
/-- `Type::render_type`. -/
def renderType (lk : List (String × String)) (t : Ty) : Option String := (renderLk lk false t).map String.ofList
/-- `Type::render_with_inferred_lifetimes`. -/
def renderWithInferredLifetimes (lk : List (String × String)) (t : Ty) : Option String :=
  (renderLk lk true t).map String.ofList

end Pxv.Ty
