import Pxv.Model.CallGraph
/-
Scopes, constructor lookup and the clone guard.

 * `Bp`/`Item`     ↔ `pavex_bp_schema::Blueprint` / `Component` (what matters for scoping)
 * `walkOwn`, `kids`, `process`
                   ↔ compiler/pavexc/src/compiler/analyses/user_components/blueprint.rs
                     (`process_blueprint` / `_process_blueprint`: one scope per nested blueprint, one extra
                     scope per route and per middleware, the default fallback of the root blueprint)
 * `St.addScope`, `appParents`, `SGraph`
                   ↔ user_components/scope_graph.rs (`ScopeGraphBuilder::add_scope`, `::build`,
                     `ScopeId::direct_parent_ids`)
 * `insert`, `table`, `lookup`
                   ↔ analyses/constructibles.rs `ConstructiblesInScope::insert` / `::get`
                     (`HashMap::insert` overwrites) filled by `ConstructibleDb::_build`
 * `bfs`, `get`    ↔ analyses/constructibles.rs `ConstructibleDb::get` (FIFO walk over `direct_parent_ids`)
 * `cloneGuard`, `tryClone`, `applyReqs`
                   ↔ call_graph/borrow_checker/clone.rs `get_clone_component_id` and the three places that
                     insert a clone node (multiple_consumers.rs, move_while_borrowed.rs `try_clone`, complex.rs)
 * `stageCloning`  ↔ processing_pipeline/pipeline.rs step 4 (`type2cloning_indexes`)
Imports only the call-graph model.
-/
namespace Pxv.Scope

/-- ↔ `pavex_bp_schema::Lifecycle` -/
inductive Life where
  | singleton | request | transient
  deriving Repr, DecidableEq

/-- One constructor registration (↔ `Component::Constructor`): `id` identifies the registered callable,
    `ty` its output type. -/
structure Ctor where
  id : Nat
  ty : Nat
  life : Life := .request
  /-- ↔ `CloningPolicy::CloneIfNecessary` (`false` = `NeverClone`, the default for constructors). -/
  cloneIfNecessary : Bool := false
  deriving Repr, DecidableEq

mutual
  /-- one registration against a blueprint, in call order -/
  inductive Item where
    | ctor (c : Ctor)
    /-- wrapping / pre- / post-processing middleware: gets a scope of its own -/
    | mw (id : Nat)
    /-- a route: its request handler gets a scope of its own -/
    | route (id : Nat)
    | nest (b : Bp)
    /-- error handlers, error observers, …: live in the blueprint's scope, are not constructibles -/
    | other
  inductive Bp where
    | nil
    | cons (i : Item) (rest : Bp)
end

/-- What `process_blueprint` accumulates. -/
structure St where
  /-- ↔ `ScopeGraphBuilder::next_node_id` (the root scope is 0) -/
  next : Nat := 1
  /-- `(parent, child)` ↔ `graph.add_edge(parent, child)` -/
  edges : List (Nat × Nat) := []
  /-- constructor registrations `(scope, constructor)` in the order they are interned -/
  regs : List (Nat × Ctor) := []
  /-- `(route id, scope of its request handler)` -/
  routes : List (Nat × Nat) := []
  /-- `(middleware id, its scope)` -/
  mws : List (Nat × Nat) := []
  /-- `(scope of a nested blueprint, scope it is nested in)`, in processing order -/
  nested : List (Nat × Nat) := []
  deriving Repr, DecidableEq

/-- ↔ `ScopeGraphBuilder::add_scope`: a fresh id, one edge from the parent. -/
def St.addScope (st : St) (parent : Nat) : St :=
  { st with next := st.next + 1, edges := st.edges ++ [(parent, st.next)] }

/-- ↔ the `for component in &bp.components` loop of `_process_blueprint` for the blueprint whose
    scope is `cur` (nested blueprints are only queued there: see `kids`). -/
def walkOwn : Bp → Nat → St → St
  | .nil, _, st => st
  | .cons i rest, cur, st =>
    match i with
    | .ctor c => walkOwn rest cur { st with regs := st.regs ++ [(cur, c)] }
    | .mw m => walkOwn rest cur { st.addScope cur with mws := st.mws ++ [(m, st.next)] }
    | .route r => walkOwn rest cur { st.addScope cur with routes := st.routes ++ [(r, st.next)] }
    | .nest _ => walkOwn rest cur st
    | .other => walkOwn rest cur st

mutual
  /-- ↔ the `while let Some(item) = processing_queue.pop()` loop: the queue is a stack, so the nested
      blueprints of one blueprint are processed last-registered first, each one (with everything
      nested in it) before the next; a nested blueprint's scope is created when it is popped. -/
  def kids : Bp → Nat → St → St
    | .nil, _, st => st
    | .cons i rest, cur, st => kid i cur (kids rest cur st)
  def kid : Item → Nat → St → St
    | .nest b, cur, st =>
      let sc := st.next
      kids b sc (walkOwn b sc { st.addScope cur with nested := st.nested ++ [(sc, cur)] })
    | _, _, st => st
end

/-- ↔ `process_blueprint`: the root blueprint is walked first (scope 0); it always gets a fallback
    handler, whose scope is created after its own registrations; then the queued blueprints. -/
def process (b : Bp) : St := kids b 0 ((walkOwn b 0 {}).addScope 0)

/-- `k` has no outgoing edge. -/
def St.isLeaf (st : St) (k : Nat) : Bool := !st.edges.any (fun e => e.1 == k)

/-- ↔ `ScopeGraphBuilder::build`: the application-state scope becomes a child of every *parent of a
    leaf scope* (a `BTreeSet`: ascending, no duplicates). -/
def appParents (st : St) : List Nat :=
  (List.range st.next).filter (fun p => st.edges.any (fun e => e.1 == p && st.isLeaf e.2))

/-- ↔ `ScopeGraph` -/
structure SGraph where
  /-- ↔ `application_state`: the id after the last builder id -/
  app : Nat
  edges : List (Nat × Nat)
  deriving Repr, DecidableEq

def build (st : St) : SGraph :=
  { app := st.next, edges := st.edges ++ (appParents st).map (fun p => (p, st.next)) }

/-- ↔ `ScopeId::direct_parent_ids` (a `BTreeSet`: ascending, no duplicates). -/
def SGraph.parents (g : SGraph) (s : Nat) : List Nat :=
  (List.range (g.app + 1)).filter (fun p => g.edges.contains (p, s))

/-- ↔ `ConstructiblesInScope::insert` for a concrete type: `HashMap::insert` replaces the entry. -/
def insert (m : List (Nat × Ctor)) (c : Ctor) : List (Nat × Ctor) :=
  (c.ty, c) :: m.filter (fun e => e.1 != c.ty)

/-- ↔ `scope_id2constructibles[s]` after `ConstructibleDb::_build` went through every constructor. -/
def table (regs : List (Nat × Ctor)) (s : Nat) : List (Nat × Ctor) :=
  (regs.filter (fun r => r.1 == s)).foldl (fun m r => insert m r.2) []

/-- ↔ `ConstructiblesInScope::get` (concrete types; `T`, `&T` and `&mut T` reach the same entry). -/
def lookup (regs : List (Nat × Ctor)) (s ty : Nat) : Option Ctor :=
  ((table regs s).find? (fun e => e.1 == ty)).map (·.2)

/-- ↔ the loop of `ConstructibleDb::get`: pop the front scope; if it has the type, done; otherwise
    push its direct parents at the back. (No visited set, as in the Rust code.) -/
def bfs (parents : Nat → List Nat) (has : Nat → Option Ctor) : Nat → List Nat → Option Ctor
  | 0, _ => none
  | _ + 1, [] => none
  | fuel + 1, s :: fifo =>
    match has s with
    | some c => some c
    | none => bfs parents has fuel (fifo ++ parents s)

/-- enough for every walk: a scope's parents have smaller ids, so a walk from `s` pops at most
    `s + 1` scopes per path, and there are at most `app` paths from the application-state scope. -/
def SGraph.fuel (g : SGraph) : Nat := (g.app + 1) * (g.app + 1) + 1

/-- ↔ `ConstructibleDb::get(scope_id, type_, scope_graph)` -/
def get (g : SGraph) (regs : List (Nat × Ctor)) (s ty : Nat) : Option Ctor :=
  bfs g.parents (fun k => lookup regs k ty) g.fuel [s]

/-- the scope of a route's request handler / of a middleware -/
def St.routeScope (st : St) (r : Nat) : Option Nat := (st.routes.find? (fun e => e.1 == r)).map (·.2)
def St.mwScope (st : St) (m : Nat) : Option Nat := (st.mws.find? (fun e => e.1 == m)).map (·.2)

/-! ### the clone guard -/

/-- ↔ `get_clone_component_id(component_id, …).is_some()`: only a constructor whose cloning policy
    is not `NeverClone` gets a `Clone::clone` transformer. -/
def cloneGuard : Option Ctor → Bool
  | some c => c.cloneIfNecessary
  | none => false

open Pxv.CG in
/-- A call graph together with the clone nodes inserted so far: `(clone node, node it copies)`. -/
structure CGraph where
  g : Pxv.CG.Graph
  clones : List (Nat × Nat) := []
  deriving Repr, DecidableEq

open Pxv.CG in
/-- ↔ what `multiple_consumers`, `try_clone` (move_while_borrowed) and the `Clone` strategy of
    `complex_borrow_check` do once they decided that consumer `c` must not take `d` itself:
    ask the guard; on `Some`, add a node for `<T as Clone>::clone`, connect it to `d` with a
    `SharedBorrow` edge and to `c` with a `Move` edge, remove the edge `d → c`.
    `none` = the guard refused (the pass reports an error or gives up on this node). -/
def tryClone (cg : CGraph) (d c : Nat) : Option CGraph :=
  if (cg.g.node d).cloneable && cg.g.edges.contains ⟨d, c, .move⟩ then
    let k := cg.g.size
    some { g := { nodes := cg.g.nodes ++ [{}],
                  edges := cg.g.edges.erase ⟨d, c, .move⟩ ++ [⟨d, k, .shared⟩, ⟨k, c, .move⟩] },
           clones := cg.clones ++ [(k, d)] }
  else none

/-- A borrow-checking pass, as far as clone insertion goes: any sequence of clone requests
    `(contended node, consumer)` — which ones a pass issues, and in which order, is its strategy;
    a refused request leaves the graph as it is. -/
def applyReqs (cg : CGraph) : List (Nat × Nat) → CGraph
  | [] => cg
  | (d, c) :: rest =>
    match tryClone cg d c with
    | some cg' => applyReqs cg' rest
    | none => applyReqs cg rest

/-! ### cloning across the middlewares of one stage (pipeline.rs, step 4) -/

/-- One input of one middleware of a stage (↔ an `InputParameter` node sourced from a component). -/
structure StageInput where
  ty : Nat
  /-- taken through a reference -/
  byRef : Bool
  /-- ↔ `component_db.cloning_policy(component_id) != NeverClone` -/
  cloneable : Bool
  /-- ↔ the type implements `Copy` -/
  copy : Bool := false
  deriving Repr, DecidableEq

/-- ↔ `CloningInfo` -/
structure CloningInfo where
  /-- `(middleware index, cloneable)` -/
  consumedBy : List (Nat × Bool) := []
  refBy : List Nat := []
  copy : Bool := false
  deriving Repr, DecidableEq

def updInfo (m : List (Nat × CloningInfo)) (ty : Nat) (f : CloningInfo → CloningInfo) :
    List (Nat × CloningInfo) :=
  m.map (fun e => if e.1 == ty then (e.1, f e.2) else e)

/-- ↔ the `for (index, &id) in ids.iter().enumerate()` loop filling `type2info`: a by-value input
    opens/extends the entry of its type; a reference counts only once the type has an entry. -/
def collect (m : List (Nat × CloningInfo)) (index : Nat) : List StageInput → List (Nat × CloningInfo)
  | [] => m
  | i :: rest =>
    let m' :=
      if i.byRef then updInfo m i.ty (fun ci => { ci with refBy := ci.refBy ++ [index] })
      else if m.any (fun e => e.1 == i.ty) then
        updInfo m i.ty (fun ci => { ci with consumedBy := ci.consumedBy ++ [(index, i.cloneable)] })
      else m ++ [(i.ty, { consumedBy := [(index, i.cloneable)], copy := i.copy })]
    collect m' index rest

def collectAll : List (Nat × CloningInfo) → Nat → List (List StageInput) → List (Nat × CloningInfo)
  | m, _, [] => m
  | m, index, mw :: rest => collectAll (collect m index mw) (index + 1) rest

/-- ↔ `consumers` after `last_consumer` was popped: the last by-value consumer needs no clone unless
    the type is borrowed again after it. -/
def consumersOf (ci : CloningInfo) : List (Nat × Bool) :=
  match ci.refBy.getLast? with
  | some r =>
    match ci.consumedBy.getLast? with
    | some last => if r < last.1 then ci.consumedBy.dropLast else ci.consumedBy
    | none => ci.consumedBy
  | none => ci.consumedBy.dropLast

/-- ↔ the body of `for (ty_, cloning_info) in type2info`: `none` = nothing to clone,
    `some (.error i)` = the middleware at index `i` would need a clone of a `NeverClone` value
    (`emit_cloning_error`), `some (.ok idxs)` = `type2cloning_indexes[ty]`. -/
def cloningFor (ci : CloningInfo) : Option (Except Nat (List Nat)) :=
  if ci.copy then none
  else if (consumersOf ci).isEmpty then none
  else match (consumersOf ci).find? (fun e => !e.2) with
    | some e => some (.error e.1)
    | none => some (.ok ((consumersOf ci).map (·.1)))

/-- ↔ step 4 for one stage: its middlewares in invocation order (pres, wrapping/handler, posts),
    each with its component-sourced inputs. `error` = the stage is rejected. -/
def stageCloning (mws : List (List StageInput)) : Except Nat (List (Nat × List Nat)) :=
  (collectAll [] 0 mws).foldl (fun acc e =>
    match acc with
    | .error x => .error x
    | .ok t =>
      match cloningFor e.2 with
      | none => .ok t
      | some (.error i) => .error i
      | some (.ok idxs) => .ok (t ++ [(e.1, idxs)])) (.ok [])

/-! ### generic constructors (`ConstructibleDb::get_or_try_bind`, `ConstructiblesInScope::get_or_try_bind`) -/

/-- a generic constructor (`fn f<T>() -> G<T>`) registered against a scope; `insts` are the concrete types it is a
    template for (↔ `is_a_template_for`, C17) -/
structure Tmpl where
  id : Nat
  insts : List Nat
  life : Life := .request
  cloneIfNecessary : Bool := false
  deriving Repr, DecidableEq

/-- ↔ `ConstructiblesInScope::get_or_try_bind`: the concrete entry of the scope first; otherwise the first template of
    the SAME scope that can be bound to the type (the bound constructor keeps the template's identity) -/
def lookupT (regs : List (Nat × Ctor)) (tmpls : List (Nat × Tmpl)) (s ty : Nat) : Option Ctor :=
  match lookup regs s ty with
  | some c => some c
  | none => ((tmpls.filter (fun t => t.1 == s)).find? (fun t => t.2.insts.contains ty)).map
      (fun t => { id := t.2.id, ty := ty, life := t.2.life, cloneIfNecessary := t.2.cloneIfNecessary })

/-- ↔ `ConstructibleDb::get_or_try_bind`: the walk of `get`, each scope asked for a concrete entry and then for a template
    before its parents are looked at -/
def getT (g : SGraph) (regs : List (Nat × Ctor)) (tmpls : List (Nat × Tmpl)) (s ty : Nat) : Option Ctor :=
  bfs g.parents (fun k => lookupT regs tmpls k ty) g.fuel [s]

/-- the variant with a "fast path" that first looks for a concrete entry along the whole ancestor chain (what a seeded
    change introduced): kept to show what `getT_nearest` excludes -/
def getTFast (g : SGraph) (regs : List (Nat × Ctor)) (tmpls : List (Nat × Tmpl)) (s ty : Nat) : Option Ctor :=
  match get g regs s ty with
  | some c => some c
  | none => getT g regs tmpls s ty

end Pxv.Scope
