import Pxv.Model.Borrow
/-
The last pass of pavexc's borrow checker, mirrored on abstract call graphs:
 * `findStalemate` ↔ `find_ordering_stalemates` (call_graph/borrow_checker/complex.rs): the node ordering played
   forward, sweeping the nodes by increasing index until a sweep schedules nothing;
 * `resolveStalemates` ↔ `ordering_stalemates`: clone a contended value for the stuck node if allowed, else report.
(repo commit 437e3c1 "fix: resolve or report ordering stalemates that chain through dependencies")
Import-free.
-/
namespace Pxv.CG
open Graph

/-- ↔ the `filter` closure of `find_ordering_stalemates`: the dependencies of `n` that `n` takes by value while a node
    that has not been scheduled yet still borrows them (Copy values never block). Sorted, without duplicates
    (↔ `dependencies.sort(); dependencies.dedup()`). -/
def blockedInputs (g : Graph) (placed : List Nat) (n : Nat) : List Nat :=
  toSet ((g.preds n).filter (fun p =>
    (g.consumers p).contains n && (allBorrowers g p).any (fun b => !placed.contains b) && !(g.node p).copy))

structure Sweep where
  placed : List Nat
  progressed : Bool := false
  /-- the stuck nodes seen in this sweep, each with its contended inputs (↔ `stalemates`) -/
  stale : List (Nat × List Nat) := []
  deriving Repr, DecidableEq

/-- one iteration of the `for node_index in call_graph.node_indices()` loop. -/
def sweepStep (g : Graph) (ign : List Nat) (st : Sweep) (n : Nat) : Sweep :=
  if st.placed.contains n then st
  else if !(g.preds n).all st.placed.contains then st
  else
    let bl := if ign.contains n then [] else blockedInputs g st.placed n
    if bl.isEmpty then { st with placed := st.placed ++ [n], progressed := true }
    else { st with stale := st.stale ++ [(n, bl)] }

def sweep (g : Graph) (ign placed : List Nat) : Sweep :=
  (List.range g.size).foldl (sweepStep g ign) { placed := placed }

/-- the sentinel answered when the fuel runs out (never, with `g.size + 1` rounds: `findStalemate_fuel`). -/
def outOfFuel (g : Graph) : Nat × List Nat := (g.size, [])

/-- ↔ `find_ordering_stalemates`: `[]` = every sweep made progress until one found nothing left to do; otherwise the
    stuck nodes of the last sweep (the one that scheduled nothing), by increasing index. -/
def findStalemateLoop (g : Graph) (ign : List Nat) : Nat → List Nat → List (Nat × List Nat)
  | 0, _ => [outOfFuel g]
  | fuel + 1, placed =>
    let s := sweep g ign placed
    if s.progressed then findStalemateLoop g ign fuel s.placed else s.stale

def findStalemate (g : Graph) (ign : List Nat) : List (Nat × List Nat) :=
  findStalemateLoop g ign (g.size + 1) []

inductive OsDiag where
  /-- "I can't generate code that will pass the borrow checker": stuck node, contended values -/
  | stalemate (node : Nat) (blocked : List Nat)
  /-- the model's fuel ran out (does not happen: see `resolve_fuel_suffices`) -/
  | outOfFuel
  deriving Repr, DecidableEq

/-- ↔ the `'resolution` loop of `ordering_stalemates`. -/
def resolveLoop : Nat → Graph → List Nat → List OsDiag → Graph × List OsDiag
  | 0, g, _, ds => (g, ds ++ [.outOfFuel])
  | fuel + 1, g, reported, ds =>
    match findStalemate g reported with
    | [] => (g, ds)
    | (n0, bl0) :: rest =>
      -- clone for the first stuck node that has a contended input which may be cloned ...
      match ((n0, bl0) :: rest).findSome? (fun s => (s.2.find? (fun b => (g.node b).cloneable)).map (fun b => (s.1, b))) with
      | some (n, b) => resolveLoop fuel (insertClone g b n).1 reported ds
      -- ... and when there is none, report the first stuck node and look for stalemates that do not depend on it
      | none => resolveLoop fuel g (reported ++ [n0]) (ds ++ [.stalemate n0 bl0])

/-- every round either removes a `move` edge out of a clone-if-necessary value (adding one node) or reports one more node:
    `resolve_never_out_of_fuel`. -/
def resolveFuel (g : Graph) : Nat := 2 * g.edges.length + g.size + 1

/-- ↔ `ordering_stalemates`. -/
def resolveStalemates (g : Graph) : Graph × List OsDiag := resolveLoop (resolveFuel g) g [] []

end Pxv.CG
