import Pxv.Model.Scope
/-
How many times constructors run, and whose value reaches whom: the call graph of one generated
closure as far as lifecycles go, and the cross-stage bookkeeping of a request-processing pipeline.

 * `resolve`, `closureOf` ↔ compiler/pavexc/src/compiler/analyses/call_graph/core_graph.rs `build_call_graph`
                  (`component_id2node`, `NodeDeduplicator::add_node_at_most_once`: singletons, prebuilt request-scoped
                  components and types without constructor are *input parameters*; a request-scoped
                  constructor is one `Compute` node per graph; a transient one gets a node per injection site)
                  with call_graph/request_scoped.rs `lifecycle2invocations`; `appClosure` ↔ application_state.rs
 * `paramTypes`  ↔ `take_references_as_inputs_if_they_suffice` + `required_input_types`
 * `users`, `builtAt` ↔ processing_pipeline/pipeline.rs step 2 (`request_scoped_id2state_stage_index`,
                  `request_scoped2built_at_stage_index`: `n_users > 1`)
 * `fields`      ↔ `InputParameters::from_iter` / `get_input_types` (one field per type: `T` if anybody needs it by
                  value, otherwise a reference)
 * `stepStage`, `plan` ↔ step 3 (`prebuilt_ids`, `bind_next`: the fields of `Next{k}` are inputs of stage k's
                  wrapping middleware and are resolved **by type in that middleware's scope**; `state_accumulator`)
 * `invariantsOk` ↔ `enforce_invariants` (pavexc panics when a request-scoped constructor has two nodes in a pipeline)
 * `origin`      ↔ processing_pipeline/codegen.rs (`get_expr_for_type`: stage functions pass bindings **by type**;
                  `Next{k}::into_future` hands the fields to the next stage)
Imports the scope model only.
-/
namespace Pxv.Life
open Pxv.Scope

/-- how a component takes an input -/
inductive Mode where
  | val | ref | mut
  deriving Repr, DecidableEq

/-- a constructor with its inputs -/
structure CDef where
  uid : Nat
  ty : Nat
  life : Life
  clone : Bool := false
  ins : List (Nat × Mode) := []
  deriving Repr, DecidableEq

/-- where the value of an input comes from inside one generated closure -/
inductive Src where
  /-- the node of this closure with that index -/
  | built (node : Nat)
  /-- an input parameter of the closure: found **by type** among the bindings of the stage -/
  | param (ty : Nat)
  deriving Repr, DecidableEq

/-- a `Compute` node for a constructor -/
structure Node where
  ctor : CDef
  ins : List Src
  deriving Repr, DecidableEq

/-- the call graph of one closure, as far as lifecycles go; `nodes` is in dependency order -/
structure Closure where
  nodes : List Node := []
  /-- edges out of `InputParameter` nodes: (type, how it is used) -/
  params : List (Nat × Mode) := []
  deriving Repr, DecidableEq

def Closure.addParam (cl : Closure) (ty : Nat) (m : Mode) : Closure :=
  { cl with params := cl.params ++ [(ty, m)] }

/-- resolve a list of inputs left to right -/
def foldRes (r : Closure → Nat × Mode → Closure × Src) : Closure → List (Nat × Mode) → Closure × List Src
  | cl, [] => (cl, [])
  | cl, i :: rest =>
    let (cl1, s) := r cl i
    let (cl2, ss) := foldRes r cl1 rest
    (cl2, s :: ss)

/-- add a `Compute` node; the value it produces is the new node -/
def Closure.push (cl : Closure) (c : CDef) (srcs : List Src) : Closure × Src :=
  ({ cl with nodes := cl.nodes ++ [⟨c, srcs⟩] }, .built cl.nodes.length)

/-- ↔ `NodeDeduplicator::add_node_at_most_once` for a `Compute` node that may be invoked once:
    the existing node of that component is reused. -/
def Closure.pushOnce (cl : Closure) (c : CDef) (srcs : List Src) : Closure × Src :=
  match cl.nodes.findIdx? (fun n => n.ctor.uid == c.uid) with
  | some i => (cl, .built i)
  | none => cl.push c srcs

/-- ↔ the traversal of `build_call_graph` for one input type, in the scope whose lookup is `lk`
    (`constructible_db.get(root_scope_id, …)`), with `pre` the prebuilt request-scoped components and
    `once` the lifecycle that is de-duplicated (`request` in request graphs, `singleton` in the
    application-state graph; the other one of the two is an input parameter).
    (The Rust code registers the node before it visits the dependencies; here the node is added after
    them, so that `nodes` is in dependency order — on the acyclic dependency graphs pavexc accepts
    that is the same graph.) -/
def resolve (lk : Nat → Option CDef) (pre : List Nat) (once : Life) : Nat → Closure → Nat × Mode → Closure × Src
  | 0, cl, (ty, m) => (cl.addParam ty m, .param ty)
  | f + 1, cl, (ty, m) =>
    match lk ty with
    | none => (cl.addParam ty m, .param ty)
    | some c =>
      if c.life == .transient then
        let r := foldRes (resolve lk pre once f) cl c.ins
        r.1.push c r.2
      else if c.life != once || pre.contains c.uid then (cl.addParam ty m, .param ty)
      else match cl.nodes.findIdx? (fun n => n.ctor.uid == c.uid) with
        | some i => (cl, .built i)
        | none =>
          let r := foldRes (resolve lk pre once f) cl c.ins
          r.1.pushOnce c r.2

/-- the closure generated for a component with inputs `ins` -/
def closureOf (lk : Nat → Option CDef) (pre : List Nat) (once : Life) (fuel : Nat) (ins : List (Nat × Mode)) :
    Closure × List Src :=
  foldRes (resolve lk pre once fuel) {} ins

/-- request-scoped constructors computed in a closure (↔ `extract_request_scoped_compute_nodes`) -/
def Closure.rs (cl : Closure) : List Nat :=
  (cl.nodes.filter (fun n => n.ctor.life == .request)).map (·.ctor.uid)

def dedupNat : List Nat → List Nat
  | [] => []
  | x :: xs => x :: (dedupNat xs).filter (· != x)

def kindOf (ps : List (Nat × Mode)) (ty : Nat) : Mode :=
  if ps.any (fun p => p.1 == ty && p.2 == .val) then .val
  else if ps.any (fun p => p.1 == ty && p.2 == .mut) then .mut else .ref

/-- ↔ `required_input_types` after `take_references_as_inputs_if_they_suffice`, merged per type as
    `InputParameters::from_iter` does: by value if anybody moves it, else a reference. -/
def fields (ps : List (Nat × Mode)) : List (Nat × Mode) :=
  (dedupNat (ps.map (·.1))).map (fun ty => (ty, kindOf ps ty))

def Closure.paramTypes (cl : Closure) : List (Nat × Mode) := fields cl.params

/-! ### the pipeline of one route -/

inductive CKind where
  | noop | wrap | pre | post | handler
  deriving Repr, DecidableEq

/-- a middleware or the handler: its scope (↔ `component_db.scope_id`) and its injected inputs -/
structure Comp where
  kind : CKind
  id : Nat
  scope : Nat
  ins : List (Nat × Mode)
  deriving Repr, DecidableEq

def Comp.isWrapping (c : Comp) : Bool := c.kind == .noop || c.kind == .wrap

/-- ↔ `StageIds` -/
structure StageC where
  pres : List Comp
  mid : Comp
  posts : List Comp
  deriving Repr, DecidableEq

/-- ↔ `StageIds::invocation_order` -/
def StageC.order (s : StageC) : List Comp := s.pres ++ [s.mid] ++ s.posts

/-- ↔ step 1c: group the chain (the synthetic `wrap_noop` first) into stages. -/
def group : List Comp → List Comp → List Comp → Comp → List StageC
  | [], pres, posts, h => [⟨pres, h, posts⟩]
  | m :: ms, pres, posts, h =>
    match m.kind with
    | .pre => group ms (pres ++ [m]) posts h
    | .post => group ms pres (posts ++ [m]) h
    | _ => ⟨pres, m, posts⟩ :: group ms [] [] h

/-- the world a pipeline is compiled in: lookup per scope and recursion depth -/
structure Env where
  get : Nat → Nat → Option CDef
  fuel : Nat

/-- ↔ step 2, one entry per (component, request-scoped constructor in its first-pass graph):
    the stage that would have to build it. -/
def usersOf (env : Env) (k : Nat) (c : Comp) : List (Nat × Nat) :=
  ((closureOf (env.get c.scope) [] .request env.fuel c.ins).1.rs).map
    (fun x => (x, if c.isWrapping then k else k - 1))

def usersFrom (env : Env) : Nat → List StageC → List (Nat × Nat)
  | _, [] => []
  | k, s :: rest => (s.order.flatMap (usersOf env k)) ++ usersFrom env (k + 1) rest

def minList : List Nat → Nat
  | [] => 0
  | [x] => x
  | x :: xs => min x (minList xs)

/-- ↔ `request_scoped2built_at_stage_index`: only components with more than one user are hoisted. -/
def builtAt (us : List (Nat × Nat)) : List (Nat × Nat) :=
  (dedupNat (us.map (·.1))).filterMap (fun x =>
    let mine := (us.filter (fun u => u.1 == x)).map (·.2)
    if mine.length > 1 then some (x, minList mine) else none)

/-- what the compiler worked out for one component of the pipeline -/
structure CompPlan where
  stage : Nat
  comp : Comp
  cl : Closure
  /-- sources of the component's own inputs -/
  args : List Src
  /-- wrapping middlewares: (type, source) of the fields of the `Next` state they build -/
  nextArgs : List (Nat × Src)
  deriving Repr, DecidableEq

/-- state of the reverse walk of step 3 -/
structure Acc where
  /-- ↔ `state_accumulator` (types, with their reference kind) -/
  state : List (Nat × Mode) := []
  /-- ↔ `previous_next_state` -/
  next : Option (List (Nat × Mode)) := none
  plans : List CompPlan := []
  deriving Repr, DecidableEq

def zipFields : List (Nat × Mode) → List Src → List (Nat × Src)
  | (t, _) :: fs, s :: ss => (t, s) :: zipFields fs ss
  | _, _ => []

/-- ↔ the body of the inner loop of step 3 for component `c` of stage `k` -/
def stepComp (env : Env) (ba : List (Nat × Nat)) (k : Nat) (acc : Acc) (c : Comp) : Acc :=
  let pre := (ba.filter (fun b => b.2 < k)).map (·.1)
  let extra := if c.isWrapping then acc.next.getD [] else []
  let (cl, srcs) := closureOf (env.get c.scope) pre .request env.fuel (c.ins ++ extra)
  { acc with
    state := acc.state ++ cl.paramTypes,
    plans := ⟨k, c, cl, srcs.take c.ins.length, zipFields extra (srcs.drop c.ins.length)⟩ :: acc.plans }

/-- ↔ one iteration of the outer loop of step 3 (stage `k`, walked in reverse invocation order), then
    the new `previous_next_state` and the removal of what the previous stage builds. -/
def stepStage (env : Env) (ba : List (Nat × Nat)) (tyOf : Nat → Option Nat) (k : Nat) (acc : Acc) (s : StageC) : Acc :=
  let acc1 := s.order.reverse.foldl (stepComp env ba k) acc
  if k == 0 then acc1 else
  let gone := (ba.filter (fun b => b.2 == k - 1)).filterMap (fun b => tyOf b.1)
  { acc1 with next := some (fields acc1.state),
              state := acc1.state.filter (fun p => !gone.contains p.1) }

def stepStages (env : Env) (ba : List (Nat × Nat)) (tyOf : Nat → Option Nat) : List (Nat × StageC) → Acc → Acc
  | [], acc => acc
  | (k, s) :: rest, acc => stepStages env ba tyOf rest (stepStage env ba tyOf k acc s)

def indexFrom {α : Type} : Nat → List α → List (Nat × α)
  | _, [] => []
  | k, x :: xs => (k, x) :: indexFrom (k + 1) xs

structure Plan where
  stages : List StageC
  builtAt : List (Nat × Nat)
  /-- every component of the pipeline, in invocation order of the stages (outermost first) -/
  comps : List CompPlan
  deriving Repr, DecidableEq

/-- ↔ `RequestHandlerPipeline::new` (steps 1c–3) for a handler and its middleware chain;
    `tyOf` gives the output type of a constructor id. -/
def plan (env : Env) (tyOf : Nat → Option Nat) (chain : List Comp) (h : Comp) : Plan :=
  let stages := group chain [] [] h
  let ba := builtAt (usersFrom env 0 stages)
  let acc := stepStages env ba tyOf (indexFrom 0 stages).reverse {}
  { stages := stages, builtAt := ba, comps := acc.plans }

/-- number of `Compute` nodes of request-scoped constructor `x` in the whole pipeline -/
def Plan.count (p : Plan) (x : Nat) : Nat :=
  (p.comps.map (fun c => (c.cl.rs.filter (· == x)).length)).sum

/-- ↔ `enforce_invariants`: no request-scoped constructor is invoked twice in the pipeline
    (pavexc panics otherwise). -/
def Plan.invariantsOk (p : Plan) : Bool :=
  (p.comps.flatMap (fun c => c.cl.rs)).all (fun x => p.count x ≤ 1)

/-- who built a value -/
inductive Origin where
  /-- node `node` of the closure of the component at position `comp` of `Plan.comps` -/
  | node (comp : Nat) (node : Nat)
  /-- a field of `ApplicationState` -/
  | app (ty : Nat)
  /-- the generated code has no binding for it (pavexc panics in codegen / the SDK does not compile) -/
  | stuck
  deriving Repr, DecidableEq

/-- position in `Plan.comps` of the wrapping middleware of stage `k` -/
def Plan.wrapperOf (p : Plan) (k : Nat) : Option Nat :=
  p.comps.findIdx? (fun c => c.stage == k && c.comp.isWrapping)

/-- ↔ codegen: inside stage `k` a closure's parameter of type `ty` is the stage's binding of that
    type; stage 0 gets it from `ApplicationState`, stage `k+1` from the field of `Next{k}`, which the
    wrapping middleware of stage `k` filled from its own closure. -/
def Plan.originOfParam (p : Plan) : Nat → Nat → Origin
  | 0, ty => .app ty
  | k + 1, ty =>
    match p.wrapperOf k with
    | none => .stuck
    | some w =>
      match p.comps[w]? with
      | none => .stuck
      | some wp =>
        match wp.nextArgs.find? (fun a => a.1 == ty) with
        | none => .stuck
        | some (_, .built i) => .node w i
        | some (_, .param t) => p.originOfParam k t

/-- who built the value that source `s` of the component at position `ci` stands for -/
def Plan.origin (p : Plan) (ci : Nat) (s : Src) : Origin :=
  match s with
  | .built i => .node ci i
  | .param ty =>
    match p.comps[ci]? with
    | none => .stuck
    | some cp => p.originOfParam cp.stage ty

/-- the constructor behind an origin (`none`: application state / stuck) -/
def Plan.ctorAt (p : Plan) : Origin → Option CDef
  | .node c i => (p.comps[c]?).bind (fun cp => (cp.cl.nodes[i]?).map (·.ctor))
  | _ => none

/-- ↔ `application_state_call_graph`: singletons are de-duplicated nodes, transients fresh ones;
    everything is resolved from the application-state scope. -/
def appClosure (lk : Nat → Option CDef) (fuel : Nat) (needed : List Nat) : Closure × List Src :=
  closureOf lk [] .singleton fuel (needed.map (fun t => (t, Mode.val)))

/-- middleware ids wrapping each route, in registration order (↔ `handler_id2middleware_ids`) -/
def chainsOf : Bp → List Nat → List (Nat × List Nat)
  | .nil, _ => []
  | .cons (.mw m) rest, c => chainsOf rest (c ++ [m])
  | .cons (.route h) rest, c => (h, c) :: chainsOf rest c
  | .cons (.nest b) rest, c => chainsOf b c ++ chainsOf rest c
  | .cons _ rest, c => chainsOf rest c

/-- middlewares registered directly against a blueprint, in order: what wraps its fallback handler
    (↔ `process_fallback` with the blueprint's final `current_middleware_chain`, for the root blueprint) -/
def ownMws : Bp → List Nat
  | .nil => []
  | .cons (.mw m) rest => m :: ownMws rest
  | .cons _ rest => ownMws rest

/-- the scope of the root blueprint's fallback handler: created after the root's own registrations -/
def fallbackScope (b : Bp) : Nat := (walkOwn b 0 {}).next

end Pxv.Life
