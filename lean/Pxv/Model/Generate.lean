/-
`pavexc generate` as a function of what analysis/codegen produce and of the file system
(compiler/pavexc_cli/src/main.rs `generate`, compiler/pavexc/src/persistence.rs `AppWriter`,
compiler/persist_if_changed/src/lib.rs, compiler/pavexc/src/compiler/generated_app.rs `persist`,
compiler/pavexc/src/compiler/app.rs `persist_flat`). Import-free.

Files are byte lists with a modification stamp (bumped by every write). SHA-256 equality in
`has_changed_file2buffer` is modelled as byte equality (assumption: no collision).
-/
namespace Pxv.Gen

structure File where
  bytes : List Nat
  stamp : Nat
  deriving Repr, DecidableEq

/-- the file system: path ↦ file -/
def FS := String → Option File

def FS.get (fs : FS) (p : String) : Option File := fs p

/-- `OpenOptions::write(true).truncate(true).create(true)` + `write_all`: new bytes, newer stamp. -/
def FS.write (fs : FS) (p : String) (c : List Nat) : FS :=
  fun q => if q = p then some ⟨c, (match fs p with | some f => f.stamp + 1 | none => 1)⟩ else fs q

/-- a file system given by a finite list of files. -/
def FS.ofList (l : List (String × File)) : FS :=
  fun q => match l.find? (·.1 == q) with
    | some (_, f) => some f
    | none => none

/-- ↔ `has_changed_file2buffer` (absent file ⇒ changed; length check + checksum ⇒ byte equality). -/
def hasChanged (fs : FS) (p : String) (c : List Nat) : Bool :=
  match fs.get p with
  | none => true
  | some f => f.bytes != c

/-- ↔ `persist_if_changed`. -/
def persistIfChanged (fs : FS) (p : String) (c : List Nat) : FS :=
  if hasChanged fs p c then fs.write p c else fs

/-- ↔ `WriterMode`. -/
inductive Mode where
  | update | check
  deriving Repr, DecidableEq

/-- ↔ `AppWriter` (the `outdated` set only matters in check mode). -/
structure Writer where
  mode : Mode
  outdated : List String
  /-- number of files actually written so far (bookkeeping for the theorems; not in the Rust code) -/
  writes : Nat := 0
  deriving Repr, DecidableEq

/-- ↔ `AppWriter::persist_if_changed`. -/
def Writer.persist (w : Writer) (fs : FS) (p : String) (c : List Nat) : Writer × FS :=
  match w.mode with
  | .check => (if hasChanged fs p c && !w.outdated.contains p then { w with outdated := w.outdated ++ [p] } else w, fs)
  | .update => (if hasChanged fs p c then { w with writes := w.writes + 1 } else w, persistIfChanged fs p c)

/-- ↔ `AppWriter::verify().is_ok()`. -/
def Writer.verifyOk (w : Writer) : Bool :=
  match w.mode with
  | .update => true
  | .check => w.outdated.isEmpty

/-- What the compiler computes from (blueprint, sources) — by C10's determinism part a function of
    them. Manifests are edited in place, so their new content is a function of the old one. -/
structure Build where
  /-- number of error diagnostics emitted by `App::build` -/
  errors : Nat
  /-- `--diagnostics <path>` and the rendered graphs -/
  diag : Option (String × List Nat)
  /-- `app.codegen()` succeeds -/
  codegenOk : Bool
  /-- `syn::parse2(lib_rs)` succeeds (internal error otherwise) -/
  libParses : Bool
  rootPath : String
  /-- ↔ `inject_app_into_workspace_members` on the current root manifest -/
  rootEdit : List Nat → List Nat
  sdkManifestPath : String
  /-- ↔ `GeneratedManifest::overwrite` on the current (or freshly created) SDK manifest -/
  sdkEdit : Option (List Nat) → List Nat
  libPath : String
  lib : List Nat

structure Outcome where
  exit : Nat
  /-- error reports printed -/
  reports : Nat
  fs : FS
  /-- files written by this run -/
  writes : Nat := 0

/-- `--diagnostics`: the graphs file goes through the writer (after fix b77fe66). -/
def stepDiag (b : Build) (s : Writer × FS) : Writer × FS :=
  match b.diag with
  | some (p, c) => s.1.persist s.2 p c
  | none => s

/-- `GeneratedApp::persist`, first half: workspace manifest, then SDK manifest. -/
def stepManifests (b : Build) (s : Writer × FS) : Writer × FS :=
  let root := match s.2.get b.rootPath with
    | some f => f.bytes
    | none => []
  let s2 := s.1.persist s.2 b.rootPath (b.rootEdit root)
  s2.1.persist s2.2 b.sdkManifestPath (b.sdkEdit ((s2.2.get b.sdkManifestPath).map (·.bytes)))

/-- `GeneratedApp::persist`, second half: `src/lib.rs`. -/
def stepLib (b : Build) (s : Writer × FS) : Writer × FS := s.1.persist s.2 b.libPath b.lib

/-- `writer.verify()` → exit code. -/
def finish (s : Writer × FS) : Outcome :=
  if s.1.verifyOk then ⟨0, 0, s.2, s.1.writes⟩ else ⟨1, s.1.outdated.length, s.2, s.1.writes⟩

/-- ↔ `pavexc_cli::generate` after the blueprint was read and the docs computed. -/
def generate (b : Build) (mode : Mode) (fs : FS) : Outcome :=
  if b.errors > 0 then ⟨1, b.errors, fs, 0⟩        -- `let Some(app) = app else { return FAILURE }`
  else
    let s1 := stepDiag b (⟨mode, [], 0⟩, fs)
    if !b.codegenOk then ⟨1, 1, s1.2, s1.1.writes⟩   -- `app.codegen()?`
    else
      let s3 := stepManifests b s1
      if !b.libParses then ⟨1, 1, s3.2, s3.1.writes⟩ -- `syn::parse2(lib_rs)?` comes after the manifests
      else finish (stepLib b s3)

end Pxv.Gen

namespace Pxv.Gen

/-- A read-through memo table (↔ the rustdoc cache of rustdoc_processor/src/cache: key = package id +
    toolchain + flags fingerprint, value = the documentation computed for it). -/
def getOrCompute {κ ν} [BEq κ] (f : κ → ν) (c : List (κ × ν)) (k : κ) : ν × List (κ × ν) :=
  match c.find? (·.1 == k) with
  | some (_, v) => (v, c)
  | none => (f k, c ++ [(k, f k)])

end Pxv.Gen

namespace Pxv.Gen

/-! ### The SDK manifest (`GeneratedManifest::overwrite`, compiler/pavexc/src/compiler/generated_app.rs)

A TOML document is modelled as its top-level tables in document order, a table as its entries in document
order, an entry's value as the bytes it renders to. `doc[k] = v` of `toml_edit` replaces the item in place when
the key exists and appends it otherwise. -/

abbrev Tbl := List (String × List Nat)

/-- `table[k] = v` -/
def Tbl.set (t : Tbl) (k : String) (v : List Nat) : Tbl :=
  if t.any (·.1 == k) then t.map (fun e => if e.1 == k then (k, v) else e) else t ++ [(k, v)]

abbrev Doc := List (String × Tbl)

/-- `doc[k] = Item::Table(tbl)` -/
def Doc.setTable (d : Doc) (k : String) (tbl : Tbl) : Doc :=
  if d.any (·.1 == k) then d.map (fun e => if e.1 == k then (k, tbl) else e) else d ++ [(k, tbl)]

/-- `doc[k][k2] = v` (an absent table is created at the end) -/
def Doc.setIn (d : Doc) (k k2 : String) (v : List Nat) : Doc :=
  if d.any (·.1 == k) then d.map (fun e => if e.1 == k then (k, Tbl.set e.2 k2 v) else e) else d ++ [(k, [(k2, v)])]

/-- ↔ `GeneratedManifest`: the dependencies (a `BTreeMap`: sorted by name, one entry per name) and the edition. -/
structure GenManifest where
  deps : Tbl
  edition : List Nat

/-- ↔ `GeneratedManifest::overwrite`: the `[dependencies]` table is REPLACED, the edition is set. -/
def GenManifest.overwrite (g : GenManifest) (d : Doc) : Doc :=
  (d.setTable "dependencies" g.deps).setIn "package" "edition" g.edition

/-- ↔ the manifest `persist_manifest` starts from when the file does not exist. -/
def freshDoc : Doc := [("package", [("name", [1]), ("version", [2])])]

/-- ↔ `persist_manifest`: edit the existing document, or a fresh one. -/
def sdkManifest (g : GenManifest) (existing : Option Doc) : Doc :=
  g.overwrite (existing.getD freshDoc)

/-- The variant that updates the entries of the existing `[dependencies]` table one by one instead of replacing
    the table (what a "keep the decorations" refactor would do): kept here to show what the theorem excludes. -/
def GenManifest.overwriteInPlace (g : GenManifest) (d : Doc) : Doc :=
  let cur : Tbl := ((d.find? (·.1 == "dependencies")).map (·.2)).getD []
  ((d.setTable "dependencies" (g.deps.foldl (fun t e => Tbl.set t e.1 e.2) cur))).setIn "package" "edition" g.edition

end Pxv.Gen
