/-
C19 (part 2) — the properties written in Pavex attributes reach the compiler unchanged.

Import-free executable model of

* what the attribute macros of `runtime/pavex_macros/src/` write on the annotated item
  (`#[diagnostic::pavex::<kind>(key = value, …)]`: `constructor/mod.rs::shorthand`, `config.rs`,
  `prebuilt.rs`, `middlewares/generic.rs`, `error_observer.rs`, `error_handler.rs`, `fallback.rs`,
  `routes/route.rs::emit`, `routes/shorthands.rs::emit`, `methods.rs`) — as a token list, the way
  `quote!` builds it (trailing commas included);
* `pavexc_attr_parser::parse` (`compiler/pavexc_attr_parser/src/{lib,model}.rs`, `atoms/method.rs`)
  on the attributes of an item — token level too: `syn`'s lexer and rustc's attribute printer sit
  between the two and are not modelled (`lex`/`render` below are a plain stand-in, used by the
  correspondence run only).
-/
namespace Pxv.Attr

/-! ## Tokens -/

inductive Tok where
  | ident (s : String)
  | str (s : String)
  | bool (b : Bool)
  | nat (n : Nat)
  | punct (c : Char)
  deriving Repr, DecidableEq

/-- A literal or an array of string literals on the right of `=`. -/
inductive Val where
  | str (s : String)
  | bool (b : Bool)
  | nat (n : Nat)
  | strs (l : List String)
  deriving Repr, DecidableEq

/-- One item of the attribute's argument list: `key = value` or a bare `key`. -/
structure Field where
  key : String
  val : Option Val
  deriving Repr, DecidableEq

/-! ## What the macros write -/

def valToks : Val → List Tok
  | .str s => [.str s]
  | .bool b => [.bool b]
  | .nat n => [.nat n]
  | .strs [] => [.punct '[', .punct ']']
  | .strs (s :: ss) =>
    [.punct '[', .str s] ++ (ss.map (fun x => [Tok.punct ',', Tok.str x])).flatten ++ [.punct ']']

/-- `key = value,` — `quote! { id = #id_str, }` and friends always leave a trailing comma. -/
def fieldToks (f : Field) : List Tok :=
  match f.val with
  | some v => [.ident f.key, .punct '='] ++ valToks v ++ [.punct ',']
  | none => [.ident f.key, .punct ',']

def pathToks (kind : String) : List Tok :=
  [.ident "diagnostic", .punct ':', .punct ':', .ident "pavex", .punct ':', .punct ':', .ident kind]

/-- `#[diagnostic::pavex::kind(fields…)]`. -/
def attrToks (kind : String) (fields : List Field) : List Tok :=
  [.punct '#', .punct '['] ++ pathToks kind ++ [.punct '('] ++ (fields.map fieldToks).flatten ++
    [.punct ')', .punct ']']

inductive Lifecycle where
  | singleton | requestScoped | transient
  deriving Repr, DecidableEq

inductive Cloning where
  | neverClone | cloneIfNecessary
  deriving Repr, DecidableEq

def Lifecycle.str : Lifecycle → String
  | .singleton => "singleton" | .requestScoped => "request_scoped" | .transient => "transient"

def Cloning.str : Cloning → String
  | .neverClone => "never_clone" | .cloneIfNecessary => "clone_if_necessary"

/-- `method = "GET"` / `method = ["GET", "POST"]` (`MethodArgument`). -/
inductive MethodArg where
  | single (m : String)
  | multiple (ms : List String)
  deriving Repr, DecidableEq

/-- The arguments a macro has after validating its own input, i.e. what it is about to write.
    One constructor per `emit` function; optional arguments are written only when present, flags
    only when set — exactly as the `quote!` templates do. -/
inductive Spec where
  /-- `#[singleton]`, `#[request_scoped]`, `#[transient]` -/
  | constructor (id : String) (lifecycle : Lifecycle) (cloning : Option Cloning)
      (allowUnused allowErrorFallback : Option Bool)
  | prebuilt (id : String) (cloning : Option Cloning) (allowUnused : Option Bool)
  | config (id key : String) (cloning : Option Cloning) (defaultIfMissing includeIfUnused : Bool)
  | wrap (id : String) (allowErrorFallback : Option Bool)
  | pre (id : String) (allowErrorFallback : Option Bool)
  | post (id : String) (allowErrorFallback : Option Bool)
  | errorObserver (id : String)
  | errorHandler (id : String) (errorRefInputIndex : Nat) (default : Option Bool)
  | fallback (id : String) (allowErrorFallback : Option Bool)
  /-- `#[route]`: `method` and the `allow(..)` flags as validated by `routes/route.rs` -/
  | route (id path : String) (method : Option MethodArg) (allowNonStandard allowAny : Bool)
      (allowErrorFallback : Option Bool)
  /-- `#[get]`, `#[post]`, …: `id, method, path` in that order -/
  | shorthand (id method path : String) (allowErrorFallback : Option Bool)
  deriving Repr, DecidableEq

def optField {α} (key : String) (f : α → Val) : Option α → List Field
  | some a => [⟨key, some (f a)⟩]
  | none => []

def flagField (key : String) (b : Bool) : List Field := if b then [⟨key, some (.bool true)⟩] else []

def Spec.kind : Spec → String
  | .constructor .. => "constructor" | .prebuilt .. => "prebuilt" | .config .. => "config"
  | .wrap .. => "wrap" | .pre .. => "pre_process" | .post .. => "post_process"
  | .errorObserver .. => "error_observer" | .errorHandler .. => "error_handler"
  | .fallback .. => "fallback" | .route .. => "route" | .shorthand .. => "route"

def Spec.fields : Spec → List Field
  | .constructor id lc cl au aef =>
    [⟨"id", some (.str id)⟩, ⟨"lifecycle", some (.str lc.str)⟩] ++
      optField "cloning_policy" (fun c : Cloning => .str c.str) cl ++
      optField "allow_unused" .bool au ++ optField "allow_error_fallback" .bool aef
  | .prebuilt id cl au =>
    [⟨"id", some (.str id)⟩] ++ optField "cloning_policy" (fun c : Cloning => .str c.str) cl ++
      optField "allow_unused" .bool au
  | .config id key cl dim iiu =>
    [⟨"id", some (.str id)⟩, ⟨"key", some (.str key)⟩] ++
      optField "cloning_policy" (fun c : Cloning => .str c.str) cl ++
      flagField "default_if_missing" dim ++ flagField "include_if_unused" iiu
  | .wrap id aef | .pre id aef | .post id aef | .fallback id aef =>
    [⟨"id", some (.str id)⟩] ++ optField "allow_error_fallback" .bool aef
  | .errorObserver id => [⟨"id", some (.str id)⟩]
  | .errorHandler id idx d =>
    [⟨"id", some (.str id)⟩, ⟨"error_ref_input_index", some (.nat idx)⟩] ++ optField "default" .bool d
  | .route id path m ns any aef =>
    [⟨"id", some (.str id)⟩, ⟨"path", some (.str path)⟩] ++
      optField "method" (fun a : MethodArg => match a with | .single s => .str s | .multiple l => .strs l) m ++
      flagField "allow_non_standard_methods" ns ++ flagField "allow_any_method" any ++
      optField "allow_error_fallback" .bool aef
  | .shorthand id m path aef =>
    [⟨"id", some (.str id)⟩, ⟨"method", some (.str m)⟩, ⟨"path", some (.str path)⟩] ++
      optField "allow_error_fallback" .bool aef

/-- The attribute the macro adds to the item. -/
def emitAttr (s : Spec) : List Tok := attrToks s.kind s.fields

/-! ## What the compiler reads: `pavexc_attr_parser::parse` -/

/-- `pavex_bp_schema::MethodGuard`; `some` holds a `BTreeSet<String>` (sorted, no duplicates). -/
inductive MethodGuard where
  | any
  | some (ms : List String)
  deriving Repr, DecidableEq

/-- `AnnotationProperties`. -/
inductive Props where
  | constructor (id : String) (lifecycle : Lifecycle) (cloning : Option Cloning)
      (allowUnused allowErrorFallback : Option Bool)
  | prebuilt (id : String) (allowUnused : Option Bool) (cloning : Option Cloning)
  | config (id key : String) (cloning : Option Cloning) (defaultIfMissing includeIfUnused : Option Bool)
  | wrap (id : String) (allowErrorFallback : Option Bool)
  | pre (id : String) (allowErrorFallback : Option Bool)
  | post (id : String) (allowErrorFallback : Option Bool)
  | errorObserver (id : String)
  | errorHandler (id : String) (errorRefInputIndex : Nat) (default : Option Bool)
  | route (id : String) (method : MethodGuard) (path : String) (allowErrorFallback : Option Bool)
  | fallback (id : String) (allowErrorFallback : Option Bool)
  | methods
  deriving Repr, DecidableEq

inductive Outcome where
  | none                     -- `Ok(None)`: no Pavex attribute on the item
  | some (p : Props)         -- `Ok(Some(..))`
  | unknownAttribute         -- `Err(UnknownPavexAttribute)`
  | invalidParams            -- `Err(InvalidAttributeParams)`
  | multiple                 -- `Err(MultiplePavexAttributes)`
  | panic                    -- `From<RouteProperties>`: "Malformed `pavex::diagnostic::route` attribute"
  deriving Repr, DecidableEq

/-- A parsed attribute: path segments (with leading `::` flag) and what follows the path. -/
inductive Args where
  | word                           -- `#[path]`
  | list (items : Option (List Field))  -- `#[path(...)]`; `none` = not a list of `key [= value]` items
  | nameValue                      -- `#[path = …]`
  deriving Repr, DecidableEq

structure Attribute where
  leadingColon : Bool
  path : List String
  args : Args
  deriving Repr, DecidableEq

/-! ### token-level attribute syntax (`syn::Attribute::parse_outer` + `darling`'s `NestedMeta`) -/

/-- `"a", "b", …` up to the closing `]`; `none` if anything else shows up. -/
def strItems : List Tok → Option (List String × List Tok)
  | .punct ']' :: rest => some ([], rest)
  | .str s :: .punct ']' :: rest => some ([s], rest)
  | .str s :: .punct ',' :: rest =>
    match strItems rest with
    | some (l, r) => some (s :: l, r)
    | none => none
  | _ => none

/-- The value after `=`. -/
def parseVal : List Tok → Option (Val × List Tok)
  | .str s :: rest => some (.str s, rest)
  | .bool b :: rest => some (.bool b, rest)
  | .nat n :: rest => some (.nat n, rest)
  | .punct '[' :: rest =>
    match strItems rest with
    | some (l, r) => some (.strs l, r)
    | none => none
  | _ => none

/-- The items between `(` and `)`: `key = value` or `key`, comma separated, trailing comma allowed.
    `fuel` bounds the recursion by the number of tokens. -/
def parseFields : Nat → List Tok → Option (List Field × List Tok)
  | _, .punct ')' :: rest => some ([], rest)
  | fuel + 1, .ident k :: .punct '=' :: rest =>
    match parseVal rest with
    | some (v, .punct ',' :: rest') =>
      match parseFields fuel rest' with
      | some (fs, r) => some (⟨k, some v⟩ :: fs, r)
      | none => none
    | some (v, .punct ')' :: rest') => some ([⟨k, some v⟩], rest')
    | _ => none
  | fuel + 1, .ident k :: .punct ',' :: rest =>
    match parseFields fuel rest with
    | some (fs, r) => some (⟨k, none⟩ :: fs, r)
    | none => none
  | _, .ident k :: .punct ')' :: rest => some ([⟨k, none⟩], rest)
  | _, _ => none

/-- Skip a balanced `( … )` group whose content is not a plain item list. -/
def skipGroup : Nat → List Tok → Option (List Tok)
  | 0, .punct ')' :: rest => some rest
  | d + 1, .punct ')' :: rest => skipGroup d rest
  | d, .punct '(' :: rest => skipGroup (d + 1) rest
  | d, _ :: rest => skipGroup d rest
  | _, [] => none

/-- `a::b::c` -/
def parsePath : List Tok → Option (List String × List Tok)
  | .ident s :: .punct ':' :: .punct ':' :: rest =>
    match parsePath rest with
    | some (p, r) => some (s :: p, r)
    | none => none
  | .ident s :: rest => some ([s], rest)
  | _ => none

/-- One `#[ … ]`. -/
def parseAttribute (ts : List Tok) : Option (Attribute × List Tok) :=
  match ts with
  | .punct '#' :: .punct '[' :: rest =>
    let (lead, rest) := match rest with
      | .punct ':' :: .punct ':' :: r => (true, r)
      | r => (false, r)
    match parsePath rest with
    | none => none
    | some (path, rest) =>
      match rest with
      | .punct ']' :: rest' => some (⟨lead, path, .word⟩, rest')
      | .punct '(' :: inner =>
        match parseFields inner.length inner with
        | some (fs, .punct ']' :: rest') => some (⟨lead, path, .list (some fs)⟩, rest')
        | _ =>
          match skipGroup 0 inner with
          | some (.punct ']' :: rest') => some (⟨lead, path, .list none⟩, rest')
          | _ => none
      | .punct '=' :: v :: .punct ']' :: rest' =>
        match v with
        | .punct _ => none
        | _ => some (⟨lead, path, .nameValue⟩, rest')
      | _ => none
  | _ => none

/-- `syn::Attribute::parse_outer` on the whole string: all of it, or nothing. -/
def parseOuter : Nat → List Tok → Option (List Attribute)
  | _, [] => some []
  | 0, _ => none
  | fuel + 1, ts =>
    match parseAttribute ts with
    | none => none
    | some (a, rest) =>
      match parseOuter fuel rest with
      | some as => some (a :: as)
      | none => none

/-! ### `darling::FromMeta` for the `…Properties` structs -/

def lookup (key : String) : List Field → Option (Option Val)
  | [] => none
  | f :: fs => if f.key = key then some f.val else lookup key fs

def hasDup : List Field → Bool
  | [] => false
  | f :: fs => (fs.any (·.key == f.key)) || hasDup fs

/-- `String` field. -/
def getStr (fs : List Field) (key : String) : Except Unit (Option String) :=
  match lookup key fs with
  | none => .ok none
  | some (some (.str s)) => .ok (some s)
  | some _ => .error ()

def digits? (s : String) : Option Nat :=
  let cs := s.toList
  if cs.isEmpty || !cs.all Char.isDigit then none
  else some (cs.foldl (fun n c => n * 10 + (c.toNat - '0'.toNat)) 0)

/-- `usize` field: an integer literal, or a string `str::parse` accepts (digits, optional `+`). -/
def getNat (fs : List Field) (key : String) : Except Unit (Option Nat) :=
  match lookup key fs with
  | none => .ok none
  | some (some (.nat n)) => .ok (some n)
  | some (some (.str s)) =>
    match digits? (if s.startsWith "+" then (s.drop 1).toString else s) with
    | some n => .ok (some n)
    | none => .error ()
  | some _ => .error ()

/-- `Option<bool>` field: `key`, `key = true`, `key = "true"`. -/
def getBool (fs : List Field) (key : String) : Except Unit (Option Bool) :=
  match lookup key fs with
  | none => .ok none
  | some none => .ok (some true)
  | some (some (.bool b)) => .ok (some b)
  | some (some (.str "true")) => .ok (some true)
  | some (some (.str "false")) => .ok (some false)
  | some _ => .error ()

def getLifecycle (fs : List Field) : Except Unit (Option Lifecycle) :=
  match lookup "lifecycle" fs with
  | none => .ok none
  | some (some (.str "singleton")) => .ok (some .singleton)
  | some (some (.str "request_scoped")) => .ok (some .requestScoped)
  | some (some (.str "transient")) => .ok (some .transient)
  | some _ => .error ()

def getCloning (fs : List Field) : Except Unit (Option Cloning) :=
  match lookup "cloning_policy" fs with
  | none => .ok none
  | some (some (.str "never_clone")) => .ok (some .neverClone)
  | some (some (.str "clone_if_necessary")) => .ok (some .cloneIfNecessary)
  | some _ => .error ()

def getMethod (fs : List Field) : Except Unit (Option MethodArg) :=
  match lookup "method" fs with
  | none => .ok none
  | some (some (.str s)) => .ok (some (.single s))
  | some (some (.strs l)) => .ok (some (.multiple l))
  | some _ => .error ()

/-- Insertion into a sorted duplicate-free list of strings (`BTreeSet::insert`). -/
def setInsert (x : String) : List String → List String
  | [] => [x]
  | y :: ys => if x = y then y :: ys else if x < y then x :: y :: ys else y :: setInsert x ys

def toSet (l : List String) : List String := l.foldl (fun acc x => setInsert x acc) []

def standardMethods : List String :=
  toSet ["CONNECT", "GET", "POST", "PUT", "DELETE", "PATCH", "OPTIONS", "HEAD", "TRACE"]

def knownKeys : String → Option (List String)
  | "constructor" => some ["id", "lifecycle", "cloning_policy", "allow_unused", "allow_error_fallback"]
  | "config" => some ["id", "key", "cloning_policy", "default_if_missing", "include_if_unused"]
  | "wrap" | "pre_process" | "post_process" | "fallback" => some ["id", "allow_error_fallback"]
  | "error_observer" => some ["id"]
  | "error_handler" => some ["id", "error_ref_input_index", "default"]
  | "prebuilt" => some ["id", "allow_unused", "cloning_policy"]
  | "route" =>
    some ["id", "path", "method", "allow_any_method", "allow_non_standard_methods", "allow_error_fallback"]
  | "methods" => some []
  | _ => none

/-- `AnnotationProperties::from_meta` for a known kind on an item list. -/
def fromFields (kind : String) (fs : List Field) : Outcome :=
  match knownKeys kind with
  | none => .unknownAttribute
  | some keys =>
    if kind = "methods" then .some .methods
    else if hasDup fs || fs.any (fun f => !keys.contains f.key) then .invalidParams
    else
      let r : Except Unit Outcome :=
        match kind with
        | "constructor" =>
          match getStr fs "id", getLifecycle fs, getCloning fs, getBool fs "allow_unused",
              getBool fs "allow_error_fallback" with
          | .ok (some id), .ok (some lc), .ok cl, .ok au, .ok aef => .ok (.some (.constructor id lc cl au aef))
          | _, _, _, _, _ => .error ()
        | "config" =>
          match getStr fs "id", getStr fs "key", getCloning fs, getBool fs "default_if_missing",
              getBool fs "include_if_unused" with
          | .ok (some id), .ok (some key), .ok cl, .ok d, .ok i => .ok (.some (.config id key cl d i))
          | _, _, _, _, _ => .error ()
        | "prebuilt" =>
          match getStr fs "id", getBool fs "allow_unused", getCloning fs with
          | .ok (some id), .ok au, .ok cl => .ok (.some (.prebuilt id au cl))
          | _, _, _ => .error ()
        | "error_observer" =>
          match getStr fs "id" with
          | .ok (some id) => .ok (.some (.errorObserver id))
          | _ => .error ()
        | "error_handler" =>
          match getStr fs "id", getNat fs "error_ref_input_index", getBool fs "default" with
          | .ok (some id), .ok (some n), .ok d => .ok (.some (.errorHandler id n d))
          | _, _, _ => .error ()
        | "route" =>
          match getStr fs "id", getStr fs "path", getMethod fs, getBool fs "allow_any_method",
              getBool fs "allow_non_standard_methods", getBool fs "allow_error_fallback" with
          | .ok (some id), .ok (some path), .ok m, .ok any, .ok ns, .ok aef =>
            match m with
            | some (.single x) => .ok (.some (.route id (.some [x]) path aef))
            | some (.multiple l) => .ok (.some (.route id (.some (toSet l)) path aef))
            | none =>
              if any != some true then .ok .panic
              else if ns == some true then .ok (.some (.route id .any path aef))
              else .ok (.some (.route id (.some standardMethods) path aef))
          | _, _, _, _, _, _ => .error ()
        | _ => -- wrap, pre_process, post_process, fallback
          match getStr fs "id", getBool fs "allow_error_fallback" with
          | .ok (some id), .ok aef =>
            .ok (.some (match kind with
              | "wrap" => .wrap id aef
              | "pre_process" => .pre id aef
              | "post_process" => .post id aef
              | _ => .fallback id aef))
          | _, _ => .error ()
      match r with
      | .ok o => o
      | .error _ => .invalidParams

/-- One attribute, as the loop body of `pavexc_attr_parser::parse` sees it: `none` = not ours. -/
def interpret (a : Attribute) : Option Outcome :=
  match a.path with
  | "diagnostic" :: "pavex" :: sub =>
    match sub with
    | [kind] =>
      if a.leadingColon then some .unknownAttribute
      else match knownKeys kind with
        | none => some .unknownAttribute
        | some _ =>
          if kind = "methods" then some (.some .methods)
          else match a.args with
            | .list (some fs) => some (fromFields kind fs)
            | _ => some .invalidParams
    | _ => some .unknownAttribute
  | _ => none

/-- The `for attr in attrs` loop: first error wins, a second Pavex attribute is an error. -/
def combine : Option Props → List Attribute → Outcome
  | acc, [] => match acc with | some p => .some p | none => .none
  | acc, a :: as =>
    match interpret a with
    | none => combine acc as
    | some (.some p) => if acc.isSome then .multiple else combine (some p) as
    | some o => o

/-- `pavexc_attr_parser::parse` on the attributes of an item, each given as its token list
    (`none` = a string that does not lex / parse as outer attributes: skipped). -/
def parseItem (attrs : List (Option (List Tok))) : Outcome :=
  combine none (attrs.filterMap (fun o => o.bind (fun ts => parseOuter (ts.length + 1) ts))).flatten

/-- What the macro's arguments *mean*: the properties the compiler must end up with. -/
def meaning : Spec → Props
  | .constructor id lc cl au aef => .constructor id lc cl au aef
  | .prebuilt id cl au => .prebuilt id au cl
  | .config id key cl dim iiu =>
    .config id key cl (if dim then some true else none) (if iiu then some true else none)
  | .wrap id aef => .wrap id aef
  | .pre id aef => .pre id aef
  | .post id aef => .post id aef
  | .errorObserver id => .errorObserver id
  | .errorHandler id n d => .errorHandler id n d
  | .fallback id aef => .fallback id aef
  | .route id path m ns _ aef =>
    .route id (match m with
      | some (.single x) => .some [x]
      | some (.multiple l) => .some (toSet l)
      | none => if ns then .any else .some standardMethods) path aef
  | .shorthand id m path aef => .route id (.some [m]) path aef

/-- The combinations `routes/route.rs` lets through *and* the documentation calls legal:
    `method` is required unless `allow(any_method)` is given, and excludes it. -/
def Spec.legal : Spec → Bool
  | .route _ _ m _ any _ => (m.isSome && !any) || (m.isNone && any)
  | _ => true

/-! ## Stand-in lexer / printer (correspondence only) -/

def isIdentStart (c : Char) : Bool := c.isAlpha || c == '_'
def isIdentCont (c : Char) : Bool := c.isAlphanum || c == '_'

/-- Tokens of a string; `none` on anything outside the modelled alphabet (escapes, chars, floats…). -/
def lex : Nat → List Char → Option (List Tok)
  | _, [] => some []
  | 0, _ => none
  | fuel + 1, c :: cs =>
    if c.isWhitespace then lex fuel cs
    else if c == '"' then
      let body := cs.takeWhile (· != '"')
      let rest := cs.dropWhile (· != '"')
      if body.contains '\\' then none
      else match rest with
        | _ :: rest' => (lex fuel rest').map (fun ts => .str (String.ofList body) :: ts)
        | [] => none
    else if c.isDigit then
      -- an integer literal, possibly with a type suffix (`quote!` writes a `usize` as `1usize`)
      let ds := (c :: cs).takeWhile Char.isDigit
      let rest := ((c :: cs).dropWhile Char.isDigit).dropWhile isIdentCont
      match rest with
      | '.' :: _ => none
      | _ => (lex fuel rest).map (fun ts => .nat (ds.foldl (fun n d => n * 10 + (d.toNat - '0'.toNat)) 0) :: ts)
    else if isIdentStart c then
      let w := (c :: cs).takeWhile isIdentCont
      let rest := (c :: cs).dropWhile isIdentCont
      let t := if w == "true".toList then Tok.bool true else if w == "false".toList then Tok.bool false
               else Tok.ident (String.ofList w)
      (lex fuel rest).map (fun ts => t :: ts)
    else if "#[]()=,:".toList.contains c then (lex fuel cs).map (fun ts => .punct c :: ts)
    else none

def lexString (s : String) : Option (List Tok) := lex (s.length + 1) s.toList

def renderTok : Tok → String
  | .ident s => s
  | .str s => "\"" ++ s ++ "\""
  | .bool b => if b then "true" else "false"
  | .nat n => toString n
  | .punct c => String.singleton c

/-- One way to print a token list (rustc's own printer differs in spacing only): single spaces,
    except that `::` stays glued. -/
def render (ts : List Tok) : String := (" ".intercalate (ts.map renderTok)).replace ": :" "::"

end Pxv.Attr
