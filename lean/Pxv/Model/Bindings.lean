/-
How a generated stage function hands its parameters to the middlewares and the handler it invokes
(compiler/pavexc/src/compiler/analyses/processing_pipeline/pipeline.rs: `Binding`, `Bindings::get_expr_for_type`;
processing_pipeline/codegen.rs: the `invocations` loop and the signature rendered from the bindings afterwards).
Import-free.
-/
namespace Pxv.Bind

/-- canonical types, as far as the lookup can tell them apart: a named type, or a reference to a type -/
inductive Ty where
  | base (n : Nat)
  | ref (mutable : Bool) (inner : Ty)
  deriving Repr, DecidableEq

/-- ↔ `Binding`: `[mut] ident: type_` in the signature of the stage function -/
structure Binding where
  ident : Nat
  ty : Ty
  mutable : Bool := false
  deriving Repr, DecidableEq

/-- the expression handed to the callee: `ident`, `&ident` or `&mut ident` -/
inductive Expr where
  | name (ident : Nat)
  | borrow (mutable : Bool) (ident : Nat)
  deriving Repr, DecidableEq

/-- mark the first binding of type `t` as mutable (↔ `iter_mut().find(..)` followed by `binding.mutable = true`) -/
def markMut (t : Ty) : List Binding → List Binding
  | [] => []
  | b :: bs => if b.ty = t then { b with mutable := true } :: bs else b :: markMut t bs

/-- ↔ `Bindings::get_expr_for_type`: an exact match by type is passed as it is; a reference to a bound type is borrowed (and a
    `&mut` borrow marks the binding `mut`); a `&T` may be served by a binding of type `&mut T`. -/
def getExpr (bs : List Binding) (want : Ty) : Option (Expr × List Binding) :=
  match bs.find? (fun b => b.ty = want) with
  | some b => some (.name b.ident, bs)
  | none =>
    match want with
    | .base _ => none
    | .ref m inner =>
      match bs.find? (fun b => b.ty = inner) with
      | some b => some (.borrow m b.ident, if m then markMut inner bs else bs)
      | none =>
        if m then none
        else match bs.find? (fun b => b.ty = .ref true inner) with
          | some b => some (.name b.ident, bs)
          | none => none

/-- the arguments of one invocation, resolved left to right -/
def resolveArgs : List Binding → List Ty → Option (List Expr × List Binding)
  | bs, [] => some ([], bs)
  | bs, t :: ts =>
    match getExpr bs t with
    | none => none
    | some (e, bs1) =>
      match resolveArgs bs1 ts with
      | none => none
      | some (es, bs2) => some (e :: es, bs2)

/-- ↔ the `invocations` loop of a stage: the components in invocation order, each with the types it wants; a post-processing
    middleware also sees the temporary binding `response` (pushed before, popped after). The signature of the stage function is
    rendered from the bindings this returns. `none` = the `panic!("Could not find a binding ..")`. -/
def resolveStage (resp : Binding) : List Binding → List (Bool × List Ty) → Option (List (List Expr) × List Binding)
  | bs, [] => some ([], bs)
  | bs, (post, wants) :: rest =>
    match resolveArgs (if post then bs ++ [resp] else bs) wants with
    | none => none
    | some (es, bs1) =>
      match resolveStage resp (if post then bs1.dropLast else bs1) rest with
      | none => none
      | some (ess, bs2) => some (es :: ess, bs2)

/-- the typing rule the generated call has to pass: `e` may be passed where `want` is expected, in a function whose
    parameters are `bs` — by name when the types agree (or `&mut T` for `&T`: reborrow), by `&` of a parameter of the inner
    type, by `&mut` of such a parameter ONLY IF it is declared `mut` (else rustc reports E0596). -/
def wellTyped (bs : List Binding) (e : Expr) (want : Ty) : Bool :=
  match e with
  | .name i => bs.any (fun b => b.ident = i && (b.ty = want || match want with
      | .ref false inner => b.ty = .ref true inner
      | _ => false))
  | .borrow m i => bs.any (fun b => b.ident = i && want = .ref m b.ty && (!m || b.mutable))

/-- the seeded variant: a pure lookup that no longer records `&mut` borrows -/
def getExprPure (bs : List Binding) (want : Ty) : Option (Expr × List Binding) :=
  (getExpr bs want).map (fun r => (r.1, bs))

end Pxv.Bind
