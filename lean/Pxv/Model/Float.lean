import Pxv.Model.ReqData
/-
Floating-point request data (`f32` / `f64` fields of `PathParams<T>` and `QueryParams<T>`): the extractors hand the
percent-decoded text to `str::parse::<f32|f64>()` (`core::num::dec2flt`), whose contract is: accept the decimal grammar
below and return the representable value NEAREST to the exact decimal, ties to even. The model computes that value with
exact natural-number arithmetic; a float is represented by its IEEE-754 bit pattern.
Import-free (besides the request-data model).
-/
namespace Pxv.ReqData

/-- an IEEE-754 binary format: `p` = precision (hidden bit included), `ebits` = width of the exponent field -/
structure Fmt where
  p : Nat
  ebits : Nat
  deriving Repr, DecidableEq

def f32 : Fmt := ⟨24, 8⟩
def f64 : Fmt := ⟨53, 11⟩

namespace Fmt
def bias (f : Fmt) : Nat := 2 ^ (f.ebits - 1) - 1
/-- unbiased exponent of the smallest normal number -/
def emin (f : Fmt) : Int := 1 - (f.bias : Int)
def infBits (f : Fmt) : Nat := (2 ^ f.ebits - 1) * 2 ^ (f.p - 1)
def nanBits (f : Fmt) : Nat := f.infBits + 2 ^ (f.p - 2)
def signBit (f : Fmt) : Nat := 2 ^ (f.ebits + f.p - 1)
end Fmt

/-- `n / d` rounded to the nearest integer, ties to even (`d > 0`). -/
def roundHalfEven (n d : Nat) : Nat :=
  let q := n / d
  let r := n % d
  if 2 * r < d then q else if d < 2 * r then q + 1 else if q % 2 = 0 then q else q + 1

/-- `2^e ≤ num / den` for an integer `e` of either sign -/
def geePow2 (num den : Nat) (e : Int) : Bool :=
  if 0 ≤ e then den * 2 ^ e.toNat ≤ num else den ≤ num * 2 ^ (-e).toNat

/-- `⌊log₂ (num / den)⌋` for `num, den > 0` -/
def floorLog2 (num den : Nat) : Int :=
  let l : Int := (Nat.log2 num : Int) - (Nat.log2 den : Int)
  if geePow2 num den l then l else l - 1

/-- the bit pattern of the float nearest to `num / den ≥ 0` (ties to even; overflow gives infinity; below the smallest
    normal number the spacing is that of the subnormals). With `e' = max ⌊log₂ x⌋ emin` and `q = round (x · 2^(p-1-e'))`
    the encoding is `(e' - emin) · 2^(p-1) + q`: a subnormal when `q < 2^(p-1)`, a normal number otherwise, and a carry
    `q = 2^p` lands on the next exponent by itself. -/
def roundToFloat (f : Fmt) (num den : Nat) : Nat :=
  if num = 0 then 0
  else
    let e := floorLog2 num den
    let e' := if e < f.emin then f.emin else e
    let sh : Int := ((f.p : Int) - 1) - e'
    let q := if 0 ≤ sh then roundHalfEven (num * 2 ^ sh.toNat) den else roundHalfEven num (den * 2 ^ (-sh).toNat)
    let bits := (e' - f.emin).toNat * 2 ^ (f.p - 1) + q
    if f.infBits ≤ bits then f.infBits else bits

def isDigit (b : Nat) : Bool := 48 ≤ b && b ≤ 57

def lower (b : Nat) : Nat := if 65 ≤ b && b ≤ 90 then b + 32 else b

/-- the decimal `m · 10^e10` (`m` given by its digits) rounded to the format -/
def decimalToFloat (f : Fmt) (digits : List Nat) (e10 : Int) : Nat :=
  let m := (digitsVal digits 0).getD 0
  if m = 0 then 0
  else
    let d : Int := (decDigits m).length
    -- far outside the range of both formats (|exponent| of f64 is below 330): no need to build the power of ten
    if 400 < e10 + d then f.infBits
    else if e10 + d < -400 then 0
    else if 0 ≤ e10 then roundToFloat f (m * 10 ^ e10.toNat) 1
    else roundToFloat f m (10 ^ (-e10).toNat)

/-- the exponent part after `e` / `E`: optional sign, at least one digit -/
def parseExp (bs : List Nat) : Option Int :=
  let (neg, ds) := match bs with
    | 45 :: r => (true, r)
    | 43 :: r => (false, r)
    | r => (false, r)
  if ds.isEmpty then none
  else (digitsVal ds 0).map (fun n => if neg then -(n : Int) else (n : Int))

/-- `core::num::dec2flt` on the text after the sign: `inf`, `infinity`, `nan` in any case, or
    `digits [. digits] [(e|E) [+|-] digits]` with at least one digit before the exponent. -/
def parseUnsignedFloat (f : Fmt) (bs : List Nat) : Option Nat :=
  let lw := bs.map lower
  if lw = [105, 110, 102] || lw = [105, 110, 102, 105, 110, 105, 116, 121] then some f.infBits
  else if lw = [110, 97, 110] then some f.nanBits
  else
    let ip := bs.takeWhile isDigit
    let r1 := bs.dropWhile isDigit
    let (fp, r2) := match r1 with
      | 46 :: r => (r.takeWhile isDigit, r.dropWhile isDigit)
      | r => ([], r)
    if ip.isEmpty && fp.isEmpty then none
    else
      let ex : Option Int := match r2 with
        | [] => some 0
        | c :: r => if c = 101 || c = 69 then parseExp r else none
      ex.map (fun e => decimalToFloat f (ip ++ fp) (e - (fp.length : Int)))

/-- `<f32|f64 as FromStr>::from_str` on bytes: the bit pattern of the result -/
def parseFloat (f : Fmt) (bs : List Nat) : Option Nat :=
  match bs with
  | 45 :: r => (parseUnsignedFloat f r).map (· + f.signBit)
  | 43 :: r => parseUnsignedFloat f r
  | r => parseUnsignedFloat f r

inductive FErr where
  | invalidUtf8
  | parse
  deriving Repr, DecidableEq

/-- a float field of `PathParams<T>`: the raw segment is percent-decoded exactly once, must be UTF-8, and is parsed -/
def pathFloat (f : Fmt) (raw : List Nat) : Except FErr Nat :=
  let d := percentDecode raw
  if utf8Valid d then
    match parseFloat f d with
    | some b => .ok b
    | none => .error .parse
  else .error .invalidUtf8

/-- a float field of `QueryParams<T>` / `UrlEncodedBody<T>`: `form_urlencoded` decoding (`+` is a space, lossy UTF-8 is a
    recorded finding and not generated here), then the same parser -/
def queryFloat (f : Fmt) (raw : List Nat) : Except FErr Nat :=
  match parseFloat f (formDecode raw) with
  | some b => .ok b
  | none => .error .parse

end Pxv.ReqData
