/-
Model of `pavex_session` (runtime/sessions/pavex_session/src): the `Session` state machine
(session_.rs), `IncomingSession` (incoming.rs / wire.rs: a cookie is an id plus the client map),
`finalize_session` (middleware.rs) and the storage backend reduced to a finite map
`id ↦ (state, ttl)` (store_.rs; the in-memory backend of pavex_session_memory_store without its
clock — deadlines and expiry are C13's business, here a record is either there or not).

Keys `κ` need decidable equality, values `ν` are opaque (JSON values in the driver).
Session ids are natural numbers handed out by a counter (`World.nextId`): this is the assumption
that `SessionId::random()` never collides with an id in use.
Time is abstract: the remaining TTL that `load` reports is a parameter (`rem`) of every request.
Import-free.
-/
namespace Pxv.Session

/-! ## Finite maps as association lists (`HashMap<Cow<str>, Value>`, and the store) -/

abbrev Map (κ ν : Type) := List (κ × ν)

namespace Map
variable {κ ν : Type} [DecidableEq κ]

def lookup : Map κ ν → κ → Option ν
  | [], _ => none
  | (k', v) :: t, k => if k' = k then some v else lookup t k

def erase : Map κ ν → κ → Map κ ν
  | [], _ => []
  | (k', v) :: t, k => if k' = k then erase t k else (k', v) :: erase t k

/-- `HashMap::insert` (the old value is `lookup` before). -/
def insert (m : Map κ ν) (k : κ) (v : ν) : Map κ ν := (k, v) :: erase m k

end Map

/-! ## Configuration (config/state.rs, config/cookie.rs) -/

inductive Creation | neverSkip | skipIfEmpty deriving DecidableEq, Repr
inductive Missing | allow | reject deriving DecidableEq, Repr
inductive Extend | onLoadsAndChanges | onChanges deriving DecidableEq, Repr
inductive CookieKind | persistent | session deriving DecidableEq, Repr
inductive SameSite | strict | lax | none deriving DecidableEq, Repr
inductive Alg | none | sign | encrypt deriving DecidableEq, Repr

/-- `SessionCookieConfig`. -/
structure CookieCfg where
  name : String
  domain : Option String
  path : Option String
  secure : Bool
  httpOnly : Bool
  sameSite : Option SameSite
  kind : CookieKind
  deriving DecidableEq, Repr

/-- The biscotti `Processor` as far as the session middleware is concerned: one crypto rule
    (`CryptoRule`: primary algorithm + key, the cookie name it is registered for, the fallback
    (algorithm, key) pairs that are only used to read incoming cookies) and the percent-encoding
    switch. Keys are natural numbers: two keys are the same key iff the numbers are equal. -/
structure Crypto where
  alg : Alg
  ruleName : String
  percentEncode : Bool
  key : Nat := 0
  fallbacks : List (Alg × Nat) := []
  deriving DecidableEq, Repr

/-- `SessionStateConfig` + cookie + processor. `threshold = some (n, d)` is the ratio `n/d`. -/
structure Config where
  ttl : Nat
  creation : Creation
  missing : Missing
  extend : Extend
  threshold : Option (Nat × Nat)
  cookie : CookieCfg
  crypto : Crypto
  deriving Repr

/-! ## Session state (session_.rs) -/

/-- `CurrentSessionId`. -/
inductive CurId where
  | existing (id : Nat)
  | toBeRenamed (old new : Nat)
  | newlyGenerated (id : Nat)
  deriving DecidableEq, Repr

/-- `CurrentSessionId::new_id`. -/
def CurId.newId : CurId → Nat
  | .existing id => id
  | .toBeRenamed _ new => new
  | .newlyGenerated id => id

/-- `CurrentSessionId::old_id`. -/
def CurId.oldId : CurId → Option Nat
  | .existing id => some id
  | .toBeRenamed old _ => some old
  | .newlyGenerated _ => none

/-- `ServerState` (the `OnceCell` around it is the `Option` in `Sess.server`). -/
inductive Srv (κ ν : Type) where
  | unchanged (st : Map κ ν) (ttl : Nat)
  | doesNotExist
  | markedForDeletion
  | changed (st : Map κ ν)
  deriving Repr

/-- `ClientState`. -/
inductive Cli (κ ν : Type) where
  | unchanged (st : Map κ ν)
  | updated (st : Map κ ν)
  deriving Repr

def Cli.state {κ ν} : Cli κ ν → Map κ ν
  | .unchanged st => st
  | .updated st => st

def Cli.isUpdated {κ ν} : Cli κ ν → Bool
  | .unchanged _ => false
  | .updated _ => true

/-- `Session` without the borrowed store/config. -/
structure Sess (κ ν : Type) where
  id : CurId
  server : Option (Srv κ ν)
  client : Cli κ ν
  invalidated : Bool
  deriving Repr

/-! ## The store (store_.rs `SessionStorageBackend`, memory backend semantics, no clock) -/

structure Rec (κ ν : Type) where
  state : Map κ ν
  ttl : Nat
  deriving Repr

inductive StoreErr | unknownId | duplicateId deriving DecidableEq, Repr

/-- One call to the backend, as the recording wrapper of the harness sees it. -/
structure LogE (κ ν : Type) where
  op : String
  id : Nat
  id2 : Option Nat := none
  ttl : Option Nat := none
  st : Option (Map κ ν) := none
  res : String
  deriving Repr

structure World (κ ν : Type) where
  store : Map Nat (Rec κ ν)
  nextId : Nat
  log : List (LogE κ ν)
  deriving Repr

section
variable {κ ν : Type} [DecidableEq κ]

def World.logged (w : World κ ν) (e : LogE κ ν) : World κ ν := { w with log := w.log ++ [e] }

def errStr : Option StoreErr → String
  | none => "ok"
  | some .unknownId => "unknown-id"
  | some .duplicateId => "duplicate-id"

/-- `create`: refuses a live id. -/
def stCreate (w : World κ ν) (id : Nat) (st : Map κ ν) (ttl : Nat) : Option StoreErr × World κ ν :=
  match Map.lookup w.store id with
  | some _ => (some .duplicateId, w.logged { op := "create", id, ttl := some ttl, st := some st, res := "duplicate-id" })
  | none => (none, { w with store := Map.insert w.store id ⟨st, ttl⟩ }.logged { op := "create", id, ttl := some ttl, st := some st, res := "ok" })

/-- `update`: overwrites a live record, unknown id otherwise. -/
def stUpdate (w : World κ ν) (id : Nat) (st : Map κ ν) (ttl : Nat) : Option StoreErr × World κ ν :=
  match Map.lookup w.store id with
  | some _ => (none, { w with store := Map.insert w.store id ⟨st, ttl⟩ }.logged { op := "update", id, ttl := some ttl, st := some st, res := "ok" })
  | none => (some .unknownId, w.logged { op := "update", id, ttl := some ttl, st := some st, res := "unknown-id" })

/-- `update_ttl`. -/
def stUpdateTtl (w : World κ ν) (id : Nat) (ttl : Nat) : Option StoreErr × World κ ν :=
  match Map.lookup w.store id with
  | some r => (none, { w with store := Map.insert w.store id ⟨r.state, ttl⟩ }.logged { op := "update_ttl", id, ttl := some ttl, res := "ok" })
  | none => (some .unknownId, w.logged { op := "update_ttl", id, ttl := some ttl, res := "unknown-id" })

/-- `load`. -/
def stLoad (w : World κ ν) (id : Nat) : Option (Rec κ ν) × World κ ν :=
  match Map.lookup w.store id with
  | some r => (some r, w.logged { op := "load", id, res := "some" })
  | none => (none, w.logged { op := "load", id, res := "none" })

/-- `delete`. -/
def stDelete (w : World κ ν) (id : Nat) : Option StoreErr × World κ ν :=
  match Map.lookup w.store id with
  | some _ => (none, { w with store := Map.erase w.store id }.logged { op := "delete", id, res := "ok" })
  | none => (some .unknownId, w.logged { op := "delete", id, res := "unknown-id" })

/-- `change_id`: the duplicate check on the new id comes first. -/
def stChangeId (w : World κ ν) (old new : Nat) : Option StoreErr × World κ ν :=
  match Map.lookup w.store new with
  | some _ => (some .duplicateId, w.logged { op := "change_id", id := old, id2 := some new, res := "duplicate-id" })
  | none =>
    match Map.lookup w.store old with
    | none => (some .unknownId, w.logged { op := "change_id", id := old, id2 := some new, res := "unknown-id" })
    | some r => (none, { w with store := Map.insert (Map.erase w.store old) new r }.logged { op := "change_id", id := old, id2 := some new, res := "ok" })

/-! ## `Session::new` -/

/-- `Session::new`: a continuation of the incoming session, or a brand-new one with a fresh id. -/
def newSession (incoming : Option (Nat × Map κ ν)) (w : World κ ν) : Sess κ ν × World κ ν :=
  match incoming with
  | some (id, cli) => ({ id := .existing id, server := none, client := .unchanged cli, invalidated := false }, w)
  | none => ({ id := .newlyGenerated w.nextId, server := some .doesNotExist, client := .unchanged [], invalidated := false },
             { w with nextId := w.nextId + 1 })

/-! ## Server-side operations -/

/-- `force_load`: lazy load of the server state; `rem` is the remaining TTL the store reports. -/
def forceLoad (cfg : Config) (rem : Nat) (s : Sess κ ν) (w : World κ ν) : Sess κ ν × World κ ν :=
  match s.id.oldId with
  | none => (s, w)
  | some sid =>
    match s.server with
    | some _ => (s, w)
    | none =>
      match stLoad w sid with
      | (some r, w') => ({ s with server := some (.unchanged r.state rem) }, w')
      | (none, w') =>
        match cfg.missing with
        | .allow => ({ s with server := some .doesNotExist }, w')
        | .reject => ({ s with server := some .markedForDeletion, invalidated := true }, w')

/-- Which backend call a `SyncError` comes from. -/
inductive SyncOp | create | update | delete | updateTtl | changeId deriving DecidableEq, Repr

/-- `SyncError`. -/
structure SyncErr where
  op : SyncOp
  err : StoreErr
  deriving DecidableEq, Repr

/-- Result of one public operation. `panic` = an `unreachable!`/`assert!` fired. -/
inductive Res (ν : Type) where
  | unit
  | val (v : Option ν)
  | bool (b : Bool)
  | syncOk
  | syncErr (e : SyncErr)
  | panic
  deriving Repr, DecidableEq

/-- `get_raw`. -/
def getRaw (cfg : Config) (rem : Nat) (k : κ) (s : Sess κ ν) (w : World κ ν) : Res ν × Sess κ ν × World κ ν :=
  let (s, w) := forceLoad cfg rem s w
  match s.server with
  | none => (.panic, s, w)
  | some (.unchanged st _) => (.val (Map.lookup st k), s, w)
  | some (.changed st) => (.val (Map.lookup st k), s, w)
  | some .doesNotExist => (.val none, s, w)
  | some .markedForDeletion => (.val none, s, w)

/-- `is_empty`. -/
def isEmpty (cfg : Config) (rem : Nat) (s : Sess κ ν) (w : World κ ν) : Res ν × Sess κ ν × World κ ν :=
  let (s, w) := forceLoad cfg rem s w
  match s.server with
  | none => (.panic, s, w)
  | some (.unchanged st _) => (.bool st.isEmpty, s, w)
  | some (.changed st) => (.bool st.isEmpty, s, w)
  | some .doesNotExist => (.bool true, s, w)
  | some .markedForDeletion => (.bool true, s, w)

/-- `insert_raw`. -/
def insertRaw (cfg : Config) (rem : Nat) (k : κ) (v : ν) (s : Sess κ ν) (w : World κ ν) : Res ν × Sess κ ν × World κ ν :=
  let (s, w) := forceLoad cfg rem s w
  match s.server with
  | none => (.panic, s, w)
  | some .markedForDeletion => (.val none, s, w)
  | some (.unchanged st _) => (.val (Map.lookup st k), { s with server := some (.changed (Map.insert st k v)) }, w)
  | some (.changed st) => (.val (Map.lookup st k), { s with server := some (.changed (Map.insert st k v)) }, w)
  | some .doesNotExist => (.val none, { s with server := some (.changed (Map.insert [] k v)) }, w)

/-- `remove_raw` (after `fix: Session::remove_raw marks a loaded server state as changed`). -/
def removeRaw (cfg : Config) (rem : Nat) (k : κ) (s : Sess κ ν) (w : World κ ν) : Res ν × Sess κ ν × World κ ν :=
  let (s, w) := forceLoad cfg rem s w
  match s.server with
  | none => (.panic, s, w)
  | some .markedForDeletion => (.val none, s, w)
  | some .doesNotExist => (.val none, s, w)
  | some (.unchanged st _) =>
    match Map.lookup st k with
    | none => (.val none, s, w)
    | some v => (.val (some v), { s with server := some (.changed (Map.erase st k)) }, w)
  | some (.changed st) => (.val (Map.lookup st k), { s with server := some (.changed (Map.erase st k)) }, w)

/-- `clear`. -/
def clear (cfg : Config) (rem : Nat) (s : Sess κ ν) (w : World κ ν) : Res ν × Sess κ ν × World κ ν :=
  let (s, w) := forceLoad cfg rem s w
  match s.server with
  | none => (.panic, s, w)
  | some .markedForDeletion => (.unit, s, w)
  | some .doesNotExist => (.unit, s, w)
  | some (.unchanged st _) =>
    if st.isEmpty then (.unit, s, w) else (.unit, { s with server := some (.changed []) }, w)
  | some (.changed _) => (.unit, { s with server := some (.changed []) }, w)

/-- `delete`. -/
def delete (s : Sess κ ν) : Sess κ ν := { s with server := some .markedForDeletion }

/-- `invalidate`. -/
def invalidate (s : Sess κ ν) : Sess κ ν := { s with server := some .markedForDeletion, invalidated := true }

/-- `cycle_id`: a fresh id (`Some(new) != old` holds at the first attempt). -/
def cycleId (s : Sess κ ν) (w : World κ ν) : Sess κ ν × World κ ν :=
  let new := w.nextId
  let id := match s.id.oldId with
    | some old => CurId.toBeRenamed old new
    | none => CurId.newlyGenerated new
  ({ s with id }, { w with nextId := w.nextId + 1 })

/-! ## `sync` -/

/-- `remaining_ttl < fresh_ttl.mul_f32(ratio)`, with the ratio an exact fraction; no threshold = always. -/
def needExtend (cfg : Config) (remaining : Nat) : Bool :=
  match cfg.threshold with
  | none => true
  | some (n, d) => remaining * d < cfg.ttl * n

/-- `create_if_empty` of `sync`. -/
def createIfEmpty (cfg : Config) (s : Sess κ ν) : Bool :=
  (s.id.oldId.isSome || s.client.isUpdated) && decide (cfg.creation = .neverSkip)

inductive Outcome | ok | err (e : SyncErr) | panic deriving DecidableEq, Repr

def failed (what : SyncOp) : Option StoreErr → Outcome
  | none => .ok
  | some e => .err ⟨what, e⟩

/-- First half of `sync`: the store operations issued for (server state, id kind). -/
def syncStore (cfg : Config) (s : Sess κ ν) (w : World κ ν) : Outcome × World κ ν :=
  let cie := createIfEmpty cfg s
  match s.server with
  | some .doesNotExist =>
    if cie then
      let (e, w) := stCreate w s.id.newId [] cfg.ttl
      (failed .create e, w)
    else (.ok, w)
  | none =>
    match s.id with
    | .existing _ => (.ok, w)
    | .toBeRenamed old new =>
      let (e, w) := stChangeId w old new
      (failed .changeId e, w)
    | .newlyGenerated _ => (.panic, w)
  | some (.unchanged st remaining) =>
    match s.id with
    | .existing old =>
      if cfg.extend = .onLoadsAndChanges ∧ needExtend cfg remaining then
        let (e, w) := stUpdateTtl w old cfg.ttl
        (failed .updateTtl e, w)
      else (.ok, w)
    | .toBeRenamed old new =>
      match stChangeId w old new with
      | (none, w) => (.ok, w)
      | (some .unknownId, w) =>
        let (e, w) := stCreate w new st cfg.ttl
        (failed .create e, w)
      | (some e, w) => (failed .changeId (some e), w)
    | .newlyGenerated new =>
      if cie then
        match stCreate w new [] cfg.ttl with
        | (none, w) => (if st.isEmpty then .ok else .panic, w)
        | (some e, w) => (failed .create (some e), w)
      else (if st.isEmpty then .ok else .panic, w)
  | some .markedForDeletion =>
    match s.id.oldId with
    | some id => let (_, w) := stDelete w id; (.ok, w)
    | none => (.ok, w)
  | some (.changed st) =>
    match s.id with
    | .existing id =>
      match stUpdate w id st cfg.ttl with
      | (none, w) => (.ok, w)
      | (some .unknownId, w) =>
        let (e, w) := stCreate w id st cfg.ttl
        (failed .create e, w)
      | (some e, w) => (failed .update (some e), w)
    | .toBeRenamed old new =>
      let (_, w) := stDelete w old
      let (e, w) := stCreate w new st cfg.ttl
      (failed .create e, w)
    | .newlyGenerated id =>
      let (e, w) := stCreate w id st cfg.ttl
      (failed .create e, w)

/-- Second half of `sync`: the in-memory state after the store has been aligned. -/
def syncServer (cfg : Config) (s : Sess κ ν) : Option (Srv κ ν) :=
  match s.server with
  | none => none
  | some (.changed st) => some (.unchanged st cfg.ttl)
  | some (.unchanged st ttl) => some (.unchanged st ttl)
  | some .markedForDeletion => if s.invalidated then some .markedForDeletion else some .doesNotExist
  | some .doesNotExist => if createIfEmpty cfg s then some (.unchanged [] cfg.ttl) else some .doesNotExist

/-- Third part of `sync` (after `fix: Session::sync updates the session id ...`). -/
def syncId (id : CurId) (server : Option (Srv κ ν)) : CurId :=
  let hasRecord := match server with
    | none => true
    | some (.unchanged _ _) => true
    | _ => false
  match id with
  | .newlyGenerated n => if hasRecord then .existing n else .newlyGenerated n
  | other => .existing other.newId

/-- `Session::sync`. On error or panic the session is left as it was (the store may not be). -/
def sync (cfg : Config) (s : Sess κ ν) (w : World κ ν) : Outcome × Sess κ ν × World κ ν :=
  match syncStore cfg s w with
  | (.ok, w) =>
    let server := syncServer cfg s
    (.ok, { s with server, id := syncId s.id server }, w)
  | (o, w) => (o, s, w)

/-! ## Client-side operations (`ClientSessionState`, `ClientSessionStateMut`) -/

def clientGet (k : κ) (s : Sess κ ν) : Option ν :=
  if s.invalidated then none else Map.lookup s.client.state k

def clientIsEmpty (s : Sess κ ν) : Bool :=
  if s.invalidated then true else s.client.state.isEmpty

def clientInsert (k : κ) (v : ν) (s : Sess κ ν) : Option ν × Sess κ ν :=
  if s.invalidated then (none, s)
  else (Map.lookup s.client.state k, { s with client := .updated (Map.insert s.client.state k v) })

def clientRemove (k : κ) (s : Sess κ ν) : Option ν × Sess κ ν :=
  if s.invalidated then (none, s)
  else match s.client with
    | .updated st => (Map.lookup st k, { s with client := .updated (Map.erase st k) })
    | .unchanged st =>
      match Map.lookup st k with
      | none => (none, s)
      | some v => (some v, { s with client := .updated (Map.erase st k) })

def clientClear (s : Sess κ ν) : Sess κ ν :=
  if s.invalidated then s
  else match s.client with
    | .updated _ => { s with client := .updated [] }
    | .unchanged st => if st.isEmpty then s else { s with client := .updated [] }

/-! ## `finalize` and `finalize_session` -/

/-- `FinalizeError`. -/
inductive FinErr | sync (e : SyncErr) | encryptionRequired | cryptoRequired deriving DecidableEq, Repr

/-- What the response carries for the session. -/
inductive Fin (κ ν : Type) where
  | set (id : Nat) (client : Map κ ν)
  | removal
  | none
  | err (e : FinErr)
  | panic
  deriving Repr, DecidableEq

/-- `Session::finalize`. -/
def finalize (cfg : Config) (s : Sess κ ν) (w : World κ ν) : Fin κ ν × Sess κ ν × World κ ν :=
  match sync cfg s w with
  | (.err e, s, w) => (.err (.sync e), s, w)
  | (.panic, s, w) => (.panic, s, w)
  | (.ok, s, w) =>
    if s.invalidated then
      match s.id.oldId with
      | none => (.none, s, w)
      | some _ => (.removal, s, w)
    else
      match s.server with
      | some .markedForDeletion => (.panic, s, w)
      | some (.changed _) => (.panic, s, w)
      | server =>
        let recordExists := match server with
          | some .doesNotExist => false
          | _ => true
        if s.client.state.isEmpty && s.id.oldId.isNone && !recordExists then (.none, s, w)
        else (.set s.id.newId s.client.state, s, w)

/-- `Processor::will_encrypt(cookie.name())`: the rule table is keyed by the *raw* name here. -/
def willEncrypt (cfg : Config) : Bool := decide (cfg.crypto.alg = .encrypt) && decide (cfg.crypto.ruleName = cfg.cookie.name)

/-- `Processor::will_sign(cookie.name())`. -/
def willSign (cfg : Config) : Bool := decide (cfg.crypto.alg = .sign) && decide (cfg.crypto.ruleName = cfg.cookie.name)

/-- `finalize_session` (middleware.rs): `must_encrypt` is read *before* `finalize`. -/
def finalizeSession (cfg : Config) (s : Sess κ ν) (w : World κ ν) : Fin κ ν × Sess κ ν × World κ ν :=
  let mustEncrypt := !clientIsEmpty s
  match finalize cfg s w with
  | (.set id c, s, w) =>
    if mustEncrypt && !willEncrypt cfg then (.err .encryptionRequired, s, w)
    else if !(willEncrypt cfg || willSign cfg) then (.err .cryptoRequired, s, w)
    else (.set id c, s, w)
  | (.removal, s, w) =>
    if mustEncrypt && !willEncrypt cfg then (.err .encryptionRequired, s, w)
    else if !(willEncrypt cfg || willSign cfg) then (.err .cryptoRequired, s, w)
    else (.removal, s, w)
  | r => r

/-! ## Cookie attributes (`finalize`) and what the processor really does on the way out -/

structure Attrs where
  name : String
  domain : Option String
  path : Option String
  secure : Bool
  httpOnly : Bool
  sameSite : Option SameSite
  maxAge : Option Nat
  deriving DecidableEq, Repr

/-- Attributes of the value cookie built by `finalize`. -/
def setAttrs (cfg : Config) : Attrs :=
  { name := cfg.cookie.name, domain := cfg.cookie.domain, path := cfg.cookie.path,
    secure := cfg.cookie.secure, httpOnly := cfg.cookie.httpOnly, sameSite := cfg.cookie.sameSite,
    maxAge := if cfg.cookie.kind = .persistent then some cfg.ttl else none }

/-- What biscotti writes into `Set-Cookie` for that cookie: `finalize` only ever calls
    `set_secure(true)`, and an unset `secure` is rendered as `Secure` when `SameSite=None`. -/
def wireAttrs (cfg : Config) : Attrs :=
  { setAttrs cfg with secure := cfg.cookie.secure || decide (cfg.cookie.sameSite = some .none) }

/-- Attributes of the removal cookie built by `finalize` (name, domain, path only). -/
def removalAttrs (cfg : Config) : Attrs :=
  { name := cfg.cookie.name, domain := cfg.cookie.domain, path := cfg.cookie.path,
    secure := false, httpOnly := false, sameSite := none, maxAge := none }

/-- A cookie in `ResponseCookies`. -/
inductive OutCookie (κ ν : Type) where
  | value (id : Nat) (client : Map κ ν) (attrs : Attrs)
  | removal (attrs : Attrs)

/-- `response_cookies` after `finalize_session`: the only `insert` is on the success path. -/
def respond {κ ν : Type} (cfg : Config) (rc : List (OutCookie κ ν)) : Fin κ ν → List (OutCookie κ ν)
  | .set id c => rc ++ [.value id c (setAttrs cfg)]
  | .removal => rc ++ [.removal (removalAttrs cfg)]
  | _ => rc

def hexDigit (n : Nat) : Char := if n < 10 then Char.ofNat (48 + n) else Char.ofNat (55 + n)

/-- biscotti `encoding.rs`: the `COOKIE` percent-encode set (controls, non-ASCII, and the listed ASCII). -/
def needsPct (b : UInt8) : Bool :=
  b < 0x20 || b ≥ 0x7f || " \"<>`#?{}/:;=@[\\]^|%(),".toUTF8.toList.contains b

def pctEncode (s : String) : String :=
  String.join (s.toUTF8.toList.map fun b =>
    if needsPct b then String.ofList ['%', hexDigit (b.toNat / 16), hexDigit (b.toNat % 16)]
    else String.ofList [Char.ofNat b.toNat])

/-- The cookie name as it travels (`Processor::process_outgoing`, first step). -/
def wireName (cfg : Config) : String :=
  if cfg.crypto.percentEncode then pctEncode cfg.cookie.name else cfg.cookie.name

/-- `Processor::process_outgoing`: the name is percent-encoded *first*, the rule is looked up under
    the encoded name; only the rule's *primary* (algorithm, key) is used on the way out. -/
def outgoingAlg (cfg : Config) : Alg :=
  if cfg.crypto.alg ≠ .none ∧ cfg.crypto.ruleName = wireName cfg then cfg.crypto.alg else .none

/-! ## Cookies on the wire, and what a (possibly different) processor reads back

The processor of a deployment changes over time (key / algorithm rotation with fallbacks), the
cookies that are out there do not. A `Token` is a cookie as the client holds it: the name it
travels under, how its value is protected and with which key, and the payload (`wire.rs`:
session id + client-side state). The AEAD / HMAC themselves are not modelled: a value protected
with (algorithm, key) is readable by exactly the (algorithm, key) configurations. -/

structure Token (κ ν : Type) where
  wireName : String
  prot : Alg
  key : Nat
  /-- a plain value is percent-encoded iff the issuing processor had `percent_encode` on -/
  pctValue : Bool
  id : Nat
  client : Map κ ν
  deriving Repr

/-- What `inject_response_cookies` sends for the value cookie built by `finalize`. -/
def issue {κ ν : Type} (cfg : Config) (id : Nat) (client : Map κ ν) : Token κ ν :=
  { wireName := wireName cfg, prot := outgoingAlg cfg, key := cfg.crypto.key,
    pctValue := cfg.crypto.percentEncode, id, client }

def hexVal (b : UInt8) : Option Nat :=
  let n := b.toNat
  if 48 ≤ n ∧ n ≤ 57 then some (n - 48)
  else if 65 ≤ n ∧ n ≤ 70 then some (n - 55)
  else if 97 ≤ n ∧ n ≤ 102 then some (n - 87)
  else none

/-- `percent_encoding::percent_decode`: `%XY` with two hex digits is one byte, any other `%` is literal. -/
def pctDecodeBytes : List UInt8 → List UInt8
  | [] => []
  | b :: tail =>
    if b = 37 then
      match tail with
      | h :: l :: rest =>
        match hexVal h, hexVal l with
        | some x, some y => UInt8.ofNat (x * 16 + y) :: pctDecodeBytes rest
        | _, _ => b :: pctDecodeBytes (h :: l :: rest)
      | t => b :: pctDecodeBytes t
    else b :: pctDecodeBytes tail
termination_by structural l => l

/-- `percent_decode(..).decode_utf8()`: `none` = `DecodingError`. -/
def pctDecode (s : String) : Option String :=
  String.fromUTF8? (ByteArray.mk (pctDecodeBytes s.toUTF8.toList).toArray)

/-- `Processor::process_incoming`, name part: percent-decoded iff `percent_encode` is on. -/
def readName (cr : Crypto) (wire : String) : Option String :=
  if cr.percentEncode then pctDecode wire else some wire

/-- `self.rules.get(name)`: the (algorithm, key) configurations tried on an incoming cookie of that
    (wire) name: the primary first, then the fallbacks. -/
def ruleFor (cr : Crypto) (name : String) : Option (List (Alg × Nat)) :=
  if cr.alg ≠ .none ∧ cr.ruleName = name then some ((cr.alg, cr.key) :: cr.fallbacks) else none

/-- `Processor::process_incoming`, value part. Under a rule the value must verify / decrypt with
    one of the rule's configurations (a plain value never does: it is not base64). Without a rule
    the value is taken as it is (percent-decoded iff `percent_encode` is on; decoding a value that
    was not encoded is assumed to be the identity: the JSON payload contains no `%XY`), and a
    signed / encrypted value is not a JSON document. -/
def valueReadable {κ ν : Type} (cr : Crypto) (t : Token κ ν) : Bool :=
  match ruleFor cr t.wireName with
  | some cands => t.prot != .none && cands.any (fun c => c.1 == t.prot && c.2 == t.key)
  | none => t.prot == .none && (!t.pctValue || cr.percentEncode)

/-- `extract_request_cookies` ; `IncomingSession::extract`: the session a processor (not
    necessarily the one that issued the cookie) reads out of the cookie the client sends. A cookie
    that fails is skipped: the request starts without a session. -/
def accept {κ ν : Type} (cfg : Config) (t : Token κ ν) : Option (Nat × Map κ ν) :=
  if valueReadable cfg.crypto t && readName cfg.crypto t.wireName == some cfg.cookie.name
  then some (t.id, t.client) else none

/-! ## Debug (`impl Debug for Session`) -/

/-- Everything the manual `Debug` impl prints: the id field is replaced by a constant. -/
structure DebugView (κ ν : Type) where
  id : String
  server : Option (Srv κ ν)
  client : Cli κ ν
  invalidated : Bool

def debugView (s : Sess κ ν) : DebugView κ ν :=
  { id := "**redacted**", server := s.server, client := s.client, invalidated := s.invalidated }

/-! ## Requests and histories -/

/-- One call on the public API. -/
inductive Op (κ ν : Type) where
  | get (k : κ) | insert (k : κ) (v : ν) | remove (k : κ) | isEmpty | clear
  | delete | cycle | invalidate | isInvalidated | sync | forceLoad
  | cGet (k : κ) | cIsEmpty | cInsert (k : κ) (v : ν) | cRemove (k : κ) | cClear
  deriving Repr

/-- One operation on the session of the current request. -/
def step (cfg : Config) (rem : Nat) (op : Op κ ν) (s : Sess κ ν) (w : World κ ν) : Res ν × Sess κ ν × World κ ν :=
  match op with
  | .get k => getRaw cfg rem k s w
  | .insert k v => insertRaw cfg rem k v s w
  | .remove k => removeRaw cfg rem k s w
  | .isEmpty => isEmpty cfg rem s w
  | .clear => clear cfg rem s w
  | .delete => (.unit, delete s, w)
  | .cycle => let (s, w) := cycleId s w; (.unit, s, w)
  | .invalidate => (.unit, invalidate s, w)
  | .isInvalidated => (.bool s.invalidated, s, w)
  | .sync =>
    match sync cfg s w with
    | (.ok, s, w) => (.syncOk, s, w)
    | (.err e, s, w) => (.syncErr e, s, w)
    | (.panic, s, w) => (.panic, s, w)
  | .forceLoad => let (s, w) := forceLoad cfg rem s w; (.unit, s, w)
  | .cGet k => (.val (clientGet k s), s, w)
  | .cIsEmpty => (.bool (clientIsEmpty s), s, w)
  | .cInsert k v => let (r, s) := clientInsert k v s; (.val r, s, w)
  | .cRemove k => let (r, s) := clientRemove k s; (.val r, s, w)
  | .cClear => (.unit, clientClear s, w)

def Res.isPanic {ν} : Res ν → Bool
  | .panic => true
  | _ => false

/-- The operations of one request, in order; a panic ends the request (no result for that call). -/
def runOps (cfg : Config) (rem : Nat) : List (Op κ ν) → Sess κ ν → World κ ν → List (Res ν) × Option (Sess κ ν) × World κ ν
  | [], s, w => ([], some s, w)
  | op :: ops, s, w =>
    match step cfg rem op s w with
    | (.panic, _, w) => ([], none, w)
    | (r, s, w) =>
      let (rs, s', w') := runOps cfg rem ops s w
      (r :: rs, s', w')

/-- `Session::new` ; operations ; `finalize_session`. -/
def runRequest (cfg : Config) (rem : Nat) (incoming : Option (Nat × Map κ ν)) (ops : List (Op κ ν)) (w : World κ ν) :
    List (Res ν) × Fin κ ν × World κ ν :=
  let (s, w) := newSession incoming w
  match runOps cfg rem ops s w with
  | (rs, none, w) => (rs, .panic, w)
  | (rs, some s, w) =>
    let (f, _, w) := finalizeSession cfg s w
    (rs, f, w)

/-- Where the session of a request comes from: the cookie in the client's jar, no cookie, a
    replayed older cookie, or — bypassing cookies — `IncomingSession::from_parts` with the id of
    the `j`-th issued cookie and an arbitrary client-side state. -/
inductive Src (κ ν : Type) where
  | jar | none | issued (j : Nat) | parts (j : Nat) (client : Map κ ν)
  deriving Repr

/-- One request. `crypto = some p`: the processor in force for this request (rotation between
    requests of a history); `none`: the one of the history's configuration. -/
structure Req (κ ν : Type) where
  src : Src κ ν
  expire : Bool
  rem : Nat
  ops : List (Op κ ν)
  crypto : Option Crypto := none

/-- The configuration in force for one request. -/
def reqCfg (cfg : Config) : Option Crypto → Config
  | some cr => { cfg with crypto := cr }
  | none => cfg

/-- A client: the cookie it holds now, and every cookie it was ever handed (for replays). -/
structure Client (κ ν : Type) where
  jar : Option (Token κ ν)
  issued : List (Option (Token κ ν))

/-- The cookie the client sends. -/
def sent (c : Client κ ν) : Src κ ν → Option (Token κ ν)
  | .jar => c.jar
  | .none => none
  | .issued j => (c.issued[j]?).join
  | .parts _ _ => none

/-- The `IncomingSession` the request starts with, under the processor in force. -/
def presented (cfg : Config) (c : Client κ ν) (src : Src κ ν) : Option (Nat × Map κ ν) :=
  match src with
  | .parts j cli => ((c.issued[j]?).join).map fun t => (t.id, cli)
  | src => (sent c src).bind (accept cfg)

/-- What the client holds after the response (a cookie the server did not replace stays). -/
def afterResponse (cfg : Config) (held : Option (Token κ ν)) : Fin κ ν → Option (Token κ ν)
  | .set id cli => some (issue cfg id cli)
  | .removal => none
  | _ => held

def issuedBy (cfg : Config) : Fin κ ν → Option (Token κ ν)
  | .set id cli => some (issue cfg id cli)
  | _ => none

/-- External expiry of the presented session's record (between requests). -/
def expire (pres : Option (Nat × Map κ ν)) (w : World κ ν) : World κ ν :=
  match pres with
  | some (id, _) => { w with store := Map.erase w.store id }
  | none => w

structure ReqOut (κ ν : Type) where
  /-- the configuration (with the processor) that was in force for this request -/
  cfg : Config
  incoming : Option Nat
  res : List (Res ν)
  fin : Fin κ ν
  log : List (LogE κ ν)
  store : Map Nat (Rec κ ν)

/-- A whole history: the cookie set by one response is what later requests present — to whatever
    processor is in force then. -/
def runHistory (cfg : Config) : List (Req κ ν) → Client κ ν → World κ ν → List (ReqOut κ ν)
  | [], _, _ => []
  | rq :: rest, c, w =>
    let cfg' := reqCfg cfg rq.crypto
    let pres := presented cfg' c rq.src
    let w := if rq.expire then expire pres w else w
    let w := { w with log := [] }
    let (rs, f, w) := runRequest cfg' rq.rem pres rq.ops w
    let c' : Client κ ν := { jar := afterResponse cfg' (sent c rq.src) f, issued := c.issued ++ [issuedBy cfg' f] }
    { cfg := cfg', incoming := pres.map (·.1), res := rs, fin := f, log := w.log, store := w.store } :: runHistory cfg rest c' w

def World.init : World κ ν := { store := [], nextId := 0, log := [] }
def Client.init : Client κ ν := { jar := none, issued := [] }

end
end Pxv.Session
