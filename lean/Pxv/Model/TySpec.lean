import Pxv.Model.Ty
/-
Specification vocabulary for C17 (not a model of any Rust item): the erasures in terms of which
"up to lifetime names" and "differ only in lifetimes and generic parameter names" are stated, and the
order on bindings. No Mathlib.
-/
namespace Pxv.Ty

mutual
/-- Forgets every lifetime (reference lifetimes and lifetime arguments), the parameter names of
    function-pointer types (`fn(a: u8)` and `fn(u8)` are the same type) and the rustdoc id of paths
    (`_is_a_resolved_path_type_template_for` destructures it as `rustdoc_id: _` on purpose).
    Everything else — mutability of references and pointers included — is kept. -/
def eraseLt : Ty → Ty
  | .path al p _ bs as => .path al p none bs (eraseLtArgs as)
  | .ref m _ t => .ref m .elided (eraseLt t)
  | .tuple es => .tuple (eraseLtTys es)
  | .scalar s => .scalar s
  | .slice e => .slice (eraseLt e)
  | .array e n => .array (eraseLt e) n
  | .rawPtr m t => .rawPtr m (eraseLt t)
  | .fnPtr ins out abi u => .fnPtr (eraseLtIns ins) (eraseLtO out) abi u
  | .generic x => .generic x
def eraseLtArgs : GArgs → GArgs
  | .nil => .nil
  | .ty t r => .ty (eraseLt t) (eraseLtArgs r)
  | .lt _ r => .lt .inferred (eraseLtArgs r)
  | .const v r => .const v (eraseLtArgs r)
def eraseLtTys : Tys → Tys
  | .nil => .nil
  | .cons t r => .cons (eraseLt t) (eraseLtTys r)
def eraseLtIns : FnIns → FnIns
  | .nil => .nil
  | .cons _ t r => .cons none (eraseLt t) (eraseLtIns r)
def eraseLtO : OTy → OTy
  | .none => .none
  | .some t => .some (eraseLt t)
end

mutual
/-- Forgets every lifetime, function-pointer parameter names and the *names* of generic parameters;
    keeps everything else (package id, rustdoc id, path, arity and kind of every argument, mutability,
    array lengths, ABI, …). -/
def skeleton : Ty → Ty
  | .path al p i bs as => .path al p i bs (skeletonArgs as)
  | .ref m _ t => .ref m .elided (skeleton t)
  | .tuple es => .tuple (skeletonTys es)
  | .scalar s => .scalar s
  | .slice e => .slice (skeleton e)
  | .array e n => .array (skeleton e) n
  | .rawPtr m t => .rawPtr m (skeleton t)
  | .fnPtr ins out abi u => .fnPtr (skeletonIns ins) (skeletonO out) abi u
  | .generic _ => .generic ""
def skeletonArgs : GArgs → GArgs
  | .nil => .nil
  | .ty t r => .ty (skeleton t) (skeletonArgs r)
  | .lt _ r => .lt .inferred (skeletonArgs r)
  | .const v r => .const v (skeletonArgs r)
def skeletonTys : Tys → Tys
  | .nil => .nil
  | .cons t r => .cons (skeleton t) (skeletonTys r)
def skeletonIns : FnIns → FnIns
  | .nil => .nil
  | .cons _ t r => .cons none (skeleton t) (skeletonIns r)
def skeletonO : OTy → OTy
  | .none => .none
  | .some t => .some (skeleton t)
end

mutual
/-- Like `skeleton`, but remembers which lifetimes are `'static` (canonicalisation keeps those). -/
def ltSkeleton : Ty → Ty
  | .path al p i bs as => .path al p i bs (ltSkeletonArgs as)
  | .ref m l t => .ref m (if l = .static then .static else .elided) (ltSkeleton t)
  | .tuple es => .tuple (ltSkeletonTys es)
  | .scalar s => .scalar s
  | .slice e => .slice (ltSkeleton e)
  | .array e n => .array (ltSkeleton e) n
  | .rawPtr m t => .rawPtr m (ltSkeleton t)
  | .fnPtr ins out abi u => .fnPtr (ltSkeletonIns ins) (ltSkeletonO out) abi u
  | .generic _ => .generic ""
def ltSkeletonArgs : GArgs → GArgs
  | .nil => .nil
  | .ty t r => .ty (ltSkeleton t) (ltSkeletonArgs r)
  | .lt l r => .lt (if l = .static then .static else .inferred) (ltSkeletonArgs r)
  | .const v r => .const v (ltSkeletonArgs r)
def ltSkeletonTys : Tys → Tys
  | .nil => .nil
  | .cons t r => .cons (ltSkeleton t) (ltSkeletonTys r)
def ltSkeletonIns : FnIns → FnIns
  | .nil => .nil
  | .cons _ t r => .cons none (ltSkeleton t) (ltSkeletonIns r)
def ltSkeletonO : OTy → OTy
  | .none => .none
  | .some t => .some (ltSkeleton t)
end

mutual
/-- The type as `render_type` shows it: the first segment of every path replaced by the crate name
    that `id2name` gives for its package id. `none` where the real code panics (unknown package id,
    empty path). -/
def relabel (lk : List (String × String)) : Ty → Option Ty
  | .path al p i bs as =>
      match crateOf lk p with
      | none => none
      | some cn =>
        match bs with
        | [] => none
        | _ :: tail =>
          match relabelArgs lk as with
          | some as' => some (.path al p i (cn :: tail) as')
          | none => none
  | .ref m l t => match relabel lk t with
      | some t' => some (.ref m l t')
      | none => none
  | .tuple es => match relabelTys lk es with
      | some es' => some (.tuple es')
      | none => none
  | .scalar s => some (.scalar s)
  | .slice e => match relabel lk e with
      | some e' => some (.slice e')
      | none => none
  | .array e n => match relabel lk e with
      | some e' => some (.array e' n)
      | none => none
  | .rawPtr m t => match relabel lk t with
      | some t' => some (.rawPtr m t')
      | none => none
  | .fnPtr ins out abi u =>
      match relabelIns lk ins with
      | some ins' =>
        match relabelO lk out with
        | some out' => some (.fnPtr ins' out' abi u)
        | none => none
      | none => none
  | .generic x => some (.generic x)
def relabelArgs (lk : List (String × String)) : GArgs → Option GArgs
  | .nil => some .nil
  | .ty t r => match relabel lk t with
      | some t' => match relabelArgs lk r with
        | some r' => some (.ty t' r')
        | none => none
      | none => none
  | .lt l r => match relabelArgs lk r with
      | some r' => some (.lt l r')
      | none => none
  | .const v r => match relabelArgs lk r with
      | some r' => some (.const v r')
      | none => none
def relabelTys (lk : List (String × String)) : Tys → Option Tys
  | .nil => some .nil
  | .cons t r => match relabel lk t with
      | some t' => match relabelTys lk r with
        | some r' => some (.cons t' r')
        | none => none
      | none => none
def relabelIns (lk : List (String × String)) : FnIns → Option FnIns
  | .nil => some .nil
  | .cons n t r => match relabel lk t with
      | some t' => match relabelIns lk r with
        | some r' => some (.cons n t' r')
        | none => none
      | none => none
def relabelO (lk : List (String × String)) : OTy → Option OTy
  | .none => some .none
  | .some t => match relabel lk t with
      | some t' => some (.some t')
      | none => none
end

mutual
/-- Every path has at least two segments (crate + item). -/
def longPaths : Ty → Bool
  | .path _ _ _ bs as => decide (2 ≤ bs.length) && longPathsArgs as
  | .ref _ _ t => longPaths t
  | .tuple es => longPathsTys es
  | .scalar _ => true
  | .slice e => longPaths e
  | .array e _ => longPaths e
  | .rawPtr _ t => longPaths t
  | .fnPtr ins out _ _ => longPathsIns ins && longPathsO out
  | .generic _ => true
def longPathsArgs : GArgs → Bool
  | .nil => true
  | .ty t r => longPaths t && longPathsArgs r
  | .lt _ r => longPathsArgs r
  | .const _ r => longPathsArgs r
def longPathsTys : Tys → Bool
  | .nil => true
  | .cons t r => longPaths t && longPathsTys r
def longPathsIns : FnIns → Bool
  | .nil => true
  | .cons _ t r => longPaths t && longPathsIns r
def longPathsO : OTy → Bool
  | .none => true
  | .some t => longPaths t
end

/-- `b'` extends `b`: every binding of `b` is a binding of `b'`. -/
def BLe (b b' : List (String × Ty)) : Prop := ∀ x v, bget b x = some v → bget b' x = some v

end Pxv.Ty
