import Pxv.Model.Borrow
/-
`complex_borrow_check` (compiler/pavexc/src/compiler/analyses/call_graph/borrow_checker/complex.rs), the third
clone-insertion pass of pavexc's borrow checker, mirrored statement by statement on abstract call graphs:
 * `Own`            ↔ `OwnershipRelationships` (ownership_relationship.rs): who borrows from whom, who consumes whom;
 * `Cx.visit`       ↔ the body of the `'visiting` loop (one node popped from `nodes_to_visit`);
 * `Cx.visiting`    ↔ the `'visiting` loop;
 * `Cx.endRound`    ↔ the tail of one iteration of `'fixed_point` (`Ctl.next` of Model/Borrow.lean, with the repair 819c099);
 * `complexCheck`   ↔ `complex_borrow_check`.
The pass depends on the order in which petgraph lists the dependencies of a node (`neighbors_directed(n, Incoming)`: the
adjacency list, most recently added edge first) and on `IndexSet::pop` (last element first). Both are mirrored: the edge
list of the model is kept in insertion order per destination (`predsAdj` reverses it), `insertClone` appends, exactly as
`update_edge` pushes a new edge to the front of the adjacency list and `remove_edge` keeps the order of the others.
Import-free.
-/
namespace Pxv.CG
open Graph

/-- ↔ `neighbors_directed(n, Incoming)` on a petgraph `Graph`: newest edge first. -/
def predsAdj (g : Graph) (n : Nat) : List Nat := ((g.inEdges n).map (·.src)).reverse

/-- ↔ collecting into an `IndexSet`: first occurrence wins, order kept. -/
def dedup (l : List Nat) : List Nat := union [] l

/-- ↔ `OwnershipRelationships` (`node_id2consumed_ids` is never read by the pass and is left out). -/
structure Own where
  /-- node → the nodes it borrows from (↔ `node_id2borrowed_ids`) -/
  borrowed : List (Nat × List Nat) := []
  /-- node → the nodes that borrow from it (↔ `node_id2borrower_ids`) -/
  borrowers : List (Nat × List Nat) := []
  /-- node → the nodes that take it by value (↔ `node_id2consumer_ids`) -/
  consumers : List (Nat × List Nat) := []
  deriving Repr, DecidableEq

namespace Own

/-- ↔ `self.node(n).borrows(b)` -/
def addBorrow (o : Own) (n b : Nat) : Own :=
  { o with borrowed := setKey o.borrowed n (union (lookup o.borrowed n) [b]),
           borrowers := setKey o.borrowers b (union (lookup o.borrowers b) [n]) }

/-- ↔ `self.node(n).consumes(d)` -/
def addConsume (o : Own) (n d : Nat) : Own :=
  { o with consumers := setKey o.consumers d (union (lookup o.consumers d) [n]) }

/-- ↔ `self.node(n).is_borrowed()` -/
def isBorrowed (o : Own) (n : Nat) : Bool := !(lookup o.borrowers n).isEmpty

/-- ↔ `self.node(d).is_consumed_by(c)` -/
def isConsumedBy (o : Own) (d c : Nat) : Bool := (lookup o.consumers d).contains c

/-- ↔ `self.node(n).remove_all_borrows()` -/
def removeAllBorrows (o : Own) (n : Nat) : Own :=
  { o with borrowers := (lookup o.borrowed n).foldl (fun m b => setKey m b ((lookup m b).filter (· != n))) o.borrowers,
           borrowed := setKey o.borrowed n [] }

/-- ↔ `self.node(d).remove_consumer(c)` -/
def removeConsumer (o : Own) (d c : Nat) : Own :=
  { o with consumers := setKey o.consumers d ((lookup o.consumers d).filter (· != c)) }

/-- ↔ `OwnershipRelationships::compute(call_graph, node2captured_nodes)` -/
def compute (g : Graph) (cap : List (Nat × List Nat)) : Own :=
  let o := g.edges.foldl (fun (o : Own) e => match e.kind with
    | .shared => o.addBorrow e.dst e.src
    | .excl => o.addBorrow e.dst e.src
    | .move => o.addConsume e.dst e.src
    | .before => o) {}
  g.edges.foldl (fun (o : Own) e =>
    if e.kind == .before then o
    else (lookup cap e.src).foldl (fun (o : Own) c => if c != e.dst then o.addBorrow e.dst c else o) o) o

end Own

/-- the local variables of `complex_borrow_check` -/
structure Cx where
  g : Graph
  own : Own
  /-- `nodes_to_visit` (an `IndexSet`; `pop` takes the last element) -/
  toVisit : List Nat
  parked : List Nat := []
  finished : List Nat := []
  /-- `strategy_on_block`, `unblocked_any_node`, `n_parked_nodes` -/
  ctl : Ctl := {}
  /-- one entry per call of `emit_borrow_checking_error`: the node, and the contended inputs it was called with -/
  diags : List (Nat × List Nat) := []
  /-- the model's fuel ran out (the correspondence check requires that it never does) -/
  fuelOut : Bool := false
  deriving Repr, DecidableEq

namespace Cx

/-- ↔ the `partition` predicate: `n` wants to take `p` by value while somebody still borrows it (Copy values never block). -/
def blocked (s : Cx) (n p : Nat) : Bool :=
  s.own.isConsumedBy p n && s.own.isBorrowed p && !(s.g.node p).copy

/-- ↔ the `StrategyOnBlock::Clone` arm for the first contended input that may be cloned. -/
def cloneFor (s : Cx) (n b : Nat) : Cx :=
  let r := insertClone s.g b n
  { s with g := r.1, ctl := { s.ctl with flag := true },
           own := ((s.own.addConsume n r.2).removeConsumer b n).addBorrow r.2 b }

/-- ↔ one iteration of `'visiting` for the node `n` just popped; the flag says `break 'visiting`. -/
def visit (s : Cx) (n : Nat) : Cx × Bool :=
  let ps := dedup (predsAdj s.g n)
  let bl := ps.filter (s.blocked n)
  let un := ps.filter (fun p => !s.blocked n p)
  let s := { s with toVisit := union s.toVisit (un.filter (fun p => !(s.finished.contains p || s.parked.contains p))) }
  if bl.isEmpty then ({ s with own := s.own.removeAllBorrows n, finished := union s.finished [n] }, false)
  else match s.ctl.strat with
    | .park => ({ s with parked := union s.parked [n] }, false)
    | .clone =>
      let s := match bl.find? (fun b => (s.g.node b).cloneable) with
        | some b => s.cloneFor n b
        | none => s
      let s := { s with parked := union s.parked [n] }
      (s, s.ctl.flag)
    | .error => ({ s with diags := s.diags ++ [(n, bl)] }, false)

/-- ↔ `'visiting: while let Some(node_index) = nodes_to_visit.pop()` -/
def visiting : Nat → Cx → Cx
  | 0, s => { s with fuelOut := true }
  | fuel + 1, s =>
    match s.toVisit.getLast? with
    | none => s
    | some n =>
      let r := ({ s with toVisit := s.toVisit.dropLast }).visit n
      if r.2 then r.1 else visiting fuel r.1

/-- ↔ the tail of one iteration of `'fixed_point`; `none` = `break 'fixed_point`. -/
def endRound (s : Cx) : Option Cx :=
  (s.ctl.next true s.parked.length false).map (fun c =>
    { s with ctl := c, toVisit := union s.toVisit s.parked, parked := [] })

def visitFuel (g : Graph) : Nat := 4 * (g.size + 1) * (g.size + 1)

/-- ↔ `'fixed_point: loop` -/
def loop : Nat → Cx → Cx
  | 0, s => { s with fuelOut := true }
  | fuel + 1, s =>
    let s := visiting (visitFuel s.g) s
    match s.endRound with
    | none => s
    | some s' => loop fuel s'

/-- the state the pass starts from: every sink is to be visited (↔ `externals(Outgoing)`, by increasing index). -/
def init (g : Graph) : Cx := { g := g, own := Own.compute g (captured g), toVisit := g.sinks }

end Cx

def roundFuel (g : Graph) : Nat := 8 * (g.size + g.edges.length + 2)

/-- ↔ `complex_borrow_check` -/
def complexCheck (g : Graph) : Cx := Cx.loop (roundFuel g) (Cx.init g)

end Pxv.CG
