import Pxv.Model.Pipeline
/-
The error path of what pavexc generates (property C06).

Three layers, each mirroring one part of the compiler:

(1) registration  ↔ compiler/pavexc/src/compiler/analyses/user_components/blueprint.rs
      (`_process_blueprint`: `current_middleware_chain`, `current_observer_chain`, both snapshotted when a
      blueprint is nested) and components/db/mod.rs (`attach_missing_error_handlers`,
      `process_error_handlers`) + error_handlers.rs (`ErrorHandlersDb::get_or_try_bind`: the scope of the
      *fallible component*, then its parents): `routes`, `designate`.
(2) one call graph ↔ call_graph/core_graph.rs (`build_call_graph`: Ok/Err matchers as transformers,
      `pavex::Error::new`, the error handler and its `IntoResponse` child, the `'observers` splice,
      `inject_match_branching_nodes`, `enforce_invariants`) and call_graph/codegen.rs
      (`_codegen_callable_closure_body`: basic blocks delimited by `MatchBranching` nodes, one arm per variant,
      `Err(e) => return { .. }`) + codegen_utils.rs (`codegen_call_block`: a callable without output is not
      bound to a variable, its call is inlined in front of the node it must happen before): `splice`,
      `injectBranching`, `exec`.
(3) the pipeline  ↔ processing_pipeline/codegen.rs (the stage functions): `runStage`.
Import-free (core only, plus the C05 pipeline model).
-/
namespace Pxv.Err
open Pxv.Pipe (Mw MwKind Stage Mid)

/-! ## (2) call graphs -/

/-- ↔ `CallGraphEdgeMetadata`. -/
inductive EK where
  | move | shared | excl | before
  deriving Repr, DecidableEq

/-- What a node of a call graph stands for (↔ `CallGraphNode` + the component behind a `Compute` node). -/
inductive Kind where
  | ctor (i : Nat)        -- a user constructor
  | handler (i : Nat)     -- the request handler (root of its graph)
  | mw (i : Nat)          -- a pre / post / wrapping middleware (root of its graph)
  | noop                  -- `pavex::middleware::wrap_noop` (root of the first stage)
  | okMatch | errMatch    -- `MatchResult` transformers
  | errorNew              -- `pavex::Error::new`
  | eh (k : Nat)          -- a user error handler
  | ehDefault             -- `pavex::Error::to_response`
  | observer (o : Nat)    -- an error observer (no output)
  | intoResponse          -- `IntoResponse::into_response`
  | earlyReturn           -- `Processing::EarlyReturn(..)` (pre-processing closures)
  | branch                -- `CallGraphNode::MatchBranching`
  | input                 -- `CallGraphNode::InputParameter`
  | other                 -- `Next::new`, the `Next` state, `Clone::clone`, ...
  deriving Repr, DecidableEq

structure Edge where
  src : Nat
  dst : Nat
  kind : EK
  deriving Repr, DecidableEq

/-- An *ordered* call graph: node `n` is the node at position `n` (↔ `OrderedCallGraph`). -/
structure Graph where
  nodes : List Kind
  edges : List Edge
  deriving Repr, DecidableEq

namespace Graph

def size (g : Graph) : Nat := g.nodes.length
def kind (g : Graph) (n : Nat) : Kind := g.nodes.getD n .other
def succs (g : Graph) (n : Nat) : List Nat := (g.edges.filter (·.src == n)).map (·.dst)
def preds (g : Graph) (n : Nat) : List Nat := (g.edges.filter (·.dst == n)).map (·.src)
/-- ↔ `get_node_type_inputs`: the nodes whose value `n` takes as argument. -/
def dataPreds (g : Graph) (n : Nat) : List Nat :=
  (g.edges.filter (fun e => e.dst == n && e.kind != .before)).map (·.src)
/-- the nodes that take the value of `n` as an argument -/
def dataSuccs (g : Graph) (n : Nat) : List Nat :=
  (g.edges.filter (fun e => e.src == n && e.kind != .before)).map (·.dst)
/-- ↔ `get_node_happen_befores`, sorted by node index. -/
def befores (g : Graph) (n : Nat) : List Nat :=
  (List.range g.size).filter (fun p => g.edges.any (fun e => e.src == p && e.dst == n && e.kind == .before))
/-- every edge goes forward (what `order` guarantees). -/
def ordered (g : Graph) : Bool := g.edges.all (fun e => decide (e.src < e.dst) && decide (e.dst < g.size))

/-- nodes reachable from `frontier` (↔ `Dfs`). -/
def reachFrom (g : Graph) : Nat → List Nat → List Nat → List Nat
  | 0, _, seen => seen
  | fuel + 1, frontier, seen =>
    let next := ((frontier.flatMap g.succs).filter (fun n => !seen.contains n)).eraseDups
    if next.isEmpty then seen else reachFrom g fuel next (seen ++ next)

def desc (g : Graph) (n : Nat) : List Nat := reachFrom g g.size [n] [n]
def reaches (g : Graph) (a b : Nat) : Bool := (g.desc a).contains b
/-- ↔ `compute_reachability_map`: the terminal nodes reachable from `n`. -/
def sinksOf (g : Graph) (n : Nat) : List Nat := (g.desc n).filter (fun m => (g.succs m).isEmpty)
def shares (g : Graph) (a b : Nat) : Bool := (g.sinksOf a).any (g.sinksOf b).contains
/-- the `MatchBranching` nodes among the ancestors of `t`. -/
def branchAnc (g : Graph) (t : Nat) : List Nat :=
  (List.range g.size).filter (fun b => g.kind b == .branch && b != t && g.reaches b t)

end Graph

/-- components that produce no value: their call is not bound to a variable (↔ `output_type().is_none()`). -/
def isUnit : Kind → Bool
  | .observer _ => true
  | _ => false

/-- nodes that `_codegen_callable_closure_body` does not turn into a statement of their own. -/
def isStructural : Kind → Bool
  | .branch | .okMatch | .errMatch => true
  | _ => false

def isMatcher : Kind → Bool
  | .okMatch | .errMatch => true
  | _ => false

/-- every matcher hangs off one node only (its `MatchBranching` node). -/
def oneParent (g : Graph) : Bool :=
  (List.range g.size).all (fun m => !isMatcher (g.kind m) || decide ((g.edges.filter (·.dst == m)).length ≤ 1))

inductive Ev where
  /-- the component behind node `n` was invoked and returned normally -/
  | call (n : Nat) (k : Kind)
  /-- the fallible component behind node `n` was invoked and returned `Err` -/
  | fail (n : Nat) (k : Kind)
  deriving Repr, DecidableEq

def Ev.node : Ev → Nat
  | .call n _ => n
  | .fail n _ => n

def Ev.kind : Ev → Kind
  | .call _ k => k
  | .fail _ k => k

/-- the happens-before predecessors of `n` that have no output: their calls are inlined in front of `n`. -/
def unitBefores (g : Graph) (n : Nat) : List Nat := (g.befores n).filter (fun p => isUnit (g.kind p))

/-- the calls inlined in front of a node: its happens-before predecessors that have no output, each preceded
    by its own (↔ the `before_block` of `codegen_call_block`). -/
def frag (g : Graph) : Nat → Nat → List Ev
  | 0, _ => []
  | fuel + 1, n => (unitBefores g n).flatMap (fun p => frag g fuel p ++ [Ev.call p (g.kind p)])

/-- components that can return `Err` -/
def canFail : Kind → Bool
  | .ctor _ | .handler _ | .mw _ => true
  | _ => false

structure St where
  /-- nodes for which a code fragment exists (↔ `blocks`) -/
  bound : List Nat := []
  /-- the nodes whose statement ran, in order (callables without output run where they are inlined) -/
  ran : List Nat := []
  /-- the `Err` matchers whose arm was entered -/
  errs : List Nat := []
  /-- the matchers whose arm was entered -/
  chosen : List Nat := []
  /-- code generation would have panicked (a fragment was missing) -/
  stuck : Bool := false
  deriving Repr, DecidableEq

/-- the invocation of the component behind node `n` -/
def evAt (g : Graph) (fails : Kind → Bool) (n : Nat) : Ev :=
  if canFail (g.kind n) && fails (g.kind n) then Ev.fail n (g.kind n) else Ev.call n (g.kind n)

/-- what running the statement of node `n` logs: the inlined calls, then the component itself. -/
def emit (g : Graph) (fails : Kind → Bool) (n : Nat) : List Ev := frag g g.size n ++ [evAt g fails n]

/-- everything that ran, in order -/
def outOf (g : Graph) (fails : Kind → Bool) (st : St) : List Ev := st.ran.flatMap (emit g fails)

/-- emit the statement for node `n` (↔ the `Compute` / `InputParameter` arms of the visitor loop):
    every fragment it refers to must exist; a callable without output is only recorded. -/
def step (g : Graph) (st : St) (n : Nat) : St :=
  let k := g.kind n
  if isStructural k then st
  else if (g.dataPreds n).all st.bound.contains && (g.befores n).all st.bound.contains then
    if isUnit k then { st with bound := n :: st.bound }
    else { st with bound := n :: st.bound, ran := st.ran ++ [n] }
  else { st with stuck := true }

def dedup (l : List Nat) : List Nat := l.foldl (fun acc x => if acc.contains x then acc else acc ++ [x]) []

/-- ↔ the neighbours `BasicBlockVisitor::next` pushes: incoming and outgoing, any edge kind -/
def nbrs (g : Graph) (n : Nat) : List Nat := g.preds n ++ g.succs n

/-- ↔ the filter on those neighbours, for the block that ends in `s`: not beyond `s`, no other
    `MatchBranching` node, and able to reach a terminal `s` can reach. -/
def allowed (g : Graph) (s n : Nat) : Bool :=
  decide (n ≤ s) && (g.kind n != .branch || n == s) && g.shares n s

/-- the nodes the visitor discovers from `s`: connected to it through allowed nodes, whatever the
    direction of the edges (nodes that already have a fragment are walked through as well). -/
def compFrom (g : Graph) (s : Nat) : Nat → List Nat → List Nat → List Nat
  | 0, _, seen => seen
  | fuel + 1, frontier, seen =>
    let next := dedup ((frontier.flatMap (nbrs g)).filter (fun n => allowed g s n && !seen.contains n))
    if next.isEmpty then seen else compFrom g s fuel next (seen ++ next)

def component (g : Graph) (s : Nat) : List Nat := compFrom g s g.size [s] [s]

def minOf : List Nat → Option Nat
  | [] => none
  | a :: l => some (l.foldl Nat.min a)

/-- the node whose `Result` a `MatchBranching` node inspects -/
def scrutinee (g : Graph) (b : Nat) : Option Nat := (g.dataPreds b).head?

/-- ↔ `_codegen_callable_closure_body`, executed: run the basic block that ends in the first pending
    `MatchBranching` ancestor of the target (or in the target itself) — the nodes `BasicBlockVisitor`
    discovers from it that have no fragment yet, as statements sorted by position — then the arm the outcome
    selects. -/
def exec (g : Graph) (fails : Kind → Bool) : Nat → List Nat → List Nat → St → St × Option Nat
  | 0, _, _, st => ({ st with stuck := true }, none)
  | fuel + 1, targets, fin, st =>
    match minOf targets with
    | none => ({ st with stuck := true }, none)
    | some t =>
      let s := (minOf ((g.branchAnc t).filter (fun b => !fin.contains b))).getD t
      let blk := (List.range (s + 1)).filter (fun n => !fin.contains n && (component g s).contains n)
      let st := blk.foldl (step g) st
      if g.kind s == .branch then
        match scrutinee g s with
        | none => ({ st with stuck := true }, none)
        | some x =>
          if !(g.dataPreds s).all st.bound.contains then ({ st with stuck := true }, none) else
          let failed := fails (g.kind x)
          let want := if failed then Kind.errMatch else Kind.okMatch
          match (g.succs s).find? (fun v => g.kind v == want) with
          | none => ({ st with stuck := true }, none)
          | some v =>
            let tg := targets.filter (g.sinksOf v).contains
            let tg := if tg.isEmpty then g.sinksOf v else tg
            exec g fails fuel tg (fin ++ blk)
              { st with bound := v :: s :: st.bound, chosen := v :: st.chosen,
                        errs := if failed then v :: st.errs else st.errs }
      else if st.bound.contains s then (st, some s)
      else ({ st with stuck := true }, none)

/-- the terminal of the happy path: the sink below the root on the `Ok` side
    (↔ the `new_root_index` computed at the end of `build_call_graph`). -/
def happySink (g : Graph) (root : Nat) : List Nat :=
  let start :=
    match (g.succs root).find? (fun b => g.kind b == .branch) with
    | some b => ((g.succs b).find? (fun v => g.kind v == .okMatch)).getD root
    | none => root
  g.sinksOf start

def findRoot (g : Graph) : Option Nat :=
  (List.range g.size).find? (fun n => match g.kind n with
    | .handler _ | .mw _ | .noop => true
    | _ => false)

/-- run the generated closure of one middleware / handler. -/
def runGraph (g : Graph) (fails : Kind → Bool) : St × Option Nat :=
  match findRoot g with
  | none => ({ stuck := true }, none)
  | some r => exec g fails (g.size + 1) (happySink g r) [] {}

/-! ### graph construction: the observer splice and the branching nodes -/

def addNode (g : Graph) (k : Kind) : Graph × Nat := ({ g with nodes := g.nodes ++ [k] }, g.size)
def addEdge (g : Graph) (s d : Nat) (k : EK) : Graph := { g with edges := g.edges ++ [⟨s, d, k⟩] }

def isEh : Kind → Bool
  | .eh _ | .ehDefault => true
  | _ => false

/-- ↔ the search for the `pavex::Error::new` node of an error handler: a child of the `Err` matcher the
    handler hangs off, or the handler's own parent. -/
def errorNewOf (g : Graph) (h : Nat) : Option Nat :=
  match (g.preds h).find? (fun p => g.kind p == .errMatch) with
  | some m => (g.succs m).find? (fun c => c != h)
  | none => (g.preds h).find? (fun p => g.kind p == .errorNew)

/-- attach the chain of observers to one error handler (↔ the body of the `for error_observer_id` loop). -/
def attachObservers (g : Graph) (enew child : Nat) : List Nat → Option Nat → Graph
  | [], prev =>
    match prev with
    | some p => addEdge g p child .before
    | none => g
  | o :: rest, prev =>
    let (g, n) := addNode g (.observer o)
    let g := match prev with
      | some p => addEdge g p n .before
      | none => g
    let g := addEdge g enew n .shared
    attachObservers g enew child rest (some n)

/-- ↔ the `'observers` block of `build_call_graph` for the error handler nodes `hs`. -/
def splice (obs : List Nat) : Graph → List Nat → Graph
  | g, [] => g
  | g, h :: hs =>
    if obs.isEmpty then g else
    match (g.succs h).head?, errorNewOf g h with
    | some child, some enew => splice obs (attachObservers g enew child obs (some h)) hs
    | _, _ => splice obs g hs

def ehNodes (g : Graph) : List Nat := (List.range g.size).filter (fun n => isEh (g.kind n))

def spliceAll (obs : List Nat) (g : Graph) : Graph := splice obs g (ehNodes g)

/-- ↔ `inject_match_branching_nodes` for the fallible node `x`: its two matchers now hang off a new
    `MatchBranching` node. -/
def injectOne (g : Graph) (x : Nat) : Graph :=
  let ms := (g.succs x).filter (fun m => g.kind m == .okMatch || g.kind m == .errMatch)
  if ms.length != 2 then g else
  let (g1, b) := addNode g .branch
  let kept := g1.edges.filter (fun e => !(e.src == x && ms.contains e.dst))
  let g2 := { g1 with edges := kept }
  let g3 := ms.foldl (fun acc m => addEdge acc b m .move) g2
  addEdge g3 x b .move

def fallibleNodes (g : Graph) : List Nat :=
  (List.range g.size).filter (fun x => (g.succs x).any (fun m => g.kind m == .errMatch) && g.kind x != .branch)

def injectBranching (g : Graph) : Graph := (fallibleNodes g).foldl injectOne g

def countKind (g : Graph) (p : Kind → Bool) : Nat := (g.nodes.filter p).length

def isObserver : Kind → Bool
  | .observer _ => true
  | _ => false

/-- the matchers hanging directly off a fallible node (before the branching injection) -/
def matcherSuccs (g : Graph) (x : Nat) : List Nat :=
  (g.succs x).filter (fun m => g.kind m == .okMatch || g.kind m == .errMatch)

/-- what the splice and the injection expect of the graph the fixed point of `build_call_graph` hands
    them: every edge joins two nodes; no observer or branching node yet; every error handler has a child
    (its `IntoResponse`, not a matcher) and — if there are observers to attach — a `pavex::Error::new`;
    every fallible node has its two matchers;
    one error handler per fallible node. -/
def spliceReady (g : Graph) (withObservers : Bool) : Bool :=
  g.edges.all (fun e => decide (e.src < g.size) && decide (e.dst < g.size)) &&
  countKind g isObserver == 0 && countKind g (· == .branch) == 0 &&
  (ehNodes g).all (fun x => decide (x < g.size) && (g.succs x).head?.isSome &&
    (!withObservers || (errorNewOf g x).isSome) &&
    (match (g.succs x).head? with
     | some c => g.kind c != .errMatch
     | none => true)) &&
  (fallibleNodes g).all (fun x => (matcherSuccs g x).length == 2) &&
  (ehNodes g).length == (fallibleNodes g).length

/-- ↔ `enforce_invariants`. -/
def invariantHolds (g : Graph) (nObs : Nat) : Bool :=
  countKind g isObserver == countKind g (· == .branch) * nObs

/-! ### the shape of an error arm, as a checkable predicate -/

/-- the chain of output-less nodes that must happen before `n`, first one first, as long as it is a chain. -/
def chainOf (g : Graph) : Nat → Nat → List Nat
  | 0, _ => []
  | fuel + 1, n =>
    match unitBefores g n with
    | [p] => chainOf g fuel p ++ [p]
    | _ => []

def observerId : Kind → Option Nat
  | .observer o => some o
  | _ => none

/-- The error arm below the `MatchBranching` node `b` has the shape the splice is meant to produce for
    the handler `hk` and the observers `obs`: one `Err` matcher; one handler, fed either by the matcher
    (specific) or by the one `pavex::Error::new`; the handler's single child is its `IntoResponse`;
    the observers, in order, each borrow the `pavex::Error`, are chained by happens-before edges and the
    last one happens before the `IntoResponse`; and every observer of the graph that borrows this
    `pavex::Error` is in the chain. The conversion into `pavex::Error` is there exactly when somebody
    consumes it: the handler (`upcast`: it works with `pavex::Error`) or an observer
    (↔ `register_error_new_transformer` + the scope / observer filter of `build_call_graph`). -/
def armShape (g : Graph) (b : Nat) (hk : Kind) (upcast : Bool) (obs : List Nat) : Bool :=
  match (g.succs b).filter (fun v => g.kind v == .errMatch) with
  | [m] =>
    let hs := (List.range g.size).filter (fun h => g.kind h == hk && isEh hk &&
      ((g.dataPreds h).contains m ||
        (g.dataPreds h).any (fun e => g.kind e == .errorNew && (g.dataPreds e).contains m)))
    match hs with
    | [h] =>
      match g.dataSuccs h with
      | [ir] =>
        let chain := chainOf g g.size ir
        let enews := (g.succs m).filter (fun e => g.kind e == .errorNew)
        g.kind ir == .intoResponse &&
        chain.map (fun o => observerId (g.kind o)) == obs.map some &&
        enews.length == (if upcast || !obs.isEmpty then 1 else 0) &&
        (if upcast then (g.dataPreds h).any enews.contains else (g.dataPreds h).contains m) &&
        chain.all (fun o => enews.all (fun e => (g.dataPreds o).contains e) && g.succs o != []) &&
        ((List.range g.size).filter (fun o => isUnit (g.kind o) &&
            (g.dataPreds o).any enews.contains)).all chain.contains
      | _ => false
    | _ => false
  | _ => false

/-- the `Err` matchers an error handler takes its error from: directly, or through `pavex::Error::new`. -/
def ehMatchers (g : Graph) (h : Nat) : List Nat :=
  (g.dataPreds h).filter (fun m => g.kind m == .errMatch) ++
  ((g.dataPreds h).filter (fun e => g.kind e == .errorNew)).flatMap
    (fun e => (g.dataPreds e).filter (fun m => g.kind m == .errMatch))

/-- the nodes `t` is computed from (through arguments). -/
def ancFrom (g : Graph) : Nat → List Nat → List Nat → List Nat
  | 0, _, seen => seen
  | fuel + 1, frontier, seen =>
    let next := dedup ((frontier.flatMap g.dataPreds).filter (fun n => !seen.contains n))
    if next.isEmpty then seen else ancFrom g fuel next (seen ++ next)

def dataAnc (g : Graph) (t : Nat) : List Nat := ancFrom g g.size [t] [t]

/-- the nodes in front of which calls are inlined although they are the only argument-consumer of the
    error handler `h` -/
def inlinedBelow (g : Graph) (h : Nat) : List Nat :=
  (List.range g.size).filter (fun n => !isUnit (g.kind n) && !(unitBefores g n).isEmpty && g.dataPreds n == [h])

/-- Local well-formedness of the error arms of a call graph (what `build_call_graph` is meant to
    produce; checked on every graph pavexc emits):
    matchers hang off one node; output-less nodes are chained one by one; every error handler takes its
    error from exactly one `Err` matcher and an `Err` matcher feeds at most one handler; calls are only
    inlined in front of a node whose single argument is an error handler, at most once per handler;
    whatever an `Err` arm returns is computed from its handler. -/
def armsWF (g : Graph) : Bool :=
  g.ordered && oneParent g &&
  (List.range g.size).all (fun n => decide ((unitBefores g n).length ≤ 1)) &&
  (List.range g.size).all (fun h => !isEh (g.kind h) || (ehMatchers g h).length == 1) &&
  (List.range g.size).all (fun m => g.kind m != .errMatch ||
    decide (((List.range g.size).filter (fun h => isEh (g.kind h) && (ehMatchers g h).contains m)).length ≤ 1)) &&
  (List.range g.size).all (fun n => isUnit (g.kind n) || (unitBefores g n).isEmpty ||
    (match g.dataPreds n with
     | [h] => isEh (g.kind h) && decide ((inlinedBelow g h).length ≤ 1)
     | _ => false)) &&
  (List.range g.size).all (fun m => g.kind m != .errMatch ||
    ((List.range g.size).filter (fun h => isEh (g.kind h) && (ehMatchers g h).contains m)).all (fun h =>
      (g.sinksOf m).all (fun t => (dataAnc g t).contains h)))

/-! ## (1) registration: chains, scopes and the designated error handler -/

/-- the error a handler is registered for: the one of a constructor / request handler / middleware,
    or `pavex::Error` (the fallback). -/
inductive Target where
  | ctor (i : Nat) | handler (i : Nat) | mw (i : Nat) | any
  deriving Repr, DecidableEq

mutual
  inductive Item where
    | ctor (i : Nat) (direct : Option Nat)
    | mw (m : Mw) (direct : Option Nat)
    | route (h : Nat) (direct : Option Nat)
    | obs (o : Nat)
    | ehReg (k : Nat)
    | nest (b : Bp)
  inductive Bp where
    | nil
    | cons (i : Item) (rest : Bp)
end

structure RouteInfo where
  route : Nat
  chain : List Mw
  observers : List Nat
  /-- the blueprints the route is nested in, outermost first, each identified by its rank among the
      blueprints nested in its parent -/
  path : List Nat
  direct : Option Nat
  deriving Repr, DecidableEq

/-- ↔ `_process_blueprint`: every route with the middleware chain and the observer chain in force when it
    is registered; a nested blueprint starts from a snapshot of both. -/
def routes : Bp → List Mw → List Nat → List Nat → Nat → List RouteInfo
  | .nil, _, _, _, _ => []
  | .cons (.mw m _) rest, c, o, p, k => routes rest (c ++ [m]) o p k
  | .cons (.obs x) rest, c, o, p, k => routes rest c (o ++ [x]) p k
  | .cons (.route h d) rest, c, o, p, k => ⟨h, c, o, p, d⟩ :: routes rest c o p k
  | .cons (.nest b) rest, c, o, p, k => routes b c o (p ++ [k]) 0 ++ routes rest c o p (k + 1)
  | .cons (.ctor _ _) rest, c, o, p, k => routes rest c o p k
  | .cons (.ehReg _) rest, c, o, p, k => routes rest c o p k

/-- the error handlers registered by type directly in the blueprint at `path`, in registration order. -/
def ehRegsAt : Bp → List Nat → Nat → List Nat
  | .nil, _, _ => []
  | .cons (.ehReg x) rest, [], k => x :: ehRegsAt rest [] k
  | .cons (.nest b) rest, q :: qs, k => if q == k then ehRegsAt b qs 0 else ehRegsAt rest (q :: qs) (k + 1)
  | .cons (.nest _) rest, [], k => ehRegsAt rest [] (k + 1)
  | .cons _ rest, p, k => ehRegsAt rest p k

/-- which handler an error of `t`, raised by a component registered in the blueprint at `path`, goes to. -/
inductive Choice where
  | user (k : Nat)
  | default
  deriving Repr, DecidableEq

/-- ↔ `ErrorHandlersDb::get_or_try_bind`: the innermost enclosing blueprint with a handler for `t`
    (the last one registered there wins). -/
def lookupTyped (bp : Bp) (targetOf : Nat → Target) (t : Target) : Nat → List Nat → Option Nat
  | 0, _ => none
  | fuel + 1, path =>
    match ((ehRegsAt bp path 0).filter (fun k => targetOf k == t)).getLast? with
    | some k => some k
    | none => if path.isEmpty then none else lookupTyped bp targetOf t fuel path.dropLast

/-- ↔ `process_error_handlers` (component-specific handler) then `attach_missing_error_handlers`: the
    handler for the concrete error type visible from the component's scope, else the user's handler for
    `pavex::Error` visible from there, else the framework's. -/
def designate (bp : Bp) (targetOf : Nat → Target) (t : Target) (path : List Nat) (direct : Option Nat) : Choice :=
  match direct with
  | some k => .user k
  | none =>
    match lookupTyped bp targetOf t (path.length + 1) path with
    | some k => .user k
    | none =>
      match lookupTyped bp targetOf .any (path.length + 1) path with
      | some k => .user k
      | none => .default

def Choice.kind : Choice → Kind
  | .user k => .eh k
  | .default => .ehDefault

/-! ## (3) the pipeline -/

inductive PEv where
  | ctor (i : Nat)
  | failCtor (i : Nat) | failHandler (i : Nat) | failMw (i : Nat)
  | eh (k : Nat)
  | observer (o : Nat)
  | pre (m : Nat) | early (m : Nat) | post (m : Nat)
  | wrapStart (m : Nat) | wrapEnd (m : Nat)
  | handler (h : Nat)
  deriving Repr, DecidableEq

/-- everything the pipeline needs to know about one application and one request -/
structure Env where
  /-- the ordered call graph of the closure generated for a middleware / the handler / `wrap_noop` -/
  graphOf : Kind → Graph
  fails : Kind → Bool
  early : Nat → Bool
  status : Nat → Nat

/-- how a closure ended: normally, or through an `Err` arm with the response of an error handler -/
inductive Outcome where
  | ok
  | err (status : Nat)
  deriving Repr, DecidableEq

/-- the status of the response an error handler produces (the framework's handler: 500) -/
def ehStatus (env : Env) : Kind → Nat
  | .eh k => env.status k
  | _ => 500

/-- the response of the last error handler that ran -/
def lastEhStatus (env : Env) (evs : List Ev) : Option Nat :=
  ((evs.filter (fun e => isEh e.kind)).getLast?).map (fun e => ehStatus env e.kind)

structure Run where
  evs : List Ev
  outcome : Outcome
  stuck : Bool
  deriving Repr, DecidableEq

/-- run the closure generated for the component `k` (a middleware, the handler, `wrap_noop`). -/
def runClosure (env : Env) (k : Kind) : Run :=
  let g := env.graphOf k
  let st := (runGraph g env.fails).1
  let evs := outOf g env.fails st
  ⟨evs, if st.errs.isEmpty then .ok else .err ((lastEhStatus env evs).getD 500), st.stuck⟩

/-- events of the closure other than the call of its root, which the stage semantics expands -/
def evOf : Ev → List PEv
  | .call _ (.ctor i) => [.ctor i]
  | .fail _ (.ctor i) => [.failCtor i]
  | .fail _ (.handler i) => [.failHandler i]
  | .fail _ (.mw i) => [.failMw i]
  | .call _ (.eh k) => [.eh k]
  | .call _ (.observer o) => [.observer o]
  | _ => []

def isRootCall : Ev → Bool
  | .call _ (.handler _) | .call _ (.mw _) | .call _ .noop => true
  | _ => false

/-- the closure's events, with `inner` in place of the call of its root -/
def expand (inner : List PEv) : List Ev → List PEv
  | [] => []
  | e :: rest => (if isRootCall e then inner else evOf e) ++ expand inner rest

def rootCalled (evs : List Ev) : Bool := evs.any isRootCall

structure Res where
  evs : List PEv
  status : Nat
  stuck : Bool
  deriving Repr, DecidableEq

def Outcome.statusOr (o : Outcome) (s : Nat) : Nat :=
  match o with
  | .err e => e
  | .ok => s

/-- pre-processing middlewares of a stage: each closure runs; an `Err` arm or an early return leaves the
    `'incoming` block with a response. Returns the events and `some status` if the block was left. -/
def runPresE (env : Env) : List Nat → List PEv × Option Nat × Bool
  | [] => ([], none, false)
  | p :: ps =>
    let r := runClosure env (.mw p)
    match r.outcome with
    | .err s => (expand [.pre p] r.evs, some s, r.stuck)
    | .ok =>
      if env.early p then (expand [.pre p, .early p] r.evs, some 202, r.stuck)
      else
        let rest := runPresE env ps
        (expand [.pre p] r.evs ++ rest.1, rest.2.1, r.stuck || rest.2.2)

/-- post-processing middlewares: each closure receives the current response. -/
def runPostsE (env : Env) : List Nat → Nat → List PEv × Nat × Bool
  | [], s => ([], s, false)
  | q :: qs, s =>
    let r := runClosure env (.mw q)
    let rest := runPostsE env qs (r.outcome.statusOr s)
    (expand [.post q] r.evs ++ rest.1, rest.2.1, r.stuck || rest.2.2)

/-- the middle of a stage: the closure of the handler, or of a wrapping middleware that runs the
    remaining stages (`inner`) where it awaits `next`. -/
def runMid (env : Env) (mid : Mid) (inner : Unit → Res) : Res :=
  match mid with
  | .handler h =>
    let r := runClosure env (.handler h)
    ⟨expand [.handler h] r.evs, r.outcome.statusOr 200, r.stuck⟩
  | .wrap w =>
    let r := runClosure env (.mw w)
    if rootCalled r.evs then
      let i := inner ()
      ⟨expand ([.wrapStart w] ++ i.evs ++ [.wrapEnd w]) r.evs, r.outcome.statusOr i.status, r.stuck || i.stuck⟩
    else ⟨expand [] r.evs, r.outcome.statusOr 0, r.stuck⟩

/-- ↔ the stage functions: `'incoming: { pres; middle }` then the posts. -/
def runStagesE (env : Env) : List Stage → Res
  | [] => ⟨[], 0, true⟩
  | s :: rest =>
    let pres := runPresE env s.pres
    let mid : Res :=
      match pres.2.1 with
      | some status => ⟨[], status, false⟩
      | none => runMid env s.mid (fun _ => runStagesE env rest)
    let posts := runPostsE env s.posts mid.status
    ⟨pres.1 ++ mid.evs ++ posts.1, posts.2.1, pres.2.2 || mid.stuck || posts.2.2⟩

/-- ↔ the `entrypoint` stage: the closure of the synthetic `wrap_noop` middleware pavexc puts first (it
    owns no pre/post-processing; what it builds are the request-scoped values shared by later stages),
    then the stages C05's `stages` describes. -/
def runRoute (env : Env) (chain : List Mw) (h : Nat) : Res :=
  let r := runClosure env .noop
  if rootCalled r.evs then
    let i := runStagesE env (Pxv.Pipe.stages chain h)
    ⟨expand i.evs r.evs, r.outcome.statusOr i.status, r.stuck || i.stuck⟩
  else ⟨expand [] r.evs, r.outcome.statusOr 0, r.stuck⟩

end Pxv.Err
