import Pxv.Model.Ty
/-
A reader for the grammar that `Type::render_into` (render.rs) emits with `PathStyle::Direct` and
`LifetimeStyle::Preserve` (`display_for_error`; `render_type` differs only in the first path segment).
The real code reads rendered types back with `syn::parse_str` (`Type::syn_type`); this parser is the
model-side statement of "the rendered source determines the type". No Mathlib.
-/
namespace Pxv.Ty

def isIdChar (c : Char) : Bool := c.isAlphanum || c == '_'
def isIdStart (c : Char) : Bool := c.isAlpha || c == '_'

/-- Keywords (strict, reserved and weak ones that `syn` refuses as identifiers). -/
def reserved : List String :=
  ["as", "break", "const", "continue", "crate", "else", "enum", "extern", "false", "fn", "for", "if", "impl",
   "in", "let", "loop", "match", "mod", "move", "mut", "pub", "ref", "return", "self", "Self", "static",
   "struct", "super", "trait", "true", "type", "unsafe", "use", "where", "while", "async", "await", "dyn",
   "abstract", "become", "box", "do", "final", "macro", "override", "priv", "typeof", "unsized", "virtual",
   "yield", "try", "gen"]

def allScalars : List Scalar :=
  [.usize, .u8, .u16, .u32, .u64, .u128, .isize, .i8, .i16, .i32, .i64, .i128, .f32, .f64, .bool, .char, .str]

def allAbis : List Abi :=
  [.c false, .c true, .cdecl false, .cdecl true, .stdcall false, .stdcall true, .fastcall false, .fastcall true,
   .aapcs false, .aapcs true, .win64 false, .win64 true, .sysv64 false, .sysv64 true, .system false, .system true]

/-- A Rust identifier that is not a keyword. -/
def isIdent (s : String) : Bool :=
  (match s.toList with
   | [] => false
   | c :: r => isIdStart c && r.all isIdChar) && s != "_" && !reserved.contains s

def isScalarName (s : String) : Bool := allScalars.any (fun x => x.name == s)

def wfLt : Lt → Bool
  | .named n => isIdent n
  | _ => true

def wfGLt : GLt → Bool
  | .named n => isIdent n
  | _ => true

def wfConst (v : String) : Bool :=
  v == "true" || v == "false" || (v.toList != [] && v.toList.all Char.isDigit)

def wfAbi : Abi → Bool
  | .other s => s.toList.all (fun c => isIdChar c || c == '-') && !allAbis.any (fun a => a.str? == some s)
  | _ => true

mutual
/-- The types for which `parse (render t) = strip t` is claimed. -/
def wf : Ty → Bool
  | .path _ _ _ bs as => decide (2 ≤ bs.length) && bs.all isIdent && wfArgs as
  | .ref _ l t => wfLt l && wf t
  | .tuple es => wfTys es
  | .scalar _ => true
  | .slice e => wf e
  | .array e _ => wf e
  | .rawPtr _ t => wf t
  | .fnPtr ins out abi _ => wfAbi abi && wfIns ins && wfO out
  | .generic x => isIdent x && !isScalarName x
def wfArgs : GArgs → Bool
  | .nil => true
  | .ty t r => wf t && wfArgs r
  | .lt l r => wfGLt l && wfArgs r
  | .const v r => wfConst v && wfArgs r
def wfTys : Tys → Bool
  | .nil => true
  | .cons t r => wf t && wfTys r
def wfIns : FnIns → Bool
  | .nil => true
  | .cons n t r => (match n with | some x => isIdent x | none => true) && wf t && wfIns r
def wfO : OTy → Bool
  | .none => true
  | .some t => wf t
end

mutual
/-- What the rendered source keeps of a type: no package id, no rustdoc id, aliases print as paths. -/
def strip : Ty → Ty
  | .path _ _ _ bs as => .path false "" none bs (stripArgs as)
  | .ref m l t => .ref m l (strip t)
  | .tuple es => .tuple (stripTys es)
  | .scalar s => .scalar s
  | .slice e => .slice (strip e)
  | .array e n => .array (strip e) n
  | .rawPtr m t => .rawPtr m (strip t)
  | .fnPtr ins out abi u => .fnPtr (stripIns ins) (stripO out) abi u
  | .generic x => .generic x
def stripArgs : GArgs → GArgs
  | .nil => .nil
  | .ty t r => .ty (strip t) (stripArgs r)
  | .lt l r => .lt l (stripArgs r)
  | .const v r => .const v (stripArgs r)
def stripTys : Tys → Tys
  | .nil => .nil
  | .cons t r => .cons (strip t) (stripTys r)
def stripIns : FnIns → FnIns
  | .nil => .nil
  | .cons n t r => .cons n (strip t) (stripIns r)
def stripO : OTy → OTy
  | .none => .none
  | .some t => .some (strip t)
end

/-! ### The parser -/

/-- Longest prefix satisfying `p`, and the rest. -/
def spanP (p : Char → Bool) : List Char → List Char × List Char
  | [] => ([], [])
  | c :: cs => if p c then ((c :: (spanP p cs).1), (spanP p cs).2) else ([], c :: cs)

def dropPrefix? : List Char → List Char → Option (List Char)
  | [], s => some s
  | _ :: _, [] => none
  | p :: ps, c :: cs => if p = c then dropPrefix? ps cs else none

def digitsVal (ds : List Char) : Nat := ds.foldl (fun acc c => acc * 10 + (c.toNat - 48)) 0

def scalarOfName (w : List Char) : Option Scalar := allScalars.find? (fun s => s.name.toList == w)

def abiOfStr (w : List Char) : Abi :=
  match allAbis.find? (fun a => a.str? == some (String.ofList w)) with
  | some a => a
  | none => .other (String.ofList w)

def ltOfName (w : List Char) : Lt :=
  if w == "static".toList then .static else if w == "_".toList then .inferred else .named (String.ofList w)

def gltOfName (w : List Char) : GLt :=
  if w == "static".toList then .static else if w == "_".toList then .inferred else .named (String.ofList w)

/-- `('::' ident)*`. -/
def parseSegs : Nat → List Char → List String × List Char
  | 0, s => ([], s)
  | f + 1, s =>
    match s with
    | ':' :: ':' :: r =>
        let p := spanP isIdChar r
        if p.1 = [] then ([], s) else
        let q := parseSegs f p.2
        (String.ofList p.1 :: q.1, q.2)
    | _ => ([], s)

/-- The lifetime of a reference, with its trailing blank; nothing = elided. -/
def parseRefLt (s : List Char) : Option (Lt × List Char) :=
  match s with
  | '\'' :: r =>
      let p := spanP isIdChar r
      if p.1 = [] then none else
      match p.2 with
      | ' ' :: r2 => some (ltOfName p.1, r2)
      | _ => none
  | _ => some (.elided, s)

/-- `('extern "' abi '" ')? 'fn('` -/
def parseAbiFn (s : List Char) : Option (Abi × List Char) :=
  let a : Option (Abi × List Char) := match dropPrefix? "extern \"".toList s with
    | some r =>
        let p := spanP (fun c => c != '"') r
        match dropPrefix? "\" ".toList p.2 with
        | some r1 => some (abiOfStr p.1, r1)
        | none => none
    | none => some (.rust, s)
  match a with
  | none => none
  | some (abi, s2) =>
    match dropPrefix? "fn(".toList s2 with
    | none => none
    | some r => some (abi, r)

/-- `('unsafe ')? ('extern "' abi '" ')? 'fn('` -/
def parseFnPrefix (s : List Char) : Option ((Bool × Abi) × List Char) :=
  match dropPrefix? kwUnsafe s with
  | some r =>
      match parseAbiFn r with
      | some (abi, r1) => some ((true, abi), r1)
      | none => none
  | none =>
      match parseAbiFn s with
      | some (abi, r1) => some ((false, abi), r1)
      | none => none

def startsWithRParen : List Char → Bool
  | ')' :: _ => true
  | _ => false

/-- One generic argument. -/
inductive PArg where
  | ty (t : Ty) | lt (l : GLt) | const (v : String)

def PArg.cons : PArg → GArgs → GArgs
  | .ty t, r => .ty t r
  | .lt l, r => .lt l r
  | .const v, r => .const v r

mutual
def parseTy : Nat → List Char → Option (Ty × List Char)
  | 0, _ => none
  | f + 1, s =>
    match s with
    | '&' :: r =>
        match parseRefLt r with
        | none => none
        | some (l, r1) =>
          let p := spanP isIdChar r1
          if p.1 = "mut".toList then
            match p.2 with
            | ' ' :: r2 =>
                match parseTy f r2 with
                | some (t, r3) => some (.ref true l t, r3)
                | none => none
            | _ => none
          else
            match parseTy f r1 with
            | some (t, r3) => some (.ref false l t, r3)
            | none => none
    | '(' :: r =>
        match r with
        | ')' :: r1 => some (.tuple .nil, r1)
        | _ =>
          match parseTy f r with
          | none => none
          | some (t, r1) =>
            match parseTysTail f r1 with
            | none => none
            | some (ts, r2) =>
              match ts, r2 with
              | .nil, ',' :: ')' :: r3 => some (.tuple (.cons t .nil), r3)
              | .nil, ')' :: r3 => some (t, r3)   -- a parenthesised type, not a tuple
              | .cons t' ts', ')' :: r3 => some (.tuple (.cons t (.cons t' ts')), r3)
              | _, _ => none
    | '[' :: r =>
        match parseTy f r with
        | none => none
        | some (t, r1) =>
          match r1 with
          | ']' :: r2 => some (.slice t, r2)
          | ';' :: ' ' :: r2 =>
              let p := spanP Char.isDigit r2
              if p.1 = [] then none else
              match p.2 with
              | ']' :: r3 => some (.array t (digitsVal p.1), r3)
              | _ => none
          | _ => none
    | '*' :: r =>
        match dropPrefix? "mut ".toList r with
        | some r1 =>
            match parseTy f r1 with
            | some (t, r2) => some (.rawPtr true t, r2)
            | none => none
        | none =>
          match dropPrefix? "const ".toList r with
          | some r1 =>
              match parseTy f r1 with
              | some (t, r2) => some (.rawPtr false t, r2)
              | none => none
          | none => none
    | _ => parseIdLed f s
/-- A type that starts with an identifier or keyword: scalar, generic parameter, path, fn pointer. -/
def parseIdLed : Nat → List Char → Option (Ty × List Char)
  | 0, _ => none
  | f + 1, s =>
        let p := spanP isIdChar s
        if p.1 = [] then none
        else if p.1 = "unsafe".toList ∨ p.1 = "extern".toList ∨ p.1 = "fn".toList then parseFn f s
        else
          let q := parseSegs p.2.length p.2
          match q.1 with
          | [] =>
              match scalarOfName p.1 with
              | some sc => some (.scalar sc, p.2)
              | none => some (.generic (String.ofList p.1), p.2)
          | seg :: segs =>
              match q.2 with
              | '<' :: r1 =>
                  match parseArg f r1 with
                  | none => none
                  | some (a, r2) =>
                    match parseArgsTail f r2 with
                    | none => none
                    | some (as, r3) =>
                      match r3 with
                      | '>' :: r4 => some (.path false "" none (String.ofList p.1 :: seg :: segs) (a.cons as), r4)
                      | _ => none
              | _ => some (.path false "" none (String.ofList p.1 :: seg :: segs) .nil, q.2)
/-- `(', ' ty)*` -/
def parseTysTail : Nat → List Char → Option (Tys × List Char)
  | 0, _ => none
  | f + 1, s =>
    match s with
    | ',' :: ' ' :: r =>
        match parseTy f r with
        | none => none
        | some (t, r1) =>
          match parseTysTail f r1 with
          | some (ts, r2) => some (.cons t ts, r2)
          | none => none
    | _ => some (.nil, s)
def parseArg : Nat → List Char → Option (PArg × List Char)
  | 0, _ => none
  | f + 1, s =>
    match s with
    | '\'' :: r =>
        let p := spanP isIdChar r
        if p.1 = [] then none else some (.lt (gltOfName p.1), p.2)
    | _ =>
        let d := spanP Char.isDigit s
        if d.1 ≠ [] then some (.const (String.ofList d.1), d.2)
        else
          let p := spanP isIdChar s
          if p.1 = "true".toList ∨ p.1 = "false".toList then some (.const (String.ofList p.1), p.2)
          else
            match parseTy f s with
            | some (t, r) => some (.ty t, r)
            | none => none
/-- `(', ' arg)*` -/
def parseArgsTail : Nat → List Char → Option (GArgs × List Char)
  | 0, _ => none
  | f + 1, s =>
    match s with
    | ',' :: ' ' :: r =>
        match parseArg f r with
        | none => none
        | some (a, r1) =>
          match parseArgsTail f r1 with
          | some (as, r2) => some (a.cons as, r2)
          | none => none
    | _ => some (.nil, s)
/-- `(ident ': ')? ty` -/
def parseIn : Nat → List Char → Option ((Option String × Ty) × List Char)
  | 0, _ => none
  | f + 1, s =>
    let p := spanP isIdChar s
    match dropPrefix? ": ".toList p.2 with
    | some r =>
        if p.1 = [] then none else
        match parseTy f r with
        | some (t, r1) => some ((some (String.ofList p.1), t), r1)
        | none => none
    | none =>
        match parseTy f s with
        | some (t, r1) => some ((none, t), r1)
        | none => none
/-- `(', ' in)*` -/
def parseInsTail : Nat → List Char → Option (FnIns × List Char)
  | 0, _ => none
  | f + 1, s =>
    match s with
    | ',' :: ' ' :: r =>
        match parseIn f r with
        | none => none
        | some (a, r1) =>
          match parseInsTail f r1 with
          | some (as, r2) => some (.cons a.1 a.2 as, r2)
          | none => none
    | _ => some (.nil, s)
/-- `('unsafe ')? ('extern "' abi '" ')? 'fn(' ins ')' (' -> ' ty)?` -/
def parseFn : Nat → List Char → Option (Ty × List Char)
  | 0, _ => none
  | f + 1, s =>
    match parseFnPrefix s with
    | none => none
    | some (ua, r) =>
        let ins : Option (FnIns × List Char) :=
          if startsWithRParen r then some (.nil, r)
          else
            match parseIn f r with
            | none => none
            | some (a, r1) =>
              match parseInsTail f r1 with
              | some (as, r2) => some (.cons a.1 a.2 as, r2)
              | none => none
        match ins with
        | none => none
        | some (is, r1) =>
          match r1 with
          | ')' :: r2 =>
              match dropPrefix? " -> ".toList r2 with
              | some r3 =>
                  match parseTy f r3 with
                  | some (t, r4) => some (.fnPtr is (.some t) ua.2 ua.1, r4)
                  | none => none
              | none => some (.fnPtr is .none ua.2 ua.1, r2)
          | _ => none
end

/-- Reads a rendered type; the whole input must be consumed. -/
def parse (s : List Char) : Option Ty :=
  match parseTy (2 * s.length + 2) s with
  | some (t, []) => some t
  | _ => none

end Pxv.Ty
