/-
Model of pavex's typed request-data extractors (C15), byte level. Import-free.

Mirrors (Rust item in parentheses):
  * `percentDecode`      (percent_encoding::percent_decode, used by
                          runtime/pavex/src/request/path/raw_path_params.rs `EncodedParamValue::decode`)
  * `percentEncode`      (percent_encoding::percent_encode with an `AsciiSet`)
  * `byteSerialize`      (form_urlencoded::byte_serialize)
  * `formPairs`          (form_urlencoded::parse: `&`/`=` split, `+` → space, percent-decode, lossy UTF-8)
  * `utf8Step`/`utf8Valid`/`utf8Lossy` (core::str::from_utf8, String::from_utf8_lossy)
  * `parseUnsigned`/`parseSigned`/`parseBool`/`parseChar` (core `FromStr` impls the extractors call)
  * `matchRoute`         (matchit::Router::at for ONE route made of whole-segment literals / `{p}` / `{*p}`)
  * `pathExtract`        (runtime/pavex/src/request/path/path_params.rs `PathParams::extract` +
                          path/deserializer.rs `PathDeserializer`/`MapDeserializer`/`ValueDeserializer`
                          driving a serde-derived struct visitor)
  * `queryExtract`       (runtime/pavex/src/request/query/query_params.rs `parse` and
                          request/body/url_encoded.rs `parse`: serde_html_form over form_urlencoded)
  * `uriPathOk`/`uriQuery` (http::uri::PathAndQuery::from_shared: which bytes reach the extractor)

Bytes are `Nat`s; theorems that need it assume `< 256`.
-/
namespace Pxv.ReqData

deriving instance DecidableEq for Except

/-! ## percent-encoding -/

def isHex (b : Nat) : Bool :=
  (48 ≤ b && b ≤ 57) || (65 ≤ b && b ≤ 70) || (97 ≤ b && b ≤ 102)

def hexVal (b : Nat) : Nat :=
  if 48 ≤ b ∧ b ≤ 57 then b - 48
  else if 65 ≤ b ∧ b ≤ 70 then b - 55
  else if 97 ≤ b ∧ b ≤ 102 then b - 87
  else 0

/-- `percent_encoding::PercentDecode::next`: `%XY` with two hex digits becomes one byte, any other
    byte (including a `%` not followed by two hex digits) is copied. One pass, never re-scans its
    own output. -/
def percentDecode : List Nat → List Nat
  | [] => []
  | b :: h :: l :: rest =>
    if b = 37 && isHex h && isHex l then (hexVal h * 16 + hexVal l) :: percentDecode rest
    else b :: percentDecode (h :: l :: rest)
  | b :: rest => b :: percentDecode rest

/-- Upper-case hex digit of a nibble (percent_encoding's static table is upper case). -/
def hexUpper (n : Nat) : Nat := if n < 10 then 48 + n else 55 + n

/-- `percent_encode_byte`. -/
def percentEncodeByte (b : Nat) : List Nat := [37, hexUpper (b / 16), hexUpper (b % 16)]

/-- `percent_encode(bytes, set)`: `AsciiSet::should_percent_encode(b) = !b.is_ascii() || set.contains(b)`. -/
def percentEncode (inSet : Nat → Bool) : List Nat → List Nat
  | [] => []
  | b :: bs => (if 128 ≤ b || inSet b then percentEncodeByte b else [b]) ++ percentEncode inSet bs

/-! ## UTF-8 (core::str::validations) -/

def isCont (b : Nat) : Bool := 128 ≤ b && b ≤ 191

/-- Allowed second byte of a 3-byte sequence (excludes overlongs and surrogates). -/
def second3 (b0 b1 : Nat) : Bool :=
  if b0 = 224 then 160 ≤ b1 && b1 ≤ 191
  else if b0 = 237 then 128 ≤ b1 && b1 ≤ 159
  else isCont b1

/-- Allowed second byte of a 4-byte sequence (excludes overlongs and > U+10FFFF). -/
def second4 (b0 b1 : Nat) : Bool :=
  if b0 = 240 then 144 ≤ b1 && b1 ≤ 191
  else if b0 = 244 then 128 ≤ b1 && b1 ≤ 143
  else isCont b1

/-- The well-formed sequence at the head of the input, if any: `(code point, width)`. -/
def utf8Step : List Nat → Option (Nat × Nat)
  | [] => none
  | b0 :: r =>
    if b0 < 128 then some (b0, 1)
    else if 194 ≤ b0 && b0 ≤ 223 then
      match r with
      | b1 :: _ => if isCont b1 then some ((b0 - 192) * 64 + (b1 - 128), 2) else none
      | _ => none
    else if 224 ≤ b0 && b0 ≤ 239 then
      match r with
      | b1 :: b2 :: _ =>
        if second3 b0 b1 && isCont b2 then
          some (((b0 - 224) * 64 + (b1 - 128)) * 64 + (b2 - 128), 3)
        else none
      | _ => none
    else if 240 ≤ b0 && b0 ≤ 244 then
      match r with
      | b1 :: b2 :: b3 :: _ =>
        if second4 b0 b1 && isCont b2 && isCont b3 then
          some ((((b0 - 240) * 64 + (b1 - 128)) * 64 + (b2 - 128)) * 64 + (b3 - 128), 4)
        else none
      | _ => none
    else none

/-- `utf8Decode` with explicit fuel (structural, so the kernel can evaluate it). -/
def utf8DecodeAux : Nat → List Nat → Option (List Nat)
  | _, [] => some []
  | 0, _ :: _ => none
  | fuel + 1, b0 :: r =>
    match utf8Step (b0 :: r) with
    | none => none
    | some (cp, w) =>
      match utf8DecodeAux fuel (r.drop (w - 1)) with
      | none => none
      | some cps => some (cp :: cps)

/-- `str::from_utf8(bs).map(|s| s.chars().collect())`: every step consumes at least one byte, so
    `bs.length` steps always suffice. -/
def utf8Decode (bs : List Nat) : Option (List Nat) := utf8DecodeAux bs.length bs

def utf8Valid (bs : List Nat) : Bool := (utf8Decode bs).isSome

/-- Length (1..3) of the maximal ill-formed prefix that `Utf8Chunks` replaces by ONE U+FFFD,
    for an input on which `utf8Step` fails. -/
def invalidLen : List Nat → Nat
  | [] => 0
  | b0 :: r =>
    if 224 ≤ b0 && b0 ≤ 239 then
      match r with
      | b1 :: _ => if second3 b0 b1 then 2 else 1
      | [] => 1
    else if 240 ≤ b0 && b0 ≤ 244 then
      match r with
      | b1 :: r1 =>
        if second4 b0 b1 then
          match r1 with
          | b2 :: _ => if isCont b2 then 3 else 2
          | [] => 2
        else 1
      | [] => 1
    else 1

/-- `utf8Lossy` with explicit fuel. -/
def utf8LossyAux : Nat → List Nat → List Nat
  | _, [] => []
  | 0, _ :: _ => []
  | fuel + 1, b0 :: r =>
    match utf8Step (b0 :: r) with
    | some (_, w) => (b0 :: r).take w ++ utf8LossyAux fuel (r.drop (w - 1))
    | none => [239, 191, 189] ++ utf8LossyAux fuel (r.drop (invalidLen (b0 :: r) - 1))

/-- `String::from_utf8_lossy` as bytes (U+FFFD = EF BF BD). -/
def utf8Lossy (bs : List Nat) : List Nat := utf8LossyAux bs.length bs

/-- `char::encode_utf8` for a scalar value. -/
def utf8Encode (c : Nat) : List Nat :=
  if c < 128 then [c]
  else if c < 2048 then [192 + c / 64, 128 + c % 64]
  else if c < 65536 then [224 + c / 4096, 128 + c / 64 % 64, 128 + c % 64]
  else [240 + c / 262144, 128 + c / 4096 % 64, 128 + c / 64 % 64, 128 + c % 64]

/-- Unicode scalar value. -/
def isScalar (c : Nat) : Bool := c < 55296 || (57344 ≤ c && c < 1114112)

/-! ## application/x-www-form-urlencoded (form_urlencoded) -/

def plusToSpace (bs : List Nat) : List Nat := bs.map (fun b => if b = 43 then 32 else b)

/-- `form_urlencoded::decode` before the lossy UTF-8 step. -/
def formDecodeBytes (bs : List Nat) : List Nat := percentDecode (plusToSpace bs)

/-- `form_urlencoded::decode`: what the application sees for a raw name or value. -/
def formDecode (bs : List Nat) : List Nat := utf8Lossy (formDecodeBytes bs)

/-- `byte_serialized_unchanged`. -/
def formUnchanged (b : Nat) : Bool :=
  b = 42 || b = 45 || b = 46 || b = 95 || (48 ≤ b && b ≤ 57) || (65 ≤ b && b ≤ 90) || (97 ≤ b && b ≤ 122)

/-- `form_urlencoded::byte_serialize`. -/
def byteSerialize : List Nat → List Nat
  | [] => []
  | b :: bs =>
    (if formUnchanged b then [b] else if b = 32 then [43] else percentEncodeByte b) ++ byteSerialize bs

/-- Splits at every `sep`; always at least one piece. -/
def splitOn (sep : Nat) : List Nat → List (List Nat)
  | [] => [[]]
  | b :: bs =>
    match splitOn sep bs with
    | [] => [[b]]  -- unreachable
    | p :: ps => if b = sep then [] :: p :: ps else (b :: p) :: ps

/-- Splits at the first `sep` (`splitn(2, ..)`); the second part is empty when there is none. -/
def splitFirst (sep : Nat) : List Nat → List Nat × List Nat
  | [] => ([], [])
  | b :: bs =>
    if b = sep then ([], bs)
    else let (k, v) := splitFirst sep bs; (b :: k, v)

/-- `form_urlencoded::Parse` before decoding: non-empty `&`-pieces, each split at its first `=`. -/
def formPairsRaw (bs : List Nat) : List (List Nat × List Nat) :=
  ((splitOn 38 bs).filter (fun p => !p.isEmpty)).map (splitFirst 61)

/-- `form_urlencoded::parse(bs)` collected: decoded name, decoded value. -/
def formPairs (bs : List Nat) : List (List Nat × List Nat) :=
  (formPairsRaw bs).map (fun kv => (formDecode kv.1, formDecode kv.2))

/-- Serialises name/value pairs the way `form_urlencoded::Serializer` does. -/
def formSerialize : List (List Nat × List Nat) → List Nat
  | [] => []
  | [kv] => byteSerialize kv.1 ++ [61] ++ byteSerialize kv.2
  | kv :: rest => byteSerialize kv.1 ++ [61] ++ byteSerialize kv.2 ++ [38] ++ formSerialize rest

/-! ## scalar parsers (core::num / core::str `FromStr`) -/

/-- Value of a run of ASCII digits, `none` on any non-digit. -/
def digitsVal : List Nat → Nat → Option Nat
  | [], acc => some acc
  | b :: bs, acc => if 48 ≤ b ∧ b ≤ 57 then digitsVal bs (acc * 10 + (b - 48)) else none

/-- A non-empty run of ASCII digits whose value is at most `max`. -/
def parseDigits (max : Nat) (ds : List Nat) : Option Nat :=
  if ds.isEmpty then none
  else match digitsVal ds 0 with
    | some n => if n ≤ max then some n else none
    | none => none

def stripPlus : List Nat → List Nat
  | 43 :: rest => rest
  | bs => bs

/-- `uN::from_str`: optional single `+`, at least one digit, value `≤ max`. -/
def parseUnsigned (max : Nat) (bs : List Nat) : Option Nat := parseDigits max (stripPlus bs)

/-- `iN::from_str` for an `N = bits`-bit type: optional `+` or `-`, digits, range check. -/
def parseSigned (bits : Nat) (bs : List Nat) : Option Int :=
  match bs with
  | 45 :: rest => (parseDigits (2 ^ (bits - 1)) rest).map (fun n => -(n : Int))
  | _ => (parseUnsigned (2 ^ (bits - 1) - 1) bs).map (fun n => (n : Int))

/-- `bool::from_str`. -/
def parseBool (bs : List Nat) : Option Bool :=
  if bs = [116, 114, 117, 101] then some true
  else if bs = [102, 97, 108, 115, 101] then some false
  else none

/-- `char::from_str`: exactly one scalar value. -/
def parseChar (bs : List Nat) : Option Nat :=
  match utf8Decode bs with
  | some [c] => some c
  | _ => none

/-- Decimal digits of a natural number (what `Display for uN` prints). -/
def decDigits (n : Nat) : List Nat :=
  if h : n < 10 then [48 + n] else decDigits (n / 10) ++ [48 + n % 10]
termination_by n
decreasing_by omega

/-- `Display for iN`. -/
def intDigits (z : Int) : List Nat :=
  if z < 0 then 45 :: decDigits z.natAbs else decDigits z.natAbs

/-! ## target shapes -/

/-- Scalar field types of the supported subset. -/
inductive STy where
  | u (bits : Nat)      -- u8 … u128
  | i (bits : Nat)      -- i8 … i128
  | bool
  | char
  | string              -- `String`
  | cow                 -- `Cow<'_, str>`
  | strRef              -- `&'_ str` (only deserialisable when no decoding was needed)
  deriving Repr, DecidableEq

inductive Ty where
  | s (t : STy)
  | opt (t : STy)          -- `Option<T>`
  | vec (t : STy)          -- `Vec<T>`
  | vecDefault (t : STy)   -- `#[serde(default)] Vec<T>`
  deriving Repr, DecidableEq

inductive SVal where
  | int (z : Int)
  | bool (b : Bool)
  | char (c : Nat)
  | str (bs : List Nat)
  deriving Repr, DecidableEq

inductive Val where
  | s (v : SVal)
  | none
  | some (v : SVal)
  | seq (vs : List SVal)
  deriving Repr, DecidableEq

structure Field where
  name : List Nat
  ty : Ty
  deriving Repr, DecidableEq

/-- Extraction errors, by documented kind. -/
inductive Err where
  | badUri                                            -- never reaches the extractor (http::Uri rejects it)
  | noMatch                                           -- the router does not select the route
  | invalidUtf8 (key : List Nat)                      -- `ExtractPathParamsError::InvalidUtf8InPathParameter`
  | parseAt (key value : List Nat) (ty : STy)         -- `ErrorKind::ParseErrorAtKey` / html_form parse error
  | unsupported                                       -- `ErrorKind::UnsupportedType`
  | missingField (name : List Nat)                    -- serde `missing field`
  | duplicateField (name : List Nat)                  -- serde `duplicate field`
  | borrowedStr (key : List Nat)                      -- `&str` target but the value had to be decoded
  | multiValue (key : List Nat)                       -- serde_html_form "unsupported value"
  deriving Repr, DecidableEq

/-- Parses one decoded value into a scalar type; `owned` = the decoder had to allocate. -/
def parseScalar (t : STy) (owned : Bool) (v : List Nat) : Option SVal :=
  match t with
  | .u bits => (parseUnsigned (2 ^ bits - 1) v).map (fun n => SVal.int n)
  | .i bits => (parseSigned bits v).map SVal.int
  | .bool => (parseBool v).map SVal.bool
  | .char => (parseChar v).map SVal.char
  | .string => some (.str v)
  | .cow => some (.str v)
  | .strRef => if owned then none else some (.str v)

def lookup (k : List Nat) : List (List Nat × α) → Option α
  | [] => none
  | (k', v) :: rest => if k' = k then some v else lookup k rest

def findField (k : List Nat) : List Field → Option Field
  | [] => none
  | f :: fs => if f.name = k then some f else findField k fs

/-! ## path parameters -/

/-- One segment of a route template. -/
inductive Seg where
  | lit (bs : List Nat)
  | param (name : List Nat)
  | catchAll (name : List Nat)
  deriving Repr, DecidableEq

def joinSlash : List (List Nat) → List Nat
  | [] => []
  | [p] => p
  | p :: ps => p ++ [47] ++ joinSlash ps

/-- matchit, one route: a `{p}` takes one non-empty segment, `{*p}` the non-empty remainder. -/
def matchSegs : List Seg → List (List Nat) → Option (List (List Nat × List Nat))
  | [], [] => some []
  | [.catchAll n], ps => if (joinSlash ps).isEmpty then none else some [(n, joinSlash ps)]
  | .lit l :: ss, p :: ps => if l = p then matchSegs ss ps else none
  | .param n :: ss, p :: ps =>
    if p.isEmpty then none
    else match matchSegs ss ps with
      | some r => some ((n, p) :: r)
      | none => none
  | _, _ => none

def matchRoute (segs : List Seg) (path : List Nat) : Option (List (List Nat × List Nat)) :=
  match path with
  | 47 :: rest => matchSegs segs (splitOn 47 rest)
  | _ => none

/-- Bytes `http::uri::PathAndQuery` accepts in a path (`?`/`#` excluded: they end the path). -/
def uriPathByte (b : Nat) : Bool :=
  b = 33 || (36 ≤ b && b ≤ 59) || b = 61 || (64 ≤ b && b ≤ 95) || (97 ≤ b && b ≤ 122) ||
  b = 124 || b = 126 || b = 34 || b = 123 || b = 125 || (127 ≤ b && b < 256)

def uriPathOk (path : List Nat) : Bool :=
  (match path with | 47 :: _ => true | _ => false) && path.all uriPathByte && utf8Valid path

/-- `PathParams::extract`, first loop: decode every raw value exactly once, stop at the first value
    that is not UTF-8 after decoding. The flag says whether decoding changed anything
    (`Cow::Owned`). -/
def decodeParams : List (List Nat × List Nat) → Except Err (List (List Nat × List Nat × Bool))
  | [] => .ok []
  | (k, raw) :: rest =>
    let d := percentDecode raw
    if utf8Valid d then
      match decodeParams rest with
      | .ok ps => .ok ((k, d, d != raw) :: ps)
      | .error e => .error e
    else .error (.invalidUtf8 k)

/-- `ValueDeserializer` for one field type. -/
def pathField (k : List Nat) (t : Ty) (v : List Nat) (owned : Bool) : Except Err Val :=
  match t with
  | .s st =>
    match parseScalar st owned v with
    | some x => .ok (.s x)
    | none => if st = .strRef then .error (.borrowedStr k) else .error (.parseAt k v st)
  | .opt st =>
    match parseScalar st owned v with
    | some x => .ok (.some x)
    | none => if st = .strRef then .error (.borrowedStr k) else .error (.parseAt k v st)
  | .vec _ => .error .unsupported
  | .vecDefault _ => .error .unsupported

/-- `ValueDeserializer` on one map entry `(decoded value, owned)`. -/
def pathDe (k : List Nat) (t : Ty) (e : List Nat × Bool) : Except Err Val := pathField k t e.1 e.2

/-- The serde-derived `visit_map` loop of a struct, generic in what a map entry carries (`β`) and in
    the deserializer `de` applied to the entry of a known field: keys in input order, unknown keys
    skipped (`IgnoredAny`), a repeated known key is an error *before* its value is looked at. -/
def visitMap {β : Type} (de : List Nat → Ty → β → Except Err Val) (fields : List Field) :
    List (List Nat × β) → List (List Nat × Val) → Except Err (List (List Nat × Val))
  | [], acc => .ok acc
  | (k, e) :: ps, acc =>
    match findField k fields with
    | none => visitMap de fields ps acc
    | some f =>
      match lookup k acc with
      | some _ => .error (.duplicateField k)
      | none =>
        match de k f.ty e with
        | .ok x => visitMap de fields ps (acc ++ [(k, x)])
        | .error e => .error e

/-- After the loop, one field: absent `Option` ⇒ `None`, absent defaulted `Vec` ⇒ empty, any other
    absent field ⇒ `missing field`. -/
def finishOne (acc : List (List Nat × Val)) (f : Field) : Except Err Val :=
  match lookup f.name acc with
  | some v => .ok v
  | none =>
    match f.ty with
    | .opt _ => .ok .none
    | .vecDefault _ => .ok (.seq [])
    | _ => .error (.missingField f.name)

/-- After the loop: fields in declaration order, first failure wins. -/
def finishFields : List Field → List (List Nat × Val) → Except Err (List (List Nat × Val))
  | [], _ => .ok []
  | f :: fs, acc =>
    match finishOne acc f with
    | .error e => .error e
    | .ok v =>
      match finishFields fs acc with
      | .ok r => .ok ((f.name, v) :: r)
      | .error e => .error e

/-- A serde-derived `Deserialize for T` (struct): the `visit_map` loop, then the missing-field pass. -/
def visitStruct {β : Type} (de : List Nat → Ty → β → Except Err Val) (fields : List Field)
    (entries : List (List Nat × β)) : Except Err (List (List Nat × Val)) :=
  match visitMap de fields entries [] with
  | .error e => .error e
  | .ok acc => finishFields fields acc

/-- `PathParams::<T>::extract(RawPathParams)` for a struct `T` with the given fields. -/
def pathExtract (fields : List Field) (params : List (List Nat × List Nat)) :
    Except Err (List (List Nat × Val)) :=
  match decodeParams params with
  | .error e => .error e
  | .ok ps => visitStruct pathDe fields ps

/-- URI check, routing and extraction: what a handler taking `PathParams<T>` observes. -/
def pathRequest (segs : List Seg) (fields : List Field) (path : List Nat) :
    Except Err (List (List Nat × Val)) :=
  if !uriPathOk path then .error .badUri
  else match matchRoute segs path with
    | none => .error .noMatch
    | some params => pathExtract fields params

/-! ## query parameters and URL-encoded bodies (serde_html_form) -/

/-- `group_entries`: values per key, keys in first-occurrence order, values in input order.
    The flag records whether the value had to be allocated (`Cow::Owned`). -/
def groupInsert (k : List Nat) (v : List Nat × Bool) :
    List (List Nat × List (List Nat × Bool)) → List (List Nat × List (List Nat × Bool))
  | [] => [(k, [v])]
  | (k', vs) :: rest => if k' = k then (k', vs ++ [v]) :: rest else (k', vs) :: groupInsert k v rest

def groupEntries : List (List Nat × List Nat × Bool) → List (List Nat × List (List Nat × Bool))
    → List (List Nat × List (List Nat × Bool))
  | [], acc => acc
  | (k, v, o) :: rest, acc => groupEntries rest (groupInsert k (v, o) acc)

/-- Every element of a `Vec<T>` field, first failure wins. -/
def formSeq (k : List Nat) (st : STy) : List (List Nat × Bool) → Except Err (List SVal)
  | [] => .ok []
  | (v, o) :: rest =>
    match parseScalar st o v with
    | none => if st = .strRef then .error (.borrowedStr k) else .error (.parseAt k v st)
    | some x =>
      match formSeq k st rest with
      | .ok xs => .ok (x :: xs)
      | .error e => .error e

/-- `ValOrVec<Part>` as a deserializer for one field type. -/
def formField (k : List Nat) (t : Ty) (vs : List (List Nat × Bool)) : Except Err Val :=
  match t with
  | .s st =>
    match vs with
    | [(v, o)] =>
      match parseScalar st o v with
      | some x => .ok (.s x)
      | none => if st = .strRef then .error (.borrowedStr k) else .error (.parseAt k v st)
    | _ => .error (.multiValue k)
  | .opt st =>
    match vs with
    | [(v, o)] =>
      if v.isEmpty then .ok .none
      else match parseScalar st o v with
        | some x => .ok (.some x)
        | none => if st = .strRef then .error (.borrowedStr k) else .error (.parseAt k v st)
    | _ => .error (.multiValue k)
  | .vec st => match formSeq k st vs with
    | .ok xs => .ok (.seq xs)
    | .error e => .error e
  | .vecDefault st => match formSeq k st vs with
    | .ok xs => .ok (.seq xs)
    | .error e => .error e

/-- Decoded pairs with the allocation flag of the value. -/
def formPairsOwned (bs : List Nat) : List (List Nat × List Nat × Bool) :=
  (formPairsRaw bs).map (fun kv => (formDecode kv.1, formDecode kv.2, formDecode kv.2 != kv.2))

/-- `serde_html_form::from_bytes::<T>(bs)` (= `UrlEncodedBody` after the content-type check, and
    `QueryParams` on the raw query string). -/
def queryExtract (fields : List Field) (bs : List Nat) : Except Err (List (List Nat × Val)) :=
  visitStruct formField fields (groupEntries (formPairsOwned bs) [])

/-- Bytes `http::uri::PathAndQuery` accepts in a query. -/
def uriQueryByte (b : Nat) : Bool :=
  b = 33 || (36 ≤ b && b ≤ 59) || b = 61 || (63 ≤ b && b ≤ 126) || (127 ≤ b && b < 256)

/-- The query string `RequestHead::target.query()` yields for the bytes after `?`; `none` when
    `http::Uri` rejects the target. (`#` is not in `uriQueryByte`: it would start a fragment, the
    harness refuses such inputs the same way.) -/
def uriQuery (q : List Nat) : Option (List Nat) :=
  if q.all uriQueryByte && utf8Valid q then some q else none

/-- What a handler taking `QueryParams<T>` observes for `/?<q>`. -/
def queryRequest (fields : List Field) (q : List Nat) : Except Err (List (List Nat × Val)) :=
  match uriQuery q with
  | none => .error .badUri
  | some q' => queryExtract fields q'

/-! ## the `Content-Type` gate of `JsonBody` / `UrlEncodedBody` (mime 0.3 `parse`) -/

/-- `HeaderValue::to_str`: visible ASCII or tab only. -/
def isVisibleAscii (b : Nat) : Bool := b = 9 || (32 ≤ b && b < 127)

/-- mime's `TOKEN_MAP`. -/
def isTokenByte (b : Nat) : Bool :=
  (48 ≤ b && b ≤ 57) || (65 ≤ b && b ≤ 90) || (97 ≤ b && b ≤ 122) ||
  b = 33 || b = 35 || b = 36 || b = 37 || b = 38 || b = 39 || b = 42 || b = 43 || b = 45 || b = 46 ||
  b = 94 || b = 95 || b = 96 || b = 124 || b = 126

/-- Top-level type: one or more token bytes up to the first `/`. Returns the type and the rest. -/
def scanType : List Nat → List Nat → Option (List Nat × List Nat)
  | [], _ => none
  | b :: rest, acc =>
    if isTokenByte b then scanType rest (acc ++ [b])
    else if b = 47 && !acc.isEmpty then some (acc, rest)
    else none

/-- Subtype: token bytes; the last `+` that is not the first byte splits off the suffix; a `;`
    that is not the first byte starts the parameters. Returns (subtype+suffix bytes, index of the
    plus, parameter bytes). -/
def scanSub : List Nat → Nat → List Nat → Option Nat → Option (List Nat × Option Nat × Option (List Nat))
  | [], _, acc, plus => some (acc, plus, none)
  | b :: rest, i, acc, plus =>
    if b = 43 && 0 < i then scanSub rest (i + 1) (acc ++ [b]) (some i)
    else if b = 59 && 0 < i then some (acc, plus, some rest)
    else if isTokenByte b then scanSub rest (i + 1) (acc ++ [b]) plus
    else none

/-- States of `params_from_str`; the flag says whether the current name/value is still empty. -/
inductive PState where
  | start | name | value0 | unq | quoted (empty : Bool) | afterQ
  deriving Repr, DecidableEq

def restrictedQuoted (b : Nat) : Bool := b = 9 || (31 < b && b != 127)

def pStep : PState → Nat → Option PState
  | .start, b => if b = 32 then some .start else if isTokenByte b then some .name else none
  | .name, b => if isTokenByte b then some .name else if b = 61 then some .value0 else none
  | .value0, b => if b = 34 then some (.quoted true) else if isTokenByte b then some .unq else none
  | .unq, b => if isTokenByte b then some .unq else if b = 59 then some .start else none
  | .quoted e, b =>
    if b = 34 && !e then some .afterQ else if restrictedQuoted b then some (.quoted false) else none
  | .afterQ, b => if b = 59 then some .start else if b = 32 then some .afterQ else none

def pEnd : PState → Bool
  | .start => true | .name => false | .value0 => true | .unq => true | .quoted _ => false | .afterQ => true

def paramsGo : PState → List Nat → Bool
  | st, [] => pEnd st
  | st, b :: rest => match pStep st b with
    | some st' => paramsGo st' rest
    | none => false

def asciiLower (bs : List Nat) : List Nat := bs.map (fun b => if 65 ≤ b ∧ b ≤ 90 then b + 32 else b)

/-- `s.parse::<mime::Mime>()`: (type, subtype, suffix), lower-cased; `none` on a parse error. -/
def parseMime (bs : List Nat) : Option (List Nat × List Nat × Option (List Nat)) :=
  match scanType bs [] with
  | none => none
  | some (ty, rest) =>
    match scanSub rest 0 [] none with
    | none => none
    | some (sub, plus, params) =>
      let paramsFine := match params with
        | none => true
        | some ps => paramsGo .start ps
      if !paramsFine then none
      else match plus with
        | none => some (asciiLower ty, asciiLower sub, none)
        | some i => some (asciiLower ty, asciiLower (sub.take i), some (asciiLower (sub.drop (i + 1))))

inductive CtOutcome where
  | missing      -- `MissingJsonContentType` / `MissingUrlEncodedContentType`
  | mismatch     -- `JsonContentTypeMismatch` / `UrlEncodedContentTypeMismatch`
  | ok
  deriving Repr, DecidableEq

def applicationLit : List Nat := [97, 112, 112, 108, 105, 99, 97, 116, 105, 111, 110]
def jsonLit : List Nat := [106, 115, 111, 110]
def formLit : List Nat :=
  [120, 45, 119, 119, 119, 45, 102, 111, 114, 109, 45, 117, 114, 108, 101, 110, 99, 111, 100, 101, 100]

/-- `check_json_content_type` (`wantJson`) / `check_urlencoded_content_type`. -/
def ctCheck (wantJson : Bool) (hdr : Option (List Nat)) : CtOutcome :=
  match hdr with
  | none => .missing
  | some bs =>
    if !bs.all isVisibleAscii then .missing
    else match parseMime bs with
      | none => .mismatch
      | some (ty, sub, suffix) =>
        if ty = applicationLit &&
            (if wantJson then sub = jsonLit || suffix = some jsonLit else sub = formLit) then .ok
        else .mismatch

/-- `UrlEncodedBody::<T>::extract(head, body)`. -/
inductive BodyErr where
  | ct (o : CtOutcome)
  | de (e : Err)
  deriving Repr, DecidableEq

def formBodyExtract (fields : List Field) (hdr : Option (List Nat)) (body : List Nat) :
    Except BodyErr (List (List Nat × Val)) :=
  match ctCheck false hdr with
  | .ok => match queryExtract fields body with
    | .ok v => .ok v
    | .error e => .error (.de e)
  | o => .error (.ct o)

/-! ## Specification side (what the property demands; used by the theorems, not by the driver) -/

/-- One field, by name: its value is `de` applied to THE entry carrying the field's name,
    wherever that entry sits; absent ⇒ the type's default or `missing field`. -/
def fieldSpec {β : Type} (de : List Nat → Ty → β → Except Err Val) (entries : List (List Nat × β))
    (f : Field) : Except Err Val :=
  match lookup f.name entries with
  | some e => de f.name f.ty e
  | none =>
    match f.ty with
    | .opt _ => .ok .none
    | .vecDefault _ => .ok (.seq [])
    | _ => .error (.missingField f.name)

/-- All fields, by name, in declaration order; `none` as soon as one field has no acceptable value. -/
def structSpec {β : Type} (de : List Nat → Ty → β → Except Err Val) (entries : List (List Nat × β)) :
    List Field → Option (List (List Nat × Val))
  | [] => some []
  | f :: fs =>
    match fieldSpec de entries f, structSpec de entries fs with
    | .ok v, some r => some ((f.name, v) :: r)
    | _, _ => none

/-- Path parameters, by name (each value decoded once). -/
def pathSpec (dps : List (List Nat × List Nat × Bool)) (fields : List Field) :
    Option (List (List Nat × Val)) := structSpec pathDe dps fields

/-- All occurrences of key `k`, in input order. -/
def occurrences (k : List Nat) : List (List Nat × List Nat × Bool) → List (List Nat × Bool)
  | [] => []
  | (k', v, o) :: rest => if k' = k then (v, o) :: occurrences k rest else occurrences k rest

/-- Query/form parameters, by name: the field sees exactly the occurrences of its own key. -/
def formFieldSpec (ps : List (List Nat × List Nat × Bool)) (f : Field) : Except Err Val :=
  match occurrences f.name ps with
  | [] =>
    match f.ty with
    | .opt _ => .ok .none
    | .vecDefault _ => .ok (.seq [])
    | _ => .error (.missingField f.name)
  | vs => formField f.name f.ty vs

def formSpec (ps : List (List Nat × List Nat × Bool)) : List Field → Option (List (List Nat × Val))
  | [] => some []
  | f :: fs =>
    match formFieldSpec ps f, formSpec ps fs with
    | .ok v, some r => some ((f.name, v) :: r)
    | _, _ => none

/-- What a client writes for a scalar value (`Display` / `to_string`). -/
def printSVal : SVal → List Nat
  | .int z => intDigits z
  | .bool true => [116, 114, 117, 101]
  | .bool false => [102, 97, 108, 115, 101]
  | .char c => utf8Encode c
  | .str bs => bs

/-- The value inhabits the Rust type. (`&str` is left out: it is only extractable when the
    client's text needed no decoding at all.) -/
def SValOk : STy → SVal → Prop
  | .u bits, .int z => 0 ≤ z ∧ z < ((2 ^ bits : Nat) : Int)
  | .i bits, .int z => 1 ≤ bits ∧ -((2 ^ (bits - 1) : Nat) : Int) ≤ z ∧ z < ((2 ^ (bits - 1) : Nat) : Int)
  | .bool, .bool _ => True
  | .char, .char c => isScalar c = true
  | .string, .str _ => True
  | .cow, .str _ => True
  | _, _ => False

end Pxv.ReqData
