import Pxv.Model.Stalemate
import Pxv.Model.Complex
/-
`OrderedCallGraph::borrow_check` (call_graph/borrow_checker/assign_order.rs): the four mirrored passes in the order and
with the early exits of the Rust code. Import-free.
-/
namespace Pxv.CG

/-- ↔ `borrow_check`: `multiple_consumers` and `move_while_borrowed` both run before the first look at the diagnostics;
    `complex_borrow_check` and `ordering_stalemates` each end the check when they reported something.
    `none` = `Err(())` (the blueprint is rejected), `some g'` = the call graph handed to the ordering step. -/
def borrowCheck (g : Graph) : Option Graph :=
  let r1 := multipleConsumers g
  let r2 := moveWhileBorrowed r1.1
  if !(r1.2.isEmpty && r2.2.isEmpty) then none
  else
    let r3 := complexCheck r2.1
    if !r3.diags.isEmpty then none
    else
      let r4 := resolveStalemates r3.g
      if !r4.2.isEmpty then none else some r4.1

end Pxv.CG
