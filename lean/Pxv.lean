import Pxv.Model.Body
import Pxv.Thm.C14
import Pxv.Model.Store
import Pxv.Thm.C13
