import Pxv.Model.Body
import Pxv.Thm.C14
import Pxv.Model.ReqData
import Pxv.Thm.C15
import Pxv.Model.Config
