import Pxv.Model.Body
import Pxv.Thm.C14
import Pxv.Model.Session
import Pxv.Model.SessionSpec
import Pxv.Thm.C11
import Pxv.Thm.C12
