import Pxv.Model.Body
import Pxv.Thm.C14
