import Pxv.Model.Body
import Pxv.Thm.C14
import Pxv.Model.Domain
import Pxv.Thm.C20
