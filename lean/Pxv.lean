import Pxv.Model.Body
import Pxv.Thm.C14
import Pxv.Model.Domain
import Pxv.Thm.C20
import Pxv.Model.Bp
import Pxv.Model.Attr
import Pxv.Thm.C19
