import Pxv.Model.Body
import Pxv.Thm.C14
import Pxv.Model.CallGraph
import Pxv.Model.Order
import Pxv.Lemmas.Order
import Pxv.Thm.C01
import Pxv.Thm.C02
