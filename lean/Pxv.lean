import Pxv.Model.Body
import Pxv.Thm.C14
import Pxv.Model.Ty
import Pxv.Model.TySpec
import Pxv.Model.TyParse
import Pxv.Thm.C17
