import Pxv.Driver.Body
import Pxv.Driver.ReqData
import Pxv.Driver.Config
open Pxv.Driver

def main (args : List String) : IO UInt32 := do
  match args with
  | ["body"] => serve Pxv.Body.handle; return 0
  | ["reqdata"] => serve Pxv.ReqData.handle; return 0
  | ["config"] => serve Pxv.Config.handle; return 0
  | _ => IO.eprintln "usage: pxmodel <model>"; return 2
