import Pxv.Driver.Body
import Pxv.Driver.Ty
open Pxv.Driver

def main (args : List String) : IO UInt32 := do
  match args with
  | ["body"] => serve Pxv.Body.handle; return 0
  | ["ty"] => serve Pxv.Ty.handle; return 0
  | _ => IO.eprintln "usage: pxmodel <model>"; return 2
