import Pxv.Driver.Body
import Pxv.Driver.ReqData
open Pxv.Driver

def main (args : List String) : IO UInt32 := do
  match args with
  | ["body"] => serve Pxv.Body.handle; return 0
  | ["reqdata"] => serve Pxv.ReqData.handle; return 0
  | _ => IO.eprintln "usage: pxmodel <model>"; return 2
