import Pxv.Driver.Body
import Pxv.Driver.CG
import Pxv.Driver.Pipe
import Pxv.Driver.Server
import Pxv.Driver.Store
import Pxv.Driver.Session
import Pxv.Driver.ReqData
import Pxv.Driver.Config
import Pxv.Driver.Ty
import Pxv.Driver.Domain
import Pxv.Driver.Bp
import Pxv.Driver.Scope
import Pxv.Driver.Life
import Pxv.Driver.Rules
import Pxv.Driver.Errors
import Pxv.Driver.Router
import Pxv.Driver.Bind
import Pxv.Driver.Dep
open Pxv.Driver

def main (args : List String) : IO UInt32 := do
  match args with
  | ["body"] => serve Pxv.Body.handle; return 0
  | ["cg"] => serve Pxv.CG.handle; return 0
  | ["pipe"] => serve Pxv.Pipe.handle; return 0
  | ["server"] => serve Pxv.Server.handle; return 0
  | ["store"] => Pxv.Store.serveIO Pxv.Store.handleIO; return 0
  | ["session"] => serve Pxv.Session.handle; return 0
  | ["reqdata"] => serve Pxv.ReqData.handle; return 0
  | ["config"] => serve Pxv.Config.handle; return 0
  | ["ty"] => serve Pxv.Ty.handle; return 0
  | ["domain"] => serve Pxv.Domain.handle; return 0
  | ["bp"] => serve Pxv.Bp.handle; return 0
  | ["scope"] => serve Pxv.Scope.handle; return 0
  | ["life"] => serve Pxv.Life.handle; return 0
  | ["rules"] => serve Pxv.Rules.handle; return 0
  | ["errors"] => serve Pxv.Err.handle; return 0
  | ["router"] => serve Pxv.Router.handle; return 0
  | ["bind"] => serve Pxv.Bind.handle; return 0
  | ["dep"] => serve Pxv.Dep.handle; return 0
  | _ => IO.eprintln "usage: pxmodel <model>"; return 2
