import Pxv.Driver.Body
import Pxv.Driver.CG
import Pxv.Driver.Server
import Pxv.Driver.Store
import Pxv.Driver.Session
import Pxv.Driver.Rules
open Pxv.Driver

def main (args : List String) : IO UInt32 := do
  match args with
  | ["body"] => serve Pxv.Body.handle; return 0
  | ["cg"] => serve Pxv.CG.handle; return 0
  | ["server"] => serve Pxv.Server.handle; return 0
  | ["store"] => Pxv.Store.serveIO Pxv.Store.handleIO; return 0
  | ["session"] => serve Pxv.Session.handle; return 0
  | ["rules"] => serve Pxv.Rules.handle; return 0
  | _ => IO.eprintln "usage: pxmodel <model>"; return 2
