import Pxv.Driver.Body
import Pxv.Driver.Domain
import Pxv.Driver.Bp
open Pxv.Driver

def main (args : List String) : IO UInt32 := do
  match args with
  | ["body"] => serve Pxv.Body.handle; return 0
  | ["domain"] => serve Pxv.Domain.handle; return 0
  | ["bp"] => serve Pxv.Bp.handle; return 0
  | _ => IO.eprintln "usage: pxmodel <model>"; return 2
