//! In-process driver for the real pavex code: reads one JSON request per line on stdin,
//! answers one JSON line per request on stdout. `rt <model>` selects the slice.
use std::io::{BufRead, Write};

mod body;

pub type Json = serde_json::Value;

fn main() {
    let which = std::env::args().nth(1).unwrap_or_default();
    let rt = tokio::runtime::Builder::new_current_thread()
        .enable_all()
        .build()
        .unwrap();
    let stdin = std::io::stdin();
    let stdout = std::io::stdout();
    let mut out = std::io::BufWriter::new(stdout.lock());
    for line in stdin.lock().lines() {
        let line = line.unwrap();
        let line = line.trim();
        if line.is_empty() {
            continue;
        }
        let req: Json = match serde_json::from_str(line) {
            Ok(v) => v,
            Err(e) => {
                writeln!(out, "{}", serde_json::json!({"bad-json": e.to_string()})).unwrap();
                continue;
            }
        };
        let res = std::panic::catch_unwind(std::panic::AssertUnwindSafe(|| match which.as_str() {
            "body" => rt.block_on(body::handle(&req)),
            _ => serde_json::json!({"r": "unknown-model"}),
        }));
        let res = match res {
            Ok(v) => v,
            Err(p) => {
                let msg = p
                    .downcast_ref::<String>()
                    .cloned()
                    .or_else(|| p.downcast_ref::<&str>().map(|s| s.to_string()))
                    .unwrap_or_default();
                serde_json::json!({"r": "panic", "msg": msg})
            }
        };
        writeln!(out, "{}", res).unwrap();
    }
    out.flush().unwrap();
}
