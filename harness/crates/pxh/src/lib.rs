//! Shared JSON-lines loop for the in-process drivers: one JSON request per stdin line, one JSON
//! answer per stdout line; every request runs under `catch_unwind` (a panic is an answer).
use std::future::Future;
use std::io::{BufRead, Write};

pub type Json = serde_json::Value;
pub use serde_json::json;

fn panic_msg(p: Box<dyn std::any::Any + Send>) -> String {
    p.downcast_ref::<String>()
        .cloned()
        .or_else(|| p.downcast_ref::<&str>().map(|s| s.to_string()))
        .unwrap_or_default()
}

/// Synchronous handlers.
pub fn serve(mut f: impl FnMut(&Json) -> Json) {
    let stdin = std::io::stdin();
    let stdout = std::io::stdout();
    let mut out = std::io::BufWriter::new(stdout.lock());
    std::panic::set_hook(Box::new(|_| {}));
    for line in stdin.lock().lines() {
        let line = line.unwrap();
        let line = line.trim();
        if line.is_empty() {
            continue;
        }
        let res = match serde_json::from_str::<Json>(line) {
            Ok(req) => match std::panic::catch_unwind(std::panic::AssertUnwindSafe(|| f(&req))) {
                Ok(v) => v,
                Err(p) => json!({"r": "panic", "msg": panic_msg(p)}),
            },
            Err(e) => json!({"bad-json": e.to_string()}),
        };
        writeln!(out, "{}", res).unwrap();
    }
    out.flush().unwrap();
}

/// Asynchronous handlers, each request driven to completion on a current-thread tokio runtime.
pub fn serve_async<F, Fut>(mut f: F)
where
    F: FnMut(Json) -> Fut,
    Fut: Future<Output = Json>,
{
    let rt = tokio::runtime::Builder::new_current_thread()
        .enable_all()
        .build()
        .unwrap();
    serve(move |req| rt.block_on(f(req.clone())))
}

/// `argv[1]`: which model/slice the caller wants.
pub fn which() -> String {
    std::env::args().nth(1).unwrap_or_default()
}
