//! In-process driver for C18: the real `pavex::config::ConfigLoader::load` on a scratch directory
//! tree and a controlled process environment. Single-threaded: every request first removes every
//! `PX_*` variable (any case), then sets the request's variables in order, rewrites the files and
//! changes the working directory; nothing else in the process reads the environment concurrently.
use pavex::config::{ConfigLoader, ConfigProfile};
use pxh::Json;
use serde_json::json;
use std::path::{Path, PathBuf};

#[derive(ConfigProfile, Debug, Clone, Copy, PartialEq, Eq)]
pub enum Profile {
    #[px(profile = "dev")]
    Development,
    #[px(profile = "prod")]
    Production,
    LocalDevelopment, // "local_development"
    // custom names are used verbatim, whatever their spelling (they double as file names)
    #[px(profile = "staging2")]
    Staging,
    #[px(profile = "prodEU")]
    ProdEu,
}

/// A hand-written `ConfigProfile` (no derive): names are free-form, dots included (`prod.eu` -> `prod.eu.yml`).
#[derive(Debug, Clone, Copy, PartialEq, Eq)]
pub enum Manual {
    Prod,
    ProdEu,
    V12,
}
impl AsRef<str> for Manual {
    fn as_ref(&self) -> &str {
        match self {
            Manual::Prod => "prod",
            Manual::ProdEu => "prod.eu",
            Manual::V12 => "v1.2",
        }
    }
}
impl std::str::FromStr for Manual {
    type Err = UnknownManual;
    fn from_str(s: &str) -> Result<Self, Self::Err> {
        match s {
            "prod" => Ok(Manual::Prod),
            "prod.eu" => Ok(Manual::ProdEu),
            "v1.2" => Ok(Manual::V12),
            _ => Err(UnknownManual),
        }
    }
}
#[derive(Debug)]
pub struct UnknownManual;
impl std::fmt::Display for UnknownManual {
    fn fmt(&self, f: &mut std::fmt::Formatter<'_>) -> std::fmt::Result {
        write!(f, "unknown profile")
    }
}
impl std::error::Error for UnknownManual {}
impl ConfigProfile for Manual {}

#[derive(serde::Deserialize)]
struct S1 {
    server: Server,
    db: Db,
    debug: bool,
    name: Option<String>,
    workers: i64,
}
#[derive(serde::Deserialize)]
struct Server {
    host: String,
    port: u16,
    tls: Option<bool>,
}
#[derive(serde::Deserialize)]
struct Db {
    url: String,
    pool: Pool,
}
#[derive(serde::Deserialize)]
struct Pool {
    max_size: u32,
    timeout: Option<i64>,
}
#[derive(serde::Deserialize)]
#[serde(deny_unknown_fields)]
struct S2 {
    app_name: String,
    level: u8,
    tag: Option<String>,
}

fn s(v: &str) -> Json {
    json!(v.as_bytes())
}
fn os(v: &Option<String>) -> Json {
    v.as_deref().map(s).unwrap_or(Json::Null)
}

fn s1_json(c: S1) -> Json {
    json!({
        "server.host": s(&c.server.host), "server.port": c.server.port.to_string(), "server.tls": c.server.tls,
        "db.url": s(&c.db.url), "db.pool.max_size": c.db.pool.max_size.to_string(),
        "db.pool.timeout": c.db.pool.timeout.map(|t| t.to_string()),
        "debug": c.debug, "name": os(&c.name), "workers": c.workers.to_string(),
    })
}
fn s2_json(c: S2) -> Json {
    json!({"app_name": s(&c.app_name), "level": c.level.to_string(), "tag": os(&c.tag)})
}

/// Block-style YAML with double-quoted keys and strings.
fn yaml(v: &Json, indent: usize, out: &mut String) {
    let Json::Object(m) = v else { return };
    for (k, val) in m {
        out.push_str(&" ".repeat(indent));
        out.push_str(&serde_json::to_string(k).unwrap());
        match val {
            Json::Object(inner) if !inner.is_empty() => {
                out.push_str(":\n");
                yaml(val, indent + 2, out);
            }
            other => {
                out.push_str(": ");
                out.push_str(&serde_json::to_string(other).unwrap());
                out.push('\n');
            }
        }
    }
}

fn clear_px_env() {
    let keys: Vec<_> = std::env::vars_os()
        .map(|(k, _)| k)
        .filter(|k| k.to_string_lossy().trim().to_ascii_uppercase().starts_with("PX_"))
        .collect();
    for k in keys {
        // SAFETY: the driver is single-threaded.
        unsafe { std::env::remove_var(k) };
    }
}

fn classify(e: &dyn std::error::Error) -> Json {
    let mut msgs = vec![e.to_string()];
    let mut cur = e;
    while let Some(src) = cur.source() {
        msgs.push(src.to_string());
        cur = src;
    }
    let all = msgs.join(" | ");
    let kind = if all.contains("`PX_PROFILE` is either not set") {
        "profile-unset"
    } else if all.contains("Failed to parse the configuration profile") {
        "profile-invalid"
    } else if all.contains("Failed to load hierarchical configuration") {
        "extract"
    } else {
        return json!({"r": "err", "kind": "other", "msg": all});
    };
    json!({"r": "err", "kind": kind})
}

fn ancestor(cwd: &Path, dist: u64) -> PathBuf {
    let mut p = cwd.to_path_buf();
    for _ in 0..dist {
        p.pop();
    }
    p
}

fn handle(root: &Path, req: &Json) -> Json {
    let bad = || json!({"r": "bad-op"});
    let (Some(env), Some(absolute), Some(files), Some(depth), Some(schema)) = (
        req.get("env").and_then(|v| v.as_array()),
        req.get("absolute").and_then(|v| v.as_bool()),
        req.get("files").and_then(|v| v.as_array()),
        req.get("depth").and_then(|v| v.as_u64()),
        req.get("schema").and_then(|v| v.as_str()),
    ) else {
        return bad();
    };
    let dir_name = req.get("dir").and_then(|v| v.as_str()); // None = loader default ("configuration")
    if absolute && dir_name.is_none() {
        return bad();
    }
    // fresh tree: root/w/L1/L2/.../L<depth-1> is the working directory
    let work = root.join("w");
    let _ = std::fs::remove_dir_all(&work);
    let mut cwd = work.clone();
    for i in 1..depth {
        cwd.push(format!("L{i}"));
    }
    if std::fs::create_dir_all(&cwd).is_err() {
        return json!({"r": "io-error"});
    }
    let rel_dir = dir_name.unwrap_or("configuration");
    let abs_base = work.join("abs");
    for f in files {
        let (Some(dist), Some(name), Some(tree)) =
            (f.get("dist").and_then(|v| v.as_u64()), f.get("name").and_then(|v| v.as_str()), f.get("tree"))
        else {
            return bad();
        };
        if dist >= depth {
            return bad();
        }
        let dir = if absolute {
            if dist == 0 { abs_base.join(rel_dir) } else { ancestor(&cwd, dist - 1).join(rel_dir) } // decoys
        } else {
            ancestor(&cwd, dist).join(rel_dir)
        };
        let mut text = String::new();
        yaml(tree, 0, &mut text);
        if text.is_empty() {
            text.push_str("{}\n");
        }
        if std::fs::create_dir_all(&dir).is_err() || std::fs::write(dir.join(format!("{name}.yml")), text).is_err() {
            return json!({"r": "io-error"});
        }
    }
    clear_px_env();
    for kv in env {
        let (Some(k), Some(v)) = (kv.get(0).and_then(|v| v.as_str()), kv.get(1).and_then(|v| v.as_str())) else {
            return bad();
        };
        if k.is_empty() || k.contains('=') || k.contains('\0') || v.contains('\0') {
            return bad();
        }
        unsafe { std::env::set_var(k, v) };
    }
    if std::env::set_current_dir(&cwd).is_err() {
        return json!({"r": "io-error"});
    }
    let manual = req.get("manual").and_then(|m| m.as_bool()).unwrap_or(false);
    let out = if manual {
        let mut loader = ConfigLoader::<Manual>::new();
        match req.get("explicit") {
            None | Some(Json::Null) => {}
            Some(Json::String(p)) => match p.as_str() {
                "prod" => loader = loader.profile(Manual::Prod),
                "prod.eu" => loader = loader.profile(Manual::ProdEu),
                "v1.2" => loader = loader.profile(Manual::V12),
                _ => return bad(),
            },
            _ => return bad(),
        }
        if let Some(d) = dir_name {
            loader = if absolute { loader.configuration_dir(abs_base.join(d)) } else { loader.configuration_dir(d) };
        }
        match schema {
            "S1" => loader.load::<S1>().map(s1_json),
            "S2" => loader.load::<S2>().map(s2_json),
            _ => return bad(),
        }
    } else {
        let mut loader = ConfigLoader::<Profile>::new();
        match req.get("explicit") {
            None | Some(Json::Null) => {}
            Some(Json::String(p)) => match p.as_str() {
                "dev" => loader = loader.profile(Profile::Development),
                "prod" => loader = loader.profile(Profile::Production),
                "local_development" => loader = loader.profile(Profile::LocalDevelopment),
                "staging2" => loader = loader.profile(Profile::Staging),
                "prodEU" => loader = loader.profile(Profile::ProdEu),
                _ => return bad(),
            },
            _ => return bad(),
        }
        if let Some(d) = dir_name {
            loader = if absolute { loader.configuration_dir(abs_base.join(d)) } else { loader.configuration_dir(d) };
        }
        match schema {
            "S1" => loader.load::<S1>().map(s1_json),
            "S2" => loader.load::<S2>().map(s2_json),
            _ => return bad(),
        }
    };
    let res = match out {
        Ok(v) => json!({"r": "ok", "v": v}),
        Err(e) => classify(&e),
    };
    let _ = std::env::set_current_dir(root);
    clear_px_env();
    res
}

fn main() {
    match pxh::which().as_str() {
        "config" => {
            let root = PathBuf::from(std::env::var("PXV_C18_ROOT").expect("PXV_C18_ROOT (scratch directory) must be set"));
            std::fs::create_dir_all(&root).unwrap();
            let root = root.canonicalize().unwrap();
            pxh::serve(move |req| handle(&root, req));
        }
        other => {
            eprintln!("config: unknown model {other:?}");
            std::process::exit(2)
        }
    }
}
