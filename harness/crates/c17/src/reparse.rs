//! `syn::parse_str::<syn::Type>` of a rendered type, converted back into the serde shape of
//! `rustdoc_ir::Type` (package id "" and rustdoc id null: the source text does not carry them;
//! aliases come back as paths). `None` = outside the grammar `render` is supposed to emit.
use pxh::{Json, json};
use quote::ToTokens;

const SCALARS: [(&str, &str); 17] = [
    ("usize", "Usize"), ("u8", "U8"), ("u16", "U16"), ("u32", "U32"), ("u64", "U64"), ("u128", "U128"),
    ("isize", "Isize"), ("i8", "I8"), ("i16", "I16"), ("i32", "I32"), ("i64", "I64"), ("i128", "I128"),
    ("f32", "F32"), ("f64", "F64"), ("bool", "Bool"), ("char", "Char"), ("str", "Str"),
];

pub fn reparse(src: &str) -> Option<Json> {
    let t: syn::Type = syn::parse_str(src).ok()?;
    conv(&t)
}

fn lifetime(l: &syn::Lifetime) -> Json {
    match l.ident.to_string().as_str() {
        "static" => json!("Static"),
        "_" => json!("Inferred"),
        n => json!({"Named": n}),
    }
}

fn abi(name: &str) -> Json {
    let (base, unwind) = match name.strip_suffix("-unwind") {
        Some(b) => (b, true),
        None => (name, false),
    };
    let v = match base {
        "C" => "C",
        "cdecl" => "Cdecl",
        "stdcall" => "Stdcall",
        "fastcall" => "Fastcall",
        "aapcs" => "Aapcs",
        "win64" => "Win64",
        "sysv64" => "SysV64",
        "system" => "System",
        _ => return json!({"Other": name}),
    };
    json!({v: {"unwind": unwind}})
}

fn conv(t: &syn::Type) -> Option<Json> {
    Some(match t {
        syn::Type::Paren(p) => conv(&p.elem)?, // `(T)` is just `T`
        syn::Type::Path(p) => {
            if p.qself.is_some() {
                return None;
            }
            let segs: Vec<_> = p.path.segments.iter().collect();
            let (last, init) = segs.split_last()?;
            if p.path.leading_colon.is_some() || init.iter().any(|s| !s.arguments.is_none()) {
                return None;
            }
            if init.is_empty() && last.arguments.is_none() {
                let n = last.ident.to_string();
                return Some(match SCALARS.iter().find(|(s, _)| *s == n) {
                    Some((_, v)) => json!({"ScalarPrimitive": v}),
                    None => json!({"Generic": {"name": n}}),
                });
            }
            let mut args = vec![];
            match &last.arguments {
                syn::PathArguments::None => {}
                syn::PathArguments::AngleBracketed(ab) => {
                    if ab.colon2_token.is_some() {
                        return None;
                    }
                    for a in &ab.args {
                        args.push(match a {
                            syn::GenericArgument::Type(t) => json!({"TypeParameter": conv(t)?}),
                            syn::GenericArgument::Lifetime(l) => json!({"Lifetime": lifetime(l)}),
                            syn::GenericArgument::Const(e) => {
                                json!({"Const": {"value": e.to_token_stream().to_string()}})
                            }
                            _ => return None,
                        });
                    }
                }
                syn::PathArguments::Parenthesized(_) => return None,
            }
            json!({"Path": {
                "package_id": "", "rustdoc_id": null,
                "base_type": segs.iter().map(|s| s.ident.to_string()).collect::<Vec<_>>(),
                "generic_arguments": args,
            }})
        }
        syn::Type::Reference(r) => json!({"Reference": {
            "is_mutable": r.mutability.is_some(),
            "lifetime": match &r.lifetime { None => json!("Elided"), Some(l) => lifetime(l) },
            "inner": conv(&r.elem)?,
        }}),
        syn::Type::Tuple(t) => {
            json!({"Tuple": {"elements": t.elems.iter().map(conv).collect::<Option<Vec<_>>>()?}})
        }
        syn::Type::Slice(s) => json!({"Slice": {"element_type": conv(&s.elem)?}}),
        syn::Type::Array(a) => {
            let syn::Expr::Lit(syn::ExprLit { lit: syn::Lit::Int(n), .. }) = &a.len else { return None };
            json!({"Array": {"element_type": conv(&a.elem)?, "len": n.base10_parse::<u64>().ok()?}})
        }
        syn::Type::Ptr(p) => json!({"RawPointer": {"is_mutable": p.mutability.is_some(), "inner": conv(&p.elem)?}}),
        syn::Type::BareFn(f) => {
            if f.lifetimes.is_some() || f.variadic.is_some() {
                return None;
            }
            let mut inputs = vec![];
            for i in &f.inputs {
                if !i.attrs.is_empty() {
                    return None;
                }
                inputs.push(json!({
                    "name": i.name.as_ref().map(|(n, _)| n.to_string()),
                    "type_": conv(&i.ty)?,
                }));
            }
            json!({"FunctionPointer": {
                "inputs": inputs,
                "output": match &f.output {
                    syn::ReturnType::Default => Json::Null,
                    syn::ReturnType::Type(_, t) => conv(t)?,
                },
                "abi": match &f.abi {
                    None => json!("Rust"),
                    Some(a) => match &a.name { None => abi("C"), Some(n) => abi(&n.value()) },
                },
                "is_unsafe": f.unsafety.is_some(),
            }})
        }
        _ => return None,
    })
}
