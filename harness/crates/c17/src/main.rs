//! C17: in-process driver for the type algebra of `rustdoc_ir` (public API only).
//!
//! Types travel in the crate's own serde representation (`rustdoc_ir::Type` derives
//! `Serialize`/`Deserialize`), so no hand-written conversion sits between the generator and the
//! real values. `rt <model>`-style dispatch: the only model is `ty`.
mod reparse;

use bimap::BiHashMap;
use guppy::PackageId;
use pxh::{Json, json};
use rustdoc_ir::Type;
use std::panic::{AssertUnwindSafe, catch_unwind};

fn ty(v: Option<&Json>) -> Option<Type> {
    // `PathType::package_id` deserialises from a *borrowed* str: go through a string.
    serde_json::from_str(&v?.to_string()).ok()
}

fn tj(t: &Type) -> Json {
    serde_json::to_value(t).unwrap()
}

fn equiv(x: &Type, y: &Type) -> Json {
    match x.is_equivalent_to(y) {
        None => Json::Null,
        Some(m) => {
            let mut v: Vec<(String, String)> =
                m.into_iter().map(|(a, b)| (a.to_owned(), b.to_owned())).collect();
            v.sort();
            json!(v)
        }
    }
}

fn handle(req: &Json) -> Json {
    let (Some(a), Some(b), Some(c)) = (ty(req.get("a")), ty(req.get("b")), ty(req.get("c"))) else {
        return json!({"r": "bad-op"});
    };
    let mut id2name: BiHashMap<PackageId, String> = BiHashMap::new();
    if let Some(m) = req.get("crates").and_then(|m| m.as_object()) {
        for (k, v) in m {
            let Some(name) = v.as_str() else { return json!({"r": "bad-op"}) };
            id2name.insert(PackageId::new(k.clone()), name.to_owned());
        }
    }
    let wf = req.get("wf").and_then(|w| w.as_bool()).unwrap_or(false);

    // a as template, b as concrete type
    let tmpl = match a.is_a_template_for(&b) {
        None => Json::Null,
        Some(bindings) => {
            let bound = a.bind_generic_type_parameters(&bindings);
            let mut v: Vec<(String, Json)> = bindings.iter().map(|(k, t)| (k.clone(), tj(t))).collect();
            v.sort_by(|x, y| x.0.cmp(&y.0));
            json!({"b": v, "bound": tj(&bound)})
        }
    };
    let ca = a.canonicalize();
    let cb = b.canonicalize();
    let cca = ca.inner().canonicalize();
    let err = a.display_for_error();
    let full = catch_unwind(AssertUnwindSafe(|| a.render_type(&id2name))).ok();
    let inferred = catch_unwind(AssertUnwindSafe(|| a.render_with_inferred_lifetimes(&id2name))).ok();
    let mut out = json!({
        "r": "ok",
        "wf": wf,
        "same_ab": a == b,
        "tmpl_ab": tmpl,
        "is_template": [a.is_a_template(), b.is_a_template(), c.is_a_template()],
        "unassigned_a": a.unassigned_generic_type_parameters().into_iter().collect::<Vec<_>>(),
        "eq_aa": equiv(&a, &a),
        "eq_ab": equiv(&a, &b),
        "eq_ba": equiv(&b, &a),
        "eq_bc": equiv(&b, &c),
        "eq_ac": equiv(&a, &c),
        "canon_a": tj(ca.inner()),
        "canon_b": tj(cb.inner()),
        "canon2_a": tj(cca.inner()),
        "canon_eq_ab": ca == cb,
        "render_a": {"err": err.clone(), "type": full.clone(), "inferred": inferred},
    });
    // lifetime utilities
    let lt_name = req.get("lt_name").and_then(|v| v.as_str()).unwrap_or("q").to_owned();
    let mut lt_map: indexmap::IndexMap<String, String> = indexmap::IndexMap::new();
    if let Some(l) = req.get("lt_map").and_then(|v| v.as_array()) {
        for e in l {
            if let (Some(k), Some(v)) = (e.get(0).and_then(|x| x.as_str()), e.get(1).and_then(|x| x.as_str())) {
                // first entry wins, like the association list of the model
                lt_map.entry(k.to_owned()).or_insert_with(|| v.to_owned());
            }
        }
    }
    let mut si = a.clone();
    si.set_implicit_lifetimes(lt_name);
    let mut rn = a.clone();
    rn.rename_lifetime_parameters(&lt_map);
    out["has_implicit_a"] = json!(a.has_implicit_lifetime_parameters());
    out["set_implicit_a"] = tj(&si);
    out["has_implicit_after"] = json!(si.has_implicit_lifetime_parameters());
    out["canon_set_implicit_a"] = tj(si.canonicalize().inner());
    out["rename_a"] = tj(&rn);
    out["canon_rename_a"] = tj(rn.canonicalize().inner());
    out["lifetimes_a"] = json!(a.lifetime_parameters().iter().map(|l| serde_json::to_value(l).unwrap()).collect::<Vec<_>>());
    out["named_lifetimes_a"] = json!(a.named_lifetime_parameters().into_iter().collect::<Vec<_>>());
    if wf {
        // What the Rust grammar (syn) reads back from the rendered source.
        out["reparse_a"] = reparse::reparse(&err).unwrap_or(Json::Null);
        // ... and from the rendering used for code generation (`render_type`, the input of `syn_type`).
        out["reparse_type_a"] = match &full {
            Some(s) => reparse::reparse(s).unwrap_or(Json::Null),
            None => Json::Null,
        };
    }
    out
}

fn main() {
    match pxh::which().as_str() {
        "ty" => pxh::serve(handle),
        other => {
            eprintln!("c17: unknown model {other:?}");
            std::process::exit(2)
        }
    }
}
