//! In-process driver for the compile-time rule checks (C08): the parts of `pavexc` that can be
//! driven without a blueprint.
//!   {"op":"shape","ps":"/a/{x}","qs":"/a/{y}"}   real `matchit::Router::insert` of both templates, the way
//!        `PathRouter::detect_path_conflicts` (router.rs) does it: conflict = the second insertion fails
//!        for a reason other than "this exact path is already there".
//!   {"op":"cycles","adj":[[1],[0]]}               real `find_cycles` (dependency_graph.rs, through the
//!        cfg(pavex_verif) hook `pavexc::verif_rules::find_cycles`).
use pxh::{Json, json};

fn shape(req: &Json) -> Json {
    let (Some(p), Some(q)) = (req["ps"].as_str(), req["qs"].as_str()) else {
        return json!({"r": "bad-op"});
    };
    let mut router = matchit::Router::new();
    if router.insert(p.to_owned(), ()).is_err() {
        return json!({"r": "invalid"});
    }
    let conflict = match router.insert(q.to_owned(), ()) {
        Ok(()) => false,
        Err(matchit::InsertError::Conflict { with }) if with == q => false,
        Err(_) => true,
    };
    json!({"r": "ok", "conflict": conflict})
}

fn cycles(req: &Json) -> Json {
    let Some(adj) = req["adj"].as_array() else {
        return json!({"r": "bad-op"});
    };
    let n = adj.len();
    let mut edges = Vec::new();
    for (v, ws) in adj.iter().enumerate() {
        let Some(ws) = ws.as_array() else {
            return json!({"r": "bad-op"});
        };
        // petgraph lists the most recently added edge first: insert in reverse to get list order
        for w in ws.iter().rev() {
            let Some(w) = w.as_u64() else {
                return json!({"r": "bad-op"});
            };
            if (w as usize) < n {
                edges.push((v, w as usize));
            }
        }
    }
    let cycles = pavexc::verif_rules::find_cycles(n, &edges);
    json!({"r": "ok", "cyclic": !cycles.is_empty(), "cycles": cycles})
}

fn main() {
    match pxh::which().as_str() {
        "rules" => pxh::serve(|req| match req["op"].as_str() {
            Some("shape") => shape(req),
            Some("cycles") => cycles(req),
            _ => json!({"r": "bad-op"}),
        }),
        other => {
            eprintln!("rules: unknown model {other:?}");
            std::process::exit(2)
        }
    }
}
