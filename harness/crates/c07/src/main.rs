//! C07 in-process driver: the real `matchit` router (the version /repo's Cargo.lock resolves for
//! `pavex`), and the real `pavex::router::{MethodAllowList, AllowedMethods, default_fallback}`.
//!
//! Protocol (`c07 router`), one JSON object per line:
//!   {"op":"mi","routes":[pattern…],"paths":[path…],"tolerate":bool}
//!       insert the patterns in order with values 0,1,… up to the first failure (pavexc's verdict is
//!       decided there; with "tolerate", a conflict of a pattern with itself is skipped as in
//!       `detect_path_conflicts`), then — if no insert failed — look every path up.
//!       -> {"r":"mi","ins":[…],"at":[idx|null…]|null}
//!       an element of "ins" is "ok" | {"conflict":{"self":bool}} | "invalidParam" |
//!       "invalidParamSegment" | "invalidCatchAll" | "panic"; "self" = the reported `with` equals the
//!       inserted pattern (the case `detect_path_conflicts` tolerates).
//!   {"op":"allow","methods":[m…]}
//!       `MethodAllowList::from_iter(methods)` -> `AllowedMethods` -> `default_fallback`
//!       -> {"r":"allow","status":u16,"allow":string|null}
use pxh::{Json, json};

fn strs(v: Option<&Json>) -> Option<Vec<String>> {
    v?.as_array()?.iter().map(|x| x.as_str().map(str::to_owned)).collect()
}

fn ins_kind(e: matchit::InsertError, pat: &str) -> Json {
    match e {
        matchit::InsertError::Conflict { with } => json!({"conflict": {"self": with == pat}}),
        matchit::InsertError::InvalidParam => json!("invalidParam"),
        matchit::InsertError::InvalidParamSegment => json!("invalidParamSegment"),
        matchit::InsertError::InvalidCatchAll => json!("invalidCatchAll"),
        other => json!({"other": format!("{other:?}")}),
    }
}

fn mi(req: &Json) -> Json {
    let (Some(routes), Some(paths)) = (strs(req.get("routes")), strs(req.get("paths"))) else {
        return json!({"r": "bad-op"});
    };
    let tolerate = req.get("tolerate").and_then(|t| t.as_bool()).unwrap_or(false);
    let mut router = matchit::Router::new();
    let mut ins = Vec::new();
    let mut all_ok = true;
    for (i, p) in routes.iter().enumerate() {
        let r = std::panic::catch_unwind(std::panic::AssertUnwindSafe(|| router.insert(p.clone(), i)));
        match r {
            Ok(Ok(())) => ins.push(json!("ok")),
            // `detect_path_conflicts`: "You can register the same path multiple times"
            Ok(Err(matchit::InsertError::Conflict { with })) if tolerate && with == *p => {
                ins.push(json!({"conflict": {"self": true}}));
            }
            Ok(Err(e)) => {
                ins.push(ins_kind(e, p));
                all_ok = false;
                break;
            }
            Err(_) => {
                ins.push(json!("panic"));
                all_ok = false;
                break;
            }
        }
    }
    let at = if all_ok {
        Json::Array(
            paths
                .iter()
                .map(|p| match router.at(p) {
                    Ok(m) => json!(*m.value),
                    Err(_) => Json::Null,
                })
                .collect(),
        )
    } else {
        Json::Null
    };
    json!({"r": "mi", "ins": ins, "at": at})
}

async fn allow(req: &Json) -> Json {
    let Some(methods) = strs(req.get("methods")) else { return json!({"r": "bad-op"}) };
    let mut ms = Vec::new();
    for m in &methods {
        match pavex::http::Method::try_from(m.as_str()) {
            Ok(m) => ms.push(m),
            Err(_) => return json!({"r": "allow", "invalid_method": m}),
        }
    }
    let list = pavex::router::MethodAllowList::from_iter(ms);
    let allowed: pavex::router::AllowedMethods = list.into();
    let resp = pavex::router::default_fallback(&allowed).await;
    let allow = resp
        .headers()
        .get(pavex::http::header::ALLOW)
        .map(|v| String::from_utf8_lossy(v.as_bytes()).to_string());
    json!({"r": "allow", "status": resp.status().as_u16(), "allow": allow})
}

async fn handle(req: Json) -> Json {
    match req.get("op").and_then(|o| o.as_str()) {
        Some("mi") => mi(&req),
        Some("allow") => allow(&req).await,
        _ => json!({"r": "bad-op"}),
    }
}

fn main() {
    match pxh::which().as_str() {
        "router" => pxh::serve_async(handle),
        other => {
            eprintln!("c07: unknown model {other:?}");
            std::process::exit(2)
        }
    }
}
