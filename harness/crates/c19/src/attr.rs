//! Attribute strings through the real `pavexc_attr_parser::parse`.
use pavexc_attr_parser::AnnotationProperties;
use pxh::{Json, json};

pub fn handle(req: &Json) -> Json {
    let Some(attrs) = req.get("attrs").and_then(|a| a.as_array()) else { return json!({"r": "bad-op"}) };
    let Some(attrs) = attrs.iter().map(|a| a.as_str()).collect::<Option<Vec<&str>>>() else {
        return json!({"r": "bad-op"});
    };
    match pavexc_attr_parser::parse(attrs.into_iter()) {
        Ok(None) => json!({"r": "none"}),
        Ok(Some(p)) => json!({"r": "some", "props": props(&p)}),
        Err(e) => {
            let kind = match e {
                pavexc_attr_parser::errors::AttributeParserError::UnknownPavexAttribute(_) => "unknown-attribute",
                pavexc_attr_parser::errors::AttributeParserError::InvalidAttributeParams(_) => "invalid-params",
                pavexc_attr_parser::errors::AttributeParserError::MultiplePavexAttributes => "multiple",
            };
            json!({"r": "err", "kind": kind})
        }
    }
}

fn props(p: &AnnotationProperties) -> Json {
    // serde's externally tagged representation: {"Constructor": {...}} / "Methods"
    serde_json::to_value(p).unwrap()
}
