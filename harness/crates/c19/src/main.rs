//! C19 in-process driver.
//!
//! `bp`:   a blueprint-building program, run against the real public `Blueprint` API, persisted with
//!         `Blueprint::persist` and read back with `ron::de::from_reader` into
//!         `pavex_bp_schema::Blueprint` exactly as `pavexc_cli::generate` does.
//! `attr`: attribute strings through the real `pavexc_attr_parser::parse`.
mod attr;
mod sites;

use pavex::Blueprint;
use pavex::blueprint::reflection::{AnnotationCoordinates, CreatedAt, Sources};
use pavex::blueprint::*;
use pxh::{Json, json};
use std::borrow::Cow;
use std::path::PathBuf;

fn leak(s: &str) -> &'static str {
    Box::leak(s.to_owned().into_boxed_str())
}

fn coords(v: &Json) -> Option<AnnotationCoordinates> {
    let a = v.as_array()?;
    if a.len() != 4 {
        return None;
    }
    Some(AnnotationCoordinates {
        id: leak(a[0].as_str()?),
        created_at: CreatedAt { package_name: leak(a[1].as_str()?), package_version: leak(a[2].as_str()?) },
        macro_name: leak(a[3].as_str()?),
    })
}

fn site(v: &Json) -> Option<u8> {
    v.as_u64().map(|s| s.min(2) as u8)
}

fn import(v: &Json) -> Option<Import> {
    let sources = match v.get("sources")? {
        Json::Null => Sources::All,
        Json::Array(a) => Sources::Some(
            a.iter().map(|s| s.as_str().map(|s| Cow::Owned(s.to_owned()))).collect::<Option<Vec<_>>>()?,
        ),
        _ => return None,
    };
    Some(Import {
        sources,
        relative_to: leak(v.get("rel")?.as_str()?),
        created_at: CreatedAt { package_name: leak(v.get("pkg")?.as_str()?), package_version: leak(v.get("ver")?.as_str()?) },
    })
}

fn lifecycle(s: &str) -> Option<Lifecycle> {
    Some(match s {
        "singleton" => Lifecycle::Singleton,
        "request_scoped" => Lifecycle::RequestScoped,
        "transient" => Lifecycle::Transient,
        _ => return None,
    })
}

fn cloning(s: &str) -> Option<CloningPolicy> {
    Some(match s {
        "never_clone" => CloningPolicy::NeverClone,
        "clone_if_necessary" => CloningPolicy::CloneIfNecessary,
        _ => return None,
    })
}

fn lint(s: &str) -> Option<Lint> {
    Some(match s {
        "unused" => Lint::Unused,
        "error_fallback" => Lint::ErrorFallback,
        _ => return None,
    })
}

fn eh(v: &Json) -> Option<ErrorHandler> {
    Some(ErrorHandler { coordinates: coords(v)? })
}

/// `[[coords, site], ...]` applied through `$f` (one of the `*_eh` call-site wrappers).
macro_rules! apply_ehs {
    ($reg:expr, $op:expr, $f:path) => {{
        let mut r = $reg;
        if let Some(ehs) = $op.get("ehs").and_then(|e| e.as_array()) {
            for e in ehs {
                let e = e.as_array()?;
                r = $f(r, eh(e.first()?)?, site(e.get(1)?)?);
            }
        }
        let _ = r;
    }};
}

fn run_ops(bp: &mut Blueprint, ops: &[Json]) -> Option<()> {
    for op in ops {
        let k = op.get("k")?.as_str()?;
        let s = site(op.get("s")?)?;
        match k {
            "constructor" => {
                let mut r = sites::constructor(bp, Constructor { coordinates: coords(op.get("c")?)? }, s);
                for m in op.get("mods").and_then(|m| m.as_array()).map(|m| m.as_slice()).unwrap_or(&[]) {
                    let m = m.as_array()?;
                    let arg = |i: usize| m.get(i).and_then(|a| a.as_str());
                    r = match m.first()?.as_str()? {
                        "lifecycle" => r.lifecycle(lifecycle(arg(1)?)?),
                        "cloning" => r.cloning(cloning(arg(1)?)?),
                        "clone_if_necessary" => r.clone_if_necessary(),
                        "never_clone" => r.never_clone(),
                        "allow" => r.allow(lint(arg(1)?)?),
                        "warn" => r.warn(lint(arg(1)?)?),
                        "deny" => r.deny(lint(arg(1)?)?),
                        "error_handler" => sites::ctor_eh(r, eh(m.get(1)?)?, site(m.get(2)?)?),
                        _ => return None,
                    };
                }
                let _ = r;
            }
            "route" => apply_ehs!(sites::route(bp, Route { coordinates: coords(op.get("c")?)? }, s), op, sites::route_eh),
            "fallback" => {
                apply_ehs!(sites::fallback(bp, Fallback { coordinates: coords(op.get("c")?)? }, s), op, sites::fallback_eh)
            }
            "wrap" => {
                apply_ehs!(sites::wrap(bp, WrappingMiddleware { coordinates: coords(op.get("c")?)? }, s), op, sites::wrap_eh)
            }
            "pre" => {
                apply_ehs!(sites::pre(bp, PreProcessingMiddleware { coordinates: coords(op.get("c")?)? }, s), op, sites::pre_eh)
            }
            "post" => {
                apply_ehs!(sites::post(bp, PostProcessingMiddleware { coordinates: coords(op.get("c")?)? }, s), op, sites::post_eh)
            }
            "error_observer" => sites::error_observer(bp, ErrorObserver { coordinates: coords(op.get("c")?)? }, s),
            "error_handler" => sites::error_handler(bp, ErrorHandler { coordinates: coords(op.get("c")?)? }, s),
            "prebuilt" => {
                let mut r = sites::prebuilt(bp, Prebuilt { coordinates: coords(op.get("c")?)? }, s);
                for m in op.get("mods").and_then(|m| m.as_array()).map(|m| m.as_slice()).unwrap_or(&[]) {
                    let m = m.as_array()?;
                    r = match m.first()?.as_str()? {
                        "cloning" => r.cloning(cloning(m.get(1)?.as_str()?)?),
                        "clone_if_necessary" => r.clone_if_necessary(),
                        "never_clone" => r.never_clone(),
                        _ => return None, // not expressible on `RegisteredPrebuilt`
                    };
                }
                let _ = r;
            }
            "config" => {
                let mut r = sites::config(bp, Config { coordinates: coords(op.get("c")?)? }, s);
                for m in op.get("mods").and_then(|m| m.as_array()).map(|m| m.as_slice()).unwrap_or(&[]) {
                    let m = m.as_array()?;
                    r = match m.first()?.as_str()? {
                        "cloning" => r.cloning(cloning(m.get(1)?.as_str()?)?),
                        "clone_if_necessary" => r.clone_if_necessary(),
                        "never_clone" => r.never_clone(),
                        "default_if_missing" => r.default_if_missing(),
                        "required" => r.required(),
                        "include_if_unused" => r.include_if_unused(),
                        _ => return None,
                    };
                }
                let _ = r;
            }
            "import" => sites::import(bp, import(op.get("i")?)?, s),
            "routes" => sites::routes(bp, import(op.get("i")?)?, s),
            "nest" | "nest_routes" => {
                let rmods = op.get("rmods").and_then(|m| m.as_array()).map(|m| m.as_slice()).unwrap_or(&[]);
                enum Tail {
                    Bp(Blueprint),
                    Routes(Import),
                }
                let tail = if k == "nest" {
                    Tail::Bp(build(op.get("bp")?)?)
                } else {
                    Tail::Routes(import(op.get("i")?)?)
                };
                if rmods.is_empty() {
                    match tail {
                        Tail::Bp(child) => sites::nest(bp, child, s),
                        Tail::Routes(_) => return None, // `routes` only exists on `RoutingModifiers`
                    }
                } else {
                    let first = rmods[0].as_array()?;
                    let mut rm = match first.first()?.as_str()? {
                        "prefix" => sites::prefix(bp, first.get(1)?.as_str()?, site(first.get(2)?)?),
                        "domain" => sites::domain(bp, first.get(1)?.as_str()?, site(first.get(2)?)?),
                        _ => return None,
                    };
                    for m in &rmods[1..] {
                        let m = m.as_array()?;
                        rm = match m.first()?.as_str()? {
                            "prefix" => sites::rm_prefix(rm, m.get(1)?.as_str()?, site(m.get(2)?)?),
                            "domain" => sites::rm_domain(rm, m.get(1)?.as_str()?, site(m.get(2)?)?),
                            _ => return None,
                        };
                    }
                    match tail {
                        Tail::Bp(child) => sites::rm_nest(rm, child, s),
                        Tail::Routes(i) => sites::rm_routes(rm, i, s),
                    }
                }
            }
            _ => return None,
        }
    }
    Some(())
}

fn build(v: &Json) -> Option<Blueprint> {
    let mut bp = sites::new(site(v.get("s")?)?);
    run_ops(&mut bp, v.get("ops")?.as_array()?)?;
    Some(bp)
}

/// Replace every `Location` object by `{"loc": n}`, `n` = first-seen index in a traversal that
/// visits object keys in sorted order.
fn renumber(v: &mut Json, seen: &mut Vec<String>) {
    match v {
        Json::Object(m) => {
            if m.len() == 3 && m.contains_key("file") && m.contains_key("line") && m.contains_key("column") {
                let key = format!("{}:{}:{}", m["file"], m["line"], m["column"]);
                let idx = match seen.iter().position(|k| *k == key) {
                    Some(i) => i,
                    None => {
                        seen.push(key);
                        seen.len() - 1
                    }
                };
                *v = json!({"loc": idx});
                return;
            }
            let mut keys: Vec<String> = m.keys().cloned().collect();
            keys.sort();
            for k in keys {
                renumber(m.get_mut(&k).unwrap(), seen);
            }
        }
        Json::Array(a) => {
            for x in a {
                renumber(x, seen);
            }
        }
        _ => {}
    }
}

fn scratch() -> PathBuf {
    let base = std::env::var("VERIF_SCRATCH").unwrap_or_else(|_| "/var/tmp".into());
    let d = PathBuf::from(base).join(format!("pxv-c19-{}", std::process::id()));
    std::fs::create_dir_all(&d).unwrap();
    d
}

fn handle_bp(req: &Json) -> Json {
    let Some(bp) = req.get("bp").and_then(build) else { return json!({"r": "bad-op"}) };
    let dir = scratch();
    let path = dir.join("bp.ron");
    if let Err(e) = bp.persist(&path) {
        return json!({"r": "persist-err", "msg": e.to_string()});
    }
    // As `pavexc_cli::generate` does.
    let loaded: Result<pavex_bp_schema::Blueprint, _> = {
        let file = std::fs::OpenOptions::new().read(true).open(&path).unwrap();
        ron::de::from_reader(&file)
    };
    let schema = match loaded {
        Ok(s) => s,
        Err(e) => return json!({"r": "load-err", "msg": e.to_string()}),
    };
    // Second trip through the public API: load, persist again, must give the same bytes.
    let bytes1 = std::fs::read(&path).unwrap();
    let path2 = dir.join("bp2.ron");
    let stable = match Blueprint::load(&path) {
        Ok(again) => again.persist(&path2).is_ok() && std::fs::read(&path2).map(|b| b == bytes1).unwrap_or(false),
        Err(_) => false,
    };
    // The file already exists with other content of the SAME length (what an edit such as `/v1` -> `/v2` leaves
    // behind): persisting must replace it. Tampered at the start, in the middle and at the very end.
    let mut overwrites_stale = true;
    for pos in [0usize, bytes1.len() / 2, bytes1.len().saturating_sub(1)] {
        if bytes1.is_empty() {
            break;
        }
        let mut stale = bytes1.clone();
        stale[pos] = if stale[pos] == b'x' { b'y' } else { b'x' };
        std::fs::write(&path, &stale).unwrap();
        let ok = bp.persist(&path).is_ok() && std::fs::read(&path).map(|b| b == bytes1).unwrap_or(false);
        overwrites_stale &= ok;
    }
    let _ = std::fs::remove_file(&path);
    let _ = std::fs::remove_file(&path2);
    let mut v = serde_json::to_value(&schema).unwrap();
    let mut seen = Vec::new();
    renumber(&mut v, &mut seen);
    json!({"r": "ok", "schema": v, "stable": stable, "overwrites_stale": overwrites_stale})
}

fn handle(req: &Json) -> Json {
    match req.get("op").and_then(|o| o.as_str()) {
        Some("bp") => handle_bp(req),
        Some("attr") => attr::handle(req),
        _ => json!({"r": "bad-op"}),
    }
}

fn main() {
    match pxh::which().as_str() {
        "bp" => {
            pxh::serve(handle);
            let _ = std::fs::remove_dir_all(scratch());
        }
        other => {
            eprintln!("c19: unknown model {other:?}");
            std::process::exit(2)
        }
    }
}
