//! C14: `BufferedBody::_extract_with_limit` (through the cfg-gated hook) on arbitrary frame lists.
use pxh::Json;
use bytes::Bytes;
use http_body::{Body, Frame};
use pavex::request::RequestHead;
use pavex::request::body::BufferedBody;
use pavex::request::body::errors::ExtractBufferedBodyError;
use serde_json::json;
use std::collections::VecDeque;
use std::pin::Pin;
use std::task::{Context, Poll};
use ubyte::ByteUnit;

enum F {
    Data(Vec<u8>),
    Trailers,
    Err,
}

struct Frames(VecDeque<F>);

#[derive(Debug)]
struct TransportError;
impl std::fmt::Display for TransportError {
    fn fmt(&self, f: &mut std::fmt::Formatter<'_>) -> std::fmt::Result {
        write!(f, "transport error")
    }
}
impl std::error::Error for TransportError {}

impl Body for Frames {
    type Data = Bytes;
    type Error = TransportError;
    fn poll_frame(
        mut self: Pin<&mut Self>,
        _cx: &mut Context<'_>,
    ) -> Poll<Option<Result<Frame<Bytes>, TransportError>>> {
        Poll::Ready(match self.0.pop_front() {
            None => None,
            Some(F::Data(d)) => Some(Ok(Frame::data(Bytes::from(d)))),
            Some(F::Trailers) => Some(Ok(Frame::trailers(http::HeaderMap::new()))),
            Some(F::Err) => Some(Err(TransportError)),
        })
    }
}

fn bytes_of(v: &Json) -> Option<Vec<u8>> {
    v.as_array()?
        .iter()
        .map(|x| x.as_u64().and_then(|n| u8::try_from(n).ok()))
        .collect()
}

// ---- the PUBLIC extractor, behind a real server on loopback --------------------------------------------------------
//
// `BufferedBody::extract` takes a `RawIncomingBody`, which only a real connection can produce: a `pavex::server::Server`
// is started once per process; its handler calls `BufferedBody::extract(head, body, BodySizeLimit::Enabled { x-limit })`
// and answers with the JSON the in-process operation would answer. Clients: HTTP/1.1 (chunked / Content-Length) over a
// raw socket, HTTP/2 (prior knowledge) with and without a Content-Length header.
mod loopback {
    use super::*;
    use http_body_util::BodyExt;
    use hyper::body::Incoming;
    use hyper_util::rt::{TokioExecutor, TokioIo};
    use pavex::Response;
    use pavex::connection::ConnectionInfo;
    use pavex::request::body::{BodySizeLimit, RawIncomingBody};
    use pavex::server::{IncomingStream, Server, ServerConfiguration};
    use std::net::SocketAddr;
    use tokio::io::{AsyncReadExt, AsyncWriteExt};
    use tokio::sync::OnceCell;

    async fn handler(req: http::Request<Incoming>, _c: Option<ConnectionInfo>, _s: ()) -> Response {
        let (parts, body) = req.into_parts();
        let limit: u64 = parts.headers.get("x-limit").and_then(|v| v.to_str().ok()).and_then(|v| v.parse().ok()).unwrap_or(0);
        let head = RequestHead::from(parts);
        let limit = BodySizeLimit::Enabled { max_size: ByteUnit::Byte(limit) };
        let out = match BufferedBody::extract(&head, RawIncomingBody::from(body), limit).await {
            Ok(b) => json!({"r":"ok", "bytes": b.bytes.to_vec()}),
            Err(ExtractBufferedBodyError::SizeLimitExceeded(e)) => json!({"r":"size-limit", "cl": e.content_length}),
            Err(ExtractBufferedBodyError::UnexpectedBufferError(_)) => json!({"r":"buffer-err"}),
            Err(_) => json!({"r":"other-err"}),
        };
        Response::ok().set_typed_body(out.to_string())
    }

    static ADDR: OnceCell<SocketAddr> = OnceCell::const_new();

    async fn addr() -> SocketAddr {
        *ADDR
            .get_or_init(|| async {
                let incoming = IncomingStream::bind("127.0.0.1:0".parse().unwrap()).await.unwrap();
                let addr = incoming.local_addr().unwrap();
                let handle = Server::new()
                    .set_config(ServerConfiguration::new().set_n_workers(1))
                    .listen(incoming)
                    .serve(handler, ());
                std::mem::forget(handle);
                addr
            })
            .await
    }

    struct Data(VecDeque<Bytes>);
    impl Body for Data {
        type Data = Bytes;
        type Error = std::convert::Infallible;
        fn poll_frame(mut self: Pin<&mut Self>, _cx: &mut Context<'_>) -> Poll<Option<Result<Frame<Bytes>, Self::Error>>> {
            Poll::Ready(self.0.pop_front().map(|b| Ok(Frame::data(b))))
        }
    }

    async fn h1(addr: SocketAddr, raw: Vec<u8>) -> Option<String> {
        let mut s = tokio::net::TcpStream::connect(addr).await.ok()?;
        s.write_all(&raw).await.ok()?;
        let mut out = Vec::new();
        let _ = s.read_to_end(&mut out).await;
        let text = String::from_utf8_lossy(&out).into_owned();
        text.split("\r\n\r\n").nth(1).map(|s| s.to_string())
    }

    pub async fn run(proto: &str, limit: u64, frames: Vec<Vec<u8>>) -> Json {
        let addr = addr().await;
        let total: usize = frames.iter().map(|f| f.len()).sum();
        let body = match proto {
            "h1-chunked" => {
                let mut raw = format!("POST / HTTP/1.1\r\nhost: x\r\nconnection: close\r\nx-limit: {limit}\r\ntransfer-encoding: chunked\r\n\r\n").into_bytes();
                for c in frames.iter().filter(|c| !c.is_empty()) {
                    raw.extend_from_slice(format!("{:x}\r\n", c.len()).as_bytes());
                    raw.extend_from_slice(c);
                    raw.extend_from_slice(b"\r\n");
                }
                raw.extend_from_slice(b"0\r\n\r\n");
                h1(addr, raw).await
            }
            "h1-cl" => {
                let mut raw = format!("POST / HTTP/1.1\r\nhost: x\r\nconnection: close\r\nx-limit: {limit}\r\ncontent-length: {total}\r\n\r\n").into_bytes();
                for c in &frames {
                    raw.extend_from_slice(c);
                }
                h1(addr, raw).await
            }
            "h2-cl" | "h2-nocl" => {
                let Ok(stream) = tokio::net::TcpStream::connect(addr).await else { return json!({"r":"client-err"}) };
                let Ok((mut sender, conn)) = hyper::client::conn::http2::handshake(TokioExecutor::new(), TokioIo::new(stream)).await else {
                    return json!({"r":"client-err"});
                };
                tokio::spawn(conn);
                let mut rb = http::Request::builder().method("POST").uri(format!("http://{addr}/")).version(http::Version::HTTP_2).header("x-limit", limit.to_string());
                if proto == "h2-cl" {
                    rb = rb.header("content-length", total.to_string());
                }
                let req = rb.body(Data(frames.into_iter().map(Bytes::from).collect())).unwrap();
                match sender.send_request(req).await {
                    Ok(resp) => match resp.into_body().collect().await {
                        Ok(b) => Some(String::from_utf8_lossy(&b.to_bytes()).into_owned()),
                        Err(_) => None,
                    },
                    Err(_) => None,
                }
            }
            _ => return json!({"r":"bad-op"}),
        };
        match body.and_then(|b| serde_json::from_str::<Json>(&b).ok()) {
            Some(j) => j,
            None => json!({"r":"client-err"}),
        }
    }
}

pub async fn handle(req: &Json) -> Json {
    if let Some(proto) = req.get("proto").and_then(|v| v.as_str()) {
        let Some(limit) = req.get("limit").and_then(|v| v.as_u64()) else { return json!({"r":"bad-op"}) };
        let Some(frames) = req.get("frames").and_then(|v| v.as_array()) else { return json!({"r":"bad-op"}) };
        let Some(frames) = frames.iter().map(bytes_of).collect::<Option<Vec<_>>>() else { return json!({"r":"bad-op"}) };
        return loopback::run(proto, limit, frames).await;
    }
    let mut head = RequestHead {
        method: http::Method::POST,
        target: "/".parse().unwrap(),
        version: http::Version::HTTP_11,
        headers: http::HeaderMap::new(),
    };
    match req.get("hdr") {
        None | Some(Json::Null) => {}
        Some(v) => {
            let Some(b) = bytes_of(v) else { return json!({"r":"bad-op"}) };
            match http::HeaderValue::from_bytes(&b) {
                Ok(hv) => {
                    head.headers.insert(http::header::CONTENT_LENGTH, hv);
                }
                Err(_) => return json!({"r":"bad-op", "why": "not a header value"}),
            }
        }
    }
    let Some(limit) = req.get("limit").and_then(|v| v.as_u64()) else { return json!({"r":"bad-op"}) };
    let Some(frames) = req.get("frames").and_then(|v| v.as_array()) else { return json!({"r":"bad-op"}) };
    let mut fs = VecDeque::new();
    for f in frames {
        match f {
            Json::String(s) if s == "trailers" => fs.push_back(F::Trailers),
            Json::String(s) if s == "err" => fs.push_back(F::Err),
            other => match bytes_of(other) {
                Some(b) => fs.push_back(F::Data(b)),
                None => return json!({"r":"bad-op"}),
            },
        }
    }
    match BufferedBody::verif_extract_with_limit(&head, Frames(fs), ByteUnit::Byte(limit)).await {
        Ok(b) => json!({"r":"ok", "bytes": b.bytes.to_vec()}),
        Err(ExtractBufferedBodyError::SizeLimitExceeded(e)) => {
            json!({"r":"size-limit", "cl": e.content_length})
        }
        Err(ExtractBufferedBodyError::UnexpectedBufferError(_)) => json!({"r":"buffer-err"}),
        Err(_) => json!({"r":"other-err"}),
    }
}
