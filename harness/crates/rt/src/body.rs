//! C14: `BufferedBody::_extract_with_limit` (through the cfg-gated hook) on arbitrary frame lists.
use pxh::Json;
use bytes::Bytes;
use http_body::{Body, Frame};
use pavex::request::RequestHead;
use pavex::request::body::BufferedBody;
use pavex::request::body::errors::ExtractBufferedBodyError;
use serde_json::json;
use std::collections::VecDeque;
use std::pin::Pin;
use std::task::{Context, Poll};
use ubyte::ByteUnit;

enum F {
    Data(Vec<u8>),
    Trailers,
    Err,
}

struct Frames(VecDeque<F>);

#[derive(Debug)]
struct TransportError;
impl std::fmt::Display for TransportError {
    fn fmt(&self, f: &mut std::fmt::Formatter<'_>) -> std::fmt::Result {
        write!(f, "transport error")
    }
}
impl std::error::Error for TransportError {}

impl Body for Frames {
    type Data = Bytes;
    type Error = TransportError;
    fn poll_frame(
        mut self: Pin<&mut Self>,
        _cx: &mut Context<'_>,
    ) -> Poll<Option<Result<Frame<Bytes>, TransportError>>> {
        Poll::Ready(match self.0.pop_front() {
            None => None,
            Some(F::Data(d)) => Some(Ok(Frame::data(Bytes::from(d)))),
            Some(F::Trailers) => Some(Ok(Frame::trailers(http::HeaderMap::new()))),
            Some(F::Err) => Some(Err(TransportError)),
        })
    }
}

fn bytes_of(v: &Json) -> Option<Vec<u8>> {
    v.as_array()?
        .iter()
        .map(|x| x.as_u64().and_then(|n| u8::try_from(n).ok()))
        .collect()
}

pub async fn handle(req: &Json) -> Json {
    let mut head = RequestHead {
        method: http::Method::POST,
        target: "/".parse().unwrap(),
        version: http::Version::HTTP_11,
        headers: http::HeaderMap::new(),
    };
    match req.get("hdr") {
        None | Some(Json::Null) => {}
        Some(v) => {
            let Some(b) = bytes_of(v) else { return json!({"r":"bad-op"}) };
            match http::HeaderValue::from_bytes(&b) {
                Ok(hv) => {
                    head.headers.insert(http::header::CONTENT_LENGTH, hv);
                }
                Err(_) => return json!({"r":"bad-op", "why": "not a header value"}),
            }
        }
    }
    let Some(limit) = req.get("limit").and_then(|v| v.as_u64()) else { return json!({"r":"bad-op"}) };
    let Some(frames) = req.get("frames").and_then(|v| v.as_array()) else { return json!({"r":"bad-op"}) };
    let mut fs = VecDeque::new();
    for f in frames {
        match f {
            Json::String(s) if s == "trailers" => fs.push_back(F::Trailers),
            Json::String(s) if s == "err" => fs.push_back(F::Err),
            other => match bytes_of(other) {
                Some(b) => fs.push_back(F::Data(b)),
                None => return json!({"r":"bad-op"}),
            },
        }
    }
    match BufferedBody::verif_extract_with_limit(&head, Frames(fs), ByteUnit::Byte(limit)).await {
        Ok(b) => json!({"r":"ok", "bytes": b.bytes.to_vec()}),
        Err(ExtractBufferedBodyError::SizeLimitExceeded(e)) => {
            json!({"r":"size-limit", "cl": e.content_length})
        }
        Err(ExtractBufferedBodyError::UnexpectedBufferError(_)) => json!({"r":"buffer-err"}),
        Err(_) => json!({"r":"other-err"}),
    }
}
