//! In-process driver for the runtime crate `pavex`: `rt <model>` selects the slice.
mod body;

fn main() {
    match pxh::which().as_str() {
        "body" => pxh::serve_async(|req| async move { body::handle(&req).await }),
        other => {
            eprintln!("rt: unknown model {other:?}");
            std::process::exit(2)
        }
    }
}
