//! The fixed family of target structs (twins of `shapeOf` in lean/Pxv/Driver/ReqData.lean).
use pxh::Json;
use serde_json::json;
use std::borrow::Cow;

/// Canonical JSON of an extracted value: integers as decimal strings, strings as byte arrays,
/// `char` as its scalar value, `None` as null, `Some(v)` as {"some": v}, sequences as {"seq": [..]}.
pub trait ToVal {
    fn to_val(&self) -> Json;
}
macro_rules! int_val {
    ($($t:ty),*) => { $( impl ToVal for $t { fn to_val(&self) -> Json { Json::String(self.to_string()) } } )* };
}
int_val!(u8, u16, u32, u64, u128, i8, i16, i32, i64, i128);
/// floats are compared by bit pattern
impl ToVal for f32 {
    fn to_val(&self) -> Json {
        json!({"fbits": self.to_bits().to_string()})
    }
}
impl ToVal for f64 {
    fn to_val(&self) -> Json {
        json!({"fbits": self.to_bits().to_string()})
    }
}
impl ToVal for bool {
    fn to_val(&self) -> Json {
        Json::Bool(*self)
    }
}
impl ToVal for char {
    fn to_val(&self) -> Json {
        json!(*self as u32)
    }
}
impl ToVal for String {
    fn to_val(&self) -> Json {
        json!(self.as_bytes())
    }
}
impl ToVal for &str {
    fn to_val(&self) -> Json {
        json!(self.as_bytes())
    }
}
impl ToVal for Cow<'_, str> {
    fn to_val(&self) -> Json {
        json!(self.as_bytes())
    }
}
impl<T: ToVal> ToVal for Option<T> {
    fn to_val(&self) -> Json {
        match self {
            None => Json::Null,
            Some(v) => json!({"some": v.to_val()}),
        }
    }
}
impl<T: ToVal> ToVal for Vec<T> {
    fn to_val(&self) -> Json {
        json!({"seq": self.iter().map(|v| v.to_val()).collect::<Vec<_>>()})
    }
}

macro_rules! shape {
    ($name:ident $(<$lt:lifetime>)? { $( $(#[$m:meta])* $f:ident : $t:ty ),* $(,)? }) => {
        #[derive(serde::Deserialize)]
        pub struct $name $(<$lt>)? { $( $(#[$m])* pub $f: $t ),* }
        impl $(<$lt>)? ToVal for $name $(<$lt>)? {
            fn to_val(&self) -> Json {
                let mut m = serde_json::Map::new();
                $( m.insert(stringify!($f).to_string(), self.$f.to_val()); )*
                Json::Object(m)
            }
        }
    };
}

shape!(PU { a: u8, b: u16, c: u32 });
shape!(PW { a: u64, b: u128, c: i128 });
shape!(PI { a: i8, b: i16, c: i32, d: i64 });
shape!(PM { id: u32, name: String, flag: bool, ch: char });
shape!(PS<'a> { a: String, #[serde(borrow)] b: Cow<'a, str>, c: &'a str });
shape!(PO { a: Option<u16>, b: Option<String>, c: i64 });
shape!(PV { a: Vec<u32>, b: u8 });
shape!(QM { id: u32, name: String, flag: bool, ch: char });
shape!(QI { a: u8, b: i8, c: u64, d: i64, e: u16, f: i32 });
shape!(QO { a: Option<u32>, b: Option<String>, c: Option<bool>, d: u8 });
shape!(QV { v: Vec<u32>, s: Vec<String>, #[serde(default)] d: Vec<i16> });
shape!(QO0 { a: Option<u32> });
shape!(PF32 { x: f32 });
shape!(PF64 { x: f64 });
shape!(QS<'a> { #[serde(borrow)] a: Cow<'a, str>, b: &'a str });

/// Runs `$body` with `$T` bound to the struct named by `$name`.
#[macro_export]
macro_rules! with_shape {
    ($name:expr, $T:ident => $body:expr, else $other:expr) => {
        match $name {
            "PU" => { type $T<'a> = $crate::shapes::PU; $body }
            "PW" => { type $T<'a> = $crate::shapes::PW; $body }
            "PI" => { type $T<'a> = $crate::shapes::PI; $body }
            "PM" => { type $T<'a> = $crate::shapes::PM; $body }
            "PS" => { type $T<'a> = $crate::shapes::PS<'a>; $body }
            "PO" => { type $T<'a> = $crate::shapes::PO; $body }
            "PV" => { type $T<'a> = $crate::shapes::PV; $body }
            "QM" => { type $T<'a> = $crate::shapes::QM; $body }
            "QI" => { type $T<'a> = $crate::shapes::QI; $body }
            "QO" => { type $T<'a> = $crate::shapes::QO; $body }
            "QV" => { type $T<'a> = $crate::shapes::QV; $body }
            "QS" => { type $T<'a> = $crate::shapes::QS<'a>; $body }
            "PF32" => { type $T<'a> = $crate::shapes::PF32; $body }
            "PF64" => { type $T<'a> = $crate::shapes::PF64; $body }
            _ => $other,
        }
    };
}
