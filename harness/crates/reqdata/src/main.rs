//! In-process driver for C15: the real extractors of `pavex::request` (path, query, URL-encoded
//! body) and the third-party primitives they are built on, behind the JSON-lines protocol of
//! lean/Pxv/Driver/ReqData.lean.
mod shapes;

use pavex::request::RequestHead;
use pavex::request::body::errors::{ExtractJsonBodyError, ExtractUrlEncodedBodyError};
use pavex::request::body::{BufferedBody, JsonBody, UrlEncodedBody};
use pavex::request::path::errors::{ErrorKind, ExtractPathParamsError};
use pavex::request::path::{PathParams, RawPathParams};
use pavex::request::query::QueryParams;
use pavex::request::query::errors::ExtractQueryParamsError;
use pxh::Json;
use serde_json::json;
use shapes::ToVal;

fn bytes_of(v: Option<&Json>) -> Option<Vec<u8>> {
    v?.as_array()?
        .iter()
        .map(|x| x.as_u64().and_then(|n| u8::try_from(n).ok()))
        .collect()
}

fn bad_op() -> Json {
    json!({"r": "bad-op"})
}

fn between<'a>(s: &'a str, open: &str, close: &str) -> Option<&'a str> {
    let i = s.find(open)? + open.len();
    let j = s[i..].find(close)? + i;
    Some(&s[i..j])
}

const PARSE_MSGS: &[&str] = &[
    "invalid digit found in string",
    "cannot parse integer from empty string",
    "number too large to fit in target type",
    "number too small to fit in target type",
    "provided string was not `true` or `false`",
    "invalid float literal",
    "cannot parse float from empty string",
];

/// Maps a serde error message to its kind. `detail`: 1 = key known (query), 0 = kind only (form).
fn classify_msg(full: &str, detail: u8) -> Json {
    // serde_path_to_error prefixes "<path>: " when the path is known.
    let ident_len = full
        .bytes()
        .take_while(|b| b.is_ascii_alphanumeric() || *b == b'_')
        .count();
    let (key, msg) = if ident_len > 0 && (full[ident_len..].starts_with(": ") || full[ident_len..].starts_with('[')) {
        let rest = &full[ident_len..];
        let at = rest.find(": ").map(|i| i + 2).unwrap_or(rest.len());
        (Some(&full[..ident_len]), &rest[at..])
    } else {
        (None, full)
    };
    if let Some(f) = msg.strip_prefix("missing field `") {
        return json!({"r": "err", "kind": "missing", "field": f.trim_end_matches('`')});
    }
    if let Some(f) = msg.strip_prefix("duplicate field `") {
        return json!({"r": "err", "kind": "duplicate", "field": f.trim_end_matches('`')});
    }
    if msg.starts_with("invalid type: string") && msg.ends_with("expected a borrowed string") {
        return json!({"r": "err", "kind": "borrowed"});
    }
    if msg == "unsupported value" {
        return json!({"r": "err", "kind": "multi"});
    }
    let is_parse = PARSE_MSGS.contains(&msg)
        || (msg.starts_with("invalid value: string") && msg.ends_with("expected a character"));
    if is_parse {
        return match (detail, key) {
            (1, Some(k)) => json!({"r": "err", "kind": "parse", "key": k}),
            (1, None) => json!({"r": "err", "kind": "parse", "key": Json::Null}),
            _ => json!({"r": "err", "kind": "parse"}),
        };
    }
    json!({"r": "err", "kind": "other", "msg": full})
}

fn path_err(e: ExtractPathParamsError) -> Json {
    match e {
        ExtractPathParamsError::InvalidUtf8InPathParameter(e) => {
            let s = e.to_string();
            json!({"r": "err", "kind": "invalid-utf8", "key": between(&s, "cannot be used as `", "`")})
        }
        ExtractPathParamsError::PathDeserializationError(e) => match e.kind() {
            ErrorKind::ParseErrorAtKey { key, value, expected_type } => {
                json!({"r": "err", "kind": "parse", "key": key, "value": value.as_bytes(), "ty": expected_type})
            }
            ErrorKind::ParseError { value, expected_type } => {
                json!({"r": "err", "kind": "parse-nokey", "value": value.as_bytes(), "ty": expected_type})
            }
            ErrorKind::UnsupportedType { .. } => json!({"r": "err", "kind": "unsupported"}),
            ErrorKind::Message(m) => classify_msg(m, 0),
            _ => json!({"r": "err", "kind": "other"}),
        },
        _ => json!({"r": "err", "kind": "other"}),
    }
}

/// `percent_encode` wants a `&'static AsciiSet`: sets are interned (few distinct ones per run).
fn ascii_set(mut members: Vec<u8>) -> &'static percent_encoding::AsciiSet {
    use std::cell::RefCell;
    use std::collections::HashMap;
    thread_local! {
        static SETS: RefCell<HashMap<Vec<u8>, &'static percent_encoding::AsciiSet>> = RefCell::new(HashMap::new());
    }
    members.sort();
    members.dedup();
    SETS.with(|m| {
        *m.borrow_mut().entry(members.clone()).or_insert_with(|| {
            let mut s = percent_encoding::AsciiSet::EMPTY;
            for c in &members {
                s = s.add(*c);
            }
            Box::leak(Box::new(s))
        })
    })
}

fn route_string(route: &[Json]) -> Option<String> {
    let mut s = String::new();
    for seg in route {
        s.push('/');
        if let Some(l) = seg.get("lit").and_then(|v| v.as_str()) {
            s.push_str(l);
        } else if let Some(p) = seg.get("param").and_then(|v| v.as_str()) {
            s.push_str(&format!("{{{p}}}"));
        } else if let Some(c) = seg.get("catch").and_then(|v| v.as_str()) {
            s.push_str(&format!("{{*{c}}}"));
        } else {
            return None;
        }
    }
    Some(s)
}

fn head(target: http::Uri, content_type: Option<http::HeaderValue>) -> RequestHead {
    let mut headers = http::HeaderMap::new();
    if let Some(ct) = content_type {
        headers.insert(http::header::CONTENT_TYPE, ct);
    }
    RequestHead { method: http::Method::POST, target, version: http::Version::HTTP_11, headers }
}

fn op_path(req: &Json) -> Json {
    let (Some(path), Some(shape), Some(route)) = (
        bytes_of(req.get("path")),
        req.get("shape").and_then(|v| v.as_str()),
        req.get("route").and_then(|v| v.as_array()),
    ) else {
        return bad_op();
    };
    let Some(route) = route_string(route) else { return bad_op() };
    // What the server hands to the router is `request_head.target.path()`.
    if path.first() != Some(&b'/') || path.contains(&b'?') || path.contains(&b'#') {
        return json!({"r": "bad-uri"});
    }
    let Ok(uri) = http::Uri::try_from(path.as_slice()) else { return json!({"r": "bad-uri"}) };
    let mut router = matchit::Router::new();
    if router.insert(route, ()).is_err() {
        return json!({"r": "bad-route"});
    }
    let Ok(m) = router.at(uri.path()) else { return json!({"r": "no-match"}) };
    let raw = RawPathParams::from(m.params);
    with_shape!(shape, T => match PathParams::<T<'_>>::extract(raw) {
        Ok(p) => json!({"r": "ok", "v": p.0.to_val()}),
        Err(e) => path_err(e),
    }, else bad_op())
}

fn op_query(req: &Json) -> Json {
    let (Some(q), Some(shape)) = (bytes_of(req.get("q")), req.get("shape").and_then(|v| v.as_str())) else {
        return bad_op();
    };
    if q.contains(&b'#') {
        return json!({"r": "bad-uri"});
    }
    let mut target = b"/?".to_vec();
    target.extend_from_slice(&q);
    let Ok(uri) = http::Uri::try_from(target.as_slice()) else { return json!({"r": "bad-uri"}) };
    let head = head(uri, None);
    with_shape!(shape, T => match QueryParams::<T<'_>>::extract(&head) {
        Ok(p) => json!({"r": "ok", "v": p.0.to_val()}),
        Err(ExtractQueryParamsError::QueryDeserializationError(e)) => classify_msg(&e.to_string(), 1),
        Err(_) => json!({"r": "err", "kind": "other"}),
    }, else bad_op())
}

/// A float field `x` (f32 / f64) of `PathParams` (route `/{x}`, request path `/<raw>`) or `QueryParams` (`?x=<raw>`),
/// through the real extractors; the answer is the bit pattern of the extracted value.
fn op_pfloat(req: &Json) -> Json {
    let (Some(raw), Some(bits), Some(w)) = (
        bytes_of(req.get("raw")),
        req.get("bits").and_then(|v| v.as_u64()),
        req.get("where").and_then(|v| v.as_str()),
    ) else {
        return bad_op();
    };
    let shape = if bits == 32 { "PF32" } else { "PF64" };
    let inner = if w == "path" {
        let mut path = b"/".to_vec();
        path.extend_from_slice(&raw);
        op_path(&json!({"path": path, "shape": shape, "route": [{"param": "x"}]}))
    } else {
        let mut q = b"x=".to_vec();
        q.extend_from_slice(&raw);
        op_query(&json!({"q": q, "shape": shape}))
    };
    match inner.get("r").and_then(|v| v.as_str()) {
        Some("ok") => json!({"r": "ok", "fbits": inner["v"]["x"]["fbits"]}),
        Some("err") => json!({"r": "err", "kind": inner["kind"]}),
        _ => inner,
    }
}

/// The only public way to a `BufferedBody` is the real buffering routine (cfg-gated forwarder to
/// `_extract_with_limit`, the C14 hook): the body is buffered exactly as the server would.
async fn buffered(head: &RequestHead, body: Vec<u8>) -> Option<BufferedBody> {
    let n = body.len() as u64;
    BufferedBody::verif_extract_with_limit(
        head,
        http_body_util::Full::new(bytes::Bytes::from(body)),
        ubyte::ByteUnit::Byte(n + 1),
    )
    .await
    .ok()
}

/// `"ct"`: absent / null = no `Content-Type` header, `[bytes]` = its value.
fn content_type(req: &Json) -> Result<Option<http::HeaderValue>, ()> {
    match req.get("ct") {
        None | Some(Json::Null) => Ok(None),
        Some(v) => {
            let b = bytes_of(Some(v)).ok_or(())?;
            http::HeaderValue::from_bytes(&b).map(Some).map_err(|_| ())
        }
    }
}

/// The `Content-Type` gate alone (the body is a well-formed empty document of the right kind).
async fn op_ct(req: &Json) -> Json {
    let Ok(ct) = content_type(req) else { return bad_op() };
    let head = head("/".parse().unwrap(), ct);
    match req.get("kind").and_then(|v| v.as_str()) {
        Some("json") => {
            let Some(body) = buffered(&head, b"{}".to_vec()).await else { return json!({"r": "buffer-failed"}) };
            match JsonBody::<shapes::QO0>::extract(&head, &body) {
                Ok(_) => json!({"r": "ct-ok"}),
                Err(ExtractJsonBodyError::MissingContentType(_)) => json!({"r": "err", "kind": "ct-missing"}),
                Err(ExtractJsonBodyError::ContentTypeMismatch(_)) => json!({"r": "err", "kind": "ct-mismatch"}),
                Err(_) => json!({"r": "err", "kind": "other"}),
            }
        }
        Some("form") => {
            let Some(body) = buffered(&head, Vec::new()).await else { return json!({"r": "buffer-failed"}) };
            match UrlEncodedBody::<shapes::QO0>::extract(&head, &body) {
                Ok(_) => json!({"r": "ct-ok"}),
                Err(ExtractUrlEncodedBodyError::MissingContentType(_)) => json!({"r": "err", "kind": "ct-missing"}),
                Err(ExtractUrlEncodedBodyError::ContentTypeMismatch(_)) => json!({"r": "err", "kind": "ct-mismatch"}),
                Err(_) => json!({"r": "err", "kind": "other"}),
            }
        }
        _ => bad_op(),
    }
}

/// `JsonBody::<T>::extract` (oracle-only: serde_json itself is not modelled in Lean).
async fn op_json(req: &Json) -> Json {
    let (Some(body), Some(shape)) = (bytes_of(req.get("body")), req.get("shape").and_then(|v| v.as_str())) else {
        return bad_op();
    };
    let Ok(ct) = content_type(req) else { return bad_op() };
    let head = head("/".parse().unwrap(), ct);
    let Some(body) = buffered(&head, body).await else { return json!({"r": "buffer-failed"}) };
    with_shape!(shape, T => match JsonBody::<T<'_>>::extract(&head, &body) {
        Ok(p) => json!({"r": "ok", "v": p.0.to_val()}),
        Err(ExtractJsonBodyError::MissingContentType(_)) => json!({"r": "err", "kind": "ct-missing"}),
        Err(ExtractJsonBodyError::ContentTypeMismatch(_)) => json!({"r": "err", "kind": "ct-mismatch"}),
        Err(ExtractJsonBodyError::DeserializationError(e)) => {
            // JsonDeserializationError { source: serde_path_to_error::Error<serde_json::Error> }
            let src = std::error::Error::source(&e).map(|s| s.to_string()).unwrap_or_default();
            let kind = if src.contains("EOF while parsing") {
                "json-eof"
            } else if src.contains("missing field") || src.contains("duplicate field") || src.contains("invalid type")
                || src.contains("invalid value") || src.contains("invalid length") || src.contains("unknown field") {
                "json-data"
            } else {
                "json-syntax"
            };
            json!({"r": "err", "kind": kind, "msg": src})
        }
        Err(_) => json!({"r": "err", "kind": "other"}),
    }, else bad_op())
}

async fn op_form(req: &Json) -> Json {
    let (Some(body), Some(shape)) = (bytes_of(req.get("body")), req.get("shape").and_then(|v| v.as_str())) else {
        return bad_op();
    };
    let Ok(ct) = content_type(req) else { return bad_op() };
    let head = head("/".parse().unwrap(), ct);
    let Some(body) = buffered(&head, body).await else { return json!({"r": "buffer-failed"}) };
    with_shape!(shape, T => match UrlEncodedBody::<T<'_>>::extract(&head, &body) {
        Ok(p) => json!({"r": "ok", "v": p.0.to_val()}),
        Err(ExtractUrlEncodedBodyError::DeserializationError(e)) => {
            let inner = std::error::Error::source(&e).map(|s| s.to_string()).unwrap_or_default();
            classify_msg(&inner, 0)
        }
        Err(ExtractUrlEncodedBodyError::MissingContentType(_)) => json!({"r": "err", "kind": "ct-missing"}),
        Err(ExtractUrlEncodedBodyError::ContentTypeMismatch(_)) => json!({"r": "err", "kind": "ct-mismatch"}),
        Err(_) => json!({"r": "err", "kind": "other"}),
    }, else bad_op())
}

fn op_scalar(req: &Json) -> Json {
    let (Some(b), Some(ty)) = (bytes_of(req.get("b")), req.get("ty").and_then(|v| v.as_str())) else {
        return bad_op();
    };
    let Ok(s) = std::str::from_utf8(&b) else { return bad_op() };
    macro_rules! p {
        ($t:ty) => {
            match s.parse::<$t>() {
                Ok(v) => json!({"r": "ok", "v": v.to_val()}),
                Err(_) => json!({"r": "err"}),
            }
        };
    }
    match ty {
        "u8" => p!(u8),
        "u16" => p!(u16),
        "u32" => p!(u32),
        "u64" => p!(u64),
        "u128" => p!(u128),
        "i8" => p!(i8),
        "i16" => p!(i16),
        "i32" => p!(i32),
        "i64" => p!(i64),
        "i128" => p!(i128),
        "bool" => p!(bool),
        "char" => p!(char),
        _ => bad_op(),
    }
}

async fn handle(req: Json) -> Json {
    let req = &req;
    let Some(op) = req.get("op").and_then(|v| v.as_str()) else { return bad_op() };
    match op {
        "pdec" => match bytes_of(req.get("b")) {
            Some(b) => json!({"r": "ok", "b": percent_encoding::percent_decode(&b).collect::<Vec<u8>>()}),
            None => bad_op(),
        },
        "penc" => match (bytes_of(req.get("b")), bytes_of(req.get("set"))) {
            (Some(b), Some(set)) if set.iter().all(|c| c.is_ascii()) => {
                let out = percent_encoding::percent_encode(&b, ascii_set(set)).to_string().into_bytes();
                json!({"r": "ok", "b": out})
            }
            _ => bad_op(),
        },
        "fser" => match bytes_of(req.get("b")) {
            Some(b) => json!({"r": "ok", "b": form_urlencoded::byte_serialize(&b).collect::<String>().into_bytes()}),
            None => bad_op(),
        },
        "fparse" => match bytes_of(req.get("b")) {
            Some(b) => {
                let pairs: Vec<Json> = form_urlencoded::parse(&b)
                    .map(|(k, v)| json!([k.as_bytes(), v.as_bytes()]))
                    .collect();
                json!({"r": "ok", "pairs": pairs})
            }
            None => bad_op(),
        },
        "utf8" => match bytes_of(req.get("b")) {
            Some(b) => json!({"r": "ok", "valid": std::str::from_utf8(&b).is_ok(),
                              "lossy": String::from_utf8_lossy(&b).as_bytes()}),
            None => bad_op(),
        },
        "scalar" => op_scalar(req),
        "pfloat" => op_pfloat(req),
        "path" => op_path(req),
        "query" => op_query(req),
        "form" => op_form(req).await,
        "ct" => op_ct(req).await,
        "json" => op_json(req).await,
        _ => bad_op(),
    }
}

fn main() {
    match pxh::which().as_str() {
        "reqdata" => pxh::serve_async(handle),
        other => {
            eprintln!("reqdata: unknown model {other:?}");
            std::process::exit(2)
        }
    }
}
